#!/usr/bin/env python3
"""Confirms a seeded change and runs the registered checks against it.
usage: seedtest.py <seed dir (contains patch.diff, demo.rs)> <name under /verif/seeded> <PROP> [more props...]

1. in a scratch worktree of /repo (under /tmp, removed afterwards): demo passes without the patch; with the
   patch the 62 unit tests pass and the demo fails;
2. applies the patch to /repo, runs `bin/check <PROP>` for each property, restores /repo (git checkout -- .);
3. writes /verif/seeded/<name>/{patch.diff, demo.rs, inputs, meta.json}."""
import os, sys, subprocess, json, shutil, re, time

def sh(cmd, cwd=None, timeout=1800):
    p = subprocess.run(cmd, shell=True, cwd=cwd, capture_output=True, text=True, timeout=timeout)
    return p.returncode, p.stdout + p.stderr

seed, name, props = sys.argv[1], sys.argv[2], sys.argv[3:]
wt = '/tmp/seedverify_%d' % os.getpid()
meta = {'seed_dir': seed, 'breaks': props[0] if props else None, 'ran': []}
notes = open(os.path.join(seed, 'NOTES.md')).read() if os.path.exists(os.path.join(seed, 'NOTES.md')) else ''
patch = os.path.join(seed, 'patch.diff')
try:
    rc, out = sh('git -C /repo worktree add -q --detach %s HEAD' % wt)
    assert rc == 0, out
    env = 'CARGO_NET_OFFLINE=true CARGO_TARGET_DIR=%s/target' % wt
    os.makedirs(wt + '/tests', exist_ok=True)
    shutil.copy(os.path.join(seed, 'demo.rs'), wt + '/tests/seed_demo.rs')
    # the demos refer to their inputs in various ways; make the usual ones available
    for f in os.listdir(seed):
        src = os.path.join(seed, f)
        if f.endswith('.pyxis'):
            shutil.copy(src, wt + '/tests/' + f)
        elif os.path.isdir(src):
            shutil.copytree(src, wt + '/tests/' + f, dirs_exist_ok=True)
    # demos that `include_str!` their inputs under the names they had in the author's worktree
    for inc in re.findall(r'include_str!\("([^"]+)"\)', open(os.path.join(seed, 'demo.rs')).read()):
        rest = re.sub(r'^seed_demo_[AB]_?', '', inc).lstrip('/')
        cands = [rest, 'input_' + rest, re.sub(r'^input_', '', rest), rest.replace('_', '/'), 'input.pyxis']
        if rest in ('', '.pyxis'):
            cands = ['input.pyxis']
        for cnd in cands:
            src = os.path.join(seed, cnd)
            if cnd and os.path.isfile(src):
                os.makedirs(os.path.dirname(os.path.join(wt, 'tests', inc)) or '.', exist_ok=True)
                shutil.copy(src, os.path.join(wt, 'tests', inc))
                break
        else:
            # e.g. seed_demo_B_input_gfx_device.pyxis -> gfx/device.pyxis or input/gfx_device.pyxis
            base = re.sub(r'^input_', '', rest)
            for root, _, files in os.walk(seed):
                for f in files:
                    rel = os.path.relpath(os.path.join(root, f), seed)
                    if rel.replace('/', '_') in (base, rest) or f == base:
                        shutil.copy(os.path.join(root, f), os.path.join(wt, 'tests', inc))
    # last resort: any include whose target is still missing gets the file of the same base name from the seed dir
    for inc in re.findall(r'include_str!\("([^"]+)"\)', open(os.path.join(seed, 'demo.rs')).read()):
        dst = os.path.join(wt, 'tests', inc)
        if not os.path.exists(dst):
            for root, _, files in os.walk(seed):
                if os.path.basename(inc) in files:
                    os.makedirs(os.path.dirname(dst), exist_ok=True)
                    shutil.copy(os.path.join(root, os.path.basename(inc)), dst)
                    break
    rc0, out0 = sh('%s cargo test --offline --test seed_demo 2>&1 | tail -15' % env, cwd=wt)
    demo_clean_ok = 'test result: ok' in out0
    rc, out = sh('git apply %s' % patch, cwd=wt)
    applies = rc == 0
    rc1, out1 = sh('%s cargo test --offline --lib 2>&1 | grep "test result"' % env, cwd=wt)
    unit_ok = '62 passed; 0 failed' in out1
    rc2, out2 = sh('%s cargo test --offline --test seed_demo 2>&1 | tail -15' % env, cwd=wt)
    demo_patched_fails = 'test result: FAILED' in out2 or 'error' in out2.lower() and 'test result: ok' not in out2
    meta.update({'patch_applies': applies, 'demo_passes_without_patch': demo_clean_ok, 'unit_tests_pass_with_patch': unit_ok,
                 'demo_fails_with_patch': demo_patched_fails})
    meta['ran'].append('scratch worktree %s: cargo test --test seed_demo (clean) -> %s; git apply; cargo test --lib -> %s; cargo test --test seed_demo -> %s'
                       % (wt, 'ok' if demo_clean_ok else 'NOT ok', out1.strip()[:80], 'FAILED' if demo_patched_fails else 'not failed'))
finally:
    sh('git -C /repo worktree remove --force %s' % wt)
    shutil.rmtree(wt, ignore_errors=True)
print(json.dumps({k: v for k, v in meta.items() if k != 'ran'}, indent=1))
confirmed = meta.get('patch_applies') and meta.get('demo_passes_without_patch') and meta.get('unit_tests_pass_with_patch') and meta.get('demo_fails_with_patch')
results = {}
if confirmed and props:
    rc, out = sh('git -C /repo status --porcelain')
    assert out.strip() == '', 'repo not clean: ' + out
    rc, out = sh('git -C /repo apply %s' % patch)
    assert rc == 0, out
    try:
        for p in props:
            t0 = time.time()
            rc, out = sh('bin/check %s 2>/dev/null | tail -8' % p, cwd='/verif', timeout=3600)
            viol = [l for l in out.split('\n') if l.startswith('VIOLATION')]
            results[p] = {'violation_lines': viol, 'tail': out[-600:], 's': round(time.time() - t0, 1)}
            print(p, 'DETECTED' if viol else 'missed', viol[:2])
            for v in viol[:1]:
                m = re.search(r'replay=(\S+)', v)
                if m and os.path.exists(m.group(1)):
                    results[p]['replay_head'] = open(m.group(1)).read()[:600]
    finally:
        sh('git -C /repo checkout -- .')
        rc, out = sh('git -C /repo status --porcelain')
        assert out.strip() == '', out
meta['checks'] = results
meta['needs_to_manifest'] = ''
m = re.search(r'(?is)(trigger|what the input needs|needs)[^\n]*\n(.{0,600})', notes)
meta['notes_excerpt'] = notes[:1500]
if confirmed:
    d = os.path.join('/verif/seeded', name)
    os.makedirs(d, exist_ok=True)
    for f in os.listdir(seed):
        src = os.path.join(seed, f)
        if os.path.isdir(src):
            shutil.copytree(src, os.path.join(d, f), dirs_exist_ok=True)
        else:
            shutil.copy(src, os.path.join(d, f))
    json.dump(meta, open(os.path.join(d, 'meta.json'), 'w'), indent=1)
else:
    print('NOT CONFIRMED; not kept')
