#!/bin/sh
# dev: run the O4 execution layer against one seeded change.  usage: seedexec.sh <seeded name> [n] [seed]
set -e
git -C /repo apply /verif/seeded/$1/patch.diff
(cd /verif/harness && cargo build --offline --quiet 2>&1 | tail -3) || true
python3 /verif/tools/tryexec.py ${2:-80} ${3:-1} 2>&1 | tail -3
git -C /repo checkout -- .
(cd /verif/harness && cargo build --offline --quiet 2>&1 | tail -3)
