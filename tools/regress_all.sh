#!/bin/sh
# dev: re-run the registered checks against every kept seeded change (applies each patch to /repo, restores it)
for d in /verif/seeded/*/; do
  n=$(basename $d); p=$(echo $n | cut -d- -f1)
  extra=$(python3 -c "
import json,sys
m=json.load(open('$d/meta.json'))
print(' '.join(k for k in m.get('checks',{}) if k!='$p'))")
  git -C /repo apply $d/patch.diff 2>/dev/null || { echo "$n PATCH-DOES-NOT-APPLY"; continue; }
  res=""
  for q in $p $extra; do
    out=$(/verif/bin/check $q --tier quick 2>/dev/null)
    v=$(echo "$out" | grep "^VIOLATION" | head -2 | sed 's/.*replay=.*\/C[0-9]*-[0-9]*-//; s/\.case//' | tr '\n' ',')
    res="$res $q:[$v]"
  done
  git -C /repo checkout -- .
  echo "$n $res"
done
(cd /verif/harness && cargo build --offline --quiet)
echo regress-done
