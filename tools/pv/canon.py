"""Canonical forms of observations, so that the implementation's and the model's lines can be
compared structurally (PROTOCOL.md §3).  Nothing here guesses: a shape that is not understood is
kept as it is and therefore compares unequal."""
import re
from .sexp import Sym, S, tag, find, find_all, dump

def despace(s):
    # comments are dropped by the time the text has been through syn / prettyplease
    s = re.sub(r'/\*.*?\*/', ' ', s, flags=re.S)
    s = re.sub(r'//[^\n]*', ' ', s)
    return re.sub(r'\s+', '', s)

def canon_o3_items(items, side):
    out = []
    run = None
    for it in items:
        t = tag(it)
        if t == 'opaque' or t == 'opaque-block':
            txt = despace(it[1])
            if run is None:
                run = [S('opaque'), txt]
                out.append(run)
            else:
                run[1] += txt
            continue
        run = None
        if t == 'conflict':
            out.append([S('conflict'), it[1]])
        else:
            out.append(it)
    return out

def canon_o3(obs, side):
    """-> canonical observation; `side` in ('impl', 'model')"""
    t = tag(obs)
    if t != 'files':
        if t in ('err',):
            return [S('err')]
        if t in ('panic', 'timeout'):
            return [S('bad')]
        return obs
    files = []
    for f in obs[1:]:
        name = f[1]
        body = f[-1]
        if tag(body) != 'rs':
            files.append([S('file'), name, body]); continue
        inner = find(body, 'inner')
        docs = [x for x in inner[1:] if tag(x) == 'doc']
        other = [x for x in inner[1:] if tag(x) == 'attr']
        if side == 'impl':
            # the two fixed header attributes
            exp = ['# ! [allow (dead_code , non_snake_case , clippy :: missing_safety_doc , clippy :: unnecessary_cast)]',
                   '# ! [cfg_attr (any () , rustfmt :: skip)]']
            if [x[1] for x in other] != exp:
                docs = [[S('unexpected-header')] + other] + docs
        items = canon_o3_items([x for x in body[1:] if tag(x) != 'inner'], side)
        files.append([S('file'), name, [S('inner')] + docs] + items)
    files.sort(key=lambda f: f[1])
    return [S('files')] + files

def canon_o2(obs):
    t = tag(obs)
    if t == 'err':
        cls = obs[1]
        if tag(cls) == 'nonterm':
            return [S('err'), cls]
        return [S('err'), S('other')]
    if t in ('panic', 'timeout'):
        return [S('bad')]
    return obs

def first_diff(a, b, pathstr=''):
    """human-readable location of the first structural difference"""
    if type(a) != type(b) or (not isinstance(a, list) and a != b):
        return '%s: %s  !=  %s' % (pathstr, dump(a)[:300], dump(b)[:300])
    if isinstance(a, list):
        for i in range(min(len(a), len(b))):
            d = first_diff(a[i], b[i], pathstr + '/' + (tag(a[i]) or str(i)) if isinstance(a[i], list) else pathstr + '/' + str(i))
            if d:
                return d
        if len(a) != len(b):
            longer = a if len(a) > len(b) else b
            return '%s: length %d != %d; extra: %s' % (pathstr, len(a), len(b), dump(longer[min(len(a), len(b))])[:300])
    return None
