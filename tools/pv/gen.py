"""World generator: multi-module, mostly-valid pyxis descriptions built from pyxis's own grammar
shapes.  Layout-consistent by construction: every type is laid out first (by a small local
re-implementation of the placement rules, used ONLY to make most cases acceptable — it is not an
oracle) and then described with a random mix of explicit addresses, gaps and implicit placement.

Every random choice comes from the one `rng` handed in, so a case replays from (seed, index)."""
from .ast import *
from .sexp import Sym, S

SCALARS = [('u8', 1), ('u16', 2), ('u32', 4), ('u64', 8), ('u128', 16), ('i8', 1), ('i16', 2), ('i32', 4),
           ('i64', 8), ('i128', 16), ('bool', 1), ('f32', 4), ('f64', 8)]
INT_BASES = [('u8', 1, False), ('u16', 2, False), ('u32', 4, False), ('u64', 8, False),
             ('i8', 1, True), ('i16', 2, True), ('i32', 4, True), ('i64', 8, True), ('u128', 16, False), ('i128', 16, True)]
CCS = ['C', 'cdecl', 'stdcall', 'fastcall', 'thiscall', 'vectorcall', 'system']
DOC_LINES = [' A doc line', ' second line', ' with "quotes" and \\ backslash', ' x', ' unicode-free text: a+b=c', '  indented']


class TypeInfo:
    """what the generator knows about an item it has already produced"""
    def __init__(self, mod, name, kind, size, align, pub=True, defaultable=False, copyable=False, cloneable=False,
                 vft=None, vft_len=0, pubfns=(), is_struct=True):
        self.mod, self.name, self.kind = mod, name, kind
        self.size, self.align, self.pub = size, align, pub
        self.defaultable, self.copyable, self.cloneable = defaultable, copyable, cloneable
        self.vft = vft              # list of (fn sexp without index attr, slot index) or None
        self.vft_len = vft_len      # total table length including placeholders
        self.pubfns = list(pubfns)  # names of public associated functions (own + injected)
        self.is_struct = is_struct


class ModSpec:
    def __init__(self, path):
        self.path = path
        self.attrs, self.uses, self.xtypes, self.xvals, self.defs, self.impls, self.backends = [], [], [], [], [], [], []
        self.type_imports = set()
        self.mod_imports = []

    def sexp(self):
        return module(self.attrs, self.uses, self.xtypes, self.xvals, self.defs, self.impls, self.backends)


class Opts:
    """knobs; every property module narrows or widens these"""
    def __init__(self, **kw):
        self.max_modules = 3
        self.max_items = 6
        self.max_fields = 6
        self.p_vftable = 0.3
        self.p_base = 0.35
        self.p_enum = 0.25
        self.p_impl = 0.35
        self.p_extern_type = 0.3
        self.p_extern_val = 0.3
        self.p_backend = 0.3
        self.p_doc = 0.3
        self.p_packed = 0.08
        self.p_priv = 0.25
        self.p_flags = 0.3
        self.p_singleton = 0.15
        self.p_noncopy_singleton = 0.0   # probability that a NON-copyable enum may be a singleton as well (emitted, but not valid Rust: C13 finding)
        self.p_explicit_addr = 0.3
        self.p_gap = 0.2
        self.p_size_attr = 0.4
        self.p_nearmiss = 0.0
        self.pub_bases = False
        self.p_priv_item = None      # probability of a private type / enum / function (default: p_priv)
        self.static_fns = True
        self.p_gap_before_base = 0.25   # a `_: unknown<N>` gap in front of a #[base] field (the base is then not at offset 0)
        self.p_attrs_first = 0.3     # probability that the non-doc attributes of a function are written BEFORE its doc comment
        self.p_unnamed = 0.06        # probability that an array-typed field is written `_: [T; N]`
        self.p_underscore = 0.0      # probability that a function gets a `_`-prefixed ("internal") name
        self.int_args_only = False   # arguments / returns that travel in one integer register (O4 execution)
        self.p_ptr_forward = 0.3
        self.p_cc = 0.3
        self.p_index = 0.3
        self.p_vft_size = 0.2
        self.nested_paths = True
        self.shuffle_prio = True
        self.max_args = 4
        self.addr_hi = 0x7000_0000
        for k, v in kw.items():
            if not hasattr(self, k):
                raise KeyError(k)
            setattr(self, k, v)


def docs(rng, o, force=False):
    if force or rng.random() < o.p_doc:
        return [a_doc(rng.choice(DOC_LINES)) for _ in range(rng.choice([1, 1, 2, 3]))]
    return []


class WorldGen:
    def __init__(self, rng, ps, opts=None):
        self.rng, self.ps, self.o = rng, ps, opts or Opts()
        self.mods = []
        self.known = []          # TypeInfo of everything with a known layout
        self.all_names = []      # (mod, name) of every struct name that will exist (for forward pointers)
        self.counter = 0
        self.addr_counter = 0x1000_0000
        self.nearmiss = None

    # ---------------------------------------------------------------- names
    def fresh(self, prefix):
        self.counter += 1
        return '%s%d' % (prefix, self.counter)

    def next_addr(self):
        self.addr_counter += self.rng.choice([0x10, 0x40, 0x1000, 0x1230])
        return self.addr_counter

    # ---------------------------------------------------------------- references
    def visible_name(self, m, info):
        """make `info` nameable from module m; returns the short name"""
        if info.mod is m or info.mod is None:
            return info.name
        key = (tuple(info.mod.path), info.name)
        if key in m.type_imports or info.mod in m.mod_imports:
            return info.name
        if self.rng.random() < 0.6:
            m.type_imports.add(key)
            m.uses.append(path(*(info.mod.path + [info.name])))
        else:
            m.mod_imports.append(info.mod)
            m.uses.append(path(*info.mod.path))
        return info.name

    def byvalue_type(self, m, want_default=False, depth=0):
        """-> (type sexp, size, align, is_array, defaultable, copyable)"""
        rng = self.rng
        r = rng.random()
        cands = [k for k in self.known if (k.pub or k.mod is m)]
        if want_default:
            cands = [k for k in cands if k.defaultable]
        if r < 0.45 or depth > 2:
            n, s = rng.choice(SCALARS)
            return ty_id(n), s, s, False, True, True
        if r < 0.6 and cands:
            k = rng.choice(cands)
            return ty_id(self.visible_name(m, k)), k.size, k.align, False, k.defaultable, k.copyable
        if r < 0.75 and not want_default:
            return self.pointer_type(m), self.ps, self.ps, False, False, True
        if r < 0.9:
            t, s, a, _, d, c = self.byvalue_type(m, want_default, depth + 1)
            n = rng.choice([0, 1, 2, 3, 4, 5, 8])
            return ty_arr(t, n), s * n, a, True, d, c
        n = rng.choice([0, 1, 2, 3, 4, 6, 8, 12])
        return ty_unk(n), n, 1, True, True, True

    def pointer_type(self, m, depth=0):
        rng = self.rng
        r = rng.random()
        if r < 0.3 or not self.all_names:
            inner = ty_id(rng.choice(SCALARS + [('void', 0)])[0])
        elif r < 0.85:
            # any struct of the same module (forward references allowed), or a known one elsewhere
            local = [n for (mm, n) in self.all_names if mm is m]
            if local and (rng.random() < self.o.p_ptr_forward or not self.known):
                inner = ty_id(rng.choice(local))
            elif self.known:
                k = rng.choice([k for k in self.known if k.pub or k.mod is m] or self.known)
                if not (k.pub or k.mod is m):
                    inner = ty_id('u8')
                else:
                    inner = ty_id(self.visible_name(m, k))
            else:
                inner = ty_id('u8')
        elif depth < 2:
            inner = self.pointer_type(m, depth + 1)
        else:
            inner = ty_arr(ty_id('u16'), 3)
        return ty_cptr(inner) if rng.random() < 0.5 else ty_mptr(inner)

    def arg_type(self, m):
        rng = self.rng
        if rng.random() < 0.6:
            if self.o.int_args_only:
                return ty_id(rng.choice(['u8', 'u16', 'u32', 'u64', 'i8', 'i16', 'i32', 'i64', 'bool']))
            return ty_id(rng.choice(SCALARS)[0])
        return self.pointer_type(m)

    # ---------------------------------------------------------------- functions
    def function(self, m, name, vfunc, used_names=None):
        rng, o = self.rng, self.o
        at = docs(rng, o)
        args = []
        r = rng.random()
        if (vfunc and r < 0.97) or (not vfunc and (r < 0.7 or not o.static_fns)):
            args.append(SELF if rng.random() < 0.5 else MUTSELF)
        for i in range(rng.randint(0, o.max_args)):
            args.append(arg('a%d' % i, self.arg_type(m)))
        ret = self.arg_type(m) if rng.random() < 0.5 else None
        if rng.random() < o.p_cc:
            at.append(a_fn('calling_convention', e_str(rng.choice(CCS))))
        if not vfunc:
            at.append(a_int('address', self.next_addr()))
        pub = rng.random() > (o.p_priv if o.p_priv_item is None else o.p_priv_item)
        if rng.random() < o.p_attrs_first:
            at = [a for a in at if not (a[0] == 'aa' and a[1] == 'doc')] + [a for a in at if a[0] == 'aa' and a[1] == 'doc']
        return fn(pub, name, at, args, ret), pub

    # ---------------------------------------------------------------- items
    def gen_enum(self, m):
        rng, o = self.rng, self.o
        name = self.fresh('E')
        base, bsize, signed = rng.choice(INT_BASES)
        lo = max(-(1 << (8 * bsize - 1)), -(1 << 63)) if signed else 0
        hi = (1 << (8 * bsize - 1)) - 1 if signed else (1 << (8 * bsize)) - 1
        hi = min(hi, (1 << 63) - 2)
        n = rng.choice([1, 2, 3, 4, 5, 8])
        stmts = []
        cur = rng.choice([lo, 0, 0, 1]) if signed else rng.choice([0, 0, 1, 5])
        at = docs(rng, o)
        defaultable = rng.random() < o.p_flags
        dflt = rng.randrange(n) if defaultable else None
        used_vals = set()
        for i in range(n):
            expr = None
            if i == 0 and cur != 0 or rng.random() < 0.4:
                cur = cur + rng.choice([0, 1, 2, 10]) if i else cur
                if i and rng.random() < 0.3:
                    # an explicit value below an earlier one (legal as long as it is not taken)
                    low = [v for v in range(max(lo, 0), max(lo, 0) + 40) if v not in used_vals and v + 1 not in used_vals]
                    if low: cur = rng.choice(low[:8])
                if cur > hi:
                    cur = hi
                expr = e_int(cur)
            if cur > hi or cur in used_vals:
                break
            used_vals.add(cur)
            stmts.append(enum_stmt('V%d' % i, expr, [a_ident('default')] if dflt == i else []))
            cur += 1
        if not stmts:
            stmts.append(enum_stmt('V0', None, [a_ident('default')] if dflt is not None else []))
        if dflt is not None and dflt >= len(stmts):
            stmts[-1] = enum_stmt(stmts[-1][1], sexp_opt(stmts[-1][2]), [a_ident('default')])
        copyable = rng.random() < o.p_flags
        cloneable = copyable or rng.random() < o.p_flags
        if copyable: at.append(a_ident('copyable'))
        elif cloneable: at.append(a_ident('cloneable'))
        if defaultable: at.append(a_ident('defaultable'))
        if (copyable or (o.p_noncopy_singleton > 0 and rng.random() < o.p_noncopy_singleton)) and rng.random() < o.p_singleton:
            at.append(a_int('singleton', self.next_addr()))
        pub = rng.random() > (o.p_priv if o.p_priv_item is None else o.p_priv_item)
        m.defs.append(enum_def(pub, name, ty_id(base), at, stmts))
        info = TypeInfo(m, name, 'enum', bsize, bsize, pub, defaultable, copyable, cloneable, is_struct=False)
        self.known.append(info)
        return info

    def gen_extern_type(self, m):
        rng = self.rng
        name = self.fresh('X')
        al = rng.choice([1, 2, 4, 8, 16])
        size = al * rng.choice([0, 1, 1, 2, 3, 5])
        m.xtypes.append(xtype(name, [a_int('size', size), a_int('align', al)]))
        info = TypeInfo(m, name, 'extern', size, al, True, False, False, False, is_struct=True)
        self.known.append(info)
        return info

    def gen_type(self, m, name):
        rng, o, ps = self.rng, self.o, self.ps
        at = docs(rng, o)
        packed = rng.random() < o.p_packed
        want_default = rng.random() < o.p_flags
        copyable = rng.random() < o.p_flags
        cloneable = copyable or rng.random() < o.p_flags
        stmts = []
        # ---- bases
        bases = []
        structs = [k for k in self.known if k.kind == 'type' and (k.pub or k.mod is m)
                   and (not want_default or k.defaultable) and (not packed)]
        if structs and rng.random() < o.p_base:
            for _ in range(rng.choice([1, 1, 2, 3])):
                bases.append(rng.choice(structs))
        first_base_vft = bases[0].vft if bases else None
        # ---- vftable block
        own_block = None
        vft = None
        vft_len = 0
        if first_base_vft is not None:
            vft = list(first_base_vft); vft_len = bases[0].vft_len
            if rng.random() < 0.6:
                own_block = self.vft_block(m, inherited=first_base_vft, inherited_len=bases[0].vft_len)
        elif rng.random() < o.p_vftable and not want_default:
            own_block = self.vft_block(m, inherited=None, inherited_len=0)
        if own_block is not None:
            stmt, vft, vft_len = own_block
            stmts.append(stmt)
        off = 0
        maxal = 1
        nregions = 0
        sole_align = None
        if own_block is not None and first_base_vft is None:
            off = ps; maxal = ps; nregions = 1; sole_align = ps
        fields = []
        for i, b in enumerate(bases):
            fields.append(('b%d' % i, ty_id(self.visible_name(m, b)), b.size, b.align, False, True, b))
        nf = rng.randint(0, o.max_fields)
        all_default = all(b.defaultable for b in bases)
        all_copy = all(b.copyable for b in bases)
        for i in range(nf):
            t, s, a, arr, d, c = self.byvalue_type(m, want_default)
            fields.append(('f%d' % i, t, s, a, arr, False, None))
            all_default = all_default and d
            all_copy = all_copy and c
        used_fnames = set()
        for (fname, t, s, a, arr, is_base, binfo) in fields:
            fat = docs(rng, o)
            if is_base:
                fat.append(a_ident('base'))
            emitted = not (s == 0 and arr)
            need = 0 if (packed or a == 0) else (-off) % a
            base_total = sum(b_.size for b_ in bases)
            if a > 1 and not packed and self.nearmiss is None and rng.random() < o.p_nearmiss * (5.0 if (bases and not is_base and base_total % a) else 0.25):
                # near miss: the field ends up at an offset that is not a multiple of its alignment
                need = ((-off) % a + rng.choice([1, a // 2 or 1])) % a or 1
                if bases and not is_base and base_total % a:
                    # … but would be one if the bases in front of it were not counted
                    need = (base_total - off) % a
                    if (off + need) % a == 0: need = ((-off) % a + 1) % a or 1
                self.nearmiss = 'misaligned-field'
                if need % a == 0: need = 1
            r = rng.random()
            if r < o.p_explicit_addr:
                gap = need + (a * rng.choice([1, 1, 2, 3]) if (a and rng.random() < 0.25) else 0)
                if gap > 0:
                    nregions += 1; sole_align = 1
                off += gap
                fat.append(a_int('address', off))
            elif need:
                if rng.random() < 0.5:
                    stmts.append(field(rng.random() < 0.3, '_', ty_unk(need), docs(rng, o)))
                else:
                    pn = self.fresh('_pad')
                    stmts.append(field(False, pn, ty_arr(ty_id('u8'), need), []))
                nregions += 1; sole_align = 1
                off += need
            elif r < o.p_explicit_addr + o.p_gap and (not is_base or rng.random() < o.p_gap_before_base):
                g = rng.choice([1, 2, 4, 8]) * (a or 1)
                stmts.append(field(rng.random() < 0.3, '_', ty_unk(g), docs(rng, o)))
                nregions += 1; sole_align = 1
                off += g
            pubf = rng.random() > o.p_priv or (is_base and o.pub_bases)
            if not is_base and arr and rng.random() < o.p_unnamed:
                # an unnamed field of array type (`_: [u32; 3]`): it is laid out like any other field and emitted as `_field_<offset>`
                fname = '_'; pubf = False
            stmts.append(field(pubf, fname, t, fat))
            if emitted:
                nregions += 1; sole_align = a
                maxal = max(maxal, a)
            off += s
        # ---- size / align attributes
        if packed:
            at.append(a_ident('packed'))
            if rng.random() < o.p_size_attr:
                extra = rng.choice([0, 0, 1, 3])
                at.append(a_int('size', off + extra)); off += extra
            align = 1
        else:
            default_align = sole_align if nregions == 1 else ps
            # the alignment finally requested
            choices = [maxal]
            if maxal < 16: choices.append(maxal * 2)
            A = rng.choice(choices) if rng.random() < 0.3 else maxal
            explicit = True
            if default_align is not None and default_align >= maxal and rng.random() < 0.6:
                A = default_align; explicit = False
            if A == 0:
                A = 1
            pad = (-off) % A
            # near-miss stream: break exactly one acceptance condition, keeping pyxis's own view of the
            # type (size `off`, alignment `A`) for the types that embed it.  A correct pyxis rejects the
            # world; one that has lost the check accepts it and the layout oracles see the difference.
            miss = None
            if rng.random() < o.p_nearmiss * (3.0 if nregions == 1 else 1.0):      # one-region types are rare and have rules of their own
                kinds = []
                if pad: kinds.append('size-not-multiple')
                if maxal > ps and nregions != 1: kinds.append('no-align-attr')
                if maxal < 16 and off % (maxal * 2) != 0: kinds.append('bigger-align-no-size')
                if kinds:
                    miss = rng.choice(kinds)
                    self.nearmiss = miss
            if miss == 'size-not-multiple':
                pad = 0
            elif miss == 'no-align-attr':
                explicit = False; A = ps; pad = (-off) % A
            elif miss == 'bigger-align-no-size':
                A = maxal * 2; explicit = True; pad = 0
            if miss in ('size-not-multiple', 'bigger-align-no-size') and rng.random() < 0.5:
                # the same near-miss with the (wrong) size spelled out: a declared size is not exempt from the check
                at.append(a_int('size', off))
            if pad or (rng.random() < o.p_size_attr and miss is None):
                if nregions + (1 if pad else 0) != nregions and not explicit and nregions in (0, 1) and miss is None:
                    # tail padding changes the region count and with it the default alignment
                    explicit = True
                if rng.random() < 0.5 or not pad:
                    at.append(a_int('size', off + pad))
                else:
                    stmts.append(field(False, '_', ty_unk(pad), []))
                off += pad
            if explicit:
                at.append(a_int('align', A))
            align = A
        if want_default and all_default and (vft is None):
            at.append(a_ident('defaultable'))
            defaultable = True
        else:
            defaultable = False
        if copyable and all_copy: at.append(a_ident('copyable'))
        elif cloneable and all_copy: at.append(a_ident('cloneable'))
        copy_ok = copyable and all_copy
        if rng.random() < o.p_singleton:
            at.append(a_int('singleton', self.next_addr()))
        pub = rng.random() > (o.p_priv if o.p_priv_item is None else o.p_priv_item)
        m.defs.append(type_def(pub, name, at, stmts))
        # ---- impl block
        pubfns = []
        for b in bases:
            pubfns += b.pubfns
        if rng.random() < o.p_impl:
            fns = []
            for i in range(rng.randint(1, 3)):
                fname = self.fresh('_m' if rng.random() < o.p_underscore else 'm')
                f, fpub = self.function(m, fname, False)
                fns.append(f)
                if fpub: pubfns.append(fname)
            m.impls.append(impl(name, [], fns))
        info = TypeInfo(m, name, 'type', off, align, pub, defaultable, copy_ok, cloneable and all_copy,
                        vft=vft, vft_len=vft_len, pubfns=pubfns)
        self.known.append(info)
        return info

    def vft_block(self, m, inherited, inherited_len):
        """-> (vftable stmt, [(fn sexp, slot)], table length)"""
        rng, o = self.rng, self.o
        fns = []
        slots = []
        pos = 0
        if inherited:
            for (f, slot) in inherited:
                f2 = [x for x in f]
                at = [a for a in f2[3][1:] if not (isinstance(a, list) and a[0] == 'af' and a[1] == 'index')]
                if slot != pos:
                    at = at + [a_int('index', slot)]
                f2[3] = attrs(*at)
                fns.append(f2); slots.append((f, slot)); pos = slot + 1
            if inherited_len > pos and True:
                pass
        # (a block without functions is legal: `vftable {}`, with or without a declared size)
        n_new = rng.randint(0 if (inherited or rng.random() < 0.1) else 1, 3)
        start_new = max(pos, inherited_len)
        for i in range(n_new):
            name = self.fresh('_v' if rng.random() < o.p_underscore else 'v')
            f, _ = self.function(m, name, True)
            target = pos
            if i == 0 and start_new > pos:
                target = start_new
            if rng.random() < o.p_index or target != pos:
                target = target + (rng.choice([0, 0, 1, 2]) if rng.random() < 0.7 else 0)
                f[3] = attrs(*([a_int('index', target)] + f[3][1:])) if rng.random() < o.p_attrs_first else attrs(*(f[3][1:] + [a_int('index', target)]))
            base_f = [x for x in f]
            base_f[3] = attrs(*[a for a in f[3][1:] if not (a[0] == 'af' and a[1] == 'index')])
            fns.append(f); slots.append((base_f, target)); pos = target + 1
        vat = []
        length = max(pos, inherited_len)
        if inherited_len > pos or rng.random() < o.p_vft_size:
            length = max(length, pos + rng.choice([0, 0, 1, 2]))
            vat.append(a_int('size', length))
        return vftable(vat, fns), slots, length

    # ---------------------------------------------------------------- world
    def build(self, cid, extras=()):
        rng, o = self.rng, self.o
        nm = rng.randint(1, o.max_modules)
        paths = []
        for i in range(nm):
            depth = rng.choice([1, 1, 2, 3]) if o.nested_paths else 1
            p = ['m%d' % i] + ['s%d' % rng.randint(0, 2) for _ in range(depth - 1)]
            if depth > 1 and paths and rng.random() < 0.4:
                p = paths[rng.randrange(len(paths))] + ['n%d' % i]
            paths.append(p)
        self.mods = [ModSpec(p) for p in paths]
        # plan struct names first so that pointers can refer forward
        plan = []
        for m in self.mods:
            for _ in range(rng.randint(0, o.max_items)):
                r = rng.random()
                if r < o.p_enum:
                    plan.append((m, 'enum', None))
                else:
                    name = self.fresh('T')
                    plan.append((m, 'type', name))
                    self.all_names.append((m, name))
        rng.shuffle(plan)
        for m in self.mods:
            if rng.random() < o.p_extern_type:
                self.gen_extern_type(m)
        for (m, kind, name) in plan:
            if kind == 'enum':
                self.gen_enum(m)
            else:
                self.gen_type(m, name)
        for m in self.mods:
            m.attrs += docs(rng, o)
            if rng.random() < o.p_extern_val:
                for _ in range(rng.randint(1, 2)):
                    t = self.byvalue_type(m)[0] if rng.random() < 0.6 else self.pointer_type(m)
                    m.xvals.append(xval(rng.random() > o.p_priv, self.fresh('g'), t, [a_int('address', self.next_addr())]))
            if rng.random() < o.p_backend:
                for _ in range(rng.randint(1, 3)):
                    which = rng.choice(['rust', 'rust', 'rust', 'cpp'])
                    pro = rng.choice(OPAQUE_ITEMS) if rng.random() < 0.6 else None
                    epi = rng.choice(OPAQUE_ITEMS) if rng.random() < 0.5 or pro is None else None
                    m.backends.append(backend(which, pro, epi))
            # source order of definitions is free: shuffle
            rng.shuffle(m.defs)
        mods = list(self.mods)
        rng.shuffle(mods)
        prio = []
        if o.shuffle_prio:
            allp = [path(*(m.path + [d[2]])) for m in self.mods for d in m.defs]
            rng.shuffle(allp)
            prio = allp if rng.random() < 0.7 else allp[:len(allp) // 2]
        extras = list(extras) + ([[S('nearmiss'), self.nearmiss]] if self.nearmiss else [])
        return case(cid, self.ps, [modent(path(*m.path), m.sexp()) for m in mods], prio=prio, extras=extras)


def sexp_opt(x):
    if isinstance(x, Sym) and x == 'none':
        return None
    return x[1]

# prologue / epilogue texts with the token string `syn` prints for them (PROTOCOL.md: TOK)
OPAQUE_ITEMS = [
    'pub const VERSION: u32 = 1;',
    'use std::ffi::c_void;',
    'pub fn helper() -> u32 { 7 }',
    'pub static S: u8 = 3;\npub type Alias = u64;',
    'const A: usize = 0x10;\nconst B: usize = 2;',
    'pub const TRAILING: u8 = 1; // a trailing line comment',
    '/* a block comment */ pub const AFTER: u8 = 2;',
]


def world(rng, cid, ps=None, opts=None, extras=()):
    ps = ps or rng.choice([4, 8])
    return WorldGen(rng, ps, opts).build(cid, extras)
