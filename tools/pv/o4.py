"""O4: the real Rust compiler on the files pyxis emitted.

`assemble` turns the emitted files of one case into a single-file crate that mirrors the input
tree (inline modules, the emitted text verbatim inside them), supplies the declared extern types,
normalises calling-convention strings to "C" (the 64-bit host knows only some of the seven) and can
append compile-time assertions (`size_of`, `align_of`, `offset_of!`, discriminant values) that are
evaluated by rustc itself.  `rustc_check` runs `rustc --emit=metadata`.

Everything here is testing of the implementation's output with the real compiler; it validates the
modelled parts (Lean `RustSem`, Python `rustlay`) and decides C13."""
import os, re, subprocess, shutil, hashlib
from .sexp import tag, find
from .env import WORK, ENV

ABI_RE = re.compile(r'extern\s+"(cdecl|stdcall|fastcall|thiscall|vectorcall|system|C)"')

def emitted_texts(obs):
    """{rel path: text} from an O3 observation produced with PXHARNESS_TEXT=1"""
    out = {}
    if tag(obs) != 'files':
        return None
    for f in obs[1:]:
        t = find(f, 'text')
        if t is None:
            return None
        out[f[1]] = t[1]
    return out

def assemble(texts, externs=None, asserts=None, normalise_abi=True):
    """texts: {'a/b.rs': text}; externs: {('a','b'): [(name, size, align)]}; asserts: {('a','b'): [rust item text]}"""
    tree = {}
    def node(pathsegs):
        cur = tree
        for s in pathsegs:
            cur = cur.setdefault(s, {})
        return cur
    for rel, text in texts.items():
        segs = tuple(rel[:-3].split('/'))
        node(segs)['#text'] = text
    for segs in (externs or {}):
        node(segs)
    for segs in (asserts or {}):
        node(segs)
    def render(name, nd, pathsegs, depth):
        ind = '    ' * depth
        out = ['%spub mod %s {' % (ind, name)]
        text = nd.get('#text', '')
        if normalise_abi:
            text = ABI_RE.sub('extern "C"', text)
        out.append(text)
        for (xn, size, align) in (externs or {}).get(pathsegs, []):
            out.append('#[derive(Clone, Copy)] #[repr(C, align(%d))] pub struct %s { _bytes: [u8; %d] }' % (max(align, 1), xn, size))
            out.append('impl Default for %s { fn default() -> Self { unsafe { ::core::mem::zeroed() } } }' % xn)
        for a in (asserts or {}).get(pathsegs, []):
            out.append(a)
        for k in sorted(x for x in nd if x != '#text'):
            out += render(k, nd[k], pathsegs + (k,), depth + 1)
        out.append('%s}' % ind)
        return out
    lines = ['#![allow(warnings)]', '#![allow(clippy::all)]']
    for k in sorted(tree):
        lines += render(k, tree[k], (k,), 0)
    return '\n'.join(lines) + '\n'

ERR_RE = re.compile(r'^error(\[E\d+\])?: (.*)$', re.M)

def rustc_check(src, key, keep=False, edition='2021'):
    """-> (ok, [(code, message)], stderr tail)"""
    d = os.path.join(WORK, 'tmp', 'o4_%d_%s' % (os.getpid(), hashlib.sha1(key.encode()).hexdigest()[:12]))
    os.makedirs(d, exist_ok=True)
    path = os.path.join(d, 'lib.rs')
    with open(path, 'w') as f:
        f.write(src)
    try:
        p = subprocess.run(['rustc', '--edition', edition, '--crate-type', 'lib', '--emit=metadata', '--error-format=short',
                            '-o', os.path.join(d, 'lib.rmeta'), path], capture_output=True, text=True, env=ENV, timeout=300)
        errs = []
        for line in p.stderr.split('\n'):
            m = re.search(r'error(\[(E\d+)\])?: (.*)$', line)
            if m and 'aborting due to' not in line and 'could not compile' not in line:
                errs.append((m.group(2) or 'E----', m.group(3)[:200]))
        return p.returncode == 0, errs, p.stderr[-1500:]
    finally:
        if not keep:
            shutil.rmtree(d, ignore_errors=True)
