"""O4: the real Rust compiler on the files pyxis emitted.

`assemble` turns the emitted files of one case into a single-file crate that mirrors the input
tree (inline modules, the emitted text verbatim inside them), supplies the declared extern types,
normalises calling-convention strings to "C" (the 64-bit host knows only some of the seven) and can
append compile-time assertions (`size_of`, `align_of`, `offset_of!`, discriminant values) that are
evaluated by rustc itself.  `rustc_check` runs `rustc --emit=metadata`.

Everything here is testing of the implementation's output with the real compiler; it validates the
modelled parts (Lean `RustSem`, Python `rustlay`) and decides C13."""
import os, re, subprocess, shutil, hashlib
from .sexp import tag, find
from .env import WORK, ENV

ABI_RE = re.compile(r'extern\s+"(cdecl|stdcall|fastcall|thiscall|vectorcall|system|C)"')

def emitted_texts(obs):
    """{rel path: text} from an O3 observation produced with PXHARNESS_TEXT=1"""
    out = {}
    if tag(obs) != 'files':
        return None
    for f in obs[1:]:
        t = find(f, 'text')
        if t is None:
            return None
        out[f[1]] = t[1]
    return out

def assemble(texts, externs=None, asserts=None, normalise_abi=True):
    """texts: {'a/b.rs': text}; externs: {('a','b'): [(name, size, align)]}; asserts: {('a','b'): [rust item text]}"""
    tree = {}
    def node(pathsegs):
        cur = tree
        for s in pathsegs:
            cur = cur.setdefault(s, {})
        return cur
    for rel, text in texts.items():
        segs = tuple(rel[:-3].split('/'))
        node(segs)['#text'] = text
    for segs in (externs or {}):
        node(segs)
    for segs in (asserts or {}):
        node(segs)
    def render(name, nd, pathsegs, depth):
        ind = '    ' * depth
        out = ['%spub mod %s {' % (ind, name)]
        text = nd.get('#text', '')
        if normalise_abi:
            text = ABI_RE.sub('extern "C"', text)
        out.append(text)
        for (xn, size, align) in (externs or {}).get(pathsegs, []):
            out.append('#[derive(Clone, Copy)] #[repr(C, align(%d))] pub struct %s { _bytes: [u8; %d] }' % (max(align, 1), xn, size))
            out.append('impl Default for %s { fn default() -> Self { unsafe { ::core::mem::zeroed() } } }' % xn)
        for a in (asserts or {}).get(pathsegs, []):
            out.append(a)
        for k in sorted(x for x in nd if x != '#text'):
            out += render(k, nd[k], pathsegs + (k,), depth + 1)
        out.append('%s}' % ind)
        return out
    lines = ['#![allow(warnings)]', '#![allow(clippy::all)]']
    for k in sorted(tree):
        lines += render(k, tree[k], (k,), 0)
    return '\n'.join(lines) + '\n'

ERR_RE = re.compile(r'^error(\[E\d+\])?: (.*)$', re.M)

def rustc_check(src, key, keep=False, edition='2021'):
    """-> (ok, [(code, message)], stderr tail)"""
    d = os.path.join(WORK, 'tmp', 'o4_%d_%s' % (os.getpid(), hashlib.sha1(key.encode()).hexdigest()[:12]))
    os.makedirs(d, exist_ok=True)
    path = os.path.join(d, 'lib.rs')
    with open(path, 'w') as f:
        f.write(src)
    try:
        p = subprocess.run(['rustc', '--edition', edition, '--crate-type', 'lib', '--emit=metadata', '--error-format=short',
                            '-o', os.path.join(d, 'lib.rmeta'), path], capture_output=True, text=True, env=ENV, timeout=300)
        errs = []
        for line in p.stderr.split('\n'):
            m = re.search(r'error(\[(E\d+)\])?: (.*)$', line)
            if m and 'aborting due to' not in line and 'could not compile' not in line:
                errs.append((m.group(2) or 'E----', m.group(3)[:200]))
        return p.returncode == 0, errs, p.stderr[-1500:]
    finally:
        if not keep:
            shutil.rmtree(d, ignore_errors=True)


# ------------------------------------------------------------------ nightly `no_core` layout oracle (both pointer widths)

NOCORE_PRELUDE = '''#![feature(no_core, lang_items, auto_traits, intrinsics, rustc_attrs, builtin_syntax, abi_vectorcall)]
#![no_core]
#![crate_type = "lib"]
#![allow(warnings)]
#[lang = "pointee_sized"] pub trait PointeeSized {}
#[lang = "meta_sized"]    pub trait MetaSized: PointeeSized {}
#[lang = "sized"]         pub trait Sized: MetaSized {}
#[lang = "copy"]          pub trait Copy {}
#[lang = "freeze"]        unsafe auto trait Freeze {}
#[rustc_intrinsic] pub const fn size_of<T>() -> usize;
#[rustc_intrinsic] pub const fn align_of<T>() -> usize;
#[rustc_intrinsic] #[lang = "offset_of"]
pub const fn offset_of<T: PointeeSized>(variant: u32, field: u32) -> usize;
#[repr(u8)] pub enum c_void { __A = 0, __B = 1 }
'''

TARGETS = {4: 'i686-pc-windows-msvc', 8: 'x86_64-pc-windows-msvc'}

def flat_name(path):
    return re.sub(r'[^A-Za-z0-9_]', '', path.replace('::', '__'))

def flat_type(ty, ps):
    """canonical TY string -> a type expression over flat names, valid in the no_core crate"""
    ty = ty.replace('::std::ffi::c_void', 'c_void')
    ty = re.sub(r'crate::([A-Za-z0-9_#]+(?:::[A-Za-z0-9_#]+)*)', lambda m: flat_name(m.group(1)), ty)
    if ps == 8:
        ty = ABI_RE.sub('extern "C"', ty)
    ty = ty.replace(';', '; ').replace('->', ' -> ')
    return ty

def nocore_source(crate, o2_items, ps):
    """definitions of every emitted struct / enum (flat names, no derives / impls) + the declared extern types,
    with assertions: compiler layout == the layout model (`rustlay`) and == what pyxis resolved (O2)"""
    from .rustlay import LayoutError
    out = [NOCORE_PRELUDE]
    nassert = 0
    for pth, (size, align) in crate.externs.items():
        out.append('#[repr(C, align(%d))] pub struct %s { _b: [u8; %d] }' % (max(align, 1), flat_name(pth[len('crate::'):]), size))
    for pth, it in crate.items.items():
        name = flat_name(pth[len('crate::'):])
        reprs = list(find(it, 'repr')[1:])
        if tag(it) == 'struct':
            flds = ', '.join('%s: %s' % (f[3], flat_type(f[4], ps)) for f in it[6:])
            out.append('#[repr(%s)] pub struct %s { %s }' % (', '.join(reprs), name, flds))
        else:
            rp = reprs[0] if reprs else 'u32'
            from .props.c08 import BASES
            bits = BASES.get(rp, (False, 32))[1]
            signed = BASES.get(rp, (False, 32))[0]
            vs = []
            for v in it[6:]:
                val = v[2][1] if isinstance(v[2], list) else 0
                u = val % (1 << bits)
                unsigned_ty = 'u%d' % bits
                vs.append('%s = 0x%X%s as %s' % (v[1], u, unsigned_ty, rp) if signed else '%s = 0x%X' % (v[1], u))
            out.append('#[repr(%s)] pub enum %s { %s }' % (rp, name, ', '.join(vs)))
    for pth, it in crate.items.items():
        name = flat_name(pth[len('crate::'):])
        try:
            size, align, lay = crate.item_layout(pth)
        except LayoutError:
            continue
        out.append('const _: [(); %d] = [(); size_of::<%s>()];' % (size, name))
        out.append('const _: [(); %d] = [(); align_of::<%s>()];' % (align, name))
        nassert += 2
        for (fname, off, fsz) in lay:
            out.append('const _: [(); %d] = [(); builtin # offset_of(%s, %s)];' % (off, name, fname))
            nassert += 1
        key = tuple(pth[len('crate::'):].split('::'))
        o2 = o2_items.get(key)
        if o2 is not None:
            out.append('const _: [(); %d] = [(); size_of::<%s>()];  // pyxis resolved size' % (o2[4], name))
            out.append('const _: [(); %d] = [(); align_of::<%s>()]; // pyxis resolved alignment' % (o2[5], name))
            nassert += 2
    return '\n'.join(out) + '\n', nassert

def nocore_check(src, key, ps):
    d = os.path.join(WORK, 'tmp', 'nc_%d_%s' % (os.getpid(), hashlib.sha1(key.encode()).hexdigest()[:12]))
    os.makedirs(d, exist_ok=True)
    path = os.path.join(d, 'lib.rs')
    with open(path, 'w') as f:
        f.write(src)
    try:
        p = subprocess.run(['rustc', '+nightly', '--target', TARGETS[ps], '--emit=metadata', '--error-format=short',
                            '-o', os.path.join(d, 'lib.rmeta'), path], capture_output=True, text=True, env=ENV, timeout=300)
        errs = [l for l in p.stderr.split('\n') if 'error' in l and 'aborting' not in l]
        # map an error line back to the assertion it belongs to
        lines = src.split('\n')
        detail = []
        for e in errs[:6]:
            m = re.search(r'lib\.rs:(\d+):', e)
            if m:
                detail.append('%s   <- %s' % (e.split('error')[-1][:160], lines[int(m.group(1)) - 1].strip()[:140]))
            else:
                detail.append(e[:200])
        return p.returncode == 0, detail
    finally:
        shutil.rmtree(d, ignore_errors=True)
