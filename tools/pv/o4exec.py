"""O4 execution: the emitted wrappers and accessors of one accepted world are compiled for the 64-bit host
(calling-convention strings normalised to "C") into a program that *runs* them against recording stubs:

* every vftable slot of a fake table is a distinct stub; every declared absolute address gets a 12-byte
  trampoline (mmap MAP_FIXED_NOREPLACE, RWX) that jumps to its own stub; stubs append
  (stub id, six integer argument registers) to a log and return a value derived from the id;
* for every struct type an object is allocated, its vftable pointer (own field or inherited at offset 0)
  is pointed at the fake table, and every public method is called once with distinct argument values;
* AsRef conversions, struct / enum singleton getters and extern-value accessors are evaluated.

The program prints one line per event; `expected()` computes the same lines from the *input description*
and the compiler layout of the emitted items: which stub must be hit (the slot the description puts the
function in / the declared address), exactly once, with the receiver the address of the object (or of
the base sub-object for forwarded functions) followed by the arguments in declared order, and the
callee's value returned.

This is testing of the implementation's output with the real compiler and CPU.  It validates the
"modelled run-time meaning" of the emitted shapes that the shape oracles of C04 / C05 / C07 / C15 rely on."""
import os, re, subprocess, shutil, hashlib
from .sexp import tag, find, opt, Sym
from .env import WORK, ENV
from . import o4, rustlay
from .props.world import *
from .props.layoutcommon import crate_of

INT_TY = {'u8': 8, 'u16': 16, 'u32': 32, 'u64': 64, 'i8': 8, 'i16': 16, 'i32': 32, 'i64': 64, 'bool': 1}

def ty_kind(ty):
    """'int' (with bits) / 'ptr' / None (not passed in one integer register)"""
    if ty in INT_TY: return ('int', INT_TY[ty])
    if ty.startswith('*const ') or ty.startswith('*mut '): return ('ptr', 64)
    return None

def arg_value(i, kind):
    v = 0x1111 * (i + 1) + 0x2000_0000 * (i + 1)
    if kind[0] == 'int':
        if kind[1] == 1: return 1
        return v & ((1 << kind[1]) - 1)
    return 0x7000_0000_0000 + 0x1000 * (i + 1)

def rust_arg(i, ty, kind):
    v = arg_value(i, kind)
    if kind[0] == 'ptr': return '(0x%X_usize as %s)' % (v, ty)
    if ty == 'bool': return 'true'
    if ty.startswith('i'): return '(0x%X_u64 as %s)' % (v, ty)
    return '0x%X_%s' % (v, ty)

def ret_value(stub, ty):
    full = ((stub + 1) << 8) | 1
    if ty is None: return None
    k = ty_kind(ty)
    if k is None: return None
    if k[0] == 'ptr': return full
    if k[1] == 1: return 1
    return full & ((1 << k[1]) - 1)

class Plan:
    """everything needed to generate main() and the expected output for one world"""
    def __init__(self, c, io3):
        self.c = c
        self.cobs = canon.canon_o3(io3, 'impl')
        self.files, self.crate = crate_of(c, self.cobs)
        self.items = {}          # type name -> (module path, struct item, impl item)
        for (mp, file, m) in modules_of(c):
            its = file_items(self.files, mp) or []
            for it in its:
                if tag(it) == 'struct':
                    self.items.setdefault(it[5], {})['struct'] = it; self.items[it[5]]['mp'] = mp
                elif tag(it) == 'impl':
                    self.items.setdefault(it[1], {})['impl'] = it
            self.items_by_mod = None
        # what the *description* says: slot table per type with a vftable block, address per impl function
        from .props.c04 import spec_table
        self.in_table, self.in_addr, self.in_singleton, self.in_xval = {}, {}, {}, {}
        for (mp, file, m) in modules_of(c):
            for d in m_defs(m):
                at = type_attrs(d) if def_is_type(d) else enum_attrs(d)
                if attr_fn(at, 'singleton') is not None:
                    self.in_singleton[def_name(d)] = attr_fn(at, 'singleton')
                if def_is_type(d):
                    for st in type_stmts(d):
                        if tag(st) == 'vftable':
                            t, why = spec_table(st)
                            if t is not None: self.in_table[def_name(d)] = t
            for im in m_impls(m):
                for f in im[3:]:
                    a = attr_fn(fn_attrs(f), 'address')
                    if a is not None: self.in_addr[(im[1], fn_name(f))] = a
            for xv in m_xvals(m):
                self.in_xval['get_' + xv[2]] = attr_fn(xv[4][1:], 'address')
        self.addr_ids = {}       # absolute address -> stub id
        self.lines = []          # rust statements of main
        self.expect = []         # expected output lines
        self.skipped = []

    def path_of(self, name):
        return 'crate::' + '::'.join(self.items[name]['mp'] + [name])

    def field_type_name(self, tname, field):
        st = self.items[tname].get('struct')
        for f in struct_fields(st):
            if f[0] == field:
                return f[2].split('::')[-1], f[2]
        return None, None

    def field_offset(self, tname, field):
        size, align, lay = self.crate.item_layout(self.path_of(tname))
        for (n, o, s) in lay:
            if n == field: return o
        return None

    def table_of(self, tname, depth=0):
        """(slot names of the vftable struct that `tname`'s accessor points to, offset of the pointer in the object) or None"""
        ent = self.items.get(tname)
        if ent is None or 'impl' not in ent or depth > 8: return None
        acc = opt(ent['impl'][2])
        if acc is None: return None
        base = opt(acc[2])
        vty = acc[1]                               # '*const crate::m::XVftable'
        vname = vty.split('::')[-1]
        if vname not in self.items: return None
        slots = [f[0] for f in struct_fields(self.items[vname]['struct'])]
        if base is None:
            off = self.field_offset(tname, 'vftable')
            return slots, off
        bt, _ = self.field_type_name(tname, base)
        sub = self.table_of(bt, depth + 1)
        if sub is None: return None
        return slots, self.field_offset(tname, base) + sub[1]

    def vptr_offsets(self, tname, off=0, depth=0):
        """byte offsets, inside an object of type `tname`, of every vftable pointer of the object and its embedded sub-objects"""
        out = []
        ent = self.items.get(tname)
        if ent is None or 'struct' not in ent or depth > 8: return out
        for (fname, vis, fty, dcs) in struct_fields(ent['struct']):
            o_ = self.field_offset(tname, fname)
            if o_ is None: continue
            if fname == 'vftable' and fty.startswith('*const '):
                out.append(off + o_)
            elif fty.startswith('crate::') and fty.split('::')[-1] in self.items:
                out += self.vptr_offsets(fty.split('::')[-1], off + o_, depth + 1)
        return out

    def resolve_call(self, tname, mt, recv_off, depth=0):
        """-> (stub kind, id, receiver offset or None, passes receiver?) following forwarders; None if not followable"""
        body = method_body(mt)
        cargs = find(body, 'args')
        has_self = cargs is not None and len(cargs) > 1 and isinstance(cargs[1], Sym) and str(cargs[1]) in ('selfconst', 'selfmut')
        if tag(body) == 'call-slot':
            tbl = self.table_of(tname)
            if tbl is None: return None
            owner = opt(self.items[tname]['impl'][2])[1].split('::')[-1]
            owner = owner[:-len('Vftable')] if owner.endswith('Vftable') else owner
            slots = self.in_table.get(owner, tbl[0])       # the description's table when the owner has a vftable block
            if body[1] not in slots: return None
            return ('slot', slots.index(body[1]), recv_off, has_self)
        if tag(body) == 'call-addr':
            return ('addr', self.in_addr.get((tname, method_name(mt)), body[1]), recv_off if has_self else None, has_self)
        if tag(body) == 'call-field' and depth < 8:
            bt, _ = self.field_type_name(tname, body[1])
            if bt is None or bt not in self.items or 'impl' not in self.items[bt]: return None
            tgt = [x for x in impl_methods(self.items[bt]['impl']) if method_name(x) == body[2]]
            if len(tgt) != 1: return None
            return self.resolve_call(bt, tgt[0], recv_off + self.field_offset(tname, body[1]), depth + 1)
        return None

def build_program(c, io3):
    """-> (rust source, expected lines, notes) or (None, None, why)"""
    texts = o4.emitted_texts(io3)
    if texts is None:
        return None, None, 'no text'
    P = Plan(c, io3)
    ext = {}
    for (mp, file, m) in modules_of(c):
        for xt in m_xtypes(m):
            s_, a_ = attr_fn(xt[2][1:], 'size'), attr_fn(xt[2][1:], 'align')
            if s_ is not None and a_ is not None:
                ext.setdefault(tuple(mp), []).append((xt[1], s_, a_))
        texts.setdefault('/'.join(mp) + '.rs', '')
    lib = o4.assemble(texts, ext, None)
    main = []
    expect = []
    addrs = []
    def addr_id(a):
        if a not in addrs: addrs.append(a)
        return 64 + addrs.index(a)
    ncall = 0
    for tname, ent in sorted(P.items.items()):
        if 'struct' not in ent or 'impl' not in ent or tname.endswith('Vftable') and 'impl' not in ent:
            continue
        tpath = P.path_of(tname)
        try:
            tbl = P.table_of(tname)
        except Exception:
            tbl = None
        main.append('    {')
        main.append('        let mut buf = vec![0u64; (::core::mem::size_of::<%s>() + 64) / 8 + 4];' % tpath)
        main.append('        let obj = ((buf.as_mut_ptr() as usize + 63) & !63) as *mut %s;' % tpath)
        main.append('        let base = obj as usize as u64;')
        vps = P.vptr_offsets(tname)
        if tbl is not None and tbl[1] is not None and tbl[1] not in vps:
            main.append('    }'); continue      # the accessor would read a location that holds no vftable pointer
        for vo in vps:
            main.append('        *((obj as usize + %d) as *mut usize) = TABLE.as_ptr() as usize;' % vo)
        for mt in impl_methods(ent['impl']):
            if str(mt[2]) != 'pub':
                continue
            params = find(mt, 'params')[1:]
            kinds = [ty_kind(p_[2]) for p_ in params if not isinstance(p_, Sym)]
            rty = opt(mt[5])
            if any(k is None for k in kinds) or (rty is not None and ty_kind(rty) is None) or len(params) > 6:
                continue
            try:
                res = P.resolve_call(tname, mt, 0)
            except Exception:
                res = None
            if res is None:
                continue
            kind, ident, recv_off, passes = res
            stub = ident if kind == 'slot' else addr_id(ident)
            if kind == 'slot' and stub >= 64:
                continue
            has_self = any(isinstance(p_, Sym) for p_ in params)
            named = [p_ for p_ in params if not isinstance(p_, Sym)]
            args = [rust_arg(i, p_[2], ty_kind(p_[2])) for i, p_ in enumerate(named)]
            call = ('(*obj).%s(%s)' % (method_name(mt), ', '.join(args))) if has_self else ('%s::%s(%s)' % (tpath, method_name(mt), ', '.join(args)))
            label = '%s::%s' % (tname, method_name(mt))
            main.append('        if sel(%d) {' % len(expect))
            main.append('        clear();')
            if rty is None:
                main.append('        %s;' % call)
                main.append('        report("%s", base, None); }' % label)
            else:
                conv = 'r as usize as u64' if ty_kind(rty)[0] == 'ptr' else 'r as u64'
                main.append('        let r = %s;' % call)
                main.append('        report("%s", base, Some(%s)); }' % (label, conv))
            exp_args = [(arg_value(i, ty_kind(p_[2])), ty_kind(p_[2])[1]) for i, p_ in enumerate(named)]
            rv = ret_value(stub, rty)
            cls = {'call-slot': 'C04', 'call-addr': 'C05', 'call-field': 'C07'}.get(tag(method_body(mt)), 'C04')
            expect.append(('call', label, stub, recv_off if passes else None, exp_args, 'none' if rv is None else '%x' % rv, cls))
            ncall += 1
        # AsRef conversions
        for (mp, file, m) in modules_of(c):
            for it in (file_items(P.files, mp) or []):
                if tag(it) == 'asref' and it[1] == tname and it[3][1:]:
                    off = 0; cur = tname; ok = True
                    for seg in it[3][1:]:
                        o_ = P.field_offset(cur, seg)
                        nt, _ = P.field_type_name(cur, seg)
                        if o_ is None or nt is None: ok = False; break
                        off += o_; cur = nt
                    if ok:
                        main.append('        if sel(%d) { println!("asref %s->%s: {:x}", (<%s as ::core::convert::AsRef<%s>>::as_ref(&*obj) as *const _ as usize as u64) - base); }' % (len(expect), tname, cur, tpath, it[2]))
                        expect.append(('line', 'asref %s->%s' % (tname, cur), '%x' % off, 'C07'))
        main.append('    }')
    # singletons and extern values
    data_pages = set()
    for (mp, file, m) in modules_of(c):
        for it in (file_items(P.files, mp) or []):
            if tag(it) == 'singleton-struct':
                a = P.in_singleton.get(it[1], it[3]); tpath = 'crate::' + '::'.join(mp + [it[1]])
                data_pages.add(a & ~0xFFF); data_pages.add((a + 7) & ~0xFFF)
                main.append('    if sel(%d) || sel(%d) { let mut o = [0u64; 64]; *(0x%X_usize as *mut usize) = o.as_mut_ptr() as usize;' % (len(expect), len(expect) + 1, a))
                main.append('      let g = %s::get(); println!("singleton %s nonnull: {}", g.map(|p| p as *mut _ as usize == o.as_mut_ptr() as usize).unwrap_or(false));' % (tpath, it[1]))
                main.append('      *(0x%X_usize as *mut usize) = 0; println!("singleton %s null: {}", %s::get().is_none()); }' % (a, it[1], tpath))
                expect += [('line', 'singleton %s nonnull' % it[1], 'true', 'C15'), ('line', 'singleton %s null' % it[1], 'true', 'C15')]
            elif tag(it) == 'singleton-enum':
                a = P.in_singleton.get(it[1], it[3]); tpath = 'crate::' + '::'.join(mp + [it[1]])
                en = find_item(P.files.get('/'.join(mp) + '.rs'), 'enum', it[1])
                if en is not None and en[6:]:
                    data_pages.add(a & ~0xFFF); data_pages.add((a + 15) & ~0xFFF)
                    v = en[6:][-1][1]
                    main.append('    if sel(%d) { let v = %s::%s; *(0x%X_usize as *mut %s) = v; println!("singleton-enum %s: {}", %s::get() as i128 == v as i128); }' % (len(expect), tpath, v, a, tpath, it[1], tpath))
                    expect.append(('line', 'singleton-enum %s' % it[1], 'true', 'C15'))
            elif tag(it) == 'xaccessor':
                a = P.in_xval.get(it[2]) or it[4]; data_pages.add(a & ~0xFFF)
                main.append('    if sel(%d) { println!("extern %s: {:x}", %s::%s() as *mut _ as *mut u8 as usize); }' % (len(expect), it[2], 'crate::' + '::'.join(mp), it[2]))
                expect.append(('line', 'extern %s' % it[2], '%x' % a, 'C15'))
    if ncall == 0 and not expect:
        return None, None, 'nothing to execute'
    setup = ['    let mut pages: Vec<usize> = vec![%s];' % ', '.join('0x%X' % p_ for p_ in sorted(set([a & ~0xFFF for a in addrs] + [(a + 15) & ~0xFFF for a in addrs] + list(data_pages)))),
             '    pages.dedup();',
             '    for p in &pages { let r = mmap(*p as *mut u8, 4096, 7, 0x2 | 0x20 | 0x100000, -1, 0); if r as usize != *p { println!("MMAP-FAILED {:x}", p); return; } }']
    for a in addrs:
        setup.append('    trampoline(0x%X, STUBS[%d] as usize);' % (a, addrs.index(a)))
    nstub = max(1, len(addrs))
    if nstub > 64:
        return None, None, 'too many addresses'
    src = lib + RUNTIME.replace('@NADDR@', str(nstub)).replace('@ADDRSTUBS@', ', '.join('stub_%d' % (64 + i) for i in range(nstub))) \
        .replace('@ADDRDEFS@', '\n'.join('stub!(stub_%d, %d);' % (64 + i, 64 + i) for i in range(nstub))) \
        + 'fn main() { unsafe {\n' + '\n'.join(setup + main) + '\n} }\n'
    return src, expect, {'calls': ncall, 'addresses': len(addrs)}

RUNTIME = r'''
static mut LOG: Vec<(u64, [u64; 6])> = Vec::new();
unsafe fn record(id: u64, a: [u64; 6]) -> u64 { LOG.push((id, a)); ((id + 1) << 8) | 1 }
unsafe fn clear() { LOG.clear(); }
/// `prog` runs everything; `prog N` runs only the block of expectation N (used to find which call crashes)
fn sel(i: usize) -> bool { match std::env::args().nth(1) { Some(a) => a.parse::<usize>().ok() == Some(i), None => true } }
macro_rules! stub { ($n:ident, $k:expr) => { unsafe extern "C" fn $n(a0: u64, a1: u64, a2: u64, a3: u64, a4: u64, a5: u64) -> u64 { record($k, [a0, a1, a2, a3, a4, a5]) } } }
macro_rules! slots { ($($n:ident $k:expr),*) => { $( stub!($n, $k); )* static TABLE: [unsafe extern "C" fn(u64, u64, u64, u64, u64, u64) -> u64; 64] = [$($n),*]; } }
slots!(s0 0, s1 1, s2 2, s3 3, s4 4, s5 5, s6 6, s7 7, s8 8, s9 9, s10 10, s11 11, s12 12, s13 13, s14 14, s15 15,
       s16 16, s17 17, s18 18, s19 19, s20 20, s21 21, s22 22, s23 23, s24 24, s25 25, s26 26, s27 27, s28 28, s29 29, s30 30, s31 31,
       s32 32, s33 33, s34 34, s35 35, s36 36, s37 37, s38 38, s39 39, s40 40, s41 41, s42 42, s43 43, s44 44, s45 45, s46 46, s47 47,
       s48 48, s49 49, s50 50, s51 51, s52 52, s53 53, s54 54, s55 55, s56 56, s57 57, s58 58, s59 59, s60 60, s61 61, s62 62, s63 63);
@ADDRDEFS@
static STUBS: [unsafe extern "C" fn(u64, u64, u64, u64, u64, u64) -> u64; @NADDR@] = [@ADDRSTUBS@];
extern "C" { fn mmap(addr: *mut u8, len: usize, prot: i32, flags: i32, fd: i32, off: i64) -> *mut u8; }
/// movabs rax, target ; jmp rax
unsafe fn trampoline(at: usize, target: usize) {
    let p = at as *mut u8;
    *p = 0x48; *p.add(1) = 0xB8;
    for i in 0..8 { *p.add(2 + i) = (target >> (8 * i)) as u8; }
    *p.add(10) = 0xFF; *p.add(11) = 0xE0;
}
/// one line per wrapper call: the log must hold exactly one event; the receiver is printed relative to the object
unsafe fn report(label: &str, base: u64, ret: Option<u64>) {
    let mut s = String::new();
    for (id, a) in LOG.iter() { s.push_str(&format!("[{}:{}]", id, "@ARGS@")); let _ = a; }
    let evs: Vec<String> = LOG.iter().map(|(id, a)| format!("{}|{:x},{:x},{:x},{:x},{:x},{:x}", id, a[0], a[1], a[2], a[3], a[4], a[5])).collect();
    println!("{}: base={:x} events={} ret={}", label, base, evs.join(";"), match ret { Some(r) => format!("{:x}", r), None => "none".to_string() });
}
'''

def run_program(src, key, nblocks=0):
    d = os.path.join(WORK, 'tmp', 'ex_%d_%s' % (os.getpid(), hashlib.sha1(key.encode()).hexdigest()[:12]))
    os.makedirs(d, exist_ok=True)
    path = os.path.join(d, 'main.rs')
    with open(path, 'w') as f:
        f.write(src)
    try:
        p = subprocess.run(['rustc', '--edition', '2021', '-C', 'opt-level=0', '-C', 'debuginfo=0', '-A', 'warnings', '-o', os.path.join(d, 'prog'), path],
                           capture_output=True, text=True, env=ENV, timeout=300)
        if p.returncode != 0:
            errs = re.findall(r'error(?:\[(E\d+)\])?: ([^\n]*)', p.stderr)
            return 'compile-error', [('%s %s' % e)[:200] for e in errs[:4]]
        r = subprocess.run([os.path.join(d, 'prog')], capture_output=True, text=True, timeout=60)
        if r.returncode != 0:
            crashing = []
            for i in range(nblocks):
                ri = subprocess.run([os.path.join(d, 'prog'), str(i)], capture_output=True, text=True, timeout=60)
                if ri.returncode != 0:
                    crashing.append(i)
            return 'crashed', ['exit status %d' % r.returncode, r.stderr[-300:], crashing]
        return 'ran', r.stdout.split('\n')
    except subprocess.TimeoutExpired:
        return 'timeout', []
    finally:
        shutil.rmtree(d, ignore_errors=True)

def compare(out_lines, expect):
    """-> list of mismatch strings"""
    bad = []
    got = {}
    for l in out_lines:
        m = re.match(r'^(\S+): base=([0-9a-f]+) events=(.*) ret=(\S+)$', l)
        if m:
            got[m.group(1)] = (int(m.group(2), 16), m.group(3), m.group(4))
        elif ': ' in l:
            k, v = l.split(': ', 1)
            got[k] = v
    for e in expect:
        if e[0] == 'call':
            _, label, stub, recv, args, ret, cls = e
            g = got.get(label)
            if not isinstance(g, tuple):
                bad.append((cls, '%s: no output' % label)); continue
            base, events, gret = g
            evs = [x for x in events.split(';') if x]
            if len(evs) != 1:
                bad.append((cls, '%s: %d calls recorded instead of exactly one' % (label, len(evs)))); continue
            gid, gargs = evs[0].split('|')
            gargs = [int(x, 16) for x in gargs.split(',')]
            if int(gid) != stub:
                bad.append((cls, '%s: stub %s was called, the description says %d' % (label, gid, stub))); continue
            k = 0
            ok = True
            if recv is not None:
                ok = gargs[0] - base == recv
                k = 1
            for i, (a, bits) in enumerate(args):
                # integer arguments narrower than a register arrive with unspecified upper bits
                ok = ok and (gargs[k + i] & ((1 << max(bits, 8)) - 1)) == a
            if not ok:
                bad.append((cls, '%s: callee saw %s (object at %x), expected receiver offset %s then %s' % (label, ['%x' % x for x in gargs[:k + len(args)]], base, recv, ['%x' % a for a, _ in args])))
            if gret != ret:
                bad.append((cls, '%s: returned %s, expected %s' % (label, gret, ret)))
        else:
            _, k, v, cls = e
            if got.get(k) != v:
                bad.append((cls, '%s: got %s, expected %s' % (k, got.get(k), v)))
    return bad

EXEC_OPTS = dict(p_vftable=0.6, p_base=0.55, p_impl=0.6, p_singleton=0.3, p_extern_val=0.4, p_extern_type=0.3, p_backend=0.0, p_packed=0.0,
                 pub_bases=True, p_priv_item=0.0, p_priv=0.0, static_fns=False, int_args_only=True, max_modules=2, max_items=5, max_fields=3,
                 p_enum=0.2, p_flags=0.5, p_index=0.4, p_vft_size=0.3, max_args=4)

def exec_worlds(rng, n, prefix='ex', **kw):
    from . import gen
    d = dict(EXEC_OPTS); d.update(kw)
    o = gen.Opts(**d)
    return [gen.world(rng, '%s%d' % (prefix, i), ps=8, opts=o) for i in range(n)]

def execute_all(cases, impl, prop='O4', show=None, jobs=8):
    """-> (findings [(case id, reason, detail)], stats)"""
    from concurrent.futures import ThreadPoolExecutor
    from .core import outcome_class
    todo = []
    stats = {'worlds': 0, 'ran': 0, 'calls': 0, 'lines': 0, 'skipped': {}}
    def skip(why):
        stats['skipped'][why] = stats['skipped'].get(why, 0) + 1
    for c in cases:
        io3 = impl.get(c[1], {}).get('o3')
        if outcome_class(io3) != 'ok':
            skip('not-accepted'); continue
        if find(c, 'ps')[1] != 8:
            skip('pointer-width-4'); continue
        try:
            src, expect, notes = build_program(c, io3)
        except Exception as e:
            skip('plan-failed:' + type(e).__name__); continue
        if src is None:
            skip(notes); continue
        todo.append((c, src, expect, notes))
    def work(t):
        c, src, expect, notes = t
        return t, run_program(src, c[1], len(expect))
    out = []
    with ThreadPoolExecutor(max_workers=jobs) as ex:
        for (c, src, expect, notes), (status, lines) in ex.map(work, todo):
            stats['worlds'] += 1
            if status == 'compile-error':
                skip('compile-error:' + (lines[0][:60] if lines else '')); continue
            if status == 'crashed':
                idx = lines[2] if len(lines) > 2 else []
                for i in idx[:4]:
                    e = expect[i]
                    out.append((c[1], 'wrapper-execution-crashed', '%s (%s)' % (e[1], lines[0]), e[-1] if e[0] == 'line' else ('C05' if e[2] >= 64 else 'C04')))
                if not idx:
                    out.append((c[1], 'wrapper-execution-crashed', 'outside any wrapper call: %s %s' % (lines[0], lines[1]), prop))
                continue
            if status != 'ran':
                out.append((c[1], 'wrapper-execution-' + status, '', prop)); continue
            if any(l.startswith('MMAP-FAILED') for l in lines):
                skip('mmap-failed'); continue
            bad = compare(lines, expect)
            stats['ran'] += 1; stats['calls'] += notes['calls']; stats['lines'] += len(expect)
            if show:
                print(c[1], notes, len(expect), 'expected lines;', bad[:3])
            stats.setdefault('by_class', {})
            for e in expect:
                stats['by_class'][e[-1]] = stats['by_class'].get(e[-1], 0) + 1
            for (cls, b) in bad[:6]:
                out.append((c[1], 'executed-wrapper-differs', b, cls))
    return out, stats

def judge_exec(prop, cases, impl, tier, quick_sample=10):
    """second phase shared by C04 / C05 / C07 / C15: the worlds whose id starts with 'ex' are compiled and RUN;
    findings of the property's own class (and crashes) are reported"""
    from .core import Finding
    import hashlib
    from . import sexp
    mine = [c for c in cases if c[1].startswith('ex') or find(c, 'exec') is not None]
    if tier != 'thorough' and len(mine) > quick_sample:
        mine = mine[:quick_sample]
    found, stats = execute_all(mine, impl, prop, jobs=12)
    fs = []
    for f in found:
        cls = f[3] if len(f) > 3 else prop
        if cls == prop:
            fs.append(Finding('O', '%s/%s' % (prop, f[1]), f[0], f[2]))
    info = {'dist': ['executed-worlds'] * stats['ran'], 'compared': stats['ran'], 'nontrivial_hashes': [],
            'executed': {'worlds_run': stats['ran'], 'wrapper_calls': stats['calls'], 'expected_lines': stats['lines'],
                         'lines_by_property': stats.get('by_class', {}), 'skipped': stats['skipped']}}
    return fs, info
