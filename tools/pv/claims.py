"""What MANIFEST.json claims, per property (tools/mkmanifest.py turns this into the file)."""
COMMON_NOTE = ("Trusted: Lean 4.33 kernel; axioms propext/Classical.choice/Quot.sound only (audited per run with #print axioms); "
               "the hand-written Lean model is tied to the Rust by differential runs on generated inputs (as far as the generators reach) "
               "and by tables regenerated from src/ on every run; ")
CLAIMS = {
    'C03': {
        'text': ("Theorem C03.accepts_iff_realisable: for every single-type description in the property's domain (any number of "
                 "fields, pointer width 4 or 8) the model's layout code accepts iff the declarative Realisable predicate holds, "
                 "rejects_with_error: otherwise the outcome is an error (no panic / deferral), accepted_size_align: the resolved "
                 "size/alignment are the declared ones. The model's layout code is the code Model/Build runs for every type; it is "
                 "compared with the real pyxis on the exhaustive 1-field grid plus random descriptions on every run, and the "
                 "executable Realisable (proved equivalent) is evaluated against the implementation's verdict as the oracle."),
        'note': COMMON_NOTE + "numbers below 2^32 (overflow is C12's subject); field alignments are those of built-ins, pointers, arrays, gaps.",
        'technique': 'Lean 4 proof (induction over the field list) + differential correspondence with exhaustive small grid',
    },
}
CLAIMS['C16'] = {
    'text': ("Theorems over the model with the convention tables regenerated from src/semantic/function.rs on every run: the source's "
             "as_str/from_str tables are the seven documented conventions and are mutually inverse (table_is_documented, fromStr_asStr, "
             "asStr_injective), the defaults are thiscall/system/thiscall (defaults_are_documented), every accepted function carries "
             "the convention the property prescribes and unknown names are rejected (built_cc, unknown_rejected), slots carry the "
             "function's convention, both printers print asStr of it, inherited slots keep it (inherited_same). On every run the "
             "model is compared with pyxis on generated worlds, and an oracle recomputes the prescribed convention from the input and "
             "compares it with the ABI string of every emitted fn-pointer type and wrapper."),
    'note': COMMON_NOTE + "functions whose name starts with `_` are not emitted (C05 finding) and not checked here; ABI strings are compared textually, 32-bit calling sequences are never executed.",
    'technique': 'Lean 4 proof over regenerated tables (decide + induction over the attribute loop) + differential correspondence + output oracle',
}
CLAIMS['C08'] = {
    'text': ("Theorems: an accepted enum has exactly the discriminants the description says (values), the repr and layout of its "
             "integer base (repr), #[default] exactly on the marked variant and marker/defaultable inconsistencies rejected "
             "(default_marker, marker_inconsistency_rejected, emitted), every value fits the width of the base (values_fit_width) and, "
             "under a model of Rust's integer casts, `v as T` is v whenever v fits T (cast_of_fits, discriminant_is_value_partial). The "
             "full range clause is refuted for negative values of unsigned bases (negative_in_unsigned_accepted; known finding, the "
             "pinned test can_resolve_enum requires it). Correspondence and an output oracle on generated enums with boundary values."),
    'note': COMMON_NOTE + "Rust's `as` cast on integers is modelled (wrap modulo 2^bits), not verified; discriminants are read off the emitted literals.",
    'technique': 'Lean 4 proof (induction over the variant list; modelled integer casts) + differential correspondence + output oracle',
}
EXEC = (" O4 execution (every run, 64-bit host): for a sample of accepted worlds (all 200 of the extra stream in the thorough tier) the emitted files are "
        "compiled into a program and the wrappers / accessors are RUN against recording stubs (fake vftables whose slot k is stub k, trampolines "
        "mmap'ed at the declared absolute addresses, data pages at singleton / extern addresses): ")
CLAIMS['C04'] = {
    'text': ("Theorems: slots – for every accepted vftable block, any number of functions and any index pattern, function k sits in the "
             "slot the description says (written index, else predecessor+1, else 0), all other slots hold the private thiscall "
             "placeholder named after their own position, and the table has the declared size; contradiction_rejected – negative or "
             "too-small indexes and sizes are errors; vftable_item/slot_offset – the generated struct has one pointer-sized field per "
             "slot and, under the modelled repr(C) rules, slot k is at byte k*ps; wrapper_shape/vfunc_body – the emitted wrapper reads "
             "the slot named after the function and forwards receiver then arguments in order. Correspondence with pyxis and an "
             "oracle on the emitted <T>Vftable struct and wrappers on every run. Run-time clause: Props/Exec.lean gives the three emitted body shapes a small "
             "operational semantics (execMethod / execVftable over a word memory, offsets from the modelled compiler layout, the slot found BY NAME in the emitted vftable struct) "
             "and proves vfunc_wrapper_calls_declared_slot / vfunc_wrapper_with_receiver (exactly one call to mem[vt + k*ps] with k the slot the DESCRIPTION assigns, receiver then "
             "arguments in order), own_accessor_reads_pointer, inherited_accessor_reads_base_pointer, and their lifts built_type_vfunc_wrappers / case_vfunc_wrappers / case_accessor "
             "to every accepted type and to the final registry of every accepted bounded case. That semantics is itself validated against the real compiler and CPU:" + EXEC + "the stub hit must be the slot the DESCRIPTION assigns, exactly once."),
    'note': COMMON_NOTE + "rustc's repr(C) layout is modelled (RustSem), validated by the real compiler; the execution run is testing of the emitted code on the host CPU with ABI strings normalised to \"C\" and integer/pointer arguments only.",
    'technique': 'Lean 4 proof (loop invariant over the slot table) + differential correspondence + output oracle',
}
CLAIMS['C05'] = {
    'text': ("Theorems: built_shape – an accepted impl function has the declared non-negative address, the declared parameters in order with "
             "resolved types and the declared return type; the four *_rejected theorems – no address, negative address, unresolvable "
             "parameter or return type are errors; wrapper_shape – the emitted wrapper transmutes that address to a function pointer "
             "over receiver pointer (iff declared) + parameters in order and calls it with them in order; all functions of all impl "
             "blocks of a type are present (impl_functions_all_present, impl_blocks_merged); Exec.address_wrapper_calls_declared_address / _with_receiver / _static and "
             "case_address_methods – under the operational semantics of Props/Exec.lean the wrapper performs exactly one call to the declared address with receiver (iff declared) "
             "then the arguments in order, for every accepted bounded case; hex_roundtrip – the printed literal "
             "denotes the declared number. Correspondence and an oracle on every emitted wrapper on every run. Known finding: "
             "functions named `_…` are accepted but not emitted."),
    'note': COMMON_NOTE + "the run-time clause (exactly one call to A with receiver then arguments, value returned) is observed by O4 execution (trampoline at the declared address -> recording stub; host ABI \"C\", integer/pointer arguments), not proved; quote!/prettyplease are outside the model, the harness re-parses their output.",
    'technique': 'Lean 4 proof (attribute-loop invariant, list induction) + differential correspondence + output oracle',
}
CLAIMS['C06'] = {
    'text': ("Theorems: accept_implies_prefix – a type with its own block whose first base has a vftable is accepted only if the base's "
             "slots are a prefix of its own (as whole function values, hence name, receiver, parameter types, return type, convention), "
             "then it gets no pointer and records the base field; mutation_rejected – any non-prefix is an error; own_pointer / "
             "pointer_first – otherwise exactly one private `vftable: *const <T>Vftable` region, placed first; inherited – without a block "
             "the base's table is taken over unchanged; accessor_shape – the emitted accessor reads the own field or delegates to the "
             "base field. Correspondence plus an oracle on generated hierarchies and on every single-slot mutation on every run."),
    'note': COMMON_NOTE + "the pointer an executed accessor returns is covered through the emitted shape.",
    'technique': 'Lean 4 proof (list prefix from the zip comparison; unfolding of vftable::build) + differential correspondence + mutation oracle',
}
CLAIMS['C01'] = {
    'text': ("Theorems, for any number of fields and both pointer widths: placed_at_spec – resolve_regions places every emitted source field at "
             "the offset the description says (explicit address, else end of the predecessor; vftable pointer at 0); rustc_offsets – "
             "whenever pyxis's alignment block accepts, the compiler's repr(C) algorithm (modelled in RustSem) adds no padding, so its "
             "offsets are pyxis's running sums (packed: unconditionally); emitted_fields / nameRegions_types / buildType_layout – the "
             "emitted struct lists exactly the placed regions in order under repr(C, align(a)) or repr(C, packed); composed in "
             "field_offsets_exact. Correspondence with pyxis on layout-first generated worlds and an oracle that lays out the "
             "implementation's emitted structs with the compiler's rules and compares every named field's offset with the description; on every run the REAL compiler (nightly rustc, no_core, targets i686- and x86_64-pc-windows-msvc) evaluates size_of / align_of / offset_of assertions for a sample of the accepted worlds (all of them in the thorough tier) against that layout model and against the sizes pyxis resolved."),
    'note': COMMON_NOTE + "rustc's repr(C) layout is modelled (Lean RustSem and Python rustlay) and validated against the real compiler at both pointer widths on a sample per run; zero-length array fields are not emitted and are exempt.",
    'technique': 'Lean 4 proof (placement-loop invariant; no-padding lemma for repr(C)) + differential correspondence + layout oracle',
}
CLAIMS['C02'] = {
    'text': ("Theorems: init_sound/init_complete – the predefined-type table regenerated from the source equals the compiler's primitive "
             "layouts for the two MSVC targets (void aside); struct_sound – for an accepted type the modelled compiler's size and "
             "alignment of the emitted struct are the resolved ones, a declared size/align is the compiled one, packed gives 1; "
             "placed_layouts/embedding_uses_recorded – the layouts used when embedding a type are the ones recorded for it, which are "
             "what the compiler uses; enum_sound, vftable_sound, size_check_emitted. Correspondence plus an oracle comparing, for every "
             "emitted item, pyxis's resolved (size, align) with the compiler-rule layout of the emitted text, the size-check literal and the "
             "declared attributes; the real nightly compiler confirms both the layout model and pyxis's resolved sizes at both pointer widths on a sample per run (all worlds in the thorough tier). Registry-wide (Props/C02Global.lean): `Compiled reg p s a` is the modelled compiler's RECURSIVE layout judgement over the emitted items (it reads only "
             "the emitted field lists and the printed align(N), never pyxis's recorded sizes; compiled_unique: it is a function); new_sound / addModule_sound / "
             "attempt_sound / build_sound / case_sound: for every bounded case that is accepted, every resolved item of the final registry has Compiled size and "
             "alignment equal to the resolved ones, or embeds `void` by value; case_sound_partial + sound_voidfree: without by-value void the exclusion disappears; "
             "sound_unrestricted_refuted: with it the statement is FALSE (kernel-checked witness `type S { x: void }`; the same input is an open finding on the implementation)."),
    'note': COMMON_NOTE + "rustc layout modelled (validated by the real compiler at both widths); extern types assumed to have their declared layout; by-value void is an open finding (pyxis 0 vs c_void 1).",
    'technique': 'Lean 4 proof (repr(C) size/alignment lemma, lcm bound, table decide) + differential correspondence + layout oracle',
}
CLAIMS['C11'] = {
    'text': ("Theorems: resolve_spec_partial – for every registry, module path, use list and name, pyxis's lookup equals the five-step "
             "precedence of the property (last type import, built-in, same module, module imports in order, none), under the guard "
             "that the module's own path is not itself a type path; own_path_is_type_refuted – without the guard the statement is false "
             "(kernel-checked witness, also a known finding replayed on the implementation); lookup_sites/scope_is_own_then_uses – every "
             "field, enum base, parameter, return type and extern value goes through that rule with scope own::uses; emitted_reference, "
             "layout_uses_binding, binding_exists. Correspondence plus an oracle that recomputes the binding from the input for generated "
             "clash-heavy module sets and compares emitted path and laid-out size."),
    'note': COMMON_NOTE + "guard: a module path that is also a type path (a.pyxis defining b next to a/b.pyxis) hijacks the lookup – open known finding.",
    'technique': 'Lean 4 proof (case analysis of the scope partition; decide-d counterexample for the unguarded claim) + differential correspondence + binding oracle',
}
CLAIMS['C14'] = {
    'text': ("Theorems: files_per_module/file_name – exactly one file per non-root module at the same relative path with .rs appended; "
             "file_content – module docs, rust prologues in source order, the module's items sorted by path, accessors sorted by name, rust "
             "epilogues; other_backends_excluded; only_defined_emitted – built-in and extern types emit nothing; defPaths_nodup – each "
             "definition path listed once; duplicate_definition_rejected – any repeated declared name (type, enum, extern type) makes "
             "add_module fail; vftable_clash_rejected/vftable_item_path – one generated <T>Vftable per block in the same module and a "
             "colliding user item is an error. Correspondence plus an oracle on file set, per-file item multiset, accessor set and "
             "prologue/epilogue placement, with a collision stream that must be rejected."),
    'note': COMMON_NOTE + "file system, glob and Path handling outside the model (the harness drives pyxis::build on real directories); prologue text compared up to whitespace.",
    'technique': 'Lean 4 proof (fold invariants over add_module; emitter unfolding) + differential correspondence + file/item oracle',
}
CLAIMS['C15'] = {
    'text': ("Theorems: type_singleton/enum_singleton/extern_value_address – the recorded address is the declared non-negative number; "
             "struct_getter_emitted/enum_getter_emitted/extern_accessor_emitted – the accessor of the right shape (one indirection for "
             "struct singletons, none for enum singletons and extern values) with that address, name, visibility and resolved type is "
             "emitted, and none without the attribute; extern_without_address_rejected; extern_value_type; getter_semantics – the modelled "
             "run-time meaning of the three shapes (None iff the cell at A is null, else the pointer stored there; the value at A; the "
             "address A). Correspondence plus an oracle on every emitted accessor, with missing/negative-address streams."),
    'note': COMMON_NOTE + "the run-time meaning of the shapes is a three-line model of Rust semantics; it is validated on every run by O4 execution: the accessors are compiled and run with data pages mapped at the declared addresses (struct singleton: pointer stored there / null; enum singleton: value stored there; extern value: address returned).",
    'technique': 'Lean 4 proof (attribute-fold invariants; emitter unfolding; modelled accessor semantics) + differential correspondence + accessor oracle',
}
CLAIMS['C17'] = {
    'text': ("Theorems: doc_join/docs_line_for_line – the doc attributes emitted for an item are exactly the written lines in order (one per "
             "`///` line, empty ones included); docs land on the struct, its fields, wrappers, vftable slots and inherited copies "
             "(docs_on_*, function_doc_vis, inherited_copy_keeps_doc); padding fields, the vftable pointer and placeholder slots are private "
             "and undocumented (padding_private, placeholder_private); type_flags/enum_flags – copyable gives Copy+Clone, cloneable Clone, "
             "defaultable Default; packed_no_align. Correspondence plus a clause-table oracle over every emitted item."),
    'note': COMMON_NOTE + "doc lines are single lines; enum variant docs are not part of the property.",
    'technique': 'Lean 4 proof (string-split/intercalate lemma on List Char; fold invariants; emitter unfolding) + differential correspondence + clause oracle',
}
CLAIMS['C07'] = {
    'text': ("Theorems: addFunctions_spec / every_public_reexposed / private_not_reexposed – the functions added for a base field are exactly "
             "the public ones of the base, each once, under its own name or <field>_<name> when taken, with receiver, parameters, return type "
             "and convention unchanged and body `self.<field>.<original>`; injectBases_step – all bases in order, vftable functions for every "
             "base but the first; forwarder_shape – the emitted forwarder drops the receiver and forwards the rest in order; "
             "conversions_emitted / dfs_unfold – one AsRef/AsMut pair along the field path for each base type occurring once in the DFS "
             "hierarchy, a marker and no conversion for a type occurring more than once. Correspondence plus an oracle that recomputes "
             "the expected member and conversion lists of every derived type from the input and the implementation's output for its bases."),
    'note': COMMON_NOTE + "that a forwarding call lands on the sub-object at the base's offset is Rust's field-projection semantics plus C01; proved under the operational semantics of Props/Exec.lean (forwarder_calls_original_on_subobject, every_public_function_forwarded, forwarder_on_built_type: running the forwarder on D at `self` IS running the original on the base type at self + o, with o the offset C01 assigns to the base field; case_forwarders for every accepted bounded case) and observed by O4 execution on every run (the stub must see object address + the offset of the base sub-object as receiver; AsRef conversions must return object address + the offset of the field path).",
    'technique': 'Lean 4 proof (fold invariant of the injection loop; emitter unfolding) + differential correspondence + member-set oracle',
}
CLAIMS['C20'] = {
    'text': ("One theorem per rewrite at the point of the model where the two spellings meet: explicit_address_noop(_at), gap_vs_address + "
             "gap_region_named_like_padding, natural_size_noop, natural_index_noop (+ convertVfuncs_is_slotStep_fold), "
             "implicit_enum_value_noop, reorder_definitions + unresolved_order_independent: the rewritten input drives the layout / slot / "
             "enum code into the same state, so everything downstream is identical. On every run accepted worlds are rewritten by every "
             "applicable rewrite (guided by the implementation's own output for the original) and the implementation's output files "
             "must be byte-identical; model and implementation are compared on both."),
    'note': COMMON_NOTE + "END TO END (Props/C20E2E.lean): rewrite_congruence(_run/_on/_accepted) – replacing one definition by one that builds to the same thing leaves Case.run, O2 and O3 unchanged (simulation over the whole run); instantiated for whole cases: implicit_enum_value_e2e and natural_index_e2e (unconditional), natural_size_e2e (side condition: the type resolves to size N in the accepted run), explicit_address_e2e (side condition in every visited state), reorder_definitions_e2e (any permutation of a module's definitions), gap_to_address_e2e / address_to_gap_e2e (Props/C20Gap.lean: an unnamed `unknown<N>` gap of any visibility and documentation against an explicit address on the following field, side condition in every visited state). explicit_address_final_state_refuted: with the side condition only in the FINAL state the statement is false (a generated vftable struct that shadows a by-name import changes a layout mid-run) – replayed on the implementation and recorded as open finding C09/order-dependent/generated-vftable-shadows-import. Number spelling is C18.",
    'technique': 'Lean 4 proof (one lemma per rewrite; sorted-permutation uniqueness) + differential correspondence + byte-identity metamorphic oracle',
}
CLAIMS['C09'] = {
    'text': ("Two layers of theorems. Abstract worklist (any monotone attempt): any two schedules agree on everything both resolve, a hard error "
             "under one schedule excludes success under every other, a stuck run ends at the registry of all derivable facts "
             "(schedule_independent_partial, error_is_schedule_independent, stuck_set_is_schedule_independent). Concrete: the readers "
             "through which pyxis's attempt sees the registry are monotone along registry extension (size_mono, align_mono, pfield_mono, "
             "lookup_ignores_resolution, setState_extends), and every place where the Rust iterates a hash container is followed by a sort "
             "that removes the order (worklist_order_independent, files_order_independent). End to end (Lemmas/Mono.lean): for descriptions "
             "without vftable blocks the instantiation obligation (attempt_mono: an ok / err answer of type_definition::build and "
             "enum_definition::build is unchanged after any further resolution) is PROVED, and with it build_schedule_independent_novft, "
             "build_ok_unique_novft and the whole-case corollaries case_schedule_independent_novft / case_output_schedule_independent_novft / "
             "case_o2_… / case_o3_…: for every bounded AST case without vftable blocks and every two priority lists the verdict is the same and, "
             "when accepted, the final state and the observations O2 and O3 are EQUAL (non-vacuity: Example.any_prio, a two-module case with a "
             "cross-module cycle through a pointer). WITH vftable blocks (Props/C09Vft.lean, Lemmas/MonoVft.lean): under NoGenRefs / CaseNoGenRefs – nothing in the description "
             "can see a generated <T>Vftable item by name: no generated path is already a key, a module path or a `use`, and no identifier of any field, enum base, "
             "vftable or impl function signature equals a generated name (decidable from the input) – attempt_monoV, build_schedule_independent_nogenref, "
             "build_ok_unique_nogenref, case_schedule_independent_nogenref and case_o2_… / case_o3_schedule_independent_nogenref: every two priority lists give the "
             "same verdict and, when accepted, EQUAL observations O2 and O3 (the final registries agree as maps; a module's list of definition paths may differ "
             "in order, which the emitter sorts away – the literal state equality is refuted: case_schedule_independent_nogenref_refuted; which of an error and the "
             "modelled allocation panic of a huge vftable comes first may also depend on the order: …_refuted_panic, excluded under `Small`). Without NoGenRefs the "
             "statement is false (the four open findings are exactly inputs that mention a generated name). The unconditional claim is decided on the implementation on every run: all permutations of the "
             "resolution priority (exhaustive up to 5/6 user items) through the pyxis_verif hook, all module-addition orders, repeated "
             "builds in one process, hook-free runs in fresh processes; all variants must be byte-identical or all fail. Known open "
             "finding: a signature naming a generated <T>Vftable type."),
    'note': COMMON_NOTE + "whole-attempt monotonicity is proved for descriptions without vftable blocks and for descriptions with vftable blocks that do not mention generated names; for the rest the statement is false on the current tree (open findings); hash seeds are sampled, resolution orders enumerated through the hook; MODULE-ADDITION ORDER: Props/C09ModOrder.lean proves case_module_order_independent / _o2 / _verdict – for any permutation of the module list of a case with distinct module paths (and distinct file names for O3) the verdict is the same and, when accepted, O2 and O3 are equal (no hypothesis on vftables needed: both runs use the same schedule); on the implementation it is checked through the API (files added in every order).",
    'technique': 'Lean 4 proof (abstract confluence of monotone worklists + monotone readers + sort lemmas) + exhaustive schedule enumeration through a hook + differential correspondence',
}
CLAIMS['C10'] = {
    'text': ("Theorems: rounds_bound_suffices / rounds_progress – the resolution loop always ends with a verdict within 2*unresolved+2 rounds, every "
             "continuing round resolves an item or registers a generated item; nonterm_lists_unresolved – the error lists exactly the "
             "unresolved items; success_resolves_everything; size_known_iff / size_unknown_defers – a size is known iff all by-value "
             "dependencies are resolved, pointers contribute nothing (C09.pointer_size_immediate); unknown_field_name_defers, "
             "unknown_enum_base_defers, unknown_extern_value_type_rejected_partial(_err) (the unrestricted form is refuted inside Lean: an "
             "earlier extern value can panic first when u8 is missing). The global iff (acyclic and defined <=> accepted) is decided on the "
             "implementation against an independent fixed-point analysis of generated dependency graphs (chains to depth 12, cycles, "
             "undefined names in 8 positions), including the exact set named in the error and the presence of every item and field."),
    'note': COMMON_NOTE + "Props/C10Global.lean: defer_has_cause (every deferred attempt has a cause: an undefined name, an unresolved by-value dependency, or a size beyond usize – nothing else defers), stuck_has_cause / case_stuck_has_cause (when the build gives up every listed item waits on an undefined name, an overflow, or on another LISTED item: the stuck set is closed), accepted_defined_acyclic_novft (accepted => all names defined and by-value embedding acyclic) and acyclic_defined_not_stuck_novft(_partial) (defined and acyclic => not stuck, except for sizes beyond usize) on the vftable-free fragment and, in Props/C10GlobalVft.lean, WITH vftable blocks under NoGenRefs (acyclic_defined_not_stuck_nogenref(_partial), accepted_defined_acyclic_nogenref and their case-level forms); the unrestricted converse is REFUTED in Lean (`type T { a: [u64; 2^61] }` is answered `will not terminate` because the overflow is treated as not-yet-known) and false for descriptions that mention a generated vftable name (open findings). Known open finding shared with C09 (generated vftable in a signature).",
    'technique': 'Lean 4 proof (termination measure over rounds; fold inversion lemmas) + differential correspondence + independent graph oracle',
}
CLAIMS['C18'] = {
    'text': ("A complete executable model of the front end (the proc_macro2 fallback lexer with syn's literal decoding, and src/parser/mod.rs "
             "node for node) and theorems: parse_print_tokens(_any) – the parser inverts the token printer for every well-formed module, by "
             "structural induction over the grammar; lex_render – the lexer inverts rendering for EVERY lay-out (whitespace, line comments, "
             "nested block comments, integer base / separators / case, doc comments as ///, /** */ or attributes); parse_render – their "
             "composition; int_value* – every spelling of a number denotes its value; parse_error_has_position. On every run the model is "
             "compared with the real parser on 450 corpus texts, on modules rendered by the Lean printer with seeded lay-outs (the real "
             "parser must return the original module) and on mutated texts (same verdict and same error position)."),
    'note': COMMON_NOTE + "identifiers are ASCII (Unicode XID identifiers are accepted by the real lexer and rejected by the model: documented exclusion, one corpus case); WF excludes keywords, `unknown` as a type name, a private field called `vftable`, glued generic names.",
    'technique': 'Lean 4 proof (structural induction over grammar and token lists; maximal-munch lexing lemmas) + differential testing against syn/proc_macro2',
}
CLAIMS['C19'] = {
    'text': ("Locality theorems the frame property rests on: lookup_local / lookup_answer_is_candidate – a name lookup inspects a fixed list of "
             "candidate paths and answers with one of them; size_local – size and alignment depend on the by-value dependencies only; "
             "enum_items_local, type_items_local, type_items_no_bases, module_file_local – a module's file is printed from its own definition "
             "paths and (through base hierarchies) the entries of its bases. END TO END (Props/C19Frame.lean, vftable-free fragment, AST cases): added_module_frame / "
             "added_module_frame_tight / added_module_files / added_module_o3 / added_module_registry – when a case and the case with one more module appended "
             "are both accepted and the new module's path is unrelated (not a prefix of any old module path or `use`), every old module's emitted file is "
             "identical, the file list grows by exactly the new module's file, and every old registry entry is preserved; the new module may import and embed "
             "old types. Refute.added_module_registry_weak_refuted: without the condition on module paths the statement is FALSE (adding the parent module "
             "`a` with a type `b` rebinds `b` inside module a::b) – replayed on the implementation and recorded as an open finding. The same theorems are proved WITH vftable blocks under CaseNoGenRefs "
             "(Props/C19FrameVft.lean: added_module_frame_vft, _tight_vft, _files_vft, _o3_vft, _registry_vft; the added module may derive from old types and have "
             "its own vftable block); removed_module_frame / changed_module_frame (Props/C19Change.lean) are the corollaries for removing or replacing an unrelated module. On every run the frame statement is also decided on the implementation: accepted worlds are changed only outside what the observed module reaches (new "
             "modules with decoy names, unreferenced types, edits and removals of unreachable items) and the observed file must stay "
             "byte-identical."),
    'note': COMMON_NOTE + "the end-to-end frame theorem is proved for the vftable-free fragment and for a module APPENDED to the case (module order independence is part of C09); removal / edits of unreachable items are decided per run only; reachability in the oracle uses unique names per world.",
    'technique': 'Lean 4 proof (congruence of lookup / layout / emission in the registry entries they read) + differential correspondence + metamorphic frame oracle',
}
CLAIMS['C13'] = {
    'text': ("Whether the emitted crate type-checks is decided by the real rustc on every run: the implementation's files for generated "
             "in-fragment worlds are assembled into a crate mirroring the input tree (extern types supplied, ABI strings normalised) and "
             "compiled with `rustc --emit=metadata`; compile-time assertions generated from the oracle's layout model (size_of, align_of, "
             "offset_of!, discriminants) are evaluated by rustc in the same compilation. Theorems show that pyxis's acceptance implies the "
             "preconditions of the compiler errors its output could otherwise hit: field_names_distinct (E0124), enum_cases_distinct (E0084, "
             "E0081, E0428), align_is_pow2 (E0589), copy_implies_clone (E0204), defaultable_fields (E0277), printed_paths_exist (E0412/E0433), "
             "vfuncs_have_receiver (E0424), base_fields_named; size checks are C02. Five accepted-but-uncompilable forms are open known "
             "findings with witnesses (static forwarders, rename clash, packed around aligned, singleton on a non-copyable enum, by-value void)."),
    'note': COMMON_NOTE + "rustc is the oracle here, not a model; 64-bit host only in the quick tier; prologue/epilogue Rust is the user's responsibility; arrays > 32 in defaultable types and private cross-module items are outside the documented fragment.",
    'technique': 'real rustc type-check of the emitted crate (oracle) + Lean 4 proofs that acceptance implies the preconditions of the relevant compiler errors + differential correspondence',
}
CLAIMS['C12'] = {
    'text': ("Theorem text_build_total: for ANY input texts (any bytes, any number of files) and pointer width 4 or 8, the model of `pyxis::build` "
             "either fails to parse with a position or runs the whole build – add_module, the resolution loop, extern values – to success, an error "
             "or the non-termination report; never a panic other than the modelled allocation limit of an over-large vftable (alloc_only_for_huge_tables), "
             "never out of rounds (C10.rounds_bound_suffices). It rests on the registry invariant RegOk/StateOk (new_ok, addModule_ok_partial, "
             "attempt_ok_partial, attempt_no_panic, build_total_partial, run_total_partial) and on parsed_module_bounded (the parser only yields isize "
             "literals). For AST inputs with integer literals outside isize the unrestricted statements are refuted inside Lean (kernel-checked "
             "counterexample: #[align(2^64)] – not producible from text). Lexer and parser models are total functions; parse errors carry a position "
             "inside the text (C18.parse_error_has_position). On every run ~550 inputs (token / byte soup, mutated texts, boundary integers in every "
             "numeric position, recursive and cyclic descriptions, raw identifiers) are run through the implementation in forked children with a "
             "time and memory limit: every observation point must return ok or err, and the model must agree on the outcome class. Stating the "
             "invariant exposed two real panics (unnamed base field, raw identifiers), both repaired."),
    'note': COMMON_NOTE + "PARTIAL BY NATURE: stack depth, the allocator, and panics inside syn / proc_macro2 / prettyplease / quote are runtime behaviour no executable model of pyxis exhibits; only the fuzzing part looks at them. 'Time proportional to input' is proved as iteration bounds only. vftable sizes above 10000 slots are not generated.",
    'technique': 'Lean 4 proof (global registry invariant; no reachable panic site; termination measure) + isolated fuzzing of the implementation + differential outcome-class correspondence',
}
# whole-run forms of the per-item theorems (Props/CaseLift.lean, Props/CaseLift2.lean)
for _id in ('C01', 'C03', 'C04', 'C05', 'C06', 'C07', 'C08', 'C11', 'C13', 'C14', 'C15', 'C16', 'C17'):
    CLAIMS[_id]['text'] += (" WHOLE RUN: every per-item theorem above is also proved as `case_<name>` (Props/CaseLift.lean, Props/CaseLift2.lean) for every item of the "
                            "final registry and every emitted file of an ARBITRARY accepted bounded case, through a provenance invariant (each resolved entry is the result of an "
                            "accepted build of the definition declared under its path, or a generated vftable struct) carried through new / add_module / every attempt / every round.")
NOT_CLAIMED = {}
