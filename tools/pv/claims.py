"""What MANIFEST.json claims, per property (tools/mkmanifest.py turns this into the file)."""
COMMON_NOTE = ("Trusted: Lean 4.33 kernel; axioms propext/Classical.choice/Quot.sound only (audited per run with #print axioms); "
               "the hand-written Lean model is tied to the Rust by differential runs on generated inputs (as far as the generators reach) "
               "and by tables regenerated from src/ on every run; ")
CLAIMS = {
    'C03': {
        'text': ("Theorem C03.accepts_iff_realisable: for every single-type description in the property's domain (any number of "
                 "fields, pointer width 4 or 8) the model's layout code accepts iff the declarative Realisable predicate holds, "
                 "rejects_with_error: otherwise the outcome is an error (no panic / deferral), accepted_size_align: the resolved "
                 "size/alignment are the declared ones. The model's layout code is the code Model/Build runs for every type; it is "
                 "compared with the real pyxis on the exhaustive 1-field grid plus random descriptions on every run, and the "
                 "executable Realisable (proved equivalent) is evaluated against the implementation's verdict as the oracle."),
        'note': COMMON_NOTE + "numbers below 2^32 (overflow is C12's subject); field alignments are those of built-ins, pointers, arrays, gaps.",
        'technique': 'Lean 4 proof (induction over the field list) + differential correspondence with exhaustive small grid',
    },
}
CLAIMS['C16'] = {
    'text': ("Theorems over the model with the convention tables regenerated from src/semantic/function.rs on every run: the source's "
             "as_str/from_str tables are the seven documented conventions and are mutually inverse (table_is_documented, fromStr_asStr, "
             "asStr_injective), the defaults are thiscall/system/thiscall (defaults_are_documented), every accepted function carries "
             "the convention the property prescribes and unknown names are rejected (built_cc, unknown_rejected), slots carry the "
             "function's convention, both printers print asStr of it, inherited slots keep it (inherited_same). On every run the "
             "model is compared with pyxis on generated worlds, and an oracle recomputes the prescribed convention from the input and "
             "compares it with the ABI string of every emitted fn-pointer type and wrapper."),
    'note': COMMON_NOTE + "functions whose name starts with `_` are not emitted (C05 finding) and not checked here; ABI strings are compared textually, 32-bit calling sequences are never executed.",
    'technique': 'Lean 4 proof over regenerated tables (decide + induction over the attribute loop) + differential correspondence + output oracle',
}
CLAIMS['C08'] = {
    'text': ("Theorems: an accepted enum has exactly the discriminants the description says (values), the repr and layout of its "
             "integer base (repr), #[default] exactly on the marked variant and marker/defaultable inconsistencies rejected "
             "(default_marker, marker_inconsistency_rejected, emitted), every value fits the width of the base (values_fit_width) and, "
             "under a model of Rust's integer casts, `v as T` is v whenever v fits T (cast_of_fits, discriminant_is_value_partial). The "
             "full range clause is refuted for negative values of unsigned bases (negative_in_unsigned_accepted; known finding, the "
             "pinned test can_resolve_enum requires it). Correspondence and an output oracle on generated enums with boundary values."),
    'note': COMMON_NOTE + "Rust's `as` cast on integers is modelled (wrap modulo 2^bits), not verified; discriminants are read off the emitted literals.",
    'technique': 'Lean 4 proof (induction over the variant list; modelled integer casts) + differential correspondence + output oracle',
}
NOT_CLAIMED = {}
