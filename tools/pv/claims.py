"""What MANIFEST.json claims, per property (tools/mkmanifest.py turns this into the file)."""
COMMON_NOTE = ("Trusted: Lean 4.33 kernel; axioms propext/Classical.choice/Quot.sound only (audited per run with #print axioms); "
               "the hand-written Lean model is tied to the Rust by differential runs on generated inputs (as far as the generators reach) "
               "and by tables regenerated from src/ on every run; ")
CLAIMS = {
    'C03': {
        'text': ("Theorem C03.accepts_iff_realisable: for every single-type description in the property's domain (any number of "
                 "fields, pointer width 4 or 8) the model's layout code accepts iff the declarative Realisable predicate holds, "
                 "rejects_with_error: otherwise the outcome is an error (no panic / deferral), accepted_size_align: the resolved "
                 "size/alignment are the declared ones. The model's layout code is the code Model/Build runs for every type; it is "
                 "compared with the real pyxis on the exhaustive 1-field grid plus random descriptions on every run, and the "
                 "executable Realisable (proved equivalent) is evaluated against the implementation's verdict as the oracle."),
        'note': COMMON_NOTE + "numbers below 2^32 (overflow is C12's subject); field alignments are those of built-ins, pointers, arrays, gaps.",
        'technique': 'Lean 4 proof (induction over the field list) + differential correspondence with exhaustive small grid',
    },
}
NOT_CLAIMED = {}
