"""C02 – resolved size and alignment equal the compiler's for every emitted type."""
from .layoutcommon import *

ID = 'C02'
POINTS = ['o2', 'o3']
MODEL_POINTS = ['o2', 'o3']
RULE = ("multi-module worlds (types embedding other types by value, arrays of types, enums over the integer bases, extern "
        "types with declared size/alignment, empty types, vftable structs with padding slots) at both pointer widths, plus a "
        "perturbed stream. For every emitted struct / enum / generated vftable struct the size and alignment pyxis resolved "
        "(O2) are compared with the compiler's layout of the emitted item (tools/pv/rustlay.py; thorough tier: real rustc), "
        "with the size-check literal and with the declared size/align/packed attributes. non-trivial = accepted with at "
        "least 3 items compared; distinct by case text")
ASSUMPTIONS = ["extern types have the layout they declare", "by-value `void` is an open known finding (witness in the corpus); the generators do not produce it otherwise",
               "layouts come from a Python model of rustc's repr(C)/repr(int) rules, validated against the real compiler in the thorough tier"]

def generate(rng, tier):
    n = 300 if tier == 'quick' else 6000
    o = gen.Opts(max_fields=6, max_items=7, p_enum=0.3, p_extern_type=0.6, p_base=0.4, p_vftable=0.35, p_vft_size=0.4,
                 p_index=0.4, p_impl=0.1, p_backend=0.0, p_extern_val=0.0, p_doc=0.05, p_size_attr=0.6)
    o.p_nearmiss = 0.04
    return std_worlds(rng, n, o, perturb=0.2)

def judge(c, impl, model):
    cid = c[1]
    info = {'dist': []}
    fs = k_compare(ID, c, impl, model)
    cls = outcome_class(impl.get('o3'))
    count(info, 'impl-' + cls)
    if cls != 'ok' or outcome_class(impl.get('o2')) != 'ok':
        return fs, info
    io3 = canon.canon_o3(impl['o3'], 'impl')
    files, crate = crate_of(c, io3)
    items2 = {}
    for it in find(impl['o2'], 'items')[1:]:
        items2[tuple(it[1][1:])] = it
    seen = set()
    tainted = void_tainted(crate)
    cur = [None]
    def report(reason, detail):
        if cur[0] in tainted and reason in ('C02/size', 'C02/size-check', 'C02/declared-size'):
            reason += '/by-value-void'
        if reason not in seen:
            seen.add(reason)
            fs.append(Finding('O', reason, cid, detail))
    compared = 0
    declared = {}
    for (mp, file, m) in modules_of(c):
        for d in m_defs(m):
            if def_is_type(d):
                at = type_attrs(d)
                declared[tuple(mp + [def_name(d)])] = (attr_fn(at, 'size'), attr_fn(at, 'align'), has_ident(at, 'packed'))
    for pth, it in sorted(items2.items()):
        if str(it[3]) != 'defined':
            continue
        rp = 'crate::' + '::'.join(pth)
        cur[0] = rp
        if rp not in crate.items:
            report('C02/item-not-emitted', rp); continue
        try:
            size, align, _ = crate.item_layout(rp)
        except rustlay.LayoutError as e:
            report('C02/layout-undetermined', '%s: %s' % (rp, e)); continue
        compared += 1
        if it[4] != size:
            report('C02/size', '%s: pyxis resolved size %d, compiled size %d' % (rp, it[4], size))
        if it[5] != align:
            report('C02/alignment', '%s: pyxis resolved alignment %d, compiled alignment %d' % (rp, it[5], align))
        ds, da, dp = declared.get(pth, (None, None, False))
        if ds is not None and ds != size:
            report('C02/declared-size', '%s: #[size(%d)] but compiled size %d' % (rp, ds, size))
        if da is not None and da != align:
            report('C02/declared-align', '%s: #[align(%d)] but compiled alignment %d' % (rp, da, align))
        if dp and align != 1:
            report('C02/packed-align', '%s: packed but compiled alignment %d' % (rp, align))
        # the emitted size check
        mod_items = file_items(files, list(pth[:-1]))
        sc = [x for x in mod_items or [] if tag(x) == 'sizecheck' and x[2] == pth[-1]]
        if size > 0:
            if len(sc) != 1 or sc[0][3] != size:
                report('C02/size-check', '%s: size check %s vs compiled size %d' % (rp, dump(sc)[:120], size))
    count(info, 'items-compared:%s' % ('0' if compared == 0 else '1-2' if compared < 3 else '3-9' if compared < 10 else '10+'))
    if compared >= 3:
        info['nontrivial'] = True
    return fs, info


def judge_all(cases, impl, model, tier):
    fs, info = rustc_layout_validation(ID, cases, impl, tier)
    return fs, info, []
