"""C19 – a module's bindings do not depend on unrelated definitions."""
import hashlib, random
from .world import *
from .. import core

ID = 'C19'
POINTS = ['o3']
MODEL_POINTS = ['o3']
SHRINK = False
RULE = ("accepted worlds with 2-4 modules; for each, an observed module and the set of items it reaches (its own items, the "
        "bindings of every name they mention, its `use`d types, T <-> TVftable, transitively) are computed from the input. The "
        "world is then changed only outside that set: a new unrelated module (also at the root level, also defining types "
        "with the same names as reachable ones), a new unreferenced type added to another module (also to one the observed "
        "module imports a different type from), a field added to / removed from an unreachable type, an unreachable type or "
        "module removed. When both input sets are accepted the observed module's output file must be byte-identical (hash). "
        "non-trivial = a pair that really differs in input and was accepted on both sides; distinct by changed case text")
ASSUMPTIONS = ["reachability is computed with unique names per world plus explicit same-name decoys in modules the observed module does not import"]

def generate(rng, tier):
    n = 150 if tier == 'quick' else 3000
    o = gen.Opts(max_modules=4, max_items=4, max_fields=3, p_vftable=0.4, p_base=0.4, p_impl=0.3, p_enum=0.25,
                 p_backend=0.2, p_extern_val=0.3, shuffle_prio=False)
    cases = []
    for i in range(n):
        c = gen.world(rng, 'w%d' % i, opts=o)
        if len(find(c, 'modules')) - 1 < 2:
            c = gen.world(rng, 'w%d' % i, opts=gen.Opts(max_modules=4, max_items=4, max_fields=3, shuffle_prio=False))
        c.append([S('fseed'), rng.randrange(1 << 30)])
        cases.append(c)
    # scoping scenarios: the observed module imports one type of `x` by name and module `z` as a whole; a name it
    # uses is defined in `z` only.  (The decoy change then defines that name in `x` as well.)
    for i in range(n // 5):
        k = rng.randint(2, 9)
        x = modent(path('x%d' % i), module(defs=[type_def(True, 'Foo', [a_ident('packed')], [field(True, 'a', ty_arr(ty_id('u8'), k))])]))
        z = modent(path('z%d' % i), module(defs=[type_def(True, 'Tee', [a_ident('packed')], [field(True, 'b', ty_arr(ty_id('u8'), k + 1))]),
                                                  type_def(True, 'Other', [a_ident('packed')], [field(True, 'c', ty_id('u8'))])]))
        uses = [path('x%d' % i, 'Foo'), path('z%d' % i)]
        if rng.random() < 0.5: uses.reverse()
        m = modent(path('obs%d' % i), module(uses=uses, defs=[type_def(True, 'M', [a_ident('packed')], [
            field(True, 'f', ty_id('Foo')), field(True, 't', ty_id('Tee')), field(True, 'p', ty_cptr(ty_id('Other')))])]))
        ents = [x, z, m]; rng.shuffle(ents)
        c = case('sc%d' % i, rng.choice([4, 8]), ents)
        c.append([S('fseed'), rng.randrange(1 << 30)]); c.append([S('observe-hint'), path('obs%d' % i)])
        cases.append(c)
    # nested scenarios: the observed module is g<i>::mesh with its own Header (and one imported by name from another module);
    # the ancestor module g<i> does not exist yet (the change adds it with a clashing Header of the same size)
    for i in range(n // 8):
        k = rng.randint(2, 9)
        lib = modent(path('lib%d' % i), module(defs=[type_def(True, 'Vec', [a_ident('packed')], [field(True, 'v', ty_arr(ty_id('u8'), k))])]))
        priv = rng.random() < 0.5
        mesh = modent(path('g%d' % i, 'mesh'), module(uses=[path('lib%d' % i, 'Vec')], defs=[
            type_def(not priv, 'Header', [a_ident('packed')], [field(True, 'h', ty_arr(ty_id('u8'), 5))]),
            type_def(True, 'Mesh', [a_ident('packed')], [field(True, 'header', ty_id('Header')), field(True, 'pos', ty_id('Vec')),
                                                        field(True, 'next', ty_mptr(ty_id('Mesh')))])]))
        ents = [lib, mesh]; rng.shuffle(ents)
        c = case('ns%d' % i, rng.choice([4, 8]), ents)
        c.append([S('fseed'), rng.randrange(1 << 30)]); c.append([S('observe-hint'), path('g%d' % i, 'mesh')])
        cases.append(c)
    return cases

def judge(c, impl, model):
    info = {'dist': []}
    fs = k_compare(ID, c, impl, model, points=('o3',))
    count(info, 'impl-' + outcome_class(impl.get('o3')))
    return fs, info

def names_in_type(t):
    k = tag(t)
    if k == 'id': return [t[1]]
    if k in ('cptr', 'mptr', 'arr'): return names_in_type(t[1])
    return []

def mentioned_names(d):
    out = []
    if def_is_type(d):
        for st in type_stmts(d):
            if stmt_is_field(st): out += names_in_type(st[3])
            else:
                for f in st[2:]:
                    for a in fn_args(f):
                        if not isinstance(a, Sym): out += names_in_type(a[2])
                    if fn_ret(f) is not None: out += names_in_type(fn_ret(f))
    else:
        out += names_in_type(enum_base(d))
    return out

def reach(c, own):
    """set of (module path tuple, item name) reachable from module `own`; names are unique per world"""
    where = {}
    defs = {}
    impls = {}
    mods = {}
    for (mp, file, m) in modules_of(c):
        mods[tuple(mp)] = m
        for d in m_defs(m):
            where[def_name(d)] = tuple(mp); defs[def_name(d)] = d
        for xt in m_xtypes(m):
            where[xt[1]] = tuple(mp)
        for im in m_impls(m):
            impls.setdefault(im[1], []).append(im)
    m = mods[tuple(own)]
    todo = [def_name(d) for d in m_defs(m)] + [xt[1] for xt in m_xtypes(m)]
    for u in m_uses(m):
        if u and u[-1] in where and where[u[-1]] == tuple(u[:-1]):
            todo.append(u[-1])
    for xv in m_xvals(m):
        todo += names_in_type(xv[3])
    seen = set()
    while todo:
        nme = todo.pop()
        base = nme[:-7] if nme.endswith('Vftable') and nme[:-7] in defs else nme
        if base in seen or base not in where:
            continue
        seen.add(base)
        if base in defs:
            todo += mentioned_names(defs[base])
            for im in impls.get(base, []):
                for f in im[3:]:
                    for a in fn_args(f):
                        if not isinstance(a, Sym): todo += names_in_type(a[2])
                    if fn_ret(f) is not None: todo += names_in_type(fn_ret(f))
            # whatever the module of that item imports by type path is consulted for *its* lookups only
    return set((where[n_], n_) for n_ in seen), where, mods

def changes(c, rng):
    """-> [(kind, changed case, observed module path)]"""
    out = []
    mods = modules_of(c)
    if len(mods) < 1:
        return out
    hint = find(c, 'observe-hint')
    own = list(hint[1][1:]) if hint is not None else rng.choice(mods)[0]
    R, where, modmap = reach(c, own)
    reach_mods = set(mp for (mp, n_) in R) | {tuple(own)}
    imported = set(tuple(u) for u in m_uses(modmap[tuple(own)]))
    me = find(c, 'modules')
    # 1. a new unrelated module, with decoys named like reachable types
    decoys = [n_ for (mp, n_) in R][:2]
    newdefs = [type_def(True, 'Unrelated', [a_int('align', 4)], [field(True, 'a', ty_id('u32'))])] + \
              [type_def(True, n_, [a_ident('packed')], [field(True, 'z', ty_arr(ty_id('u8'), 3))]) for n_ in decoys]
    for newpath in rng.sample([['zz_new'], ['zz', 'deep', 'new'], ['mod'], ['lib'], ['zz', 'mod']], 5):
        if tuple(newpath) not in modmap:
            out.append(('add-module', c[:4] + [me + [modent(path(*newpath), module(defs=newdefs))]] + c[5:], own)); break
    # 1b. a new module nested *below* the observed module (a/b.pyxis next to a.pyxis): nothing in it is reachable
    nested = list(own) + ['zsub']
    if tuple(nested) not in modmap:
        out.append(('add-nested-module', c[:4] + [me + [modent(path(*nested), module(defs=[
            type_def(True, 'Inner', [a_int('align', 2)], [field(True, 'x', ty_id('u16')), field(True, 'y', ty_id('u16'))])]))]] + c[5:], own))
    # 1c. a decoy in a module from which the observed module imports a *type* (not the module): a type named like
    #     a name the observed module mentions and that is bound elsewhere
    mentioned = set()
    for d in m_defs(modmap[tuple(own)]):
        mentioned |= set(mentioned_names(d))
    for u in m_uses(modmap[tuple(own)]):
        if u and u[-1] in where and where[u[-1]] == tuple(u[:-1]) and tuple(u[:-1]) not in imported and tuple(u[:-1]) != tuple(own):
            x = tuple(u[:-1])
            names_there = set(d[2] for d in modmap[x][5][1:]) | set(xt[1] for xt in modmap[x][3][1:])
            # … but not a name that a REACHABLE item of that module mentions itself (its binding there would change, and with it
            # the signatures the observed module inherits from that item: that is a change inside the reachable set)
            used_in_x = set()
            for (mp_r, n_r) in R:
                if mp_r == x:
                    for d_ in modmap[x][5][1:]:
                        if d_[2] == n_r:
                            used_in_x |= set(mentioned_names(d_))
                    for im_ in modmap[x][6][1:]:
                        if im_[1] == n_r:
                            for f_ in im_[3:]:
                                for a_ in fn_args(f_):
                                    if not isinstance(a_, Sym): used_in_x |= set(names_in_type(a_[2]))
                                if fn_ret(f_) is not None: used_in_x |= set(names_in_type(fn_ret(f_)))
            for xv_ in modmap[x][4][1:]:
                used_in_x |= set(names_in_type(xv_[3]))
            cand = sorted(n_ for n_ in mentioned if n_ in where and where[n_] != x and n_ not in names_there and where[n_] != tuple(own) and n_ not in used_in_x)
            if cand:
                n_ = cand[0]
                for idx, ent in enumerate(me[1:]):
                    if tag(ent) == 'module' and tuple(ent[1][1:]) == x:
                        m2 = list(ent[3]); m2[5] = ent[3][5] + [type_def(True, n_, [a_ident('packed')], [field(True, 'decoy', ty_arr(ty_id('u8'), 3))])]
                        ent2 = list(ent); ent2[3] = m2
                        out.append(('add-decoy-next-to-imported-type', c[:4] + [me[:idx + 1] + [ent2] + me[idx + 2:]] + c[5:], own))
                break
    # 1d. a new module that DEPENDS on the observed one: it imports one of its types by name (private ones included – pyxis
    #     has no visibility check) and embeds it by value and behind a pointer.  Dependencies must not flow backwards.
    own_types = [d for d in m_defs(modmap[tuple(own)]) if def_is_type(d)]
    own_types.sort(key=lambda d: def_pub(d))          # private ones first
    if own_types and ('zz_dep',) not in modmap:
        t = own_types[0]
        dep = module(uses=[path(*(list(own) + [def_name(t)]))], defs=[type_def(True, 'Dependent', [], [
            field(True, 'p', ty_cptr(ty_id(def_name(t)))), field(True, 'q', ty_mptr(ty_arr(ty_id(def_name(t)), 2)))])],
            xvals=[xval(True, 'g_dep', ty_cptr(ty_id(def_name(t))), [a_int('address', 0x6000_0000)])])
        out.append(('add-dependent-module', c[:4] + [me + [modent(path('zz_dep'), dep)]] + c[5:], own))
    # 1e. a new module at an ANCESTOR path of the observed (nested) module, defining types named like the ones the observed
    #     module defines and mentions: enclosing modules are not in scope unless imported
    if len(own) >= 2 and find(c, 'witness-module-path-becomes-type') is None:
        for cut in range(1, len(own)):
            anc = tuple(own[:cut])
            if anc not in modmap and anc not in imported:
                names = sorted(set([def_name(d) for d in m_defs(modmap[tuple(own)])] + [n_ for (mp, n_) in R]))[:4]
                adefs = [type_def(True, n_, [a_ident('packed')], [field(True, 'z', ty_arr(ty_id('u8'), 5))]) for n_ in names if not n_.endswith('Vftable')]
                if adefs:
                    out.append(('add-ancestor-module', c[:4] + [me + [modent(path(*anc), module(defs=adefs))]] + c[5:], own))
                break
    # 1f. (witness of the open finding, proved in Lean as C19.Refute.added_module_registry_weak_refuted) the parent module of a
    #     nested module a::b is added and defines a type named `b`: the old module's own path a::b becomes a TYPE path, and since
    #     a module's own path is a member of its scope the name `b` inside it now denotes the new type
    if find(c, 'witness-module-path-becomes-type') is not None and len(own) >= 2 and tuple(own[:-1]) not in modmap:
        out.append(('module-path-becomes-type-path', c[:4] + [me + [modent(path(*own[:-1]), module(defs=[
            type_def(True, own[-1], [], [field(True, 'x', ty_id('u64')), field(True, 'y', ty_id('u64'))])]))]] + c[5:], own))
    # per-module edits
    for idx, ent in enumerate(me[1:]):
        if tag(ent) != 'module': continue
        mp = tuple(ent[1][1:])
        m = ent[3]
        defs = m[5][1:]
        unreach = [d for d in defs if (mp, d[2]) not in R]
        if mp != tuple(own) and mp not in imported:
            # 2. an unreferenced type added to another module (module imports of the observed module excluded:
            #    a new name there could legitimately capture nothing, but keep the rule simple)
            m2 = list(m); m2[5] = m[5] + [type_def(True, 'Extra%d' % idx, [a_int('align', 8)], [field(True, 'q', ty_id('u64'))])]
            ent2 = list(ent); ent2[3] = m2
            out.append(('add-type', c[:4] + [me[:idx + 1] + [ent2] + me[idx + 2:]] + c[5:], own))
        for d in unreach:
            if tag(d[3]) != 'type': continue
            # 3. change an unreachable type: append a field at the end with a fresh size attribute removed
            at = [a for a in d[3][1][1:] if not (tag(a) == 'af' and a[1] in ('size',))]
            d2 = [d[0], d[1], d[2], [d[3][0], attrs(*at)] + d[3][2:] + [field(True, 'added_tail', ty_arr(ty_id('u8'), 0))]]
            m2 = list(m); m2[5] = [m[5][0]] + [d2 if x is d else x for x in defs]
            ent2 = list(ent); ent2[3] = m2
            out.append(('change-unreachable-type', c[:4] + [me[:idx + 1] + [ent2] + me[idx + 2:]] + c[5:], own))
            # 4. remove it (only if nothing else mentions it – else the build fails, which is allowed but useless)
            m3 = list(m); m3[5] = [m[5][0]] + [x for x in defs if x is not d]
            m3[6] = [m[6][0]] + [im for im in m[6][1:] if im[1] != d[2]]
            ent3 = list(ent); ent3[3] = m3
            out.append(('remove-unreachable-type', c[:4] + [me[:idx + 1] + [ent3] + me[idx + 2:]] + c[5:], own))
            break
        if mp not in reach_mods and mp not in imported and not any(tuple(u[:len(mp)]) == mp for u in m_uses(modmap[tuple(own)])):
            out.append(('remove-module', c[:4] + [me[:idx + 1] + me[idx + 2:]] + c[5:], own))
    return out

def file_hash(obs, modpath):
    if tag(obs) != 'files':
        return None
    want = '/'.join(modpath) + '.rs'
    for f in obs[1:]:
        if f[1] == want:
            return find(f, 'hash')[1]
    return 'absent'

def judge_all(cases, impl, model, tier):
    fs = []
    info = {'dist': [], 'nontrivial_hashes': [], 'compared': 0}
    pairs = []
    for c in cases:
        io = impl.get(c[1], {})
        if outcome_class(io.get('o3')) != 'ok':
            continue
        sd = find(c, 'fseed')
        rng = random.Random(sd[1] if sd else 0)
        try:
            chs = changes(c, rng)
        except Exception as e:
            fs.append(Finding('K', 'C19/change-construction-failed', c[1], repr(e)[:200])); continue
        rng.shuffle(chs)
        for k, (kind, c2, own) in enumerate(chs[:4] if find(c, 'observe-hint') is None else chs):
            c2 = list(c2); c2[1] = '%s~%s%d' % (c[1], kind, k)
            pairs.append((c, c2, kind, own))
    lines = [sexp.dump(c2) for (_, c2, _, _) in pairs]
    impl2 = core.run_harness(lines, POINTS, jobs=12)
    model2 = core.run_model(lines, MODEL_POINTS, jobs=12)
    extra = []
    for (c, c2, kind, own) in pairs:
        io, io2, mo2 = impl[c[1]], impl2.get(c2[1]), model2.get(c2[1])
        if io2 is None or mo2 is None:
            fs.append(Finding('K', 'C19/no-observation', c2[1], '')); continue
        info['compared'] += 1
        fs += k_compare(ID, c2, io2, mo2, points=('o3',))
        info['dist'].append('change:' + kind + ':' + outcome_class(io2.get('o3')))
        if outcome_class(io2.get('o3')) != 'ok':
            continue          # the property only speaks about pairs of accepted input sets
        h1, h2 = file_hash(io['o3'], own), file_hash(io2['o3'], own)
        if h1 != h2:
            fs.append(Finding('O', 'C19/unrelated-change-altered-output/' + kind, c2[1], 'module %s: %s vs %s' % ('::'.join(own), h1, h2)))
            extra += [c2]
        else:
            info['nontrivial_hashes'].append(hashlib.sha1(sexp.dump(c2[2:]).encode()).hexdigest())
    return fs, info, extra
