"""C12 – every input yields a result: builds never panic or hang."""
import hashlib, random
from .world import *

ID = 'C12'
POINTS = ['o1', 'o2', 'o3']
MODEL_POINTS = ['o1', 'o2', 'o3']
ISOLATE = True
TIMEOUT_MS = 10000
SHRINK = False
RULE = ("four streams, each run in a forked child with a 10 s wall-clock and a 2 GiB address-space limit: (1) token soup and "
        "byte soup up to 4 kB; (2) grammar-directed mutations (a character deleted / duplicated / swapped / replaced, a token "
        "spliced in) of texts rendered from valid worlds; (3) valid worlds with one integer replaced by a boundary value "
        "(0, 1, 2^31 +- 1, 2^32, 2^63 - 1, -1, -2^63, ...) in every numeric position (addresses, sizes, alignments, indices, "
        "array lengths, unknown<N>, enum values, singleton addresses; vftable sizes and indices capped at 10000 because the "
        "table they ask for is allocated); (4) self-referential, mutually recursive and cyclic module graphs, unusual identifiers "
        "(raw identifiers, `_`-names, keywords-as-raw). Every observation point must return ok or err – never a panic, an abort or "
        "a timeout – and a parse error reported by the build must name file:line:column with the line inside the file. The model "
        "(parser + resolver + emitter) must agree with the implementation on the outcome class. non-trivial = an input that is "
        "rejected by a check other than the parser's first token, or accepted with >= 2 items; distinct by case text")
ASSUMPTIONS = ["stack depth, allocator behaviour and panics inside syn / proc_macro2 / prettyplease are runtime behaviour outside the model; only the fuzzing here looks at them",
               "a vftable is allocated with as many slots as the description asks for: sizes / indices above 10000 are not generated (memory proportional to the table asked for is allowed by the property)"]

BOUNDARY = [0, 1, 2, 3, 7, 255, 256, 65535, 65536, 2 ** 31 - 1, 2 ** 31, 2 ** 31 + 1, 2 ** 32 - 1, 2 ** 32, 2 ** 32 + 1,
            2 ** 62, 2 ** 63 - 2, 2 ** 63 - 1, -1, -2, -255, -2 ** 31, -2 ** 63 + 1, -2 ** 63]
TOKENS = ['type', 'enum', 'pub', 'fn', 'impl', 'extern', 'use', 'vftable', 'backend', 'prologue', 'epilogue', 'unknown', 'meta',
          'self', 'mut', 'const', 'super', 'crate', 'r#type', 'r#fn', '_', '__', 'Foo', 'bar', 'u32', 'i8', 'void', '{', '}', '(', ')',
          '[', ']', '<', '>', ',', ';', ':', '::', '->', '=', '#', '!', '*', '&', '-', '+', '/', '//', '/*', '*/', '///', '//!',
          '"', "'", '\\', '0', '1', '0x10', '0xFFFFFFFFFFFFFFFF', '18446744073709551616', '1_000', '1u8', '-5', '"str"', 'r"raw"',
          "'a'", "'lt", '$', '@', '`', '~', '?', '\n', '\t', ' ', '\r\n', '\x00', '\xc3\xa4', 'é']

def soup(rng):
    n = rng.choice([0, 1, 3, 10, 40, 150, 600])
    if rng.random() < 0.25:
        return ''.join(chr(rng.choice([rng.randrange(32, 127), rng.randrange(0, 256), 10, 32])) for _ in range(n * 3))
    sep = rng.choice([' ', ' ', '', '\n'])
    return sep.join(rng.choice(TOKENS) for _ in range(n))

SNIPPETS = [
    'type A { a: A }', 'type A { a: B } type B { a: A }', 'type A { a: [A; 2] }', 'type A { #[base] a: A }',
    'type A { p: *const A, q: *mut B } type B { a: [A; 4] }', 'enum E: E { X }', 'enum E: u8 { X = X }',
    'type r#type { r#fn: u32 }', 'type T { _: unknown<4>, _: u32, __: u8 }', 'extern type X;', '#[size(4)] extern type X;',
    'type T { vftable { fn f(&self); fn f(&self); } }', 'impl T { fn f(); }', 'type T; impl T { #[address(1)] fn r#self(&self); }',
    'use a::b::c; use a; use ::; use a::', 'backend rust prologue "fn x() {"; ', 'backend rust { prologue r#"}"#; epilogue "\\u{0}"; }',
    '#![doc = 5] type T;', '#[doc = x] type T { #[doc = 1] a: u8 }', 'type T { #[address("x")] a: u8, #[address(1, 2)] b: u8 }',
    'type Loop { vftable { fn f(&self, l: Loop) -> Loop; } }', 'pub extern x: Missing;', '#[address(1)] pub extern x: [[[[u8; 2]; 2]; 2]; 2];',
    'type T { a: [u8; 18446744073709551615] }', 'type T { a: [[u64; 4294967296]; 4294967296] }', 'type T { a: unknown<18446744073709551615>, b: u8 }',
    '#[size(18446744073709551615)] type T { a: u8 }', '#[align(9223372036854775808)] type T { a: u8 }',
    'type T { #[address(9223372036854775807)] a: u64 }', 'type T { a: *mut Array<SharedPtr<Item>>>, b: Foo<Bar<>>>> }',
    'type T { a: Foo>, b: Foo<<>, c: Foo<, d: <> }', 'type T { a: Map<K, V>, b: Vec<> } impl T { #[address(1)] fn f(&self, a: Foo>>) -> Bar<; }',
    'extern type Shared<T>>; pub extern g: Shared>;',
    '#[size(4611686018427387904), align(4611686018427387904)] extern type Huge; type T { a: u32, h: Huge } type U { p: *const u8, h: Huge, q: u64 }',
    '#[size(0), align(4611686018427387904)] extern type Z; #[align(8)] type T { z: Z, a: u64, b: u32 } #[size(8), align(1073741824)] extern type Y; type V { a: u32, y: Y }',
    'type Root { a: u32 } type L { #[base] r#type: Root } type R { #[base] r#type: Root } type D { #[base] left: L, #[base] r#fn: R }',
    'type Root { a: u32 } type L { #[base] r#mod: Root, x: u32 } type R { #[base] r#mod: Root } type M { #[base] r#loop: L } type D { #[base] a: M, #[base] b: R }',
    'type Player { _: unknown<16>, #[address(8)] pub health: u32 }', 'type P { _: u64, _: unknown<4>, #[address(2)] a: u8 } type Q { #[address(4)] a: u8, #[address(2)] b: u8 }',
    '#[size(4)] type S { _: unknown<8> } #[size(2)] type S2 { _: [u16; 4], _: u8 }',
    'type T { vftable { fn f(&self); }, a: Missing }', 'type A { vftable { fn f(&self); }, b: B } type B { a: A, p: *const AVftable }',
    'type A { vftable { fn f(&self); }, #[base] b: B } type B { vftable { fn f(&self); }, #[base] a: A }',
    '#[size(4), align(4)] pub type Header { pub id: u32, pub end: void }', 'type V { a: void, b: u8 } type W { v: V, a: [void; 4], p: *const void }',
    '#[align(2)] type V { a: void }  enum E: void { A }', 'enum E: u64 { A = 9223372036854775807, B }', 'enum E: i8 { A = -128, B = 127, C }',
]

def text_case(cid, files, ps=4):
    return case(cid, ps, [tmodule(f, t) for f, t in files])

def generate(rng, tier):
    n = 500 if tier == 'quick' else 20000
    out = []
    for i, sn in enumerate(SNIPPETS):
        out.append(text_case('sn%d' % i, [('m.pyxis', sn)], rng.choice([4, 8])))
    for i in range(n):
        k = rng.random()
        if k < 0.35:
            files = [('f%d.pyxis' % j, soup(rng)) for j in range(rng.choice([1, 1, 2]))]
            out.append(text_case('soup%d' % i, files))
        elif k < 0.7:
            # boundary integers in a valid world
            c = gen.world(rng, 'b%d' % i, opts=gen.Opts(max_modules=2, max_items=4, max_fields=4, p_vftable=0.5, p_enum=0.4, p_singleton=0.3))
            cands = [(p, nd) for p, nd in all_nodes(c) if tag(nd) in ('int', 'arr', 'unk') and isinstance(nd[-1], int)]
            for _ in range(rng.choice([1, 1, 2])):
                if not cands: break
                p, nd = rng.choice(cands)
                v = rng.choice(BOUNDARY)
                parent = node_at(c, p[:-1])
                capped = tag(parent) == 'af' and parent[1] in ('index',) or (tag(parent) == 'af' and parent[1] == 'size' and is_vftable_attr(c, p))
                if capped and abs(v) > 10000:
                    v = rng.choice([10000, 9999, -1, 0])
                if tag(nd) in ('arr', 'unk'):
                    v = abs(v)
                    c = replace_at(c, p, nd[:-1] + [v])
                else:
                    c = replace_at(c, p, [nd[0], v])
            out.append(c)
        else:
            # mutate a snippet or combine snippets
            t = rng.choice(SNIPPETS) + ' ' + (rng.choice(SNIPPETS) if rng.random() < 0.5 else '')
            from .c18 import mutate_text
            for _ in range(rng.choice([0, 1, 2, 4])):
                t = mutate_text(rng, t)
            files = [('m.pyxis', t)]
            if rng.random() < 0.2:
                files.append(('m/n.pyxis', rng.choice(SNIPPETS)))
            out.append(text_case('mut%d' % i, files, rng.choice([4, 8])))
    # an impossible token at a known place: the build's parse error must name exactly that line and (1-based) column
    import re as _re
    from .c18 import semi_module
    for i in range(max(10, n // 25)):
        text, _mod = semi_module(rng)
        ls = text.split('\n')
        cand = [(li, m_.start()) for li, l_ in enumerate(ls) if not l_.startswith('///') and '"' not in l_ for m_ in _re.finditer(r' ', l_)]
        if not cand: continue
        li, col = rng.choice(cand)
        ls[li] = ls[li][:col] + ' $ ' + ls[li][col + 1:]
        out.append(case('junkpos%d' % i, rng.choice([4, 8]), [tmodule('m.pyxis', '\n'.join(ls))], extras=[[S('junk-at'), li + 1, col + 2]]))
    from . import rare
    out += rare.vftable_cases() + rare.impl_cases() + rare.base_cases() + rare.derive_cases()
    for i in range(n // 10):
        out.append(rare.add_noise(rng, gen.world(rng, 'noise%d' % i, opts=gen.Opts(max_modules=2, max_items=4)), 0.4))
    return out

def node_at(x, p):
    for i in p:
        if not isinstance(x, list) or i >= len(x): return None
        x = x[i]
    return x

def is_vftable_attr(c, p):
    # p points at the (int ..) node inside (af "size" ..) inside (attrs ..) inside (vftable ..)?
    anc = node_at(c, p[:-3])
    return tag(anc) == 'vftable'

def judge(c, impl, model):
    cid = c[1]
    info = {'dist': []}
    fs = []
    texts = {me[1]: me[2] for me in find(c, 'modules')[1:] if tag(me) == 'tmodule'}
    for pt in ('o1', 'o2', 'o3'):
        io, mo = impl.get(pt), model.get(pt)
        if io is None:
            fs.append(Finding('K', 'C12/no-observation', cid, pt)); continue
        t = tag(io)
        if t in ('panic', 'timeout'):
            msg = dump(io)[:200]
            why = 'hang' if t == 'timeout' else 'panic'
            detail = ''
            if 'format_ident' in msg or 'is not a valid Ident' in msg or 'Ident' in msg and 'raw' in msg:
                detail = '/raw-identifier'
            fs.append(Finding('O', 'C12/%s%s' % (why, detail), cid, '%s: %s' % (pt, msg)))
            count(info, '%s-%s' % (pt, t))
            continue
        cls = 'ok' if t in ('o1', 'resolved', 'files') else 'err'
        count(info, '%s-%s' % (pt, cls))
        if mo is not None and pt != 'o1':
            mt = tag(mo)
            mcls = 'ok' if mt in ('resolved', 'files') else ('err' if mt == 'err' else 'bad')
            if mcls != cls and not (pt == 'o3' and t == 'err' and 'Could not parse generated Rust code' in dump(io)):
                fs.append(Finding('K', 'C12/outcome-class-differs', cid, '%s impl=%s model=%s' % (pt, dump(io)[:120], dump(mo)[:120])))
        if pt == 'o1':
            for r in io[1:]:
                if tag(r) == 'perr':
                    nlines = texts.get(r[1], '').count('\n') + 1
                    if not (1 <= r[2] <= nlines + 1):
                        fs.append(Finding('O', 'C12/parse-error-position-outside-file', cid, dump(r)))
        if pt == 'o3' and t == 'err' and texts:
            msg = io[1] if len(io) > 1 and isinstance(io[1], str) else ''
            if msg.startswith('failed to parse'):
                import re
                m = re.match(r'failed to parse <in>/(.+?):(\d+):(\d+)', msg)
                if not m:
                    fs.append(Finding('O', 'C12/parse-error-without-position', cid, msg[:200]))
                else:
                    f_, l_, c_ = m.group(1), int(m.group(2)), int(m.group(3))
                    ja = find(c, 'junk-at')
                    if ja is not None and (l_, c_) != (ja[1], ja[2]):
                        fs.append(Finding('O', 'C12/parse-error-position-not-at-the-offending-token', cid, 'the `$` is at %d:%d, the build says %d:%d' % (ja[1], ja[2], l_, c_)))
                    if f_ not in texts or not (1 <= l_ <= texts[f_].count('\n') + 2):
                        fs.append(Finding('O', 'C12/parse-error-position-outside-file', cid, msg[:200]))
                    else:
                        # the position in the message is the parser's own (O1: line, 0-based column) with the column made 1-based
                        o1 = impl.get('o1')
                        pe = [r for r in (o1[1:] if isinstance(o1, list) else []) if tag(r) == 'perr' and r[1] == f_]
                        count(info, 'position-cross-checked' if pe else 'position-not-cross-checked')
                        if pe and (pe[0][2], pe[0][3] + 1) != (l_, c_):
                            fs.append(Finding('O', 'C12/parse-error-position-differs-from-parser', cid, 'build says %d:%d, the parser reports line %d, column %d (0-based)' % (l_, c_, pe[0][2], pe[0][3])))
                        lines_ = texts[f_].split('\n')
                        if c_ < 1 or (l_ <= len(lines_) and c_ > len(lines_[l_ - 1]) + 2):
                            fs.append(Finding('O', 'C12/parse-error-column-outside-line', cid, msg[:200]))
                info['nontrivial'] = info.get('nontrivial', False)
    if find(c, 'junk-at') is not None and outcome_class(impl.get('o3')) == 'ok':
        fs.append(Finding('O', 'C12/impossible-token-accepted', cid, ''))
    o2 = impl.get('o2')
    if tag(o2) == 'resolved' and len(find(o2, 'items')) - 1 >= 2:
        info['nontrivial'] = True
    if tag(o2) == 'err' and 'failed to parse' not in dump(o2):
        info['nontrivial'] = True
    return fs, info
