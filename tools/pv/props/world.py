"""Shared pieces of the world-based checks (O2 / O3 on multi-module descriptions): accessors for the
input AST and for the canonical observations, the correspondence comparison, perturbations."""
import copy
from ..sexp import Sym, S, tag, find, find_all, opt, dump
from .. import sexp, canon, gen
from ..ast import *
from ..core import Finding, outcome_class

# ------------------------------------------------------------------ input AST accessors

def modules_of(c):
    """[(path list, file, m sexp)] of the AST modules of a case"""
    out = []
    for me in find(c, 'modules')[1:]:
        if tag(me) == 'module':
            out.append((list(me[1][1:]), me[2], me[3]))
    return out

def m_attrs(m): return m[1][1:]
def m_uses(m): return [list(u[1:]) for u in m[2][1:]]
def m_xtypes(m): return m[3][1:]
def m_xvals(m): return m[4][1:]
def m_defs(m): return m[5][1:]
def m_impls(m): return m[6][1:]
def m_backends(m): return m[7][1:]

def def_is_type(d): return tag(d[3]) == 'type'
def def_name(d): return d[2]
def def_pub(d): return d[1] == 'pub'
def type_attrs(d): return d[3][1][1:]
def type_stmts(d): return d[3][2:]
def enum_base(d): return d[3][1]
def enum_attrs(d): return d[3][2][1:]
def enum_stmts(d): return d[3][3:]

def stmt_is_field(s): return tag(s) == 'field'
def fn_name(f): return f[2]
def fn_pub(f): return f[1] == 'pub'
def fn_attrs(f): return f[3][1:]
def fn_args(f): return f[4][1:]
def fn_ret(f): return opt(f[5])

INT_ATTRS = ('size', 'align', 'address', 'index', 'singleton')
STR_ATTRS = ('calling_convention',)

def attr_fn(attrs, name):
    """the value of the LAST `name(x)` attribute whose single argument is a literal of the kind pyxis reads for that name
    (an integer for size / align / address / index / singleton, a string for calling_convention); anything else – no
    argument, several arguments, a literal of the other kind – is ignored by pyxis and therefore here; None if there is none"""
    want = ('int',) if name in INT_ATTRS else ('str',) if name in STR_ATTRS else ('int', 'str')
    val = None
    for a in attrs:
        if tag(a) == 'af' and a[1] == name and len(a) == 3 and tag(a[2]) in want:
            val = a[2][1]
    return val

def has_ident(attrs, name):
    return any(tag(a) == 'ai' and a[1] == name for a in attrs)

def doc_lines(attrs):
    return [a[2][1] for a in attrs if tag(a) == 'aa' and a[1] == 'doc' and tag(a[2]) == 'str']

def has_self(f):
    return any(isinstance(a, Sym) for a in fn_args(f))

# ------------------------------------------------------------------ observation accessors

def o3_files(obs):
    """{rel path: [items]} of a canonical (files ...) observation"""
    if tag(obs) != 'files':
        return None
    out = {}
    for f in obs[1:]:
        out[f[1]] = f[2:] if tag(f[2]) == 'inner' else None
    return out

def file_items(files, modpath):
    return files.get('/'.join(modpath) + '.rs')

def find_item(items, kind, name):
    for it in items or []:
        if tag(it) == kind:
            if kind in ('struct', 'enum'):
                if it[5] == name:
                    return it
            elif kind == 'conflict':
                if it[1] == name:
                    return it
            else:
                if it[1] == name:
                    return it
    return None

def find_items(items, kind, name=None):
    out = []
    for it in items or []:
        if tag(it) == kind:
            nm = it[5] if kind in ('struct', 'enum') else it[1]
            if name is None or nm == name:
                out.append(it)
    return out

def struct_fields(st):
    """[(name, vis, ty, docs)]"""
    return [(f[3], str(f[2]), f[4], list(find(f, 'docs')[1:])) for f in st[6:]]

def impl_methods(im):
    return [x for x in im[3:] if tag(x) == 'method']

def method_name(m): return m[3]
def method_body(m): return m[-1]

# ------------------------------------------------------------------ correspondence

def k_compare(prop, c, impl, model, points=('o2', 'o3'), project=None):
    """model vs implementation on the canonical observations (or a projection of them)"""
    fs = []
    cid = c[1]
    for pt in points:
        io, mo = impl.get(pt), model.get(pt)
        if io is None or mo is None:
            fs.append(Finding('K', prop + '/no-observation', cid, pt)); continue
        if tag(io) == 'unavailable':
            continue          # surface mode: the harness could not be built against pyxis's internals
        if pt == 'o2':
            a, b = canon.canon_o2(io), canon.canon_o2(mo)
        else:
            a, b = canon.canon_o3(io, 'impl'), canon.canon_o3(mo, 'model')
        if project is not None:
            a, b = project(pt, a), project(pt, b)
        if a != b:
            fs.append(Finding('K', '%s/%s-differs' % (prop, pt), cid, canon.first_diff(a, b) or ''))
    return fs

# ------------------------------------------------------------------ perturbations

def all_nodes(x, pathp=()):
    """yields (path, node) for every list node"""
    if isinstance(x, list):
        yield pathp, x
        for i, y in enumerate(x):
            yield from all_nodes(y, pathp + (i,))

def replace_at(x, pathp, new):
    if not pathp:
        return new
    y = list(x)
    y[pathp[0]] = replace_at(x[pathp[0]], pathp[1:], new)
    return y

def perturb_int(rng, c, heads=('int',), deltas=(-1, 1, 2, 4, 8, -4)):
    """change one integer literal of the case by a small amount (just inside / just outside)"""
    cands = [(p, n) for p, n in all_nodes(c) if tag(n) in heads and len(n) == 2 and isinstance(n[1], int)]
    if not cands:
        return c
    p, n = rng.choice(cands)
    v = max(0, n[1] + rng.choice(deltas)) if tag(n) != 'int' else max(-(1 << 63), min((1 << 63) - 1, n[1] + rng.choice(deltas)))
    return replace_at(c, p, [n[0], v])

def std_worlds(rng, n, opts=None, prefix='w', perturb=0.0, ps_choices=(4, 8)):
    out = []
    for i in range(n):
        c = gen.world(rng, '%s%d' % (prefix, i), ps=rng.choice(ps_choices), opts=opts)
        if perturb and rng.random() < perturb:
            c = perturb_int(rng, c)
            c[1] = c[1] + 'p'
        out.append(c)
    return out

def count(info, key):
    info.setdefault('dist', []).append(key)

# ------------------------------------------------------------------ scoping rule (C11) for use by other oracles

BUILTIN_NAMES = ['u8', 'u16', 'u32', 'u64', 'u128', 'i8', 'i16', 'i32', 'i64', 'i128', 'bool', 'f32', 'f64', 'void']

def binder(c, own):
    """-> bind(name) -> path list | None: the five-step precedence of the scoping rule, computed from the input
    (last by-name import, built-in, own module, module imports in order); None also when the own module path is itself
    a type path (open finding C11/…/module-path-is-type-path) so that callers skip the comparison"""
    names = {}
    mods = {}
    for (mp, file, m) in modules_of(c):
        mods[tuple(mp)] = m
        ns = set(xt[1] for xt in m_xtypes(m))
        for d in m_defs(m):
            ns.add(def_name(d))
            if def_is_type(d) and any(tag(st) == 'vftable' for st in type_stmts(d)):
                ns.add(def_name(d) + 'Vftable')
        names[tuple(mp)] = ns
    own = list(own)
    uses = m_uses(mods[tuple(own)])
    def is_type(pth):
        return len(pth) >= 1 and pth[-1] in names.get(tuple(pth[:-1]), ())
    if is_type(own):
        return lambda name: None
    def bind(name):
        hit = [u for u in uses if is_type(u) and u[-1] == name]
        if hit: return list(hit[-1])
        if name in BUILTIN_NAMES: return [name]
        if name in names.get(tuple(own), ()): return own + [name]
        for mu in uses:
            if not is_type(mu) and name in names.get(tuple(mu), ()):
                return list(mu) + [name]
        return None
    return bind

def must_reject_findings(prop, c, impl):
    """hand-made invalid descriptions carry `(must-reject)`: accepting one is a violation of the property that owns the check"""
    if find(c, 'must-reject') is not None and outcome_class(impl.get('o3')) == 'ok':
        return [Finding('O', prop + '/invalid-description-accepted', c[1], '')]
    return []
