"""C17 – visibility, derives, packing and documentation are carried over faithfully."""
from .world import *

ID = 'C17'
POINTS = ['o2', 'o3']
MODEL_POINTS = ['o2', 'o3']
RULE = ("worlds with every combination of pub/private on types, enums, fields, wrappers, vftable functions and extern values, "
        "every subset of copyable/cloneable/defaultable/packed, and doc comments of 0-4 lines (including empty first / last "
        "lines) on modules, types, enums, fields, functions. The clause table of the property is evaluated on the "
        "implementation's emitted items against the input. non-trivial = accepted with at least 5 clause instances checked "
        "and at least one doc comment present; distinct by case text")
ASSUMPTIONS = ["doc lines are single lines (no embedded newline); enum variant docs are not part of the property"]

DOCS = ['', ' first', ' second line', '  indented', ' with "quotes"', ' back\\slash', '']

def generate(rng, tier):
    n = 300 if tier == 'quick' else 6000
    o = gen.Opts(p_doc=0.6, p_priv=0.4, p_flags=0.5, p_packed=0.15, p_vftable=0.4, p_impl=0.5, p_base=0.4,
                 p_extern_val=0.5, p_backend=0.0, max_modules=2, max_items=5, max_fields=4, p_underscore=0.2)
    out = []
    for i in range(n):
        c = gen.world(rng, 'w%d' % i, opts=o)
        # sprinkle empty doc lines: replace some doc strings
        cands = [(p, nd) for p, nd in all_nodes(c) if tag(nd) == 'aa' and nd[1] == 'doc']
        for (p, nd) in cands:
            if rng.random() < 0.25:
                c = replace_at(c, p, [nd[0], nd[1], e_str(rng.choice(DOCS))])
        out.append(c)
    # name clashes between bases, so that inherited copies get renamed (with their docs)
    from .c07 import clash_worlds
    o2 = gen.Opts(p_doc=0.8, p_base=0.8, p_impl=0.8, p_vftable=0.3, p_enum=0.0, p_backend=0.0, p_extern_val=0.0, p_priv=0.2,
                  max_modules=2, max_items=6, max_fields=2, p_packed=0.0)
    out += clash_worlds(rng, n // 4, o2)
    # attributes a site does not interpret, and what the derive flags demand of the fields
    from . import rare
    out += rare.derive_cases()
    for i in range(n // 5):
        c = rare.add_noise(rng, gen.world(rng, 'noise%d' % i, opts=o))
        out.append(c)
    return out

def spec_derives(attrs, is_enum):
    d = ['PartialEq', 'Eq', 'PartialOrd', 'Ord', 'Debug'] if is_enum else []
    if has_ident(attrs, 'copyable'): d.append('Copy')
    if has_ident(attrs, 'copyable') or has_ident(attrs, 'cloneable'): d.append('Clone')
    if has_ident(attrs, 'defaultable'): d.append('Default')
    return d

def judge(c, impl, model):
    cid = c[1]
    info = {'dist': []}
    fs = k_compare(ID, c, impl, model)
    fs += must_reject_findings(ID, c, impl)
    cls = outcome_class(impl.get('o3'))
    count(info, 'impl-' + cls)
    if cls != 'ok':
        return fs, info
    files = o3_files(canon.canon_o3(impl['o3'], 'impl'))
    seen = set()
    def report(reason, detail):
        if reason not in seen:
            seen.add(reason); fs.append(Finding('O', reason, cid, detail))
    n = 0
    anydoc = False
    def vis_s(pub): return 'pub' if pub else 'priv'
    for (mp, file, m) in modules_of(c):
        items = file_items(files, mp)
        if items is None:
            report('C17/file-missing', '/'.join(mp)); continue
        inner = [x[1] for x in items[0][1:] if tag(x) == 'doc'] if tag(items[0]) == 'inner' else None
        mdocs = doc_lines(m_attrs(m))
        n += 1
        if inner != mdocs:
            report('C17/module-doc', '%s: written %s, emitted %s' % ('/'.join(mp), mdocs, inner))
        anydoc = anydoc or bool(mdocs)
        impl_fns = {}
        for im in m_impls(m):
            impl_fns.setdefault(im[1], []).extend(im[3:])
        for d in m_defs(m):
            name = def_name(d)
            if def_is_type(d):
                st = find_item(items, 'struct', name)
                if st is None: report('C17/item-missing', name); continue
                at = type_attrs(d)
                n += 4
                if str(st[4]) != vis_s(def_pub(d)): report('C17/type-visibility', name)
                if list(find(st, 'derives')[1:]) != spec_derives(at, False):
                    report('C17/derives', '%s: %s vs %s' % (name, list(find(st, 'derives')[1:]), spec_derives(at, False)))
                reprs = list(find(st, 'repr')[1:])
                if has_ident(at, 'packed'):
                    if reprs != ['C', 'packed']: report('C17/packed-repr', '%s: %s' % (name, reprs))
                elif len(reprs) != 2 or reprs[0] != 'C' or not reprs[1].startswith('align('):
                    report('C17/repr', '%s: %s' % (name, reprs))
                if list(find(st, 'docs')[1:]) != doc_lines(at):
                    report('C17/type-doc', '%s: written %s, emitted %s' % (name, doc_lines(at), list(find(st, 'docs')[1:])))
                anydoc = anydoc or bool(doc_lines(at))
                declared = {}
                vfns = []
                for stt in type_stmts(d):
                    if stmt_is_field(stt):
                        if stt[2] != '_': declared[stt[2]] = stt
                    else:
                        vfns = stt[2:]
                for (fname, fvis, fty, fdocs) in struct_fields(st):
                    n += 1
                    if fname in declared:
                        stt = declared[fname]
                        if fvis != vis_s(stt[1] == 'pub'): report('C17/field-visibility', '%s.%s' % (name, fname))
                        if fdocs != doc_lines(stt[4][1:]):
                            report('C17/field-doc', '%s.%s: written %s, emitted %s' % (name, fname, doc_lines(stt[4][1:]), fdocs))
                        anydoc = anydoc or bool(fdocs)
                    else:
                        # generated: padding or the vftable pointer
                        if fvis != 'priv': report('C17/generated-field-public', '%s.%s' % (name, fname))
                        if fdocs: report('C17/doc-on-generated-field', '%s.%s' % (name, fname))
                im = find_item(items, 'impl', name)
                methods = {method_name(x): x for x in impl_methods(im)} if im is not None else {}
                for f in list(vfns) + impl_fns.get(name, []):
                    if fn_name(f).startswith('_'): continue
                    mt = methods.get(fn_name(f))
                    if mt is None: continue
                    n += 2
                    if str(mt[2]) != vis_s(fn_pub(f)): report('C17/method-visibility', '%s::%s' % (name, fn_name(f)))
                    if list(find(mt, 'docs')[1:]) != doc_lines(fn_attrs(f)):
                        report('C17/method-doc', '%s::%s: written %s, emitted %s' % (name, fn_name(f), doc_lines(fn_attrs(f)), list(find(mt, 'docs')[1:])))
                    anydoc = anydoc or bool(doc_lines(fn_attrs(f)))
                # copies inherited from bases keep the documentation (and visibility) of the original
                base_of = {stt[2]: stt[3][1] for stt in type_stmts(d) if stmt_is_field(stt) and has_ident(stt[4][1:], 'base') and tag(stt[3]) == 'id'}
                for mt in impl_methods(im) if im is not None else []:
                    body = method_body(mt)
                    if tag(body) != 'call-field' or body[1] not in base_of:
                        continue
                    bim = None
                    for its in files.values():
                        bim = bim or find_item(its, 'impl', base_of[body[1]])
                    orig = [x for x in impl_methods(bim) if method_name(x) == body[2]] if bim is not None else []
                    if len(orig) == 1:
                        n += 1
                        if list(find(mt, 'docs')[1:]) != list(find(orig[0], 'docs')[1:]):
                            report('C17/inherited-copy-doc', '%s::%s: base has %s, copy has %s' % (name, method_name(mt), list(find(orig[0], 'docs')[1:]), list(find(mt, 'docs')[1:])))
                        anydoc = anydoc or bool(find(orig[0], 'docs')[1:])
                if vfns:
                    vs = find_item(items, 'struct', name + 'Vftable')
                    if vs is not None:
                        slots = {f[0]: f for f in struct_fields(vs)}
                        if str(vs[4]) != vis_s(def_pub(d)): report('C17/vftable-struct-visibility', name)
                        for f in vfns:
                            sl = slots.get(fn_name(f))
                            if sl is None: continue
                            n += 2
                            if sl[1] != vis_s(fn_pub(f)): report('C17/slot-visibility', '%s.%s' % (name, fn_name(f)))
                            if sl[3] != doc_lines(fn_attrs(f)): report('C17/slot-doc', '%s.%s' % (name, fn_name(f)))
                        for sn, sl in slots.items():
                            if sn.startswith('_vfunc_'):
                                n += 1
                                if sl[1] != 'priv' or sl[3]: report('C17/placeholder-slot', '%s.%s' % (name, sn))
            else:
                en = find_item(items, 'enum', name)
                if en is None: report('C17/item-missing', name); continue
                at = enum_attrs(d)
                n += 3
                if str(en[4]) != vis_s(def_pub(d)): report('C17/enum-visibility', name)
                if list(find(en, 'derives')[1:]) != spec_derives(at, True):
                    report('C17/derives', '%s: %s' % (name, list(find(en, 'derives')[1:])))
                if list(find(en, 'docs')[1:]) != doc_lines(at):
                    report('C17/enum-doc', '%s: written %s, emitted %s' % (name, doc_lines(at), list(find(en, 'docs')[1:])))
                anydoc = anydoc or bool(doc_lines(at))
        for xv in m_xvals(m):
            acc = find_item(items, 'xaccessor', None)
            for it in items:
                if tag(it) == 'xaccessor' and it[2] == 'get_' + xv[2]:
                    n += 1
                    if str(it[1]) != vis_s(xv[1] == 'pub'): report('C17/accessor-visibility', xv[2])
    if n >= 5 and anydoc:
        info['nontrivial'] = True
    count(info, 'clauses:%s' % ('<5' if n < 5 else '5-19' if n < 20 else '20+'))
    return fs, info
