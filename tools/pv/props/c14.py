"""C14 – every declared item is emitted exactly once, in the file of its module."""
from .world import *

ID = 'C14'
POINTS = ['o3']
MODEL_POINTS = ['o3']
RULE = ("1-4 modules in nested directories (also modules with no items, file stems containing a dot), several backend blocks "
        "per module (rust and other backends, prologue and/or epilogue), extern types and values; a second stream adds a "
        "duplicate definition or a user type named like a generated vftable struct and must be rejected. Checked on the "
        "implementation: the set of output files, and per file the multiset of emitted structs / enums / accessors against "
        "the declarations, prologue first and epilogue last with exactly the rust blocks' text. non-trivial = accepted with "
        ">= 2 files or >= 4 items accounted for, or a rejected collision; distinct by case text")
ASSUMPTIONS = ["prologue / epilogue text is compared up to whitespace (it passes through prettyplease)"]

def generate(rng, tier):
    n = 300 if tier == 'quick' else 6000
    o = gen.Opts(p_backend=0.7, p_extern_val=0.5, p_extern_type=0.5, p_vftable=0.4, p_enum=0.3, max_modules=4, max_items=4,
                 max_fields=3, p_impl=0.2)
    out = []
    for i in range(n):
        c = gen.world(rng, 'w%d' % i, opts=o)
        r = rng.random()
        if r < 0.12:
            c = add_collision(rng, c)
        elif r < 0.2:
            c = add_case_twin(rng, c)
        elif r < 0.28:
            c = c[:4] + [c[4] + [modent(path('e%d' % i, 'empty.x' if rng.random() < 0.5 else 'empty'), module())]] + c[5:]
        out.append(c)
    out += hyphen_cases(rng, max(3, n // 60))
    return out

def hyphen_cases(rng, n):
    """two files whose names differ only in `-` / `_` (`my-types.pyxis`, `my_types.pyxis`) are two modules with two output files"""
    out = []
    for i in range(n):
        a = modent(path('my-types%d' % i), module(defs=[type_def(True, 'Alpha', [], [field(True, 'x', ty_id('u32'))])]))
        b = modent(path('my_types%d' % i), module(defs=[type_def(True, 'Beta', [], [field(True, 'y', ty_id('u64'))])]))
        c_ = modent(path('pkg', 'a-b'), module(defs=[type_def(True, 'Gamma', [], [field(True, 'z', ty_id('u16'))])]))
        ents = [a, b] + ([c_] if i % 2 else [])
        rng.shuffle(ents)
        out.append(case('hyphen%d' % i, rng.choice([4, 8]), ents))
    return out

def add_case_twin(rng, c):
    """adds to one module an item whose name differs from an existing item's only by letter case (`T3` / `t3`): two distinct
    items, both emitted, in an order that is a function of the input alone"""
    mods = [(p, nd) for p, nd in all_nodes(c) if tag(nd) == 'm' and nd[5][1:]]
    rng.shuffle(mods)
    for p, m in mods:
        defs = m[5][1:]
        taken = set(d[2] for d in defs)
        cands = [d[2] for d in defs if d[2].swapcase() not in taken and d[2].swapcase() != d[2]]
        if not cands: continue
        nm = rng.choice(cands)
        tw = nm.lower() if nm.lower() != nm and nm.lower() not in taken and rng.random() < 0.5 else nm.swapcase()
        extra = (type_def(True, tw, [], [field(True, 'tw', ty_id('u32'))]) if rng.random() < 0.6
                 else enum_def(True, tw, ty_id('u8'), [], [enum_stmt('A', None, []), enum_stmt('B', None, [])]))
        pos = rng.randrange(len(defs) + 1)
        m2 = list(m); m2[5] = [m[5][0]] + defs[:pos] + [extra] + defs[pos:]
        c2 = replace_at(c, p, m2)
        c2[1] += '-twin'
        me = c2[4][p[1]]
        if tag(me) == 'module':
            c2[3] = c2[3] + [path(*(list(me[1][1:]) + [tw]))]
        return c2
    return c

def add_collision(rng, c):
    mods = [(p, nd) for p, nd in all_nodes(c) if tag(nd) == 'm']
    rng.shuffle(mods)
    for p, m in mods:
        defs = m[5][1:]
        tys = [d for d in defs if tag(d[3]) == 'type']
        if not defs:
            continue
        kind = rng.choice(['dup', 'vft', 'vft', 'vft', 'xt'])
        if kind == 'vft':
            withv = [d for d in tys if any(tag(s) == 'vftable' for s in d[3][2:])]
            if not withv: kind = 'dup'
            else:
                extra = type_def(True, withv[0][2] + 'Vftable', [], [field(True, 'zz', ty_id('u32'))])
        if kind == 'dup':
            d = rng.choice(defs)
            extra = type_def(True, d[2], [], [field(True, 'dup', ty_id('u16'))])
        if kind == 'xt':
            d = rng.choice(defs)
            m2 = list(m); m2[3] = m[3] + [xtype(d[2], [a_int('size', 4), a_int('align', 4)])]
            c2 = replace_at(c, p, m2)
            c2[1] += '-xt'
            return c2 + [[S('expect'), 'reject-collision']]
        pos = rng.randrange(len(defs) + 1)
        m2 = list(m); m2[5] = [m[5][0]] + defs[:pos] + [extra] + defs[pos:]
        c2 = replace_at(c, p, m2)
        c2[1] += '-' + kind
        if kind == 'vft' and rng.random() < 0.6:
            # attempt (and resolve) the user's `<T>Vftable` BEFORE its namesake's owner: the clash must be found in this order too
            me = c2[4][p[1]]
            if tag(me) == 'module':
                c2[3] = [S('prio'), path(*(list(me[1][1:]) + [extra[2]]))] + [q for q in c2[3][1:]]
        return c2 + [[S('expect'), 'reject-collision']]
    return c

def judge(c, impl, model):
    cid = c[1]
    info = {'dist': []}
    fs = k_compare(ID, c, impl, model, points=('o3',))
    cls = outcome_class(impl.get('o3'))
    count(info, 'impl-' + cls)
    if find(c, 'expect') is not None:
        count(info, 'collision')
        if cls == 'ok':
            fs.append(Finding('O', 'C14/duplicate-definition-accepted', cid, cid.split('-')[-1]))
        else:
            info['nontrivial'] = True
        return fs, info
    if cls != 'ok':
        return fs, info
    files = o3_files(canon.canon_o3(impl['o3'], 'impl'))
    seen = set()
    def report(reason, detail):
        if reason not in seen:
            seen.add(reason); fs.append(Finding('O', reason, cid, detail))
    mods = modules_of(c)
    want_files = sorted('/'.join(mp) + '.rs' for (mp, f, m) in mods)
    if sorted(files) != want_files:
        report('C14/file-set', 'emitted %s, expected %s' % (sorted(files), want_files))
    accounted = 0
    for (mp, file, m) in mods:
        items = files.get('/'.join(mp) + '.rs')
        if items is None:
            continue
        want = []
        for d in m_defs(m):
            if def_is_type(d):
                want.append(('struct', def_name(d)))
                if any(tag(s) == 'vftable' for s in type_stmts(d)):
                    want.append(('struct', def_name(d) + 'Vftable'))
            else:
                want.append(('enum', def_name(d)))
        got = [(tag(it), it[5]) for it in items if tag(it) in ('struct', 'enum')]
        accounted += len(got)
        if sorted(got) != sorted(want):
            report('C14/items', '%s: emitted %s, declared %s' % ('/'.join(mp), sorted(got), sorted(want)))
        elif [g for g in got] != sorted(want, key=lambda x: x[1]):
            # emitted in path order
            if [g[1] for g in got] != sorted(g[1] for g in got):
                report('C14/item-order', '%s: %s' % ('/'.join(mp), got))
        gotx = sorted(it[2] for it in items if tag(it) == 'xaccessor')
        wantx = sorted('get_' + xv[2] for xv in m_xvals(m))
        if gotx != wantx:
            report('C14/accessors', '%s: emitted %s, declared %s' % ('/'.join(mp), gotx, wantx))
        accounted += len(gotx)
        # prologue first, epilogue last, rust only
        rust = [b for b in m_backends(m) if b[1] == 'rust']
        pro = canon.despace('\n'.join(opt(b[2]) for b in rust if opt(b[2]) is not None))
        epi = canon.despace('\n'.join(opt(b[3]) for b in rust if opt(b[3]) is not None))
        body = [it for it in items if tag(it) != 'inner']
        opaque = [(i, it[1]) for i, it in enumerate(body) if tag(it) == 'opaque']
        text = ''.join(t for _, t in opaque)
        nonopaque = [i for i, it in enumerate(body) if tag(it) != 'opaque']
        if nonopaque:
            first = ''.join(t for i, t in opaque if i < nonopaque[0])
            last = ''.join(t for i, t in opaque if i > nonopaque[-1])
            mid = [i for i, t in opaque if nonopaque[0] < i < nonopaque[-1]]
            if first != pro or last != epi or mid:
                report('C14/prologue-epilogue', '%s: prologue %r vs %r, epilogue %r vs %r' % ('/'.join(mp), first[:60], pro[:60], last[:60], epi[:60]))
        elif text != pro + epi:
            report('C14/prologue-epilogue', '%s: %r vs %r' % ('/'.join(mp), text[:80], (pro + epi)[:80]))
    if len(files) >= 2 or accounted >= 4:
        info['nontrivial'] = True
    count(info, 'files:%d' % min(len(files), 4))
    return fs, info
