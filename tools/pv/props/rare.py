"""Hand-made inputs for branches of pyxis that the world generator never reaches (found with tools/coverage.py):
input validation of attribute placement, `#[base]` on non-struct fields, `defaultable` violations, and attributes that the
site they are written on ignores.  They are added to the streams of the properties they belong to; the correspondence (K)
then covers those branches of the model as well."""
from .world import *

u32, u64, u8 = ty_id('u32'), ty_id('u64'), ty_id('u8')

def _one(cid, mod, ps=4, extras=()):
    return case(cid, ps, [modent(path('m'), mod)], extras=extras)

def vfunc(name='f', at=(), args=(SELF,), ret=None, pub=True):
    return fn(pub, name, list(at), list(args), ret)

def afn(name, addr, at=(), args=(SELF,), ret=None):
    return fn(True, name, [a_int('address', addr)] + list(at), list(args), ret)

def vftable_cases():
    """C04 / C06: where a vftable block and its attributes may stand"""
    T = lambda stmts, at=(): type_def(True, 'T', list(at), stmts)
    out = []
    out.append(_one('rare-vftable-second', module(defs=[T([field(True, 'a', u32), vftable([], [vfunc()])])]), extras=[[S('must-reject')]]))
    out.append(_one('rare-vftable-twice', module(defs=[T([vftable([], [vfunc('f')]), vftable([], [vfunc('g')])])]), extras=[[S('must-reject')]]))
    out.append(_one('rare-address-on-vfunc', module(defs=[T([vftable([], [vfunc('f', [a_int('address', 4096)])])])]), extras=[[S('must-reject')]]))
    out.append(_one('rare-index-str', module(defs=[T([vftable([], [vfunc('f', [a_fn('index', e_str('1'))]), vfunc('g')])])])))
    out.append(_one('rare-index-two-args', module(defs=[T([vftable([], [vfunc('f', [a_fn('index', e_int(1), e_int(2))]), vfunc('g')])])])))
    out.append(_one('rare-size-str-on-vftable', module(defs=[T([vftable([a_fn('size', e_str('4'))], [vfunc('f')])])])))
    out.append(_one('rare-cc-int', module(defs=[T([vftable([], [vfunc('f', [a_fn('calling_convention', e_int(3))])])])])))
    out.append(_one('rare-doc-on-vftable', module(defs=[T([vftable([a_doc(' table'), a_ident('foo')], [vfunc('f', [a_doc(' fn'), a_ident('bar'), a_assign('k', e_int(1))])])])])))
    return out

def impl_cases():
    """C05: attributes of impl functions"""
    T = type_def(True, 'T', [], [field(True, 'a', u32)])
    out = []
    out.append(_one('rare-index-on-impl-fn', module(defs=[T], impls=[impl('T', [], [afn('f', 4096, [a_int('index', 1)])])]), extras=[[S('must-reject')]]))
    out.append(_one('rare-address-str', module(defs=[T], impls=[impl('T', [], [fn(True, 'f', [a_fn('address', e_str('4096'))], [SELF], None)])]), extras=[[S('must-reject')]]))
    out.append(_one('rare-address-two', module(defs=[T], impls=[impl('T', [], [fn(True, 'f', [a_fn('address', e_int(1), e_int(2))], [SELF], None)])]), extras=[[S('must-reject')]]))
    out.append(_one('rare-address-twice', module(defs=[T], impls=[impl('T', [], [fn(True, 'f', [a_int('address', 4096), a_int('address', 8192)], [SELF], None)])])))
    out.append(_one('rare-noise-on-impl-fn', module(defs=[T], impls=[impl('T', [a_ident('foo'), a_doc(' impl doc')], [afn('f', 4096, [a_ident('bar'), a_assign('k', e_str('v')), a_fn('multi', e_int(1), e_int(2))])])])))
    return out

def base_cases():
    """C07: `#[base]` on fields that are not structs"""
    E = enum_def(True, 'E', u32, [], [enum_stmt('A')])
    B = type_def(True, 'B', [], [field(True, 'x', u32)])
    D = lambda t: type_def(True, 'D', [], [field(True, 'b', t, [a_ident('base')])])
    out = []
    out.append(_one('rare-base-pointer', module(defs=[B, D(ty_cptr(ty_id('B')))]), extras=[[S('must-reject')]]))
    out.append(_one('rare-base-array', module(defs=[B, D(ty_arr(ty_id('B'), 2))]), extras=[[S('must-reject')]]))
    out.append(_one('rare-base-enum', module(defs=[E, D(ty_id('E'))]), extras=[[S('must-reject')]]))
    # a primitive or an extern type as base is accepted (their registry entries are (empty) type definitions): nothing to inject
    out.append(_one('rare-base-primitive', module(defs=[D(u32)])))
    out.append(_one('rare-base-extern', module(xtypes=[xtype('X', [a_int('size', 4), a_int('align', 4)])], defs=[D(ty_id('X'))])))
    out.append(_one('rare-base-unknown', module(defs=[D(ty_unk(4))]), extras=[[S('must-reject')]]))
    return out

def derive_cases():
    """C17 / C13: what `defaultable` / `copyable` demand of the fields"""
    P = type_def(True, 'P', [], [field(True, 'x', u32)])                       # not defaultable, not copyable
    Q = type_def(True, 'Q', [a_ident('defaultable'), a_ident('copyable')], [field(True, 'x', u32)])
    E = enum_def(True, 'E', u32, [a_ident('defaultable')], [enum_stmt('A', None, [a_ident('default')])])
    E0 = enum_def(True, 'F', u32, [], [enum_stmt('A')])
    D = lambda at, t, extra=(): type_def(True, 'D', [a_ident(a) for a in at], [field(True, 'f', t)] + list(extra))
    out = []
    out.append(_one('rare-default-pointer', module(defs=[P, D(['defaultable'], ty_cptr(ty_id('P')))]), extras=[[S('must-reject')]]))
    out.append(_one('rare-default-nondefault-type', module(defs=[P, D(['defaultable'], ty_id('P'))]), extras=[[S('must-reject')]]))
    out.append(_one('rare-default-array-of-nondefault', module(defs=[P, D(['defaultable'], ty_arr(ty_id('P'), 2))]), extras=[[S('must-reject')]]))
    out.append(_one('rare-default-ok', module(defs=[Q, E, D(['defaultable'], ty_id('Q'), [field(True, 'e', ty_id('E')), field(True, 'a', ty_arr(ty_id('Q'), 2))])])))
    out.append(_one('rare-default-enum-without-default', module(defs=[E0, D(['defaultable'], ty_id('F'))]), extras=[[S('must-reject')]]))
    out.append(_one('rare-default-enum-two-defaults', module(defs=[enum_def(True, 'G', u32, [a_ident('defaultable')],
        [enum_stmt('A', None, [a_ident('default')]), enum_stmt('B', None, [a_ident('default')])])]), extras=[[S('must-reject')]]))
    out.append(_one('rare-default-marker-without-flag', module(defs=[enum_def(True, 'G', u32, [], [enum_stmt('A', None, [a_ident('default')])])]), extras=[[S('must-reject')]]))
    out.append(_one('rare-copy-of-noncopy', module(defs=[P, D(['copyable'], ty_id('P'))])))
    out.append(_one('rare-default-vftable', module(defs=[type_def(True, 'V', [a_ident('defaultable')], [vftable([], [vfunc()])])]), extras=[[S('must-reject')]]))
    return out

NOISE = [lambda: a_ident('foo'), lambda: a_assign('key', e_int(3)), lambda: a_assign('name', e_str('v')), lambda: a_fn('multi', e_int(1), e_int(2)),
         lambda: a_fn('size', e_str('8')), lambda: a_fn('align'), lambda: a_fn('address', e_int(1), e_int(2)), lambda: a_fn('singleton', e_str('x')),
         lambda: a_fn('index', e_ident('k')), lambda: a_ident('base'), lambda: a_ident('default'), lambda: a_ident('packed0')]

def add_noise(rng, c, p=0.25):
    """attributes that the place they are written on does not interpret (wrong shape, wrong place, unknown name) – the build
    must treat the description exactly as without them (a few of them ARE meaningful where they land, e.g. `base` on a field:
    both sides see the same input, so the correspondence still applies)"""
    for pth, nd in list(all_nodes(c)):
        if tag(nd) == 'attrs' and rng.random() < p:
            k = rng.randrange(len(nd))
            c = replace_at(c, pth, nd[:k + 1] + [rng.choice(NOISE)()] + nd[k + 1:])
    return c
