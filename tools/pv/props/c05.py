"""C05 – address-bound wrappers call the declared address with the declared signature (emitted shape)."""
from .world import *

ID = 'C05'
POINTS = ['o2', 'o3']
MODEL_POINTS = ['o2', 'o3']
RULE = ("worlds rich in impl blocks (0-6 integer / pointer / array-pointer arguments, with and without receiver and return "
        "type, one or several impl blocks per type, functions named with a leading underscore), plus streams that drop the "
        "address, make it negative, or replace a parameter or return type by an undefined name. Checked on the implementation: "
        "every declared function has exactly one wrapper whose transmuted literal is the declared address, whose function "
        "pointer type has the receiver pointer (iff declared) followed by the declared parameters in order, whose call passes "
        "them in that order, and whose return type is the declared one. non-trivial = accepted with >= 2 wrappers checked, or "
        "rejected for one of the listed reasons; distinct by case text")
ASSUMPTIONS = ["run-time behaviour of a wrapper is observed through its emitted shape (O4 execution only in the thorough tier)"]
PRIMS = ['u8', 'u16', 'u32', 'u64', 'u128', 'i8', 'i16', 'i32', 'i64', 'i128', 'bool', 'f32', 'f64']

def ty_matches(t, s, bind=None):
    """does canonical emitted type string `s` denote the input type expression `t`?  Names: by the full path the scoping rule
    selects when `bind` (world.binder) is given and knows the name, else by last segment"""
    k = tag(t)
    if k == 'cptr':
        return s.startswith('*const ') and ty_matches(t[1], s[7:], bind)
    if k == 'mptr':
        return s.startswith('*mut ') and ty_matches(t[1], s[5:], bind)
    if k == 'arr':
        if not (s.startswith('[') and s.endswith(']')): return False
        from ..rustlay import split_array
        inner, n = split_array(s)
        return n == t[2] and ty_matches(t[1], inner, bind)
    if k == 'unk':
        return s == '[u8;%d]' % t[1]
    if k == 'id':
        b = bind(t[1]) if bind is not None else None
        if b is not None and len(b) > 1:
            return s == 'crate::' + '::'.join(b)        # also for a user type that is called `void` or `u32`
        if t[1] == 'void': return s == '::std::ffi::c_void'
        if t[1] in PRIMS: return s == t[1]
        return s.startswith('crate::') and s.endswith('::' + t[1])
    return False

HARNESS_ENV = {'PXHARNESS_TEXT': '1'}

def generate(rng, tier):
    n = 250 if tier == 'quick' else 5000
    o = gen.Opts(p_impl=0.9, p_vftable=0.2, p_base=0.3, p_enum=0.1, p_backend=0.0, p_extern_val=0.0, max_modules=2,
                 max_items=4, max_fields=3, max_args=6)
    out = []
    for i in range(n):
        c = gen.world(rng, 'w%d' % i, opts=o)
        r = rng.random()
        fns = [(p, nd) for p, nd in all_nodes(c) if tag(nd) == 'fn' and any(tag(a) == 'af' and a[1] == 'address' for a in nd[3][1:])]
        if fns and r < 0.3:
            p, f = rng.choice(fns)
            f2 = list(f)
            kind = rng.choice(['noaddr', 'negaddr', 'badparam', 'badret', 'underscore', 'split'])
            if kind == 'noaddr':
                f2[3] = attrs(*[a for a in f[3][1:] if not (tag(a) == 'af' and a[1] == 'address')])
            elif kind == 'negaddr':
                f2[3] = attrs(*[([a[0], a[1], e_int(-rng.choice([1, 4096]))] if (tag(a) == 'af' and a[1] == 'address') else a) for a in f[3][1:]])
            elif kind == 'badparam':
                f2[4] = [S('args')] + list(f[4][1:]) + [arg('zz', ty_cptr(ty_id('Missing')) if rng.random() < 0.5 else ty_id('Missing'))]
            elif kind == 'badret':
                f2[5] = mkopt_(ty_mptr(ty_id('Missing')) if rng.random() < 0.5 else ty_id('Missing'))
            elif kind == 'underscore':
                f2[2] = '_' + f[2]
                if rng.random() < 0.4:
                    # an internal function with an unresolvable parameter: no wrapper is emitted for it, the error must still come
                    f2[4] = [S('args')] + list(f[4][1:]) + [arg('zz', ty_cptr(ty_id('Missing')))]
            c = replace_at(c, p, f2)
            if kind == 'split':
                # spread the functions of the block over two, three or four impl blocks of the same type
                impl_p = p[:-1]
                im = node_at(c, impl_p)
                if im is not None and tag(im) == 'impl' and len(im) > 4:
                    fns_ = im[3:]
                    k = min(len(fns_), rng.choice([2, 3, 3, 4]))
                    cuts = sorted(rng.sample(range(1, len(fns_)), k - 1)) if k > 1 else []
                    parts = [fns_[a:b] for a, b in zip([0] + cuts, cuts + [len(fns_)])]
                    blocks = [im[:3] + part for part in parts]
                    parent = node_at(c, impl_p[:-1])
                    newparent = parent[:impl_p[-1]] + [blocks[0]] + parent[impl_p[-1] + 1:] + blocks[1:]
                    c = replace_at(c, impl_p[:-1], newparent)
            c[1] = c[1] + '-' + kind
        if r >= 0.3 and r < 0.42:
            c2 = shadow_base_fn(rng, c)
            if c2 is not None:
                c = c2; c[1] = c[1] + '-shadow'
        out.append(c)
    from . import rare
    out += rare.impl_cases()
    from .c11 import gen_case
    out += [gen_case(rng, 'clash%d' % i) for i in range(n // 6)]
    from .. import o4exec
    return out + o4exec.exec_worlds(rng, 10 if tier == 'quick' else 200, **dict(p_impl=0.85, p_vftable=0.2, p_cc=0.5))

def shadow_base_fn(rng, c):
    """rename an impl function of a derived type to the name of a public impl function of one of its base types: the declared
    function can then not be emitted under its name (the forwarder has it) – the description must be rejected, not accepted with
    the declared function dropped"""
    impl_of = {}
    for p, nd in all_nodes(c):
        if tag(nd) == 'impl':
            impl_of.setdefault(nd[1], []).append((p, nd))
    cands = []
    for p, d in all_nodes(c):
        if tag(d) == 'def' and def_is_type(d) and def_name(d) in impl_of:
            for st in type_stmts(d):
                if stmt_is_field(st) and has_ident(st[4][1:], 'base') and tag(st[3]) == 'id' and st[3][1] in impl_of:
                    bfns = [f for (_, im) in impl_of[st[3][1]] for f in im[3:] if fn_pub(f) and not fn_name(f).startswith('_')]
                    if bfns:
                        cands.append((def_name(d), rng.choice(bfns)))
    if not cands:
        return None
    dname, bf = rng.choice(cands)
    ip, im = impl_of[dname][0]
    if len(im) < 4:
        return None
    f2 = list(im[3]); f2[2] = fn_name(bf)
    return replace_at(c, ip, im[:3] + [f2] + im[4:])

def mkopt_(x):
    return [S('some'), x]

def node_at(x, p):
    for i in p:
        if not isinstance(x, list) or i >= len(x): return None
        x = x[i]
    return x

def judge(c, impl, model):
    cid = c[1]
    info = {'dist': []}
    fs = k_compare(ID, c, impl, model)
    fs += must_reject_findings(ID, c, impl)
    cls = outcome_class(impl.get('o3'))
    count(info, 'impl-' + cls)
    must_reject = None
    decls = []
    for (mp, file, m) in modules_of(c):
        for im in m_impls(m):
            for f in im[3:]:
                addr = attr_fn(fn_attrs(f), 'address')
                if addr is None: must_reject = must_reject or 'no-address'
                elif addr < 0: must_reject = must_reject or 'negative-address'
                for a in fn_args(f):
                    if not isinstance(a, Sym) and mentions(a[2], 'Missing'): must_reject = must_reject or 'unresolved-parameter'
                if fn_ret(f) is not None and mentions(fn_ret(f), 'Missing'): must_reject = must_reject or 'unresolved-return'
                decls.append((mp, im[1], f))
    if cid.endswith('-shadow'):
        must_reject = must_reject or 'function-name-taken-by-base-function'
    if must_reject:
        count(info, 'must-reject:' + must_reject)
        if cls == 'ok':
            fs.append(Finding('O', 'C05/%s-accepted' % must_reject, cid, ''))
        else:
            info['nontrivial'] = True
        return fs, info
    if cls != 'ok':
        return fs, info
    io3 = canon.canon_o3(impl['o3'], 'impl')
    files = o3_files(io3)
    checked = 0
    seen = set()
    def report(reason, detail):
        if reason not in seen:
            seen.add(reason); fs.append(Finding('O', reason, cid, detail))
    binders = {}
    for (mp, tname, f) in decls:
        bind = binders.setdefault(tuple(mp), binder(c, mp))
        items = file_items(files, mp)
        ims = find_items(items, 'impl', tname)
        found = [mt for im in ims for mt in impl_methods(im) if method_name(mt) == fn_name(f)]
        where = '%s::%s' % (tname, fn_name(f))
        if not found:
            if fn_name(f).startswith('_'):
                report('C05/impl-function-not-emitted/underscore-name', where)
            else:
                report('C05/impl-function-not-emitted', where)
            continue
        if len(found) > 1:
            report('C05/wrapper-emitted-twice', where); continue
        mt = found[0]
        body = method_body(mt)
        checked += 1
        if tag(body) != 'call-addr':
            report('C05/wrapper-shape', '%s: %s' % (where, dump(body)[:160])); continue
        if body[1] != attr_fn(fn_attrs(f), 'address'):
            report('C05/address', '%s: declared %d, emitted %d' % (where, attr_fn(fn_attrs(f), 'address'), body[1]))
        sig = find(body, 'sig')[1:]
        callargs = find(body, 'args')[1:]
        params = find(mt, 'params')[1:]
        ok = len(sig) == len(fn_args(f)) == len(callargs) == len(params)
        if ok:
            for a, sg, ca, pm in zip(fn_args(f), sig, callargs, params):
                if isinstance(a, Sym):
                    mut = (a == 'mutself')
                    ok = ok and sg == [S('this'), S('mut' if mut else 'const')] and ca == S('selfmut' if mut else 'selfconst') and pm == a
                else:
                    ok = ok and tag(sg) == 'arg' and sg[1] == a[1] and ty_matches(a[2], sg[2], bind) \
                        and ca == [S('v'), a[1]] and tag(pm) == 'arg' and pm[1] == a[1] and pm[2] == sg[2]
        if not ok:
            report('C05/signature', '%s: declared %s, emitted sig %s call %s' % (where, dump(f[4])[:160], dump(sig)[:160], dump(callargs)[:120]))
        rets = (opt(body[4]), opt(mt[5]))
        dr = fn_ret(f)
        if dr is None:
            if rets != (None, None): report('C05/return-type', '%s: none declared, emitted %s' % (where, rets))
        elif rets[0] is None or rets[0] != rets[1] or not ty_matches(dr, rets[0], bind):
            report('C05/return-type', '%s: declared %s, emitted %s' % (where, dump(dr), rets))
        if (str(mt[2]) == 'pub') != fn_pub(f):
            report('C05/visibility', where)
    if checked >= 2:
        info['nontrivial'] = True
    count(info, 'wrappers-checked:%s' % ('0' if not checked else '1' if checked < 2 else '2-5' if checked < 6 else '6+'))
    return fs, info

def mentions(t, name):
    k = tag(t)
    if k == 'id': return t[1] == name
    if k in ('cptr', 'mptr', 'arr'): return mentions(t[1], name)
    return False

def judge_all(cases, impl, model, tier):
    # O4 execution: the worlds whose id starts with 'ex' are compiled for the host and their wrappers / accessors RUN
    from .. import o4exec
    fs, info = o4exec.judge_exec(ID, cases, impl, tier)
    return fs, info, []
