"""C15 – singleton and extern-value accessors address the declared location."""
from .world import *
from .c05 import ty_matches

ID = 'C15'
POINTS = ['o3']
MODEL_POINTS = ['o3']
RULE = ("worlds where most types and copyable enums are singletons and most modules declare extern values of every resolvable "
        "type shape (scalars, pointers, arrays, defined and extern types), plus streams that drop an extern value's address or "
        "make a singleton / extern address negative. Checked on the implementation: the getter shape (one indirection for "
        "struct singletons, none for enum singletons and extern values), the address literal, name, visibility and type of "
        "every accessor. non-trivial = accepted with >= 2 accessors checked, or rejected for a missing / negative address; "
        "distinct by case text")
ASSUMPTIONS = ["the run-time behaviour of an accessor is covered through its emitted shape (executed only in the thorough tier)"]

HARNESS_ENV = {'PXHARNESS_TEXT': '1'}

def generate(rng, tier):
    n = 300 if tier == 'quick' else 5000
    o = gen.Opts(p_singleton=0.7, p_extern_val=0.8, p_extern_type=0.4, p_enum=0.4, p_flags=0.7, p_backend=0.0, p_impl=0.1,
                 p_vftable=0.2, max_modules=2, max_items=4, max_fields=3)
    o.p_noncopy_singleton = 0.6
    out = []
    for i in range(n):
        c = gen.world(rng, 'w%d' % i, opts=o)
        r = rng.random()
        if r < 0.25:
            xs = [(p, nd) for p, nd in all_nodes(c) if tag(nd) == 'xv']
            ss = [(p, nd) for p, nd in all_nodes(c) if tag(nd) == 'af' and nd[1] == 'singleton']
            kind = rng.choice(['noaddr', 'negx', 'negs', 'sameaddr', 'sameaddr'])
            if kind == 'noaddr' and xs:
                p, nd = rng.choice(xs)
                c = replace_at(c, p, nd[:4] + [attrs()]); c[1] += '-noaddr'
            elif kind == 'negx' and xs:
                p, nd = rng.choice(xs)
                c = replace_at(c, p, nd[:4] + [attrs(a_int('address', -rng.choice([1, 16, 4096])))]); c[1] += '-negx'
            elif kind == 'sameaddr' and len(xs) >= 2:
                # two views of one global: both accessors must still be emitted
                (p1, x1), (p2, x2) = rng.sample(xs, 2)
                a1 = [a for a in x1[4][1:] if tag(a) == 'af' and a[1] == 'address']
                if a1:
                    c = replace_at(c, p2, x2[:4] + [attrs(*([a for a in x2[4][1:] if not (tag(a) == 'af' and a[1] == 'address')] + a1))]); c[1] += '-sameaddr'
            elif ss:
                p, nd = rng.choice(ss)
                c = replace_at(c, p, a_int('singleton', -rng.choice([1, 4096]))); c[1] += '-negs'
        out.append(c)
    # worlds in which the same short names are defined in several modules: the accessor's type is the scoping rule's binding
    from .c11 import gen_case
    out += [gen_case(rng, 'clash%d' % i) for i in range(n // 6)]
    from .. import o4exec
    return out + o4exec.exec_worlds(rng, 10 if tier == 'quick' else 200, **dict(p_singleton=0.7, p_extern_val=0.8, p_enum=0.4, p_flags=0.8, p_impl=0.2))

def judge(c, impl, model):
    cid = c[1]
    info = {'dist': []}
    fs = k_compare(ID, c, impl, model, points=('o3',))
    cls = outcome_class(impl.get('o3'))
    count(info, 'impl-' + cls)
    must_reject = None
    for (mp, file, m) in modules_of(c):
        for xv in m_xvals(m):
            a = attr_fn(xv[4][1:], 'address')
            if a is None: must_reject = must_reject or 'extern-value-without-address'
            elif a < 0: must_reject = must_reject or 'negative-address'
        for d in m_defs(m):
            at = type_attrs(d) if def_is_type(d) else enum_attrs(d)
            s = attr_fn(at, 'singleton')
            if s is not None and s < 0: must_reject = must_reject or 'negative-address'
    if must_reject:
        count(info, 'must-reject:' + must_reject)
        if cls == 'ok':
            fs.append(Finding('O', 'C15/%s-accepted' % must_reject, cid, ''))
        else:
            info['nontrivial'] = True
        return fs, info
    if cls != 'ok':
        return fs, info
    files = o3_files(canon.canon_o3(impl['o3'], 'impl'))
    seen = set()
    def report(reason, detail):
        if reason not in seen:
            seen.add(reason); fs.append(Finding('O', reason, cid, detail))
    n = 0
    for (mp, file, m) in modules_of(c):
        items = file_items(files, mp) or []
        for d in m_defs(m):
            name = def_name(d)
            is_t = def_is_type(d)
            at = type_attrs(d) if is_t else enum_attrs(d)
            s = attr_fn(at, 'singleton')
            kind = 'singleton-struct' if is_t else 'singleton-enum'
            other = 'singleton-enum' if is_t else 'singleton-struct'
            got = [it for it in items if tag(it) == kind and it[1] == name]
            wrong = [it for it in items if tag(it) == other and it[1] == name]
            if wrong:
                report('C15/wrong-indirection', '%s: %s' % (name, dump(wrong[0])))
            if s is None:
                if got: report('C15/unexpected-getter', name)
                continue
            n += 1
            if len(got) != 1:
                report('C15/getter-missing', '%s: %d getters of shape %s' % (name, len(got), kind)); continue
            g = got[0]
            if g[3] != s:
                report('C15/singleton-address', '%s: declared %d, emitted %d' % (name, s, g[3]))
            if (str(g[2]) == 'pub') != def_pub(d):
                report('C15/getter-visibility', name)
        for xv in m_xvals(m):
            got = [it for it in items if tag(it) == 'xaccessor' and it[2] == 'get_' + xv[2]]
            n += 1
            if len(got) != 1:
                report('C15/extern-accessor-missing', xv[2]); continue
            g = got[0]
            if g[4] != attr_fn(xv[4][1:], 'address'):
                report('C15/extern-address', '%s: declared %d, emitted %d' % (xv[2], attr_fn(xv[4][1:], 'address'), g[4]))
            if not ty_matches(xv[3], g[3], binder(c, mp)):
                report('C15/extern-type', '%s: declared %s, emitted %s' % (xv[2], dump(xv[3]), g[3]))
            if (str(g[1]) == 'pub') != (xv[1] == 'pub'):
                report('C15/accessor-visibility', xv[2])
    if n >= 2:
        info['nontrivial'] = True
    count(info, 'accessors:%s' % ('0' if not n else '1' if n == 1 else '2-4' if n < 5 else '5+'))
    return fs, info

def judge_all(cases, impl, model, tier):
    # O4 execution: the worlds whose id starts with 'ex' are compiled for the host and their wrappers / accessors RUN
    from .. import o4exec
    fs, info = o4exec.judge_exec(ID, cases, impl, tier)
    return fs, info, []
