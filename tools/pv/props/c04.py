"""C04 – virtual-call wrappers dispatch through the declared vftable slot (table and wrapper shape)."""
from .layoutcommon import *

ID = 'C04'
POINTS = ['o2', 'o3']
MODEL_POINTS = ['o2', 'o3']
RULE = ("worlds rich in vftable blocks (0-6 functions, increasing index patterns, declared sizes below / at / above need, "
        "&self / &mut self, 0-4 integer and pointer arguments, own and inherited tables), both pointer widths; a second stream "
        "sets one index or size to a contradictory or negative value. Checked on the implementation: slot order and "
        "placeholder names of the emitted <T>Vftable struct against the positions computed from the description, byte "
        "offset slot*ps of every slot under the compiler's layout rules, and the wrapper of every virtual function (reads the "
        "slot named after the function, forwards receiver then arguments in declared order). non-trivial = accepted with >= 2 "
        "slots checked, or rejected for a contradiction; distinct by case text")
ASSUMPTIONS = ["what executing a wrapper does at run time is observed only through its emitted shape here (and by the O4 execution run in the thorough tier)"]

def spec_table(vst):
    """-> (list of slot names, None) or (None, reason) for a vftable statement of the input"""
    fns = vst[2:]
    size = attr_fn(vst[1][1:], 'size')
    table = []
    for f in fns:
        idx = attr_fn(fn_attrs(f), 'index')
        if idx is not None:
            if idx < 0: return None, 'negative-index'
            if idx < len(table): return None, 'index-below-position'
            while len(table) < idx:
                table.append('_vfunc_%d' % len(table))
        table.append(fn_name(f))
    if size is not None:
        if size < 0: return None, 'negative-size'
        if size < len(table): return None, 'size-below-need'
        while len(table) < size:
            table.append('_vfunc_%d' % len(table))
    return table, None

HARNESS_ENV = {'PXHARNESS_TEXT': '1'}

def generate(rng, tier):
    n = 250 if tier == 'quick' else 5000
    o = gen.Opts(p_vftable=0.8, p_index=0.5, p_vft_size=0.5, p_base=0.45, p_enum=0.05, p_impl=0.15, p_backend=0.0,
                 p_extern_val=0.0, max_modules=2, max_items=5, max_fields=3)
    out = std_worlds(rng, n, o)
    for i in range(n // 3):
        c = gen.world(rng, 'x%d' % i, opts=o)
        cands = [(p, nd) for p, nd in all_nodes(c) if tag(nd) == 'af' and nd[1] in ('index', 'size') and len(nd) == 3
                 and any(tag(q) in ('vftable', 'fn') for q in [node_at(c, p[:-2])] if q is not None)]
        if cands:
            p, nd = rng.choice(cands)
            v = nd[2][1]
            c = replace_at(c, p, [nd[0], nd[1], e_int(rng.choice([v - 1, v - 2, 0, -1, v + 1]))])
        out.append(c)
    from . import rare
    out += rare.vftable_cases()
    from .. import o4exec
    return out + o4exec.exec_worlds(rng, 10 if tier == 'quick' else 200, **dict(p_vftable=0.85, p_impl=0.2, p_index=0.5, p_vft_size=0.4))

def node_at(x, p):
    for i in p:
        if not isinstance(x, list) or i >= len(x): return None
        x = x[i]
    return x

def judge(c, impl, model):
    cid = c[1]
    info = {'dist': []}
    fs = k_compare(ID, c, impl, model)
    fs += must_reject_findings(ID, c, impl)
    cls = outcome_class(impl.get('o3'))
    count(info, 'impl-' + cls)
    ps = find(c, 'ps')[1]
    must_reject = None
    tables = []
    for (mp, file, m) in modules_of(c):
        for d in m_defs(m):
            if not def_is_type(d): continue
            for i, st in enumerate(type_stmts(d)):
                if tag(st) == 'vftable':
                    t, why = spec_table(st)
                    if t is None:
                        must_reject = must_reject or why
                    else:
                        tables.append((mp, d, st, t))
    if must_reject:
        count(info, 'must-reject:' + must_reject)
        if cls == 'ok':
            fs.append(Finding('O', 'C04/contradictory-index-or-size-accepted', cid, must_reject))
        else:
            info['nontrivial'] = True
        return fs, info
    if cls != 'ok':
        return fs, info
    io3 = canon.canon_o3(impl['o3'], 'impl')
    files, crate = crate_of(c, io3)
    checked = 0
    seen = set()
    def report(reason, detail):
        if reason not in seen:
            seen.add(reason); fs.append(Finding('O', reason, cid, detail))
    for (mp, d, st, table) in tables:
        name = def_name(d)
        items = file_items(files, mp)
        vs = find_item(items, 'struct', name + 'Vftable')
        if vs is None:
            report('C04/vftable-struct-missing', name); continue
        flds = struct_fields(vs)
        if [f[0] for f in flds] != table:
            report('C04/slot-order', '%s: emitted %s, described %s' % (name, [f[0] for f in flds], table)); continue
        try:
            size, align, lay = crate.item_layout('crate::' + '::'.join(mp + [name + 'Vftable']))
            for k, (fname, off, fsz) in enumerate(lay):
                checked += 1
                if off != k * ps or fsz != ps:
                    report('C04/slot-offset', '%s slot %d at byte %d' % (name, k, off))
        except rustlay.LayoutError as e:
            report('C04/layout-undetermined', str(e))
        for (fname, vis, ty, dcs) in flds:
            if fname.startswith('_vfunc_') and vis != 'priv':
                report('C04/placeholder-public', '%s.%s' % (name, fname))
        # wrappers
        im = find_item(items, 'impl', name)
        methods = {method_name(x): x for x in impl_methods(im)} if im is not None else {}
        for f in st[2:]:
            if fn_name(f).startswith('_'): continue
            mt = methods.get(fn_name(f))
            if mt is None:
                report('C04/wrapper-missing', '%s::%s' % (name, fn_name(f))); continue
            body = method_body(mt)
            want_args = []
            for a in fn_args(f):
                if isinstance(a, Sym):
                    want_args.append(S('selfconst') if a == 'self' else S('selfmut'))
                else:
                    want_args.append([S('v'), a[1]])
            if tag(body) != 'call-slot' or body[1] != fn_name(f) or body[2][1:] != want_args:
                report('C04/wrapper-shape', '%s::%s emitted %s' % (name, fn_name(f), dump(body)[:200]))
            params = find(mt, 'params')[1:]
            want_params = [a if isinstance(a, Sym) else a[1] for a in fn_args(f)]
            got_params = [p_ if isinstance(p_, Sym) else p_[1] for p_ in params]
            if [str(x) for x in want_params] != [str(x) for x in got_params]:
                report('C04/wrapper-params', '%s::%s' % (name, fn_name(f)))
    # one wrapper per virtual function, also on types that inherit their table: two methods of one name on a type, one of which
    # dispatches through a slot, means there is no single wrapper (and the emitted impl is not valid Rust)
    for (mp, file, m) in modules_of(c):
        items = file_items(files, mp)
        for d in m_defs(m):
            if not def_is_type(d): continue
            im = find_item(items, 'impl', def_name(d))
            if im is None: continue
            seen_m = {}
            for x in impl_methods(im):
                seen_m.setdefault(method_name(x), []).append(x)
            for nm, xs in seen_m.items():
                if len(xs) > 1 and any(tag(method_body(x)) == 'call-slot' for x in xs):
                    report('C04/duplicate-wrapper', '%s::%s emitted %d times' % (def_name(d), nm, len(xs)))
    if checked >= 2:
        info['nontrivial'] = True
    count(info, 'slots-checked:%s' % ('0' if not checked else '1-2' if checked < 3 else '3-9' if checked < 10 else '10+'))
    return fs, info

def judge_all(cases, impl, model, tier):
    # O4 execution: the worlds whose id starts with 'ex' are compiled for the host and their wrappers / accessors RUN
    from .. import o4exec
    fs, info = o4exec.judge_exec(ID, cases, impl, tier)
    return fs, info, []
