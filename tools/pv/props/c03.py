"""C03 – a type description is accepted exactly when it is realisable."""
from .common import *

ID = 'C03'
POINTS = ['o2']
RULE = ("single-type descriptions over built-ins, pointers, arrays, unknown<N>; quick: every 1-field description "
        "over the option grid plus layout-constructed and perturbed random descriptions with 0-6 fields; thorough adds "
        "the full 2-field grid. non-trivial = accepted with >= 3 regions, or rejected by a check other than the first "
        "in program order (overlap)")
EXHAUSTIVE = {'quick': False, 'thorough': False}
ASSUMPTIONS = ["numbers are small (overflow behaviour belongs to C12)",
               "field alignments are powers of two <= 16 (the property's domain: built-ins, pointers, arrays, gaps)"]

GRID_TYPES = [ty_id('u8'), ty_id('u16'), ty_id('u32'), ty_id('u64'), ty_cptr(ty_id('u8')),
              ty_arr(ty_id('u16'), 3), ty_arr(ty_id('u32'), 0), ty_unk(3)]
GRID_ADDR = [None, 0, 1, 2, 4, 6, 8, 12, 16]
GRID_SIZE = [None, 0, 1, 4, 6, 8, 12, 16, 24]
GRID_ALIGN = [None, 1, 2, 3, 4, 8, 16]

def mk(cid, ps, fields, size, align, packed, vft, order=0):
    at = []
    if size is not None: at.append(a_int('size', size))
    if align is not None: at.append(a_int('align', align))
    if packed: at.append(a_ident('packed'))
    # the attributes may be written in any order
    if order % 6 in (1, 4): at.reverse()
    elif order % 6 in (2, 5) and len(at) > 1: at = at[1:] + at[:1]
    stmts = []
    if vft: stmts.append(vftable([], []))
    for i, (t, addr) in enumerate(fields):
        # gaps are usually written without a name (`_: unknown<N>`), any number of them per type
        nm = '_' if (tag(t) == 'unk' and (order + i) % 3 != 0) else 'f%d' % i
        stmts.append(field(True, nm, t, [a_int('address', addr)] if addr is not None else []))
    return single_type_case(cid, ps, at, stmts)

def grid1(ps, tag_):
    out = []
    n = 0
    for t in GRID_TYPES:
        for addr in GRID_ADDR:
            for size in GRID_SIZE:
                for align in GRID_ALIGN:
                    for packed in (False, True):
                        for vft in (False, True):
                            if packed and align not in (None, 4):
                                continue
                            out.append(mk('%s%d-%d' % (tag_, ps, n), ps, [(t, addr)], size, align, packed, vft, order=n)); n += 1
    return out

def grid2(ps, tag_):
    out = []
    n = 0
    types = GRID_TYPES[:6] + [GRID_TYPES[7]]
    for t1 in types:
        for a1 in (None, 0, 4):
            for t2 in types:
                for a2 in GRID_ADDR:
                    for size in (None, 8, 12, 16, 24):
                        for align in (None, 2, 3, 4, 8):
                            out.append(mk('%s%d-%d' % (tag_, ps, n), ps, [(t1, a1), (t2, a2)], size, align, False, False, order=n)); n += 1
    return out

def random_case(rng, cid):
    ps = rng.choice([4, 8])
    n = rng.choice([0, 1, 2, 2, 3, 3, 4, 5, 6])
    vft = rng.random() < 0.2
    packed = rng.random() < 0.12
    off = ps if vft else 0
    fields = []
    maxal = ps if vft else 1
    for i in range(n):
        t, s, a, arr = simple_field_type(rng, ps)
        addr = None
        r = rng.random()
        if r < 0.35:
            # a gap, aligned most of the time
            gap = rng.choice([0, 0, 1, 2, 4, 8, 16])
            o = off + gap
            if not packed and rng.random() < 0.85 and a > 0:
                o = (o + a - 1) // a * a
            addr = o; off = o
        elif r < 0.45 and not packed and a > 0:
            # implicit but happens to be aligned by padding field before
            pad = (-off) % a
            if pad:
                fields.append((ty_unk(pad), None)); off += pad
        elif r < 0.5:
            addr = max(0, off - rng.choice([1, 2, 4]))   # overlap or backwards
            off = max(off, addr)
        fields.append((t, addr))
        off += s
        if not (s == 0 and arr):
            maxal = max(maxal, a)
    size = None
    align = None
    r = rng.random()
    eff = maxal if rng.random() < 0.7 else rng.choice([1, 2, 4, 8, 16, ps])
    if r < 0.5:
        size = (off + eff - 1) // eff * eff if eff else off
        if rng.random() < 0.15:
            size += rng.choice([-1, 1, eff, -eff])
            size = max(0, size)
    if rng.random() < 0.5:
        align = eff if rng.random() < 0.8 else rng.choice([0, 1, 2, 3, 4, 6, 8, 16, 32])
    return mk(cid, ps, fields, size, align, packed and rng.random() < 0.9, vft, order=rng.randrange(6))

def generate(rng, tier):
    out = []
    for ps in (4, 8):
        g = grid1(ps, 'g1-')
        out += g
    if tier == 'thorough':
        for ps in (4, 8):
            out += grid2(ps, 'g2-')
    n = 2000 if tier == 'quick' else 30000
    for i in range(n):
        out.append(random_case(rng, 'r%d' % i))
    return out

def judge(c, impl, model):
    cid = c[1]
    fs = []
    info = {'dist': []}
    io, mo = impl.get('o2'), model.get('o2')
    spec = find(model.get('spec', []), 'c03')
    ic, mc = outcome_class(io), outcome_class(mo)
    info['dist'].append('impl-' + ic)
    if ic != mc:
        fs.append(Finding('K', 'C03/verdict-differs', cid, 'impl=%s model=%s' % (sexp.dump(io)[:300], sexp.dump(mo)[:300])))
    if spec is None:
        info['dist'].append('outside-fragment')
        return fs, info
    real = find(spec, 'realisable')[1] == 1
    verdict = find(spec, 'verdict')[1]
    vt = tag(verdict)
    # the layout core on the spec agrees with the full model (build_is_layoutVerdict, checked by running)
    if (vt == 'ok') != (mc == 'ok') or (vt == 'panic') != (mc == 'bad'):
        fs.append(Finding('K', 'C03/layout-core-vs-full-model', cid, 'core=%s model=%s' % (sexp.dump(verdict), mc)))
    items = o2_items(io)
    if ic == 'ok':
        it = items.get(('test', 'T'))
        if it is not None and vt == 'ok':
            if [it[4], it[5]] != list(verdict[1]):
                fs.append(Finding('K', 'C03/size-align-differs', cid, 'impl=%s core=%s' % ([it[4], it[5]], verdict[1])))
        nreg = len(find(it[6], 'regions')) - 1 if it is not None else 0
        if nreg >= 3:
            info['nontrivial'] = True
    if ic == 'err':
        msg = sexp.dump(io)
        if 'overlapped' not in msg:
            info['nontrivial'] = True
        for key in ('overlapped', 'does not match target size', 'both `packed` and `align`', 'less than minimum required',
                    'not divisible by', 'not a multiple of its alignment'):
            if key in msg:
                info['dist'].append('err:' + key)
    if ic == 'bad':
        # a panic on an in-range description is not a verdict at all
        fs.append(Finding('O', 'C03/panic-instead-of-verdict', cid, sexp.dump(io)[:300]))
    elif (ic == 'ok') != real:
        if ic == 'ok':
            reason = 'C03/accepted-unrealisable'
            # which clause?  (feature of the input that triggers it)
            at = find(find(c, 'modules')[1][3][5][1][3], 'attrs')
            al = [a for a in at[1:] if tag(a) == 'af' and a[1] == 'align']
            if al:
                v = al[-1][2][1]
                if v > 0 and (v & (v - 1)) != 0:
                    reason += '/align-not-power-of-two'
        else:
            reason = 'C03/rejected-realisable'
        fs.append(Finding('O', reason, cid, 'impl=%s realisable=%s' % (sexp.dump(io)[:300], real)))
    return fs, info
