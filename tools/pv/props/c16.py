"""C16 – calling conventions are the declared ones, or the documented defaults."""
from .world import *
import re
from .c04 import node_at

ID = 'C16'
POINTS = ['o2', 'o3']
MODEL_POINTS = ['o2', 'o3']
RULE = ("multi-module worlds (types with vftable blocks, impl blocks, bases, all seven conventions, with/without receiver); "
        "one stream replaces a convention string by an unknown name. non-trivial = accepted with at least one emitted "
        "function-pointer type or wrapper whose convention was checked, or rejected because of an unknown convention; "
        "distinct by case text")
ASSUMPTIONS = ["functions whose name starts with `_` are not emitted by the backend (C05 finding) and are skipped here"]
VALID = ['C', 'cdecl', 'stdcall', 'fastcall', 'thiscall', 'vectorcall', 'system']
BAD = ['pascal', 'Stdcall', '', 'c', 'thiscall ', 'win64', 'rust-call']

def spec_cc(f):
    """(convention string or None when the declared name must be rejected)"""
    decl = attr_fn(fn_attrs(f), 'calling_convention')
    if decl is not None:
        return decl if decl in VALID else None
    return 'thiscall' if has_self(f) else 'system'

def generate(rng, tier):
    n = 250 if tier == 'quick' else 4000
    o = gen.Opts(p_vftable=0.6, p_impl=0.7, p_cc=0.6, p_base=0.5, p_enum=0.1, max_modules=2, max_items=5)
    out = std_worlds(rng, n, o)
    # unknown-convention stream
    for i in range(n // 5):
        c = gen.world(rng, 'bad%d' % i, opts=o)
        cands = [(p, nd) for p, nd in all_nodes(c) if tag(nd) == 'af' and nd[1] == 'calling_convention']
        if cands:
            p, nd = rng.choice(cands)
            c = replace_at(c, p, [nd[0], nd[1], e_str(rng.choice(BAD))])
        out.append(c)
    # the same on functions with `_`-prefixed ("internal") names, which get no wrapper but are validated all the same
    ou = gen.Opts(p_vftable=0.4, p_impl=0.9, p_cc=0.8, p_base=0.3, p_enum=0.0, max_modules=2, max_items=4, p_underscore=0.6)
    for i in range(n // 5):
        c = gen.world(rng, 'ubad%d' % i, opts=ou)
        cands = [(p, nd) for p, nd in all_nodes(c) if tag(nd) == 'af' and nd[1] == 'calling_convention'
                 and (lambda q: q is not None and tag(q) == 'fn' and fn_name(q).startswith('_'))(node_at(c, p[:-2]))]
        if cands:
            p, nd = rng.choice(cands)
            c = replace_at(c, p, [nd[0], nd[1], e_str(rng.choice(BAD))])
        out.append(c)
    # a derived table that repeats an inherited slot with another (or a forgotten) convention
    from .c06 import mutate_derived
    o2 = gen.Opts(p_vftable=0.7, p_base=0.8, p_cc=0.7, p_enum=0.0, p_impl=0.1, p_backend=0.0, p_extern_val=0.0,
                  max_modules=2, max_items=6, max_fields=2, p_packed=0.0)
    for i in range(n // 3):
        o2.p_underscore = 0.5 if i % 2 else 0.0
        m = mutate_derived(rng, gen.world(rng, 'inh%d' % i, opts=o2), kinds=('cc', 'gap'))
        if m is not None:
            out.append(m)
    return out

ABI_RE = re.compile(r'^unsafe extern "([^"]*)" fn\(')

def abi_of(ty):
    mm = ABI_RE.match(ty or '')
    return mm.group(1) if mm else None

def judge(c, impl, model):
    cid = c[1]
    info = {'dist': []}
    fs = k_compare(ID, c, impl, model)
    io3 = canon.canon_o3(impl['o3'], 'impl') if impl.get('o3') is not None else None
    cls = outcome_class(impl.get('o3'))
    count(info, 'impl-' + cls)
    any_bad = False
    checked = 0
    files = o3_files(io3) if io3 else None
    for (mp, file, m) in modules_of(c):
        impl_fns = {}
        for im in m_impls(m):
            impl_fns.setdefault(im[1], []).extend(im[3:])
        for d in m_defs(m):
            if not def_is_type(d):
                continue
            vfns = []
            for st in type_stmts(d):
                if tag(st) == 'vftable':
                    vfns = st[2:]
            for f in list(vfns) + impl_fns.get(def_name(d), []):
                if spec_cc(f) is None:
                    any_bad = True
            if cls != 'ok' or files is None:
                continue
            items = file_items(files, mp)
            if vfns:
                vs = find_item(items, 'struct', def_name(d) + 'Vftable')
                if vs is None:
                    fs.append(Finding('O', 'C16/vftable-struct-missing', cid, def_name(d))); continue
                flds = {n: ty for (n, v, ty, dc) in struct_fields(vs)}
                for f in vfns:
                    want = spec_cc(f)
                    ty = flds.get(fn_name(f))
                    checked += 1
                    if abi_of(ty) != want:
                        fs.append(Finding('O', 'C16/slot-convention', cid, '%s.%s: want %s, emitted %s' % (def_name(d), fn_name(f), want, ty)))
                for n, ty in flds.items():
                    if n.startswith('_vfunc_'):
                        checked += 1
                        if abi_of(ty) != 'thiscall':
                            fs.append(Finding('O', 'C16/placeholder-convention', cid, '%s.%s: %s' % (def_name(d), n, ty)))
            im = find_item(items, 'impl', def_name(d))
            methods = {method_name(x): x for x in impl_methods(im)} if im is not None else {}
            for f in impl_fns.get(def_name(d), []):
                if fn_name(f).startswith('_'):
                    continue
                want = spec_cc(f)
                mt = methods.get(fn_name(f))
                body = method_body(mt) if mt is not None else None
                checked += 1
                if body is None or tag(body) != 'call-addr' or body[2] != want:
                    fs.append(Finding('O', 'C16/wrapper-convention', cid, '%s::%s: want %s, emitted %s' % (def_name(d), fn_name(f), want, dump(body)[:200] if body else None)))
    # inherited slots keep their convention
    if cls == 'ok' and files is not None:
        for (mp, file, m) in modules_of(c):
            items = file_items(files, mp)
            for d in m_defs(m):
                if not def_is_type(d): continue
                bases = [st for st in type_stmts(d) if stmt_is_field(st) and has_ident(st[4][1:], 'base')]
                if not bases: continue
                bt = bases[0][3]
                if tag(bt) != 'id': continue
                dv = find_item(items, 'struct', def_name(d) + 'Vftable')
                if dv is None: continue
                bv = None
                for its in files.values():
                    bv = bv or find_item(its, 'struct', bt[1] + 'Vftable')
                if bv is None: continue
                bf = struct_fields(bv); df = struct_fields(dv)
                for i, (n, v, ty, dc) in enumerate(bf):
                    checked += 1
                    if i >= len(df) or df[i][0] != n or abi_of(df[i][2]) != abi_of(ty):
                        fs.append(Finding('O', 'C16/inherited-slot-convention', cid, '%s slot %d %s' % (def_name(d), i, n)))
    if find(c, 'expect') is not None:
        count(info, 'inherited-slot-with-other-convention')
        if cls == 'ok':
            fs.append(Finding('O', 'C16/inherited-slot-convention-changed-accepted', cid, ''))
        else:
            info['nontrivial'] = True
    if any_bad:
        count(info, 'unknown-convention')
        if cls == 'ok':
            fs.append(Finding('O', 'C16/unknown-convention-accepted', cid, ''))
        else:
            info['nontrivial'] = True
    if checked:
        info['nontrivial'] = True
        count(info, 'checked-conventions>0')
    return fs, info
