"""C09 – the output is a deterministic function of the input set."""
import hashlib, itertools, subprocess, os, random
from .world import *
from .. import core
from ..env import HARNESS_BIN, WORK, ENV

ID = 'C09'
POINTS = ['o3']
MODEL_POINTS = ['o3']
SHRINK = False
RULE = ("worlds with 2-8 user types (vftables, bases, cross-module uses, pointers to generated <T>Vftable types, accepted and "
        "rejected ones). Each is built under: the sorted resolution priority, its reverse, every permutation of the priority "
        "when there are <= 5 (quick) / 6 (thorough) user items, random priorities beyond that (all through the pyxis_verif "
        "hook); every permutation of module-addition order up to 24 (files added through SemanticState::add_file in that order, then build + write_module, i.e. pyxis::build without its sorted discovery); twice in one process; and without the hook in fresh "
        "processes (real HashMap seeds). All variants of a case must be byte-identical (file hashes) or all fail; the model "
        "is compared with the implementation on every hooked variant. non-trivial = a case with >= 3 distinct variants that "
        "all agreed; distinct by case text")
ASSUMPTIONS = ["hook-free runs sample HashMap seeds (3 per case in the quick tier, 12 in the thorough tier); the hooked runs enumerate resolution orders"]

def generate(rng, tier):
    n = 60 if tier == 'quick' else 600
    o = gen.Opts(max_modules=3, max_items=4, p_vftable=0.5, p_base=0.5, p_impl=0.4, p_enum=0.2, max_fields=3,
                 p_backend=0.1, p_extern_val=0.2, shuffle_prio=False)
    cases = std_worlds(rng, n, o, perturb=0.1)
    # references to generated vftable types from fields (order-sensitive before the termination-test fix); when the owner
    # lives in another module the generated type is imported by name (`use other::TVftable;`)
    for i in range(n // 3):
        c = gen.world(rng, 'v%d' % i, opts=o)
        owners = {}
        for (mp, file, m) in modules_of(c):
            for d in m_defs(m):
                if def_is_type(d) and any(tag(s_) == 'vftable' for s_ in type_stmts(d)):
                    owners[def_name(d)] = mp
        fields = [(p, nd) for p, nd in all_nodes(c) if tag(nd) == 'field' and tag(nd[3]) in ('cptr', 'mptr')]
        if owners and fields:
            p, nd = rng.choice(fields)
            ow = rng.choice(sorted(owners))
            c = replace_at(c, p, [nd[0], nd[1], nd[2], ty_cptr(ty_id(ow + 'Vftable')), nd[4]])
            # p = (4, module index, 3 (= m), 5 (= defs), …): add the import to that module when the owner is elsewhere
            me = c[4][p[1]]
            if tag(me) == 'module' and list(me[1][1:]) != owners[ow]:
                m2 = list(me[3]); m2[2] = me[3][2] + [path(*(owners[ow] + [ow + 'Vftable']))]
                me2 = list(me); me2[3] = m2
                c = replace_at(c, (4, p[1]), me2)
        cases.append(c)
    # name clashes: a user type named like a generated vftable struct, duplicate definitions
    from .c14 import add_collision
    for i in range(n // 3):
        c = add_collision(rng, gen.world(rng, 'x%d' % i, opts=o))
        c = [x for x in c if tag(x) != 'expect']
        cases.append(c)
    # the same short names defined in several modules, used by fields, functions and extern values of one of them
    from .c11 import gen_case
    cases += [gen_case(rng, 'clash%d' % i) for i in range(n // 3)]
    # items of one module whose names differ only by letter case: their order in the emitted file is part of the output
    from .c14 import add_case_twin
    o3_ = gen.Opts(max_modules=2, max_items=3, p_vftable=0.2, p_base=0.3, p_impl=0.2, p_enum=0.3, max_fields=2, p_backend=0.0, shuffle_prio=False)
    for i in range(n // 3):
        cases.append(add_case_twin(rng, gen.world(rng, 'tw%d' % i, opts=o3_)))
    # a type whose full path is also the path of a module (ui.pyxis defines `Widget`, ui/Widget.pyxis is module ui::Widget): accepted,
    # and whatever is decided about it must not depend on which of the two files was added first
    for i in range(max(4, n // 10)):
        w = rng.choice(['Widget', 'W', 'Node'])
        par = modent(path('ui%d' % i), module(defs=[type_def(True, w, [], [field(True, 'x', ty_id('u32'))])]
                                               + ([type_def(True, 'Other', [], [field(True, 'p', ty_cptr(ty_id(w)))])] if i % 2 else [])))
        nest = modent(path('ui%d' % i, w), module(defs=[type_def(True, 'Inner', [], [field(True, 'y', ty_id('u64'))])]))
        app = modent(path('app%d' % i), module(uses=[path('ui%d' % i, w)], defs=[type_def(True, 'App', [], [field(True, 'w', ty_id(w))])]))
        ents = [par, nest, app] if i % 3 else [par, nest]
        rng.shuffle(ents)
        cases.append(case('modtype%d' % i, rng.choice([4, 8]), ents))
    # extern values typed by a short name that two visible modules define: what the name denotes is a function of the imports,
    # not of which module was added (or resolved) first
    for i in range(max(4, n // 10)):
        v4 = lambda pr, al: type_def(True, 'Vec', [a_ident('copyable')] + ([a_int('align', al)] if al else []),
                                     [field(True, 'x', ty_id(pr)), field(True, 'y', ty_id(pr))])
        math = modent(path('math%d' % i), module(defs=[v4('f32', None)]))
        game = modent(path('game%d' % i), module(uses=[path('math%d' % i, 'Vec')] if i % 2 else [], defs=[v4('f64', 8)],
                                                  xvals=[xval(True, 'g_a', ty_id('Vec'), [a_int('address', 0x7F0010)]),
                                                         xval(True, 'g_b', ty_mptr(ty_id('Vec')), [a_int('address', 0x7F0020)])]))
        us = [path('math%d' % i, 'Vec'), path('game%d' % i, 'Vec')]
        if i % 3 == 0: us.reverse()
        if i % 4 == 3: us = [path('math%d' % i), path('game%d' % i)]
        rend = modent(path('rend%d' % i), module(uses=us, xvals=[xval(True, 'g_up', ty_id('Vec'), [a_int('address', 0x7F0100)])]))
        ents = [math, game, rend]; rng.shuffle(ents)
        cases.append(case('xvscope%d' % i, rng.choice([4, 8]), ents))
    for c in cases:
        c.append([S('vseed'), rng.randrange(1 << 30)])
    return cases

def judge(c, impl, model):
    info = {'dist': []}
    fs = k_compare(ID, c, impl, model, points=('o3',))
    count(info, 'impl-' + outcome_class(impl.get('o3')))
    return fs, info

def item_paths(c):
    out = []
    for (mp, file, m) in modules_of(c):
        for d in m_defs(m):
            out.append(path(*(mp + [def_name(d)])))
            if def_is_type(d) and any(tag(s) == 'vftable' for s in type_stmts(d)):
                pass
    return out

def with_prio(c, prio, cid):
    c2 = list(c)
    c2[1] = cid
    c2[3] = [S('prio')] + list(prio)
    return c2

def with_modules(c, mods, cid):
    c2 = list(c)
    c2[1] = cid
    c2[4] = [S('modules')] + list(mods)
    # `pyxis::build` discovers files in sorted order whatever the case says; the harness adds them through the API in this order
    c2.append([S('api-order')])
    return c2

def signature(obs):
    """what must be identical across variants: 'fail', or the sorted (file, hash) list"""
    if tag(obs) != 'files':
        return 'fail' if tag(obs) == 'err' else ('bad:' + str(tag(obs)))
    return tuple(sorted((f[1], find(f, 'hash')[1]) for f in obs[1:]))

def user_type_named_like_generated(c):
    """a module defines `T` with an EMPTY vftable block (no functions, no size) and an EMPTY type called `TVftable`: the generated
    struct and the user's are then structurally equal, which is the one case in which the clash test cannot tell them apart"""
    for (mp, file, m) in modules_of(c):
        empties = set(def_name(d) for d in m_defs(m) if def_is_type(d) and not type_stmts(d) and not type_attrs(d))
        for d in m_defs(m):
            if def_is_type(d) and def_name(d) + 'Vftable' in empties:
                blocks = [s_ for s_ in type_stmts(d) if tag(s_) == 'vftable']
                if blocks and len(blocks[0]) == 2 and not blocks[0][1][1:]:
                    return True
    return False

def generated_shadows_import(c):
    """a module imports by name two items with the same last segment, one of them a generated <T>Vftable struct: which one the
    name denotes changes at the moment the generated item is registered"""
    gen = set()
    for (mp, file, m) in modules_of(c):
        for d in m_defs(m):
            if def_is_type(d) and any(tag(s_) == 'vftable' for s_ in type_stmts(d)):
                gen.add(tuple(mp + [def_name(d) + 'Vftable']))
    for (mp, file, m) in modules_of(c):
        us = m_uses(m)
        for u in us:
            if tuple(u) in gen and any(v != u and v[-1:] == u[-1:] for v in us):
                return True
    return False

def generated_shadows_used_module(c):
    """a module M defines `T` with a vftable block (so M::TVftable is generated during the run) and also reaches another item called
    `TVftable` through one of its `use`s (a used module that defines it, or an import by name): until T has been attempted the
    name denotes the other item, afterwards the module's own generated one"""
    defined = set()
    for (mp, file, m) in modules_of(c):
        for d in m_defs(m):
            defined.add(tuple(mp + [def_name(d)]))
    for (mp, file, m) in modules_of(c):
        for d in m_defs(m):
            if def_is_type(d) and any(tag(s_) == 'vftable' for s_ in type_stmts(d)):
                nm = def_name(d) + 'Vftable'
                for u in m_uses(m):
                    u = list(u)
                    if tuple(u + [nm]) in defined or (u[-1:] == [nm] and tuple(u) in defined and u[:-1] != mp):
                        return True
    return False

def mentions_generated_in_signature(c):
    for p, nd in all_nodes(c):
        if tag(nd) == 'fn':
            txt = dump(nd[4]) + dump(nd[5])
            if 'Vftable"' in txt:
                return True
    return False

def judge_all(cases, impl, model, tier):
    fs = []
    info = {'dist': [], 'nontrivial_hashes': [], 'compared': 0}
    extra = []
    limit = 5 if tier == 'quick' else 6
    nohook_runs = 3 if tier == 'quick' else 12
    hooked = []
    groups = {}
    for c in cases:
        cid = c[1]
        vs = find(c, 'vseed')
        rng = random.Random(vs[1] if vs else 1)
        items = item_paths(c)
        variants = []
        srt = sorted(items, key=lambda p_: p_[1:])
        if len(items) <= limit:
            perms = list(itertools.permutations(srt))
            info['dist'].append('exhaustive-priorities')
        else:
            perms = [tuple(srt), tuple(reversed(srt))] + [tuple(rng.sample(srt, len(srt))) for _ in range(6 if tier == 'quick' else 40)]
            info['dist'].append('sampled-priorities')
        for k, pr in enumerate(perms):
            variants.append(with_prio(c, pr, '%s/p%d' % (cid, k)))
        mods = find(c, 'modules')[1:]
        mperms = list(itertools.permutations(mods))
        if len(mperms) > 24:
            mperms = [tuple(rng.sample(mods, len(mods))) for _ in range(24)]
        for k, mp in enumerate(mperms[1:]):
            variants.append(with_modules(c, mp, '%s/m%d' % (cid, k)))
        # the same build twice in one process
        variants.append(with_prio(c, c[3][1:], '%s/again' % cid))
        groups[cid] = variants
        hooked += variants
    lines = [sexp.dump(v) for v in hooked]
    impl2 = core.run_harness(lines, POINTS, jobs=12)
    model2 = core.run_model(lines, MODEL_POINTS, jobs=12)
    # hook-free runs in fresh processes (one process per run, so one HashMap seed per run)
    nohook = {}
    from concurrent.futures import ThreadPoolExecutor
    def fresh(args):
        cid, k, line = args
        wd = os.path.join(WORK, 'tmp', 'nh%d_%s_%d' % (os.getpid(), hashlib.sha1(cid.encode()).hexdigest()[:8], k))
        try:
            p = subprocess.run([HARNESS_BIN, 'run', '--points', 'o3', '--work', wd], input=line + '\n', capture_output=True, text=True, env=ENV, timeout=120)
            return cid, core.parse_obs(p.stdout)
        except subprocess.TimeoutExpired:
            return cid, {}
    jobs = []
    for c in cases:
        c2 = list(c) + [[S('nohook')]]
        c2[1] = c[1] + '/nohook'
        line = sexp.dump(c2)
        for k in range(nohook_runs):
            jobs.append((c[1], k, line))
    with ThreadPoolExecutor(max_workers=12) as ex:
        for cid, obs in ex.map(fresh, jobs):
            for _, o in obs.items():
                nohook.setdefault(cid, []).append(o.get('o3'))
    for c in cases:
        cid = c[1]
        base = impl.get(cid, {}).get('o3')
        sigs = {}
        sigs.setdefault(signature(base), []).append(cid)
        for v in groups[cid]:
            io, mo = impl2.get(v[1], {}), model2.get(v[1], {})
            if io.get('o3') is None or mo.get('o3') is None:
                fs.append(Finding('K', 'C09/no-observation', v[1], '')); continue
            info['compared'] += 1
            fs += k_compare(ID, v, io, mo, points=('o3',))
            sigs.setdefault(signature(io['o3']), []).append(v[1])
        for o in nohook.get(cid, []):
            if o is not None:
                sigs.setdefault(signature(o), []).append(cid + '/nohook')
        if any(isinstance(k, str) and k.startswith('bad') for k in sigs):
            continue          # panics / timeouts are C12's subject
        if len(sigs) > 1:
            kinds = sorted(('fail' if k == 'fail' else 'ok') for k in sigs)
            reason = 'C09/order-dependent'
            if mentions_generated_in_signature(c):
                reason += '/generated-vftable-in-signature'
            elif generated_shadows_import(c):
                reason += '/generated-vftable-shadows-import'
            elif generated_shadows_used_module(c):
                reason += '/generated-vftable-shadows-used-module'
            elif user_type_named_like_generated(c):
                reason += '/user-type-equal-to-generated-vftable'
            detail = '; '.join('%s: %s' % ('fail' if k == 'fail' else 'output#%d' % i, ','.join(v[:4])) for i, (k, v) in enumerate(sigs.items()))
            fs.append(Finding('O', reason, cid, detail[:600]))
            extra += [v for v in groups[cid] if v[1] in [x for vv in sigs.values() for x in vv[:2]]]
        else:
            nv = len(groups[cid]) + len(nohook.get(cid, []))
            if nv >= 3:
                info['nontrivial_hashes'].append(hashlib.sha1(sexp.dump(c[2:]).encode()).hexdigest())
            info['dist'].append('all-agree:' + ('fail' if list(sigs)[0] == 'fail' else 'ok'))
    return fs, info, extra
