"""Shared generator pieces."""
from ..sexp import Sym, S, tag, find, find_all, opt
from .. import sexp
from ..ast import *
from ..core import Finding, outcome_class

SCALARS = [('u8', 1), ('u16', 2), ('u32', 4), ('u64', 8), ('u128', 16), ('i8', 1), ('i16', 2), ('i32', 4),
           ('i64', 8), ('i128', 16), ('bool', 1), ('f32', 4), ('f64', 8)]

def scalar_ty(rng):
    n, s = rng.choice(SCALARS)
    return ty_id(n), s, s

def simple_field_type(rng, ps, depth=0):
    """-> (type sexp, size, align, is_array) over built-ins, pointers, arrays, unknown<N>"""
    r = rng.random()
    if r < 0.45 or depth > 2:
        t, s, a = scalar_ty(rng)
        return t, s, a, False
    if r < 0.65:
        inner, _, _, _ = simple_field_type(rng, ps, depth + 1)
        return (ty_cptr(inner) if rng.random() < 0.5 else ty_mptr(inner)), ps, ps, False
    if r < 0.85:
        inner, s, a, _ = simple_field_type(rng, ps, depth + 1)
        n = rng.choice([0, 1, 2, 3, 4, 7])
        return ty_arr(inner, n), s * n, a, True
    n = rng.choice([0, 1, 2, 3, 4, 6, 8, 12])
    return ty_unk(n), n, 1, True

def single_type_case(cid, ps, type_attrs, stmts, name='T', mod='test', extras=()):
    m = module(defs=[type_def(True, name, type_attrs, stmts)])
    return case(cid, ps, [modent(path(mod), m)], extras=extras)

def o2_items(obs):
    """{path tuple: item sexp} of a (resolved ...) observation"""
    if tag(obs) != 'resolved':
        return {}
    items = find(obs, 'items')
    return {tuple(it[1][1:]): it for it in items[1:]}
