"""C01 – declared field addresses are the real field offsets in the emitted struct."""
from .layoutcommon import *

ID = 'C01'
POINTS = ['o2', 'o3']
MODEL_POINTS = ['o2', 'o3']
RULE = ("multi-module worlds built layout-first (explicit addresses, implicit placement, unknown<N> gaps, pointers, arrays, "
        "nested / extern / enum-typed fields, vftable pointer, base sub-objects, packed and aligned types) at both pointer "
        "widths, plus a stream with one integer perturbed. Offsets of the implementation's emitted struct are computed with "
        "the compiler's repr(C) rules (tools/pv/rustlay.py; thorough tier: cross-checked with the real rustc). "
        "non-trivial = accepted and at least 3 named fields had their offset checked; distinct by case text")
ASSUMPTIONS = ["zero-length array fields are not emitted by pyxis and occupy no bytes; they are exempt",
               "offsets come from a Python model of rustc's repr(C) layout, validated against the real compiler in the thorough tier"]

def generate(rng, tier):
    n = 300 if tier == 'quick' else 6000
    o = gen.Opts(max_fields=8, p_explicit_addr=0.4, p_gap=0.25, p_packed=0.12, p_base=0.4, p_vftable=0.35,
                 p_impl=0.1, p_backend=0.0, p_extern_val=0.0, p_doc=0.05, p_extern_type=0.5)
    o.p_nearmiss = 0.08
    return std_worlds(rng, n, o, perturb=0.25)

def check_offsets(c, files, crate, report):
    """calls report(reason, detail) for every named field at an offset other than the one described; returns #checked"""
    checked = 0
    ps = crate.ps
    for (mp, file, m) in modules_of(c):
        items = file_items(files, mp)
        for d in m_defs(m):
            if not def_is_type(d):
                continue
            name = def_name(d)
            st = find_item(items, 'struct', name)
            if st is None:
                report('C01/struct-missing', name); continue
            try:
                size, align, lay = crate.item_layout('crate::' + '::'.join(mp + [name]))
            except rustlay.LayoutError as e:
                report('C01/layout-undetermined', '%s: %s' % (name, e)); continue
            by_name = {n: (o, s) for (n, o, s) in lay}
            prev_end = 0
            if lay and lay[0][0] == 'vftable':
                if lay[0][1] != 0:
                    report('C01/vftable-pointer-not-at-zero', name)
                prev_end = lay[0][1] + lay[0][2]
            for stt in type_stmts(d):
                if not stmt_is_field(stt):
                    continue
                fname, fty, fat = stt[2], stt[3], stt[4][1:]
                addr = attr_fn(fat, 'address')
                expected = addr if addr is not None else prev_end
                if fname != '_' and fname in by_name:
                    off, fsize = by_name[fname]
                    checked += 1
                    if off != expected:
                        report('C01/field-offset', '%s.%s: described at %d (%s), compiled at %d' %
                               (name, fname, expected, 'explicit' if addr is not None else 'after predecessor', off))
                    prev_end = expected + fsize
                else:
                    fsize = input_type_size(fty, crate, mp, None)
                    if fname != '_' and not (fsize == 0 and tag(fty) in ('arr', 'unk')):
                        report('C01/field-missing', '%s.%s' % (name, fname))
                    if fsize is None:
                        break       # cannot follow the implicit chain any further
                    prev_end = expected + fsize
    return checked

def judge(c, impl, model):
    cid = c[1]
    info = {'dist': []}
    fs = k_compare(ID, c, impl, model)
    cls = outcome_class(impl.get('o3'))
    count(info, 'impl-' + cls)
    if cls == 'ok':
        io3 = canon.canon_o3(impl['o3'], 'impl')
        files, crate = crate_of(c, io3)
        seen = set()
        def report(reason, detail):
            if reason not in seen:
                seen.add(reason)
                fs.append(Finding('O', reason, cid, detail))
        n = check_offsets(c, files, crate, report)
        count(info, 'fields-checked:%s' % ('0' if n == 0 else '1-2' if n < 3 else '3-9' if n < 10 else '10+'))
        if n >= 3:
            info['nontrivial'] = True
    elif cls == 'bad':
        pass   # panics are C12's subject
    return fs, info


def judge_all(cases, impl, model, tier):
    fs, info = rustc_layout_validation(ID, cases, impl, tier)
    return fs, info, []
