"""Pieces shared by the layout oracles (C01, C02): the crate of emitted items with its compiler layout."""
from .world import *
from .. import rustlay

def extern_table(c):
    ext = {}
    for (mp, file, m) in modules_of(c):
        for xt in m_xtypes(m):
            at = xt[2][1:]
            s, a = attr_fn(at, 'size'), attr_fn(at, 'align')
            if s is not None and a is not None:
                ext['crate::' + '::'.join(mp + [xt[1]])] = (s, a)
    return ext

def crate_of(c, io3):
    files = o3_files(io3)
    if files is None:
        return None, None
    ps = find(c, 'ps')[1]
    return files, rustlay.Crate(files, ps, extern_table(c))

def input_type_size(t, crate, modpath, named_size):
    """size of an input type expression when it can be told without name resolution, else None"""
    k = tag(t)
    if k == 'unk':
        return t[1]
    if k in ('cptr', 'mptr'):
        return crate.ps
    if k == 'arr':
        s = input_type_size(t[1], crate, modpath, named_size)
        return None if s is None else s * t[2]
    if k == 'id' and ('::std::ffi::c_void' != t[1]) and t[1] in rustlay.PRIM:
        return rustlay.PRIM[t[1]][0]
    if k == 'id':
        # a type that is emitted or declared extern under exactly one path with that last segment
        cands = [p for p in list(crate.items) + list(crate.externs) if p.endswith('::' + t[1])]
        if len(cands) == 1:
            try:
                return crate.type_layout(cands[0])[0]
            except rustlay.LayoutError:
                return None
    return None
