"""Pieces shared by the layout oracles (C01, C02): the crate of emitted items with its compiler layout."""
from .world import *
from .. import rustlay

def extern_table(c):
    ext = {}
    for (mp, file, m) in modules_of(c):
        for xt in m_xtypes(m):
            at = xt[2][1:]
            s, a = attr_fn(at, 'size'), attr_fn(at, 'align')
            if s is not None and a is not None:
                ext['crate::' + '::'.join(mp + [xt[1]])] = (s, a)
    return ext

def crate_of(c, io3):
    files = o3_files(io3)
    if files is None:
        return None, None
    ps = find(c, 'ps')[1]
    return files, rustlay.Crate(files, ps, extern_table(c))

def void_tainted(crate):
    """paths of emitted structs that embed `::std::ffi::c_void` BY VALUE (directly, in arrays, or through other structs):
    pyxis gives by-value `void` size 0, the emitted c_void has size 1 – the open finding `…/by-value-void`"""
    import re
    def elem(ty):
        ty = ty.strip()
        m = re.match(r'^\[(.*);\s*\d+\]$', ty)
        while m:
            ty = m.group(1).strip(); m = re.match(r'^\[(.*);\s*\d+\]$', ty)
        return ty
    out = set()
    changed = True
    while changed:
        changed = False
        for pth, it in crate.items.items():
            if pth in out or tag(it) != 'struct':
                continue
            for f in it[6:]:
                e = elem(f[4])
                if e == '::std::ffi::c_void' or e in out:
                    out.add(pth); changed = True; break
    return out

def input_type_size(t, crate, modpath, named_size):
    """size of an input type expression when it can be told without name resolution, else None"""
    k = tag(t)
    if k == 'unk':
        return t[1]
    if k in ('cptr', 'mptr'):
        return crate.ps
    if k == 'arr':
        s = input_type_size(t[1], crate, modpath, named_size)
        return None if s is None else s * t[2]
    if k == 'id' and ('::std::ffi::c_void' != t[1]) and t[1] in rustlay.PRIM:
        return rustlay.PRIM[t[1]][0]
    if k == 'id':
        # a type that is emitted or declared extern under exactly one path with that last segment
        cands = [p for p in list(crate.items) + list(crate.externs) if p.endswith('::' + t[1])]
        if len(cands) == 1:
            try:
                return crate.type_layout(cands[0])[0]
            except rustlay.LayoutError:
                return None
    return None


def rustc_layout_validation(prop, cases, impl, tier, sample_quick=30):
    """second phase shared by C01 / C02: the REAL compiler (nightly, `no_core`, target {i686,x86_64}-pc-windows-msvc –
    the pointer width of the case) evaluates, for a sample of accepted worlds (all of them in the thorough tier),
    `size_of` / `align_of` / `offset_of` of every emitted item against (a) the oracle's layout model and (b) the size and
    alignment pyxis resolved.  -> (findings, info)"""
    from concurrent.futures import ThreadPoolExecutor
    from .. import o4
    fs = []
    info = {'dist': [], 'compared': 0, 'nontrivial_hashes': []}
    jobs = []
    for c in cases:
        io = impl.get(c[1], {})
        if outcome_class(io.get('o3')) != 'ok' or tag(io.get('o2')) != 'resolved':
            continue
        if tier != 'thorough' and len(jobs) >= sample_quick:
            break
        # an extern type whose declared size is not a multiple of its declared alignment (or whose alignment is not a power of
        # two) cannot exist in the compiler at all: "extern types of declared size/alignment" cannot be supplied for such a world
        ext = extern_table(c)
        if any(a <= 0 or (a & (a - 1)) or sz % a for (sz, a) in ext.values()):
            info['dist'].append('out-of-domain:unrealisable-extern-declaration')
            continue
        cobs = canon.canon_o3(io['o3'], 'impl')
        files, crate = crate_of(c, cobs)
        o2_items = {tuple(it[1][1:]): it for it in find(io['o2'], 'items')[1:]}
        src, nassert = o4.nocore_source(crate, o2_items, crate.ps)
        jobs.append((c, src, nassert, crate.ps))
    def work(j):
        c, src, nassert, ps = j
        ok, detail = o4.nocore_check(src, prop + c[1], ps)
        return c, nassert, ps, ok, detail
    with ThreadPoolExecutor(max_workers=12) as ex:
        res = list(ex.map(work, jobs))
    total = 0
    for (c, nassert, ps, ok, detail) in res:
        info['compared'] += 1
        if ok:
            total += nassert
            info['dist'].append('rustc-nightly-ps%d-confirms-layout' % ps)
        else:
            if any('E0588' in d for d in detail):
                info['dist'].append('rustc-rejects-E0588 (open C13 finding: packed around aligned)')
                continue
            pyx = [d for d in detail if 'pyxis resolved' in d]
            if pyx:
                from .. import o4 as _o4
                import re as _re
                files_, crate_ = crate_of(c, canon.canon_o3(impl[c[1]]['o3'], 'impl'))
                tainted = {_o4.flat_name(p_[len('crate::'):]) for p_ in void_tainted(crate_)}
                names = set(_re.findall(r'(?:size_of|align_of)::<([A-Za-z0-9_]+)>', ' '.join(pyx)))
                suffix = '/by-value-void' if names and names <= tainted else ''
                fs.append(Finding('O', prop + '/compiler-layout-differs-from-resolved' + suffix, c[1], '; '.join(pyx)[:600]))
            else:
                fs.append(Finding('K', prop + '/layout-model-differs-from-rustc', c[1], '; '.join(detail)[:600]))
    info['dist'] += ['rustc-layout-assertions'] * 0
    info['rustc_layout_assertions'] = total
    return fs, info
