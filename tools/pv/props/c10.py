"""C10 – resolution succeeds exactly when names exist and by-value embedding is acyclic."""
import hashlib
from .layoutcommon import *

ID = 'C10'
POINTS = ['o2', 'o3']
MODEL_POINTS = ['o2', 'o3']
RULE = ("dependency graphs over 2-12 packed types and enums in 1-4 modules: by-value edges (fields, arrays, base fields, enum "
        "bases) forming chains up to depth 12 and, in a second stream, cycles of length 1-5; pointer edges anywhere (cycles "
        "allowed); undefined names in each position (field by value, field behind a pointer, array element, base, enum base, "
        "function parameter, return type, extern value); random resolution priority. An independent graph analysis of the "
        "input (fixed point of `stuck`) predicts: accepted / the exact set of items named in the non-termination error / a "
        "hard error; compared with the implementation's verdict and, on success, every declared item and field must be present "
        "in the output. non-trivial = accepted with a by-value chain of depth >= 3, or a predicted non-empty stuck set that "
        "matched; distinct by case text")
ASSUMPTIONS = ["names are looked up with the binding rule of C11; in these graphs every name has at most one definition"]
PRIM = ['u8', 'u16', 'u32', 'u64', 'i32', 'bool', 'f32']
INTS = ['u8', 'u16', 'u32', 'i8', 'i16', 'i32', 'u64', 'i64']

def generate(rng, tier):
    n = 400 if tier == 'quick' else 8000
    return [graph_case(rng, 'g%d' % i) for i in range(n)] + [big_stuck_case(rng, 'big%d' % i) for i in range(max(6, n // 60))]

def big_stuck_case(rng, cid):
    """9-20 types that all (transitively, by value) hang on one undefined name or one cycle, spread over 1-3 modules, plus a few
    that only point at them: the error must list EVERY stuck type, however many there are"""
    k = rng.randint(9, 20)
    mods = [['b%d' % j] for j in range(rng.randint(1, 3))]
    home = {i: rng.choice(mods) for i in range(k + 3)}
    defs = {tuple(m_): [] for m_ in mods}
    uses = {tuple(m_): [] for m_ in mods}
    def ref(frm, to):
        if home[frm] != home[to]:
            u = path(*(home[to] + ['S%d' % to]))
            if u not in uses[tuple(home[frm])]: uses[tuple(home[frm])].append(u)
        return 'S%d' % to
    for i in range(k):
        if i == 0:
            flds = [field(True, 'bad', ty_id('Missing') if rng.random() < 0.6 else ty_id(ref(0, k - 1)))]
        else:
            t = ty_id(ref(i, rng.randrange(i) if rng.random() < 0.5 else i - 1))
            r = rng.random()
            if r < 0.3: t = ty_arr(t, 2)
            at = [a_ident('base')] if r > 0.8 else []
            flds = [field(True, 'v', t, at), field(True, 'n', ty_id('u32'))]
        defs[tuple(home[i])].append(type_def(True, 'S%d' % i, [a_ident('packed')], flds))
    for i in range(k, k + 3):
        defs[tuple(home[i])].append(type_def(True, 'S%d' % i, [a_ident('packed')], [field(True, 'p', ty_cptr(ty_id(ref(i, rng.randrange(k)))))]))
    ents = [modent(path(*m_), module(uses=uses[tuple(m_)], defs=defs[tuple(m_)])) for m_ in mods]
    rng.shuffle(ents)
    return case(cid, rng.choice([4, 8]), ents)

def graph_case(rng, cid):
    nm = rng.randint(1, 4)
    mods = [['m%d' % k] + (['s'] if rng.random() < 0.3 else []) for k in range(nm)]
    nt = rng.randint(2, 12)
    mode = rng.choice(['acyclic', 'acyclic', 'chain', 'chain', 'cycle', 'undefined', 'undefined', 'mixed'])
    names = ['N%d' % i for i in range(nt)]
    home = {nme: rng.choice(mods) for nme in names}
    kinds = {nme: ('enum' if rng.random() < (0.03 if mode == 'chain' else 0.15) else 'type') for nme in names}
    order = list(names)          # by-value edges go from later to earlier (acyclic), plus extra back edges for cycles
    defs = {tuple(m_): [] for m_ in mods}
    uses = {tuple(m_): [] for m_ in mods}
    impls = {tuple(m_): [] for m_ in mods}
    xvals = {tuple(m_): [] for m_ in mods}
    def ref(frm, to):
        """name usable in frm's module for item `to`"""
        if home[frm] != home[to]:
            u = path(*(home[to] + [to])) if rng.random() < 0.6 else path(*home[to])
            if u not in uses[tuple(home[frm])]:
                # a module import makes every name of that module visible; fine, names are unique
                uses[tuple(home[frm])].append(u)
                if u == path(*home[to]):
                    pass
            else:
                pass
            # make sure the chosen import really makes `to` visible
            if path(*(home[to] + [to])) not in uses[tuple(home[frm])] and path(*home[to]) not in uses[tuple(home[frm])]:
                uses[tuple(home[frm])].append(path(*(home[to] + [to])))
        return to
    chain_depth = {}
    addr = [0x1000]
    for i, nme in enumerate(order):
        if kinds[nme] == 'enum':
            base = ty_id(rng.choice(INTS))
            if mode in ('undefined', 'mixed') and rng.random() < 0.12:
                base = ty_id('Missing')
            defs[tuple(home[nme])].append(enum_def(True, nme, base, [], [enum_stmt('A'), enum_stmt('B')]))
            chain_depth[nme] = 0
            continue
        flds = []
        depth = 0
        # by-value edges to earlier items
        earlier = [e for e in order[:i]]
        for k in range(rng.randint(0, 3)):
            r = rng.random()
            if earlier and r < 0.55:
                to = earlier[-1] if (mode == 'chain' or rng.random() < 0.5) else rng.choice(earlier)
                t = ty_id(ref(nme, to))
                if rng.random() < 0.25: t = ty_arr(t, rng.choice([0, 0, 1, 2, 3]))
                at = [a_ident('base')] if (kinds[to] == 'type' and rng.random() < 0.2 and tag(t) == 'id') else []
                flds.append(field(True, 'v%d' % k, t, at))
                depth = max(depth, chain_depth[to] + 1)
            elif r < 0.8:
                to = rng.choice(order)       # pointers may point anywhere, also forward and to itself
                flds.append(field(True, 'p%d' % k, ty_cptr(ty_id(ref(nme, to))) if rng.random() < 0.7 else ty_mptr(ty_arr(ty_id(ref(nme, to)), 2))))
            else:
                flds.append(field(True, 's%d' % k, ty_id(rng.choice(PRIM))))
        chain_depth[nme] = depth
        defs[tuple(home[nme])].append([nme, flds])
    # cycles: add a by-value back edge from an earlier type to a later one
    struct_names = [n_ for n_ in order if kinds[n_] == 'type']
    if mode in ('cycle', 'mixed') and struct_names:
        for _ in range(rng.choice([1, 1, 2])):
            a = rng.choice(struct_names)
            later = [b for b in struct_names if order.index(b) >= order.index(a)]
            b = rng.choice(later)
            for m_ in defs.values():
                for d in m_:
                    if isinstance(d, list) and d[0] == a and not isinstance(d[0], Sym):
                        t = ty_id(ref(a, b))
                        if rng.random() < 0.4: t = ty_arr(t, rng.choice([0, 0, 2]))
                        d[1].append(field(True, 'cyc%d' % len(d[1]), t))
    if mode in ('undefined', 'mixed') and struct_names:
        for _ in range(rng.choice([1, 1, 2])):
            a = rng.choice(struct_names)
            pos = rng.choice(['field', 'pointer', 'array', 'base', 'param', 'ret', 'xval'])
            for key, m_ in defs.items():
                for d in m_:
                    if isinstance(d, list) and d[0] == a and not isinstance(d[0], Sym):
                        if pos == 'field': d[1].append(field(True, 'u%d' % len(d[1]), ty_id('Missing')))
                        elif pos == 'pointer': d[1].append(field(True, 'u%d' % len(d[1]), ty_cptr(ty_id('Missing'))))
                        elif pos == 'array': d[1].append(field(True, 'u%d' % len(d[1]), ty_arr(ty_id('Missing'), 2)))
                        elif pos == 'base': d[1].insert(0, field(True, 'ub', ty_id('Missing'), [a_ident('base')]))
                        elif pos in ('param', 'ret'):
                            addr[0] += 16
                            args = [SELF] + ([arg('x', ty_cptr(ty_id('Missing')))] if pos == 'param' else [])
                            # (also for an 'internal' function, whose wrapper is never emitted: its types are still looked up)
                            impls[key].append(impl(a, [], [fn(True, rng.choice(['f', 'f', '_f']), [a_int('address', addr[0])], args, ty_id('Missing') if pos == 'ret' else None)]))
                        else:
                            addr[0] += 16
                            xvals[key].append(xval(True, 'g%d' % addr[0], ty_mptr(ty_id('Missing')), [a_int('address', addr[0])]))
    # which types get a vftable block (its generated <T>Vftable item is registered on the first attempt, also while the type
    # itself still waits for a by-value dependency); other types may point to the generated item
    owners = [d[0] for m_ in mods for d in defs[tuple(m_)] if isinstance(d, list) and not isinstance(d[0], Sym) and rng.random() < 0.3]
    for ow in owners:
        if rng.random() < 0.5:
            tgt = rng.choice(struct_names)
            if tgt == ow:
                continue     # a pointer to the type's OWN generated vftable struct is an open finding with its own witness case
            for key, m_ in defs.items():
                for d in m_:
                    if isinstance(d, list) and not isinstance(d[0], Sym) and d[0] == tgt:
                        d[1].append(field(True, 'pv%d' % len(d[1]), ty_cptr(ty_id(ow + 'Vftable'))))
                        if home[tgt] != home[ow]:
                            u = path(*(home[ow] + [ow + 'Vftable']))
                            if u not in uses[tuple(home[tgt])] and path(*home[ow]) not in uses[tuple(home[tgt])]:
                                uses[tuple(home[tgt])].append(u)
    ents = []
    for m_ in mods:
        ds = []
        for d in defs[tuple(m_)]:
            if isinstance(d, list) and not isinstance(d[0], Sym):
                stmts = list(d[1])
                if d[0] in owners:
                    stmts = [vftable([], [fn(True, 'vf', [], [SELF], None)])] + stmts
                ds.append(type_def(True, d[0], [a_ident('packed')], stmts))
            else:
                ds.append(d)
        rng.shuffle(ds)
        ents.append(modent(path(*m_), module(uses=uses[tuple(m_)], defs=ds, impls=impls[tuple(m_)], xvals=xvals[tuple(m_)])))
    rng.shuffle(ents)
    allp = [path(*(home[n_] + [n_])) for n_ in names]
    rng.shuffle(allp)
    return case(cid, rng.choice([4, 8]), ents, prio=allp if rng.random() < 0.7 else [])

# ------------------------------------------------------------------ the independent analysis

def type_names(t, byvalue=True):
    """[(name, by_value?)] mentioned by a type expression"""
    k = tag(t)
    if k == 'id': return [(t[1], byvalue)]
    if k in ('cptr', 'mptr'): return [(n_, False) for (n_, _) in type_names(t[1], False)]
    if k == 'arr': return type_names(t[1], byvalue)
    return []

BUILTINS = set(['void', 'bool', 'u8', 'u16', 'u32', 'u64', 'u128', 'i8', 'i16', 'i32', 'i64', 'i128', 'f32', 'f64'])

def analyse(c):
    """-> ('ok', None) | ('nonterm', set of path tuples) | ('error', why)"""
    items = {}
    by_name = {}
    for (mp, file, m) in modules_of(c):
        for d in m_defs(m):
            items[tuple(mp + [def_name(d)])] = (mp, m, d)
            by_name.setdefault(def_name(d), []).append(tuple(mp + [def_name(d)]))
            if def_is_type(d) and any(tag(s_) == 'vftable' for s_ in type_stmts(d)):
                # the generated vftable struct counts as a definition (it is never unresolved)
                by_name.setdefault(def_name(d) + 'Vftable', []).append(('generated',) + tuple(mp + [def_name(d) + 'Vftable']))
    # A generated <T>Vftable item is registered during T's attempt, after the names of T's fields have been looked up and once
    # T's first #[base] field (if any) has a known size (the base decides whether T gets a pointer of its own).  Existence of
    # generated items and resolvability of items are therefore one joint least fixed point.
    gen_exists = set()        # owners whose generated item is registered
    def lookup(mp, m, nme):
        if nme in BUILTINS: return ('builtin',)
        cands = by_name.get(nme, [])
        vis = []
        for pth in cands:
            if pth[0] == 'generated' and pth[1:-1] + (pth[-1][:-len('Vftable')],) not in gen_exists:
                continue
            real = pth[1:] if pth[0] == 'generated' else pth
            if list(real[:-1]) == mp or list(real) in m_uses(m) or list(real[:-1]) in m_uses(m):
                vis.append(pth)
        if vis and vis[0][0] == 'generated':
            return ('builtin',)
        return vis[0] if vis else None
    def field_info(pth):
        """-> (all names defined?, by-value edges, by-value edges of the first base field or None)"""
        mp, m, d = items[pth]
        ok, edges_, first_base = True, set(), None
        if def_is_type(d):
            for st in type_stmts(d):
                if stmt_is_field(st):
                    es = set()
                    for (nme, bv) in type_names(st[3]):
                        b = lookup(mp, m, nme)
                        if b is None: ok = False
                        elif bv and b != ('builtin',): es.add(b)
                    edges_ |= es
                    if first_base is None and has_ident(st[4][1:], 'base'):
                        first_base = es
        else:
            for (nme, bv) in type_names(enum_base(d)):
                b = lookup(mp, m, nme)
                if b is None: ok = False
                elif b != ('builtin',): edges_.add(b)
        return ok, edges_, first_base
    owners_ = set(pth for pth, (mp, m, d) in items.items() if def_is_type(d) and any(tag(s_) == 'vftable' for s_ in type_stmts(d)))
    resolved = set()
    changed = True
    while changed:
        changed = False
        for pth in items:
            ok, es, fb = field_info(pth)
            if pth in owners_ and pth not in gen_exists and ok and (fb is None or all(e in resolved for e in fb)):
                gen_exists.add(pth); changed = True
            if pth not in resolved and ok and all(e in resolved for e in es):
                resolved.add(pth); changed = True
    hard = None
    name_missing = set()
    edges = {}
    for pth, (mp, m, d) in items.items():
        ok, es, fb = field_info(pth)
        edges[pth] = es
        if not ok: name_missing.add(pth)
        if def_is_type(d):
            for st in type_stmts(d):
                if not stmt_is_field(st):
                    for f in st[2:]:
                        for a_ in fn_args(f):
                            if not isinstance(a_, Sym) and any(lookup(mp, m, n_) is None for (n_, _) in type_names(a_[2])): hard = hard or 'vfunc-param'
                        if fn_ret(f) is not None and any(lookup(mp, m, n_) is None for (n_, _) in type_names(fn_ret(f))): hard = hard or 'vfunc-ret'
    stuck = set(items) - resolved
    # hard errors from impl functions / extern values only surface for types that get resolved / after resolution
    for (mp, file, m) in modules_of(c):
        for im in m_impls(m):
            owner = tuple(mp + [im[1]])
            for f in im[3:]:
                bad = any(not isinstance(a, Sym) and any(lookup(mp, m, n_) is None for (n_, _) in type_names(a[2])) for a in fn_args(f)) \
                    or (fn_ret(f) is not None and any(lookup(mp, m, n_) is None for (n_, _) in type_names(fn_ret(f))))
                if bad and owner in resolved:
                    hard = hard or 'impl-signature'
        if not stuck:
            for xv in m_xvals(m):
                if any(lookup(mp, m, n_) is None for (n_, _) in type_names(xv[3])): hard = hard or 'extern-value'
    return items, edges, stuck, hard

def judge(c, impl, model):
    cid = c[1]
    info = {'dist': []}
    fs = k_compare(ID, c, impl, model)
    io2 = impl.get('o2')
    cls = outcome_class(io2)
    count(info, 'impl-' + cls)
    if cls == 'bad':
        # neither success nor an error: the build did not end with a verdict (hang / panic)
        fs.append(Finding('O', 'C10/no-verdict', cid, dump(io2)[:200]))
        return fs, info
    items, edges, stuck, hard = analyse(c)
    if find(c, 'expect-any') is not None:
        return fs, info
    if find(c, 'witness-own-vftable-in-field') is not None:
        if cls != 'ok':
            fs.append(Finding('O', 'C10/all-names-defined-but-rejected/own-generated-vftable-in-field', cid, dump(io2)[:200]))
        return fs, info
    if stuck:
        count(info, 'predicted-stuck')
        if cls == 'ok':
            fs.append(Finding('O', 'C10/accepted-with-unresolvable-items', cid, str(sorted(stuck))[:300]))
        elif tag(io2[1]) == 'nonterm':
            got = set(tuple(p_[1:]) for p_ in io2[1][1:])
            if got != stuck:
                fs.append(Finding('O', 'C10/nonterm-set-differs', cid, 'reported %s, unresolvable %s' % (sorted(got), sorted(stuck))))
            else:
                info['nontrivial'] = True
        else:
            # a hard error may pre-empt the non-termination report (an impl function of a resolvable type, …)
            if hard is None:
                fs.append(Finding('O', 'C10/other-error-instead-of-nonterm', cid, dump(io2)[:300]))
    elif hard:
        count(info, 'predicted-hard-error:' + hard)
        if cls == 'ok':
            fs.append(Finding('O', 'C10/reference-dropped/' + hard, cid, ''))
        else:
            info['nontrivial'] = True
    else:
        count(info, 'predicted-ok')
        if cls != 'ok':
            reason = 'C10/spurious-rejection'
            if 'Vftable"' in dump(c): reason = 'C10/order-dependent-verdict/generated-vftable-in-signature'
            fs.append(Finding('O', reason, cid, dump(io2)[:300]))
        else:
            # nothing left out: every declared item is in the resolved state and in the output
            got = set(tuple(it[1][1:]) for it in find(io2, 'items')[1:])
            missing = set(items) - got
            if missing:
                fs.append(Finding('O', 'C10/item-left-out', cid, str(sorted(missing))))
            files = o3_files(canon.canon_o3(impl['o3'], 'impl')) if tag(impl.get('o3')) == 'files' else None
            if files is not None:
                for pth, (mp, m, d) in items.items():
                    it = find_item(file_items(files, mp), 'struct' if def_is_type(d) else 'enum', def_name(d))
                    if it is None:
                        fs.append(Finding('O', 'C10/item-left-out', cid, str(pth))); break
                    if def_is_type(d):
                        _, crate = crate_of(c, canon.canon_o3(impl['o3'], 'impl'))
                        want = [st[2] for st in type_stmts(d) if stmt_is_field(st)
                                and not (tag(st[3]) == 'arr' and input_type_size(st[3], crate, mp, None) == 0)]
                        have = [f[0] for f in struct_fields(it)]
                        if [w for w in want if w not in have]:
                            fs.append(Finding('O', 'C10/field-dropped', cid, '%s: %s' % (pth, [w for w in want if w not in have]))); break
            depth = {}
            def dep(p_, seen=()):
                if p_ in depth: return depth[p_]
                depth[p_] = 0 if not edges[p_] else 1 + max(dep(e, seen + (p_,)) for e in edges[p_])
                return depth[p_]
            md = max([dep(p_) for p_ in items] or [0])
            count(info, 'chain-depth:%s' % ('0-2' if md < 3 else '3-5' if md < 6 else '6+'))
            if md >= 3:
                info['nontrivial'] = True
    return fs, info
