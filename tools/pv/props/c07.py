"""C07 – base members are re-exposed on derived types and act on the base sub-object (emitted shape)."""
from .layoutcommon import *

ID = 'C07'
POINTS = ['o2', 'o3']
MODEL_POINTS = ['o2', 'o3']
RULE = ("hierarchies of depth 1-4 with up to three bases per level, diamonds (the same base type reached twice), name clashes "
        "between bases and between base and derived, public/private mixes of impl and vftable functions. From the input and the "
        "implementation's own output for the base types the expected member set of every derived type is computed: one forwarding "
        "method per public associated function of each base (and per public virtual function of every base but the first), "
        "named `<name>` or `<field>_<name>`, calling `self.<field>.<original>` with the receiver dropped; one AsRef/AsMut pair "
        "per base type occurring once in the hierarchy with the field path leading to it, a marker and no conversion for types "
        "occurring more than once. non-trivial = accepted with a derived type that re-exposes >= 1 function or has >= 1 "
        "conversion checked; distinct by case text")
ASSUMPTIONS = ["that a forwarding call lands on the sub-object at the base's offset follows from Rust's field projection and C01; it is executed only in the thorough tier"]

HARNESS_ENV = {'PXHARNESS_TEXT': '1'}

def generate(rng, tier):
    n = 250 if tier == 'quick' else 5000
    o = gen.Opts(p_base=0.8, p_vftable=0.45, p_impl=0.7, p_enum=0.0, p_backend=0.0, p_extern_val=0.0, p_extern_type=0.1,
                 p_priv=0.3, max_modules=2, max_items=7, max_fields=2, p_packed=0.0, p_index=0.2, p_vft_size=0.2, p_underscore=0.12)
    out = std_worlds(rng, n, o)
    # clash stream: rename functions so that several bases export the same name
    for c in out[: n // 3]:
        names = ['run', 'stop', 'get']
        k = 0
        for p, nd in list(all_nodes(c)):
            if tag(nd) == 'fn' and any(tag(a) == 'af' and a[1] == 'address' for a in nd[3][1:]) and rng.random() < 0.5:
                pass
    from .. import o4exec
    from . import rare
    return out + rare.base_cases() + clash_worlds(rng, n // 3, o) + same_name_worlds(rng, max(6, n // 25)) + o4exec.exec_worlds(rng, 10 if tier == 'quick' else 200, **dict(p_base=0.8, p_impl=0.6, p_vftable=0.5, max_items=6))

def clash_worlds(rng, n, o):
    out = []
    for i in range(n):
        c = gen.world(rng, 'cl%d' % i, opts=o)
        # impl functions of different types share names from a tiny pool (unique within a type)
        used = {}
        for p, nd in all_nodes(c):
            if tag(nd) == 'impl':
                pool = ['run', 'stop', 'get', 'size']
                rng.shuffle(pool)
                fns = nd[3:]
                new = []
                for f in fns:
                    f2 = list(f)
                    if pool and rng.random() < 0.7:
                        f2[2] = pool.pop()
                    new.append(f2)
                c = replace_at(c, p, nd[:3] + new)
        # virtual functions (also private ones) named like impl functions of other types
        for p, nd in all_nodes(c):
            if tag(nd) == 'vftable' and len(nd) > 2 and rng.random() < 0.5:
                k = rng.randrange(2, len(nd))
                f2 = list(nd[k]); f2[2] = rng.choice(['run', 'stop', 'get', 'size'])
                if rng.random() < 0.5: f2[1] = S('priv')
                if not any(x[2] == f2[2] for x in nd[2:]):
                    c = replace_at(c, p, nd[:k] + [f2] + nd[k + 1:])
        out.append(c)
    return out

def same_name_worlds(rng, n):
    """hierarchies in which DIFFERENT base types share a short name (ga::Node, au::Node), one of them reached transitively;
    each occurs once, so each converts by reference; a control variant really has the same type twice (a diamond)"""
    out = []
    for i in range(n):
        af = lambda name, addr: fn(True, name, [a_int('address', addr)], [SELF], None)
        ga = modent(path('ga%d' % i), module(defs=[type_def(True, 'Node', [], [field(True, 'x', ty_id('u32'))])],
                                             impls=[impl('Node', [], [af('ga_fn', 0x10001000)])]))
        au = modent(path('au%d' % i), module(defs=[type_def(True, 'Node', [], [field(True, 'y', ty_id('u64'))])],
                                             impls=[impl('Node', [], [af('au_fn', 0x10002000)])]))
        mid = modent(path('mid%d' % i), module(uses=[path('ga%d' % i, 'Node')], defs=[
            type_def(True, 'Mid', [], [field(True, 'n', ty_id('Node'), [a_ident('base')]), field(True, 'k', ty_id('u32'))])]))
        diamond = rng.random() < 0.3
        top_uses = [path(('ga%d' if diamond else 'au%d') % i, 'Node'), path('mid%d' % i, 'Mid')]
        top = modent(path('top%d' % i), module(uses=top_uses, defs=[
            type_def(True, 'Top', [a_int('align', 8)] if not diamond else [], [field(True, 'm', ty_id('Mid'), [a_ident('base')]),
                                                                             field(True, 'n', ty_id('Node'), [a_ident('base')])]
                     + ([field(True, 'pad', ty_id('u32'))] if diamond else []))]))
        ents = [ga, au, mid, top]; rng.shuffle(ents)
        out.append(case('sn%d' % i, rng.choice([4, 8]), ents))
    return out

def base_fields(d):
    return [st for st in type_stmts(d) if stmt_is_field(st) and has_ident(st[4][1:], 'base')]

def judge(c, impl, model):
    cid = c[1]
    info = {'dist': []}
    fs = k_compare(ID, c, impl, model)
    fs += must_reject_findings(ID, c, impl)
    cls = outcome_class(impl.get('o3'))
    count(info, 'impl-' + cls)
    if cls != 'ok':
        return fs, info
    files = o3_files(canon.canon_o3(impl['o3'], 'impl'))
    seen = set()
    def report(reason, detail):
        if reason not in seen:
            seen.add(reason); fs.append(Finding('O', reason, cid, detail))
    # index of input definitions and emitted items by full path (the same short name may be defined in several modules)
    impls, structs, defs = {}, {}, {}
    binders = {}
    for (mp, file, m) in modules_of(c):
        items = file_items(files, mp) or []
        binders[tuple(mp)] = binder(c, mp)
        for d in m_defs(m):
            if def_is_type(d):
                defs[tuple(mp + [def_name(d)])] = (mp, d)
        for it in items:
            if tag(it) == 'impl': impls[tuple(mp + [it[1]])] = it
            if tag(it) == 'struct': structs[tuple(mp + [it[5]])] = (mp, it)
    input_impl_fns = [(tuple(mp + [im_[1]]), f) for (mp, file, m) in modules_of(c) for im_ in m_impls(m) for f in im_[3:]]
    def tykey(mp, t):
        """full path (tuple) of the type a field of module `mp` names, by the scoping rule"""
        if tag(t) != 'id': return None
        b = binders[tuple(mp)](t[1])
        return tuple(b) if b is not None and len(b) > 1 else None
    def key_of_str(ty):
        return tuple(ty.split('::')[1:]) if ty and ty.startswith('crate::') else None
    def hierarchy(key, prefix, depth=0):
        """[(field path, type string at depth 0, base key)] in pyxis's DFS order"""
        out = []
        if key not in defs or depth > 8: return out
        mp, d = defs[key]
        st = structs.get(key)
        ftypes = {f[0]: f[2] for f in struct_fields(st[1])} if st else {}
        for bf in base_fields(d):
            bn = tykey(mp, bf[3])
            fp = prefix + [bf[2]]
            out.append((fp, ftypes.get(bf[2]) if depth == 0 else None, bn))
            out += hierarchy(bn, fp, depth + 1)
        return out
    checked = 0
    for key, (mp, d) in defs.items():
        name = key[-1]
        bfs = base_fields(d)
        if not bfs:
            continue
        im = impls.get(key)
        if im is None:
            report('C07/impl-missing', name); continue
        methods = impl_methods(im)
        # ---- forwarding methods
        vnames = []
        blk = [st for st in type_stmts(d) if tag(st) == 'vftable']
        own_slots = [m_ for m_ in methods if tag(method_body(m_)) == 'call-slot']
        # names taken first: all functions of the type's vftable (incl. private / placeholders): take them from the emitted table
        vkey = lambda k_: k_[:-1] + (k_[-1] + 'Vftable',)
        vs = structs.get(vkey(key))
        used = set()
        if vs is not None:
            used = set(f[0] for f in struct_fields(vs[1]))
        else:
            # inherited table: the first base's (transitively)
            b = tykey(mp, bfs[0][3])
            seenb = 0
            while b in defs and seenb < 8:
                if vkey(b) in structs:
                    used = set(f[0] for f in struct_fields(structs[vkey(b)][1])); break
                nb = base_fields(defs[b][1])
                b = tykey(defs[b][0], nb[0][3]) if nb else None
                seenb += 1
        expected = []
        for i, bf in enumerate(bfs):
            bname = tykey(mp, bf[3])
            bim = impls.get(bname)
            if bim is None:
                continue     # extern type or enum as base: nothing to inject / not a type
            for mt in impl_methods(bim):
                body = method_body(mt)
                is_assoc = tag(body) in ('call-addr', 'call-field')
                is_virtual = tag(body) == 'call-slot'
                if str(mt[2]) != 'pub':
                    continue
                if is_assoc or (is_virtual and i > 0):
                    nm = method_name(mt)
                    newname = bf[2] + '_' + nm if nm in used else nm
                    used.add(newname)
                    params = find(mt, 'params')[1:]
                    args = [[S('v'), p_[1]] for p_ in params if not isinstance(p_, Sym)]
                    expected.append((newname, bf[2], nm, params, opt(mt[5]), args))
        # public functions of a base whose name starts with `_` are "internal": the base gets no wrapper for them (open finding
        # C05/…/underscore-name) and so nothing can be forwarded; the property's "every public function" does not hold for them
        for i, bf in enumerate(bfs):
            bname = tykey(mp, bf[3])
            if bname not in defs: continue
            bmp, bd = defs[bname]
            cand = [f for (tn, f) in input_impl_fns if tn == bname]
            if i > 0:
                for stt in type_stmts(bd):
                    if tag(stt) == 'vftable': cand += stt[2:]
            for f in cand:
                if fn_pub(f) and fn_name(f).startswith('_'):
                    report('C07/base-function-not-reexposed/underscore-name', '%s: %s.%s' % (name, '::'.join(bname), fn_name(f)))
        got = [m_ for m_ in methods if tag(method_body(m_)) == 'call-field']
        exp_emitted = [e for e in expected if not e[0].startswith('_')]
        checked += len(exp_emitted)
        if [method_name(m_) for m_ in got] != [e[0] for e in exp_emitted]:
            missing = [e[0] for e in exp_emitted if e[0] not in [method_name(m_) for m_ in got]]
            extra = [method_name(m_) for m_ in got if method_name(m_) not in [e[0] for e in exp_emitted]]
            if missing:
                report('C07/base-function-not-reexposed', '%s: %s' % (name, missing))
            elif extra:
                report('C07/unexpected-forwarder', '%s: %s' % (name, extra))
            else:
                report('C07/forwarder-order', '%s: expected %s, emitted %s' % (name, [e[0] for e in exp_emitted], [method_name(m_) for m_ in got]))
        else:
            for (newname, fld, orig, params, ret, args), mt in zip(exp_emitted, got):
                body = method_body(mt)
                if body[1] != fld or body[2] != orig or body[3][1:] != args:
                    report('C07/forwarder-target', '%s::%s: expected self.%s.%s%s, emitted %s' % (name, newname, fld, orig, dump(args), dump(body)[:200]))
                if find(mt, 'params')[1:] != params or opt(mt[5]) != ret:
                    report('C07/forwarder-signature', '%s::%s' % (name, newname))
                if str(mt[2]) != 'pub':
                    report('C07/forwarder-not-public', '%s::%s' % (name, newname))
        # ---- conversions
        hier = hierarchy(key, [])
        # type strings: take them from the emitted struct along the path
        def type_at(fp):
            cur = key
            ty = None
            for seg in fp:
                st = structs.get(cur)
                if st is None: return None
                ty = {f[0]: f[2] for f in struct_fields(st[1])}.get(seg)
                if ty is None: return None
                cur = key_of_str(ty)
            return ty
        conv_expected = []
        tys = [type_at(fp) for (fp, _, _) in hier]
        for (fp, _, bn), ty in zip(hier, tys):
            if ty is None:
                continue
            if tys.count(ty) > 1:
                conv_expected.append(('conflict', '_CONFLICTING_%s_%s' % (name.upper(), '_'.join(s_.upper() for s_ in fp))))
            else:
                conv_expected.append(('asref', ty, fp)); conv_expected.append(('asmut', ty, fp))
        conv_expected += [('asref', name, []), ('asmut', name, [])]
        mp_items = file_items(files, mp) or []
        conv_got = []
        for it in mp_items:
            if tag(it) in ('asref', 'asmut') and it[1] == name:
                conv_got.append((tag(it), it[2], list(it[3][1:])))
            elif tag(it) == 'conflict' and it[1].startswith('_CONFLICTING_%s_' % name.upper()):
                conv_got.append(('conflict', it[1]))
        checked += len(conv_expected) - 2
        if conv_got != conv_expected:
            report('C07/conversions', '%s: expected %s, emitted %s' % (name, conv_expected[:6], conv_got[:6]))
    if checked:
        info['nontrivial'] = True
    count(info, 'members-checked:%s' % ('0' if not checked else '1-4' if checked < 5 else '5-19' if checked < 20 else '20+'))
    return fs, info

def judge_all(cases, impl, model, tier):
    # O4 execution: the worlds whose id starts with 'ex' are compiled for the host and their wrappers / accessors RUN
    from .. import o4exec
    fs, info = o4exec.judge_exec(ID, cases, impl, tier)
    return fs, info, []
