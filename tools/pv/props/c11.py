"""C11 – type names bind to the definition the scoping rules select."""
from .world import *

ID = 'C11'
POINTS = ['o2', 'o3']
MODEL_POINTS = ['o2', 'o3']
RULE = ("2-5 modules at nesting depth 1-3 that define the same short names (including the names of built-ins) with different "
        "sizes; an observing module with every combination of `use path::Type` imports, `use path` module imports (in random "
        "order) and local definitions, whose packed `User` type mentions each name by value and behind pointers. The binding "
        "the precedence rule selects is computed from the input and compared with the fully qualified path the implementation "
        "emitted and with the size it laid the field out with. non-trivial = accepted and at least one name had two or more "
        "candidate definitions in scope; distinct by case text")
ASSUMPTIONS = ["module paths are never themselves type paths (known finding C11/module-path-is-type-path has its own witness case)"]
NAMES = ['A', 'B', 'C', 'u32', 'bool', 'void']
BUILTIN = {'u32': 4, 'bool': 1, 'u8': 1}

def generate(rng, tier):
    n = 300 if tier == 'quick' else 6000
    out = []
    for i in range(n):
        out.append(gen_case(rng, 'n%d' % i))
    return out

def gen_case(rng, cid):
    nm = rng.randint(2, 5)
    paths = []
    for k in range(nm):
        depth = rng.choice([1, 1, 2, 3])
        p = ['m%d' % k] + ['s%d' % rng.randint(0, 1) for _ in range(depth - 1)]
        if paths and rng.random() < 0.3:
            p = list(rng.choice(paths)) + ['n%d' % k]
        paths.append(p)
    size = [1]
    mods = []
    for p in paths:
        ds = []
        for nme in NAMES:
            if rng.random() < 0.5:
                size[0] += 1
                ds.append(type_def(True, nme, [a_ident('packed')], [field(True, 'x', ty_arr(ty_id('u8'), size[0]))]))
        rng.shuffle(ds)
        mods.append([p, ds, []])
    obs = rng.randrange(nm)
    p, ds, uses = mods[obs]
    others = [q for q in paths if q != p]
    for _ in range(rng.randint(0, 5)):
        q = rng.choice(others)
        if rng.random() < 0.5:
            uses.append(path(*q))
        else:
            uses.append(path(*(q + [rng.choice(NAMES + ['A', 'Zed'])])))
    # the same import written twice with another one of the same short name in between: the LAST one wins, also when it repeats
    # an earlier one (`use P::T; use Q::T; use P::T;` binds T to P::T)
    if len(uses) >= 2 and rng.random() < 0.35:
        uses.append(list(rng.choice(uses[:-1])))
    # the same, made on purpose: a name defined in two other modules, imported P::T, Q::T, P::T
    if rng.random() < 0.25:
        trip = [(t_, q1, q2) for t_ in NAMES for q1 in others for q2 in others if q1 != q2
                and all(any(d_[2] == t_ for d_ in dl) for (pp, dl, _) in mods if pp in (q1, q2))]
        if trip:
            t_, q1, q2 = rng.choice(trip)
            uses += [path(*(q1 + [t_])), path(*(q2 + [t_])), path(*(q1 + [t_]))]
    flds = []
    dd = {tuple(pp): {d[2]: d for d in dl} for (pp, dl, _) in mods}
    ulist = [list(u[1:]) for u in uses]
    for k, nme in enumerate(NAMES + ['A', 'Zed'] if rng.random() < 0.15 else NAMES):
        if spec_binding(dd, p, ulist, nme) is None and rng.random() < 0.9:
            continue
        if rng.random() < 0.7:
            t = ty_id(nme)
            r = rng.random()
            if r < 0.25: t = ty_cptr(t)
            elif r < 0.35: t = ty_arr(t, 2)
            flds.append(field(True, 'f%d' % k, t))
    # the observed type's OWN name defined elsewhere too and imported by name: inside `User`, `User` then denotes the import
    if others and rng.random() < 0.25:
        q = rng.choice(others)
        for (pp, dl, _) in mods:
            if pp == q and not any(d_[2] == 'User' for d_ in dl):
                size[0] += 1
                dl.append(type_def(True, 'User', [a_ident('packed')], [field(True, 'x', ty_arr(ty_id('u8'), size[0]))]))
                uses.append(path(*(q + ['User'])))
                flds.append(field(True, 'fself', ty_cptr(ty_id('User'))))
                if rng.random() < 0.5:
                    flds.append(field(True, 'fval', ty_id('User')))
    ds.append(type_def(True, 'User', [a_ident('packed')], flds))
    mods[obs][2] = uses
    # the other lookup sites (all behind pointers, so that the layout of `User` is not involved): parameters and return types of
    # impl functions and of virtual functions, extern values; and a vftable block of a type whose first base lives in ANOTHER
    # module that defines the same names (the block's names are looked up in the deriving module's scope, not the base's)
    bound = [nme for nme in NAMES if spec_binding(dd, p, ulist, nme) is not None]
    xvals, impls, extra_mods = [], [], []
    if bound and rng.random() < 0.7:
        pick = lambda: ty_cptr(ty_id(rng.choice(bound))) if rng.random() < 0.5 else ty_mptr(ty_id(rng.choice(bound)))
        ds.append(type_def(True, 'Sites', [], [vftable([], [fn(True, 'v0', [], [SELF, arg('a', pick()), arg('b', pick())], pick() if rng.random() < 0.5 else None)])]))
        impls.append(impl('Sites', [], [fn(True, 'm0', [a_int('address', 0x10001000)], [MUTSELF, arg('a', pick())], pick())]))
        xvals.append(xval(True, 'g_site', pick(), [a_int('address', 0x10002000)]))
        # an extern value typed by the GENERATED vftable struct of a type of this module; a module import may offer a hand-written
        # type of the same name, which has lower precedence (extern values are resolved after every type, generated ones included)
        xvals.append(xval(True, 'g_vt', ty_cptr(ty_id('SitesVftable')), [a_int('address', 0x10003000)]))
        modimps = [list(u[1:]) for u in uses if list(u[1:]) in [pp for (pp, _, _) in mods]]
        if modimps and rng.random() < 0.6:
            q = rng.choice(modimps)
            for (pp, dl, _) in mods:
                if pp == q and not any(d_[2] == 'SitesVftable' for d_ in dl):
                    dl.append(type_def(True, 'SitesVftable', [a_ident('packed')], [field(True, 'x', ty_arr(ty_id('u8'), 3))]))
        if rng.random() < 0.6:
            # base in another module which defines clashing names as well
            bp = ['zbase%d' % rng.randint(0, 9)]
            bdefs = [type_def(True, 'Base', [], [vftable([], [fn(True, 'f', [], [SELF], None)])])]
            for nme in ('A', 'B', 'C'):
                if rng.random() < 0.7:
                    size[0] += 1
                    bdefs.append(type_def(True, nme, [a_ident('packed')], [field(True, 'x', ty_arr(ty_id('u8'), size[0]))]))
            extra_mods.append(modent(path(*bp), module(defs=bdefs)))
            uses.append(path(*(bp + ['Base'])))
            ds.append(type_def(True, 'Derived', [], [vftable([], [fn(True, 'f', [], [SELF], None),
                                                                  fn(True, 'g', [], [SELF, arg('a', pick()), arg('b', pick())], None)]),
                                                      field(True, 'base', ty_id('Base'), [a_ident('base')])]))
    ents = [modent(path(*pp), module(uses=uu, defs=dd_, xvals=(xvals if pp == p else ()), impls=(impls if pp == p else ()))) for (pp, dd_, uu) in mods] + extra_mods
    rng.shuffle(ents)
    return case(cid, rng.choice([4, 8]), ents, extras=[[S('observe'), path(*p)]])

def spec_binding(defs, own, uses, name):
    """the precedence rule of the property; -> path list or None"""
    def is_type(pth):
        return len(pth) >= 1 and pth[-1] in defs.get(tuple(pth[:-1]), {})
    tys = [u for u in uses if is_type(u)]
    modsu = [u for u in uses if not is_type(u)]
    hit = [u for u in tys if u[-1] == name]
    if hit:
        return hit[-1]
    if name in BUILTIN or name in ('u8', 'u16', 'u64', 'void'):
        return [name]
    if name in defs.get(tuple(own), {}):
        return own + [name]
    for mu in modsu:
        if name in defs.get(tuple(mu), {}):
            return mu + [name]
    return None

def base_name(t):
    return t[1] if tag(t) == 'id' else base_name(t[1])

def type_size(d):
    st = type_stmts(d)[0]
    return st[3][2]

def o2_item(obs, pth):
    for it in find(obs, 'items')[1:]:
        if list(it[1][1:]) == pth:
            return it
    return None

def judge(c, impl, model):
    cid = c[1]
    info = {'dist': []}
    fs = k_compare(ID, c, impl, model)
    cls = outcome_class(impl.get('o3'))
    count(info, 'impl-' + cls)
    defs = {}
    for (mp, file, m) in modules_of(c):
        defs[tuple(mp)] = {def_name(d): d for d in m_defs(m)}
        for d in m_defs(m):
            if def_is_type(d) and any(tag(st_) == 'vftable' for st_ in type_stmts(d)):
                defs[tuple(mp)].setdefault(def_name(d) + 'Vftable', None)      # the generated struct is an item of the module
    own = list(find(c, 'observe')[1][1:])
    m = [mm for (mp, f, mm) in modules_of(c) if mp == own][0]
    uses = m_uses(m)
    user = defs[tuple(own)]['User']
    expected = []
    undefined = False
    ambiguous = 0
    for st in type_stmts(user):
        nme = base_name(st[3])
        b = spec_binding(defs, own, uses, nme)
        ncand = sum(1 for u in uses if u[-1:] == [nme] and tuple(u[:-1]) in defs and nme in defs[tuple(u[:-1])]) + \
            (1 if nme in BUILTIN else 0) + (1 if nme in defs[tuple(own)] else 0) + \
            sum(1 for u in uses if tuple(u) in defs and nme in defs[tuple(u)])
        if ncand >= 2: ambiguous += 1
        if b is None: undefined = True
        expected.append((st[2], st[3], b))
    if undefined:
        count(info, 'undefined-name')
        if cls == 'ok':
            fs.append(Finding('O', 'C11/undefined-name-accepted', cid, ''))
        return fs, info
    if cls != 'ok':
        if cls == 'err':
            fs.append(Finding('O', 'C11/all-names-defined-but-rejected', cid, dump(impl.get('o3'))[:200]))
        return fs, info
    files = o3_files(canon.canon_o3(impl['o3'], 'impl'))
    st = find_item(file_items(files, own), 'struct', 'User')
    flds = {f[0]: f[2] for f in struct_fields(st)} if st is not None else {}
    for (fname, t, b) in expected:
        want = b[0] if len(b) == 1 else 'crate::' + '::'.join(b)
        if want == 'void': want = '::std::ffi::c_void'
        k = tag(t)
        wty = want if k == 'id' else ('*const ' + want if k == 'cptr' else '[%s;2]' % want)
        if k == 'arr' and want == '::std::ffi::c_void':
            continue      # an array of the zero-sized built-in `void` is a zero-sized array region, which pyxis does not emit
        if flds.get(fname) != wty:
            own_is_type = len(own) >= 1 and own[-1] in defs.get(tuple(own[:-1]), {})
            fs.append(Finding('O', 'C11/wrong-binding' + ('/module-path-is-type-path' if own_is_type else ''), cid, 'User.%s: `%s` should denote %s, emitted %s' % (fname, base_name(t), want, flds.get(fname))))
            break
    # the other lookup sites of the observed module
    def want_ty(t):
        b = spec_binding(defs, own, uses, base_name(t))
        if b is None: return None
        w = b[0] if len(b) == 1 else 'crate::' + '::'.join(b)
        if w == 'void': w = '::std::ffi::c_void'
        return ('*const ' if tag(t) == 'cptr' else '*mut ') + w
    items_own = file_items(files, own) or []
    nsites = 0
    def check_fn(tname, f, where_):
        nonlocal nsites
        im = find_item(items_own, 'impl', tname)
        mt = [x for x in impl_methods(im) if method_name(x) == fn_name(f)] if im is not None else []
        if len(mt) != 1: return
        params = [p_ for p_ in find(mt[0], 'params')[1:] if not isinstance(p_, Sym)]
        decl = [a for a in fn_args(f) if not isinstance(a, Sym)]
        for p_, a in zip(params, decl):
            nsites += 1
            if want_ty(a[2]) is not None and p_[2] != want_ty(a[2]):
                fs.append(Finding('O', 'C11/wrong-binding/%s' % where_, cid, '%s::%s parameter %s: `%s` should denote %s, emitted %s' % (tname, fn_name(f), a[1], base_name(a[2]), want_ty(a[2]), p_[2])))
        if fn_ret(f) is not None and want_ty(fn_ret(f)) is not None:
            nsites += 1
            if opt(mt[0][5]) != want_ty(fn_ret(f)):
                fs.append(Finding('O', 'C11/wrong-binding/%s' % where_, cid, '%s::%s return type: should be %s, emitted %s' % (tname, fn_name(f), want_ty(fn_ret(f)), opt(mt[0][5]))))
    own_is_type = len(own) >= 1 and own[-1] in defs.get(tuple(own[:-1]), {})
    if not own_is_type and not any(f.kind == 'O' for f in fs):
        for d in m_defs(m):
            if def_is_type(d) and def_name(d) in ('Sites', 'Derived'):
                for stt in type_stmts(d):
                    if tag(stt) == 'vftable':
                        for f in stt[2:]:
                            check_fn(def_name(d), f, 'vftable-function' if def_name(d) == 'Sites' else 'vftable-function-of-derived-type')
        for im_ in m_impls(m):
            for f in im_[3:]:
                check_fn(im_[1], f, 'impl-function')
        for xv in m_xvals(m):
            acc = [it for it in items_own if tag(it) == 'xaccessor' and it[2] == 'get_' + xv[2]]
            if acc and want_ty(xv[3]) is not None:
                nsites += 1
                if acc[0][3] != want_ty(xv[3]):
                    fs.append(Finding('O', 'C11/wrong-binding/extern-value', cid, '%s: should be %s, emitted %s' % (xv[2], want_ty(xv[3]), acc[0][3])))
    count(info, 'other-sites-checked:%s' % ('0' if not nsites else '1-3' if nsites < 4 else '4+'))
    # the size used for layout is the selected definition's
    if tag(impl.get('o2')) == 'resolved' and not any(f.reason.endswith('module-path-is-type-path') for f in fs):
        it = o2_item(impl['o2'], own + ['User'])
        ps = find(c, 'ps')[1]
        total = 0
        for (fname, t, b) in expected:
            s = BUILTIN.get(b[0]) if len(b) == 1 else type_size(defs[tuple(b[:-1])][b[-1]])
            if s is None: total = None; break
            k = tag(t)
            total += s if k == 'id' else (ps if k == 'cptr' else 2 * s)
        if it is not None and total is not None and it[4] != total:
            fs.append(Finding('O', 'C11/layout-uses-other-definition', cid, 'User: size %d, selected definitions give %d' % (it[4], total)))
    if ambiguous:
        info['nontrivial'] = True
    count(info, 'names-with-2+-candidates:%s' % ('0' if not ambiguous else '1' if ambiguous == 1 else '2+'))
    return fs, info
