"""C20 – equivalent descriptions produce identical bindings."""
import hashlib
from .layoutcommon import *
from .c04 import spec_table
from .c08 import spec_values
from .. import core

ID = 'C20'
POINTS = ['o2', 'o3']
MODEL_POINTS = ['o2', 'o3']
SHRINK = False
RULE = ("accepted worlds, each rewritten by every applicable rewrite of the property's list singly and by a random combination: "
        "explicit address = the offset the field already has in the output, unknown<N> gap <-> address on the following field, "
        "size attribute = resolved size, index = slot already occupied, enum value = implicit value, reordered definitions. "
        "Original and rewritten description are built by the implementation and the emitted files must be byte-identical "
        "(compared by hash); the model is compared with the implementation on both. non-trivial = a pair in which the rewrite "
        "changed the input text and both builds were accepted; distinct by rewritten case text")
ASSUMPTIONS = ["`spelling a number in another base` is a property of the parser (C18 int_value) and is exercised there, AST cases carry numbers as values"]

def generate(rng, tier):
    n = 120 if tier == 'quick' else 2500
    o = gen.Opts(p_vftable=0.5, p_index=0.3, p_enum=0.3, p_base=0.3, p_gap=0.4, p_explicit_addr=0.3, p_backend=0.1,
                 p_extern_val=0.1, max_modules=2, max_items=5, max_fields=5, p_size_attr=0.3)
    cases = std_worlds(rng, n, o)
    # a module that imports a user type called like a built-in (`use compat::u8;`): gaps are BYTES whatever `u8` denotes there,
    # so the gap <-> address rewrites must still be silent
    for i in range(max(4, n // 25)):
        nm = rng.choice(['u8', 'u8', 'u16', 'u32'])
        compat = modent(path('compat'), module(defs=[type_def(True, nm, [], [field(True, 'raw', ty_id('u16'))])]))
        g1, g2 = rng.choice([2, 4, 6]), rng.choice([2, 4])
        flds = [field(True, 'a', ty_id('i16')), field(False, '_', ty_unk(g1)), field(True, 'b', ty_id('i16')),
                field(False, '_', ty_unk(g2)), field(True, 'c', ty_arr(ty_id('i16'), 2))]
        net = modent(path('net'), module(uses=[path('compat', nm)], defs=[type_def(True, 'Packet', [a_int('align', 2)], flds)]))
        cases.append(case('shadowgap%d' % i, rng.choice([4, 8]), [compat, net] if i % 2 else [net, compat]))
    for c in cases:
        c.append([S('rwseed'), rng.randrange(1 << 30)])
    return cases

def judge(c, impl, model):
    info = {'dist': []}
    fs = k_compare(ID, c, impl, model)
    count(info, 'impl-' + outcome_class(impl.get('o3')))
    return fs, info

# ------------------------------------------------------------------ rewrites (on the case AST, guided by the output of the original)

def rewrites_of(c, impl_obs, rng):
    """-> [(name, rewritten case)]"""
    import random
    out = []
    o2 = impl_obs.get('o2')
    if tag(o2) != 'resolved':
        return out
    items2 = {tuple(it[1][1:]): it for it in find(o2, 'items')[1:]}
    ps = find(c, 'ps')[1]
    def region_offsets(it):
        """[(name, offset, size)] of a resolved type item, sizes from the registry view (O2 gives types only) – use O3 layout instead"""
        return None
    io3 = canon.canon_o3(impl_obs['o3'], 'impl')
    files, crate = crate_of(c, io3)
    variants = {}
    def add(name, c2):
        variants.setdefault(name, c2)
    mods = [(p, nd) for p, nd in all_nodes(c) if tag(nd) == 'module']
    # --- per type rewrites
    for (mp_path, me) in mods:
        mp = list(me[1][1:])
        m = me[3]
        for di, d in enumerate(m[5][1:]):
            dpath = mp_path + (3, 5, di + 1)
            if tag(d[3]) == 'type':
                try:
                    size, align, lay = crate.item_layout('crate::' + '::'.join(mp + [d[2]]))
                except Exception:
                    continue
                by_name = {nme: (o, s) for (nme, o, s) in lay}
                stmts = d[3][2:]
                # explicit address the field already has
                new = []
                changed = False
                for st in stmts:
                    if tag(st) == 'field' and st[2] in by_name and attr_fn(st[4][1:], 'address') is None and rng.random() < 0.6:
                        new.append([st[0], st[1], st[2], st[3], attrs(*(st[4][1:] + [a_int('address', by_name[st[2]][0])]))])
                        changed = True
                    else:
                        new.append(st)
                if changed:
                    add('explicit-address', replace_at(c, dpath, [d[0], d[1], d[2], [d[3][0], d[3][1]] + new]))
                # gap -> address on the following field
                for i in range(len(stmts) - 1):
                    a, b = stmts[i], stmts[i + 1]
                    if tag(a) == 'field' and a[2] == '_' and tag(a[3]) == 'unk' and all(tag(x) == 'aa' and x[1] == 'doc' for x in a[4][1:]) \
                            and tag(b) == 'field' and b[2] in by_name and attr_fn(b[4][1:], 'address') is None and b[2] != '_':
                        nb = [b[0], b[1], b[2], b[3], attrs(*(b[4][1:] + [a_int('address', by_name[b[2]][0])]))]
                        add('gap-to-address', replace_at(c, dpath, [d[0], d[1], d[2], [d[3][0], d[3][1]] + stmts[:i] + [nb] + stmts[i + 2:]]))
                        break
                # address -> gap before the field (reverse direction), when the address leaves a gap
                prev_end = None
                order = [(nme, o, s) for (nme, o, s) in lay]
                for i, st in enumerate(stmts):
                    if tag(st) == 'field' and st[2] in by_name and attr_fn(st[4][1:], 'address') is not None and not has_ident(st[4][1:], 'base'):
                        idx = [k for k, e in enumerate(order) if e[0] == st[2]][0]
                        prev = stmts[i - 1] if i > 0 else None
                        prev_named = prev is not None and tag(prev) == 'field' and prev[2] != '_' and prev[2] in by_name
                        if idx > 0 and order[idx - 1][0].startswith('_field_') and prev_named \
                                and by_name[prev[2]][0] + by_name[prev[2]][1] + order[idx - 1][2] == by_name[st[2]][0] \
                                and idx >= 2 and order[idx - 2][0] == prev[2]:
                            gap = order[idx - 1][2]
                            nst = [st[0], st[1], st[2], st[3], attrs(*[a for a in st[4][1:] if not (tag(a) == 'af' and a[1] == 'address')])]
                            g = field(False, '_', ty_unk(gap), [])
                            add('address-to-gap', replace_at(c, dpath, [d[0], d[1], d[2], [d[3][0], d[3][1]] + stmts[:i] + [g, nst] + stmts[i + 1:]]))
                            break
                # natural size
                if attr_fn(d[3][1][1:], 'size') is None:
                    add('natural-size', replace_at(c, dpath, [d[0], d[1], d[2], [d[3][0], attrs(*(d[3][1][1:] + [a_int('size', size)]))] + stmts]))
                # natural index
                if stmts and tag(stmts[0]) == 'vftable':
                    table, why = spec_table(stmts[0])
                    if table is not None:
                        fns = []
                        ch = False
                        for f in stmts[0][2:]:
                            if attr_fn(fn_attrs(f), 'index') is None and rng.random() < 0.7:
                                ix_ = a_int('index', table.index(fn_name(f))); f2 = list(f); f2[3] = attrs(*([ix_] + f[3][1:])) if rng.random() < 0.5 else attrs(*(f[3][1:] + [ix_])); fns.append(f2); ch = True
                            else:
                                fns.append(f)
                        if ch:
                            add('natural-index', replace_at(c, dpath, [d[0], d[1], d[2], [d[3][0], d[3][1], stmts[0][:2] + fns] + stmts[1:]]))
            else:
                stmts = d[3][3:]
                vals = spec_values(stmts)
                new = []
                ch = False
                for st, (nme, v) in zip(stmts, vals):
                    if opt(st[2]) is None and rng.random() < 0.6:
                        new.append([st[0], st[1], mkopt(e_int(v)), st[3]]); ch = True
                    else:
                        new.append(st)
                if ch:
                    add('implicit-enum-value', replace_at(c, dpath, [d[0], d[1], d[2], d[3][:3] + new]))
        # reorder definitions
        defs = m[5][1:]
        if len(defs) >= 2:
            sh = list(defs); rng.shuffle(sh)
            if sh != defs:
                add('reorder-definitions', replace_at(c, mp_path + (3, 5), [m[5][0]] + sh))
    out = list(variants.items())
    return out

def file_hashes(obs):
    if tag(obs) != 'files':
        return None
    return {f[1]: find(f, 'hash')[1] for f in obs[1:]}

def judge_all(cases, impl, model, tier):
    import random
    fs = []
    info = {'dist': [], 'nontrivial_hashes': [], 'compared': 0}
    extra = []
    pairs = []
    for c in cases:
        cid = c[1]
        io = impl.get(cid)
        if io is None or outcome_class(io.get('o3')) != 'ok':
            continue
        seed = find(c, 'rwseed')
        rng = random.Random(seed[1] if seed else 0)
        try:
            rws = rewrites_of(c, io, rng)
        except Exception as e:
            fs.append(Finding('K', 'C20/rewrite-construction-failed', cid, repr(e)[:200])); continue
        for name, c2 in rws:
            c2 = list(c2)
            c2[1] = '%s~%s' % (cid, name)
            pairs.append((c, c2, name))
            extra.append(c2)
    lines = [sexp.dump(c2) for (_, c2, _) in pairs]
    impl2 = core.run_harness(lines, POINTS, jobs=12)
    model2 = core.run_model(lines, MODEL_POINTS, jobs=12)
    for (c, c2, name) in pairs:
        io, io2, mo2 = impl[c[1]], impl2.get(c2[1]), model2.get(c2[1])
        if io2 is None or mo2 is None:
            fs.append(Finding('K', 'C20/no-observation', c2[1], '')); continue
        info['compared'] += 1
        fs += k_compare(ID, c2, io2, mo2)
        info['dist'].append('rewrite:' + name)
        h1, h2 = file_hashes(io['o3']), file_hashes(io2.get('o3'))
        if h2 is None:
            fs.append(Finding('O', 'C20/rewritten-description-rejected/' + name, c2[1], dump(io2.get('o3'))[:300]))
        elif h1 != h2:
            diff = sorted(k for k in set(h1) | set(h2) if h1.get(k) != h2.get(k))
            fs.append(Finding('O', 'C20/output-differs/' + name, c2[1], 'files that differ: %s' % diff))
        else:
            info['nontrivial_hashes'].append(hashlib.sha1(sexp.dump(c2[2:]).encode()).hexdigest())
    return fs, info, extra
