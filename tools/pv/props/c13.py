"""C13 – the emitted files form a Rust crate that type-checks."""
import hashlib, re
from concurrent.futures import ThreadPoolExecutor
from .layoutcommon import *
from .. import o4

ID = 'C13'
POINTS = ['o3']
MODEL_POINTS = ['o3']
HARNESS_ENV = {'PXHARNESS_TEXT': '1'}
SHRINK = False
RULE = ("accepted multi-module worlds inside the documented fragment (power-of-two alignments, arrays of at most 32 elements in "
        "defaultable types, public types for cross-module use, no by-value void, no packed type embedding a pyxis struct, unique "
        "member names): the implementation's emitted files are assembled into a crate that mirrors the input tree, the declared "
        "extern types are supplied, calling-convention strings are normalised to \"C\", and the crate is type-checked by the real "
        "rustc (`--emit=metadata`, 64-bit host). Compile-time assertions generated from the oracle's layout model (size_of, "
        "align_of, offset_of!, discriminant values) are evaluated by rustc in the same run, which validates that model. A labelled "
        "out-of-fragment stream (corpus) must be rejected by rustc with the expected error code. non-trivial = an accepted world "
        "with >= 3 emitted items that rustc accepted; distinct by case text")
ASSUMPTIONS = ["64-bit host only in the quick tier (pointer width 8); ABI strings normalised", "rustc 1.95 stable as installed"]

FRAGMENT = gen.Opts(p_packed=0.0, p_backend=0.3, max_modules=3, max_items=5, max_fields=4, p_vftable=0.4, p_base=0.4,
                    p_impl=0.4, p_enum=0.3, p_extern_type=0.4, p_extern_val=0.3, p_flags=0.5, pub_bases=True, p_priv_item=0.0, static_fns=False, p_underscore=0.15)

def generate(rng, tier):
    n = 60 if tier == 'quick' else 1500
    out = []
    import copy
    near = copy.copy(FRAGMENT); near.p_nearmiss = 0.5; near.p_vftable = 0.1; near.p_backend = 0.0
    for i in range(n + n // 2):
        # the last third: worlds in which one type just misses an acceptance condition of the layout (rejected today; a pyxis
        # that has lost the check accepts them and the compiler sees the emitted size checks fail)
        c = gen.world(rng, 'w%d' % i, ps=8, opts=FRAGMENT) if i < n else gen.world(rng, 'near%d' % i, ps=8, opts=near)
        # unique names inside prologue / epilogue blocks so that the user-supplied Rust is itself valid
        k = [0]
        def uniq(text):
            # every item name declared by the user-supplied Rust gets a per-block suffix (the generator re-uses a few texts)
            k[0] += 1
            text = text.replace('use std::ffi::c_void;', 'pub const U: u8 = 0;')
            return re.sub(r'\b(const|static|fn|type)\s+([A-Za-z_][A-Za-z0-9_]*)', lambda m: '%s %s%d' % (m.group(1), m.group(2), k[0]), text)
        for p, nd in list(all_nodes(c)):
            if tag(nd) == 'be':
                nd2 = [nd[0], nd[1]] + [mkopt(uniq(opt(x))) if opt(x) is not None else x for x in nd[2:4]]
                c = replace_at(c, p, nd2)
        out.append(c)
    return out

def judge(c, impl, model):
    info = {'dist': []}
    fs = k_compare(ID, c, impl, model, points=('o3',), project=strip_text)
    count(info, 'impl-' + outcome_class(impl.get('o3')))
    return fs, info

def strip_text(pt, obs):
    return obs

def layout_asserts(c, files, crate):
    """{module path tuple: [const assertion items]} from the oracle's layout model"""
    out = {}
    for pth, it in crate.items.items():
        segs = tuple(pth.split('::')[1:])
        mod, name = segs[:-1], segs[-1]
        try:
            size, align, lay = crate.item_layout(pth)
        except rustlay.LayoutError:
            continue
        a = out.setdefault(mod, [])
        a.append('const _: () = assert!(::core::mem::size_of::<%s>() == %d);' % (name, size))
        a.append('const _: () = assert!(::core::mem::align_of::<%s>() == %d);' % (name, align))
        for (fname, off, fsz) in lay:
            a.append('const _: () = assert!(::core::mem::offset_of!(%s, %s) == %d);' % (name, fname, off))
        if tag(it) == 'enum':
            for v in it[6:]:
                val = opt(v[2])
                if val is not None:
                    from .c08 import cast
                    rp = list(find(it, 'repr')[1:])[0]
                    a.append('const _: () = assert!(%s::%s as i128 == %d);' % (name, v[1], cast(rp, val)))
    return out

KNOWN_CODES = {'E0588': 'packed-contains-aligned', 'E0592': 'duplicate-method-name', 'E0507': 'singleton-on-non-copyable-enum',
               'E0084': 'zero-variant-enum', 'E0081': 'duplicate-discriminant', 'E0124': 'duplicate-field-name',
               'E0428': 'duplicate-item-name', 'E0512': 'size-check-mismatch', 'E0589': 'alignment-not-power-of-two',
               'E0277': 'derive-not-satisfiable', 'E0603': 'private-item-referenced', 'E0412': 'unresolved-type-path',
               'E0433': 'unresolved-path', 'E0080': 'layout-assertion-failed', 'E0204': 'copy-derive-not-satisfiable',
               'E0599': 'missing-method', 'E0424': 'forwarder-of-receiverless-function', 'E0616': 'private-field-of-base-in-other-module'}

def judge_all(cases, impl, model, tier):
    fs = []
    info = {'dist': [], 'nontrivial_hashes': [], 'compared': 0}
    jobs = []
    voidy = {}
    for c in cases:
        io3 = impl.get(c[1], {}).get('o3')
        if outcome_class(io3) != 'ok':
            continue
        texts = o4.emitted_texts(io3)
        if texts is None:
            fs.append(Finding('K', 'C13/no-text-in-observation', c[1], '')); continue
        cobs = canon.canon_o3(io3, 'impl')
        files, crate = crate_of(c, cobs)
        ext = {}
        for (mp, file, m) in modules_of(c):
            for xt in m_xtypes(m):
                s_, a_ = attr_fn(xt[2][1:], 'size'), attr_fn(xt[2][1:], 'align')
                if s_ is not None and a_ is not None:
                    ext.setdefault(tuple(mp), []).append((xt[1], s_, a_))
        # modules of the input that emitted nothing still exist as (empty) modules
        for (mp, file, m) in modules_of(c):
            texts.setdefault('/'.join(mp) + '.rs', '')
        asserts = layout_asserts(c, files, crate) if find(c, 'ps')[1] == 8 else {}
        src = o4.assemble(texts, ext, asserts)
        from .layoutcommon import void_tainted
        voidy[c[1]] = bool(void_tainted(crate))
        jobs.append((c, src, sum(len(v or []) for v in files.values())))
    def work(job):
        c, src, nitems = job
        ok, errs, tail = o4.rustc_check(src, c[1])
        return c, src, nitems, ok, errs, tail
    with ThreadPoolExecutor(max_workers=12) as ex:
        results = list(ex.map(work, jobs))
    for (c, src, nitems, ok, errs, tail) in results:
        cid = c[1]
        info['compared'] += 1
        expect = find(c, 'expect-rustc')
        if ok:
            info['dist'].append('rustc-accepts')
            if expect is not None:
                fs.append(Finding('K', 'C13/out-of-fragment-witness-compiles', cid, expect[1]))
            elif nitems >= 3:
                info['nontrivial_hashes'].append(hashlib.sha1(sexp.dump(c[2:]).encode()).hexdigest())
        else:
            codes = sorted(set(code for code, _ in errs))
            info['dist'].append('rustc-rejects:' + ','.join(codes))
            main = ([x for x in codes if x != 'E0080'] or codes or ['E----'])[0]
            def big_array_default(code, m_):
                r = re.search(r'\[[^;\]]+; (\d+)\]: Default', m_)
                return code == 'E0277' and r is not None and int(r.group(1)) > 32
            if any(big_array_default(code, m_) for code, m_ in errs):
                info['dist'].append('out-of-fragment:array>32-in-defaultable')
                errs = [(code, m_) for code, m_ in errs if not big_array_default(code, m_)]
                codes = sorted(set(code for code, _ in errs))
                if not codes:
                    continue
                main = ([x for x in codes if x != 'E0080'] or codes)[0]
            why = KNOWN_CODES.get(main, 'other')
            if main == 'E0512' and not voidy.get(cid):
                why = 'size-check-fails'      # the open finding `size-check-mismatch` is the by-value `void` case only
            if main == 'E0592':
                # the open finding is the `<field>_<name>` rename landing on a taken name; any other duplicate method is new
                bfields = set(nd[2] for _, nd in all_nodes(c) if tag(nd) == 'field' and has_ident(nd[4][1:], 'base'))
                dup = [n_ for code, m_ in errs if code == 'E0592' for n_ in re.findall(r'name `([^`]+)`', m_)]
                if not dup or not all(any(n_.startswith(b_ + '_') for b_ in bfields) for n_ in dup):
                    why = 'duplicate-method'
            reason = 'C13/emitted-crate-rejected/%s' % why
            if main == 'E0080' and all(code == 'E0080' for code in codes):
                # only the oracle's own layout assertions failed: the layout *model* disagrees with rustc
                fs.append(Finding('K', 'C13/layout-model-differs-from-rustc', cid, '; '.join(m for _, m in errs[:3])))
            else:
                fs.append(Finding('O', reason, cid, '; '.join('%s %s' % e for e in errs[:4])))
    return fs, info, []
