"""C08 – enum discriminants, representation and default variant are as declared."""
from .world import *

ID = 'C08'
POINTS = ['o2', 'o3']
MODEL_POINTS = ['o2', 'o3']
RULE = ("single-module descriptions of 1-3 enums over every integer base, 1-32 variants, explicit (negative, hex-range, "
        "boundary MIN/MAX/MAX+1/-1) and implicit values, the default marker at any position, with and without `defaultable`; "
        "plus enums inside ordinary worlds. non-trivial = accepted with >= 3 variants checked, or rejected for a range or "
        "marker reason; distinct by case text")
ASSUMPTIONS = ["discriminant values are read off the emitted `N as _` literals and wrapped to the repr type by the oracle's model of "
               "integer casts (thorough tier: the real rustc evaluates them)"]
BASES = {'u8': (False, 8), 'u16': (False, 16), 'u32': (False, 32), 'u64': (False, 64), 'u128': (False, 128),
         'i8': (True, 8), 'i16': (True, 16), 'i32': (True, 32), 'i64': (True, 64), 'i128': (True, 128)}
IMAX = (1 << 63) - 1
IMIN = -(1 << 63)

def rng_of(base):
    signed, bits = BASES[base]
    return (-(1 << (bits - 1)), (1 << (bits - 1)) - 1) if signed else (0, (1 << bits) - 1)

def cast(base, v):
    signed, bits = BASES[base]
    m = v % (1 << bits)
    if signed and m >= (1 << (bits - 1)):
        m -= 1 << bits
    return m

def gen_enum(rng, name):
    base = rng.choice(list(BASES))
    lo, hi = rng_of(base)
    lo, hi = max(lo, IMIN), min(hi, IMAX)
    n = rng.choice([1, 2, 3, 4, 5, 8, 16, 32])
    mode = rng.random()
    stmts = []
    cur = 0
    used = set()
    defaultable = rng.random() < 0.5
    marks = []
    if defaultable:
        marks = [rng.randrange(n)]
    r = rng.random()
    if r < 0.08:
        marks = []                      # defaultable without marker / or nothing
    elif r < 0.16:
        marks = [rng.randrange(n), rng.randrange(n)]
    elif r < 0.22:
        defaultable = not defaultable
    for i in range(n):
        expr = None
        q = rng.random()
        if q < 0.35:
            choices = [cur, cur + rng.randint(0, 5), hi - (n - i), hi, 0, 1]
            if mode < 0.25:
                choices += [lo, lo - 1, hi + 1, -1, -2, hi + 2, (1 << (BASES[base][1] - 1)), -(1 << (BASES[base][1] - 1)) - 1]
            v = rng.choice(choices)
            v = max(IMIN, min(IMAX, v))
            if v in used and rng.random() < 0.9:
                v = max(IMIN, min(IMAX, cur))
            expr = e_int(v)
            cur = v
        used.add(cur)
        at = [a_ident('default')] * marks.count(i)
        stmts.append(enum_stmt('V%d' % i, expr, at))
        cur += 1
    at = []
    if defaultable: at.append(a_ident('defaultable'))
    if rng.random() < 0.5: at.append(a_ident('copyable'))
    elif rng.random() < 0.3: at.append(a_ident('cloneable'))
    at += docs_of(rng)
    return enum_def(rng.random() < 0.8, name, ty_id(base), at, stmts)

def docs_of(rng):
    return [a_doc(' enum doc')] if rng.random() < 0.2 else []

def render_enum(rng, d):
    """concrete syntax of an enum definition, integers spelled in a random base (they may exceed isize here)"""
    def num(v):
        neg = v < 0
        a = abs(v)
        r = rng.random()
        s_ = ('0x%X' % a) if r < 0.4 else (('0x%x' % a) if r < 0.5 else (('0b%s' % bin(a)[2:]) if r < 0.55 and a < 4096 else str(a)))
        if r > 0.8 and len(s_) > 4 and not s_.startswith('0b'):
            s_ = s_[:3] + '_' + s_[3:]
        return ('-' if neg else '') + s_
    at = ''.join('#[%s] ' % a[1] for a in d[3][2][1:] if tag(a) == 'ai')
    body = []
    for st in d[3][3:]:
        mk = ''.join('#[default] ' for a in st[3][1:] if tag(a) == 'ai' and a[1] == 'default')
        e = opt(st[2])
        body.append('%s%s%s' % (mk, st[1], '' if e is None else ' = ' + num(e[1])))
    return '%s%senum %s: %s { %s }' % (at, 'pub ' if d[1] == 'pub' else '', d[2], d[3][1][1], ', '.join(body))

def generate(rng, tier):
    n = 400 if tier == 'quick' else 8000
    out = []
    for i in range(n):
        defs = [gen_enum(rng, 'E%d' % k) for k in range(rng.choice([1, 1, 2, 3]))]
        out.append(case('e%d' % i, rng.choice([4, 8]), [modent(path('m'), module(defs=defs))]))
    # the same through concrete syntax, where a literal can also lie outside isize
    for i in range(n // 3):
        d = gen_enum(rng, 'E0')
        stmts = d[3][3:]
        if stmts and rng.random() < 0.5:
            k = rng.randrange(len(stmts))
            big = rng.choice([2 ** 63, 2 ** 63 + 1, 2 ** 64 - 1, 2 ** 64, 0xFFFF_FFFF_FFFF_FFFF, 0x8000_0000_0000_0000, -2 ** 63 - 1])
            d = d[:3] + [d[3][:3] + stmts[:k] + [[stmts[k][0], stmts[k][1], mkopt(e_int(big)), stmts[k][3]]] + stmts[k + 1:]]
        c = case('t%d' % i, rng.choice([4, 8]), [tmodule('m.pyxis', render_enum(rng, d))], extras=[[S('enumspec'), d]])
        out.append(c)
    o = gen.Opts(p_enum=0.6, max_modules=2, max_items=5, p_backend=0.0, p_impl=0.1)
    out += std_worlds(rng, n // 5, o)
    # a base type NAMED like an integer type that is something else: a by-name import of a struct called `u32` wins over the
    # built-in, so `enum E: u32` has a struct as base – rejected, not emitted with #[repr(crate::wide::u32)]
    for i in range(max(4, n // 40)):
        nm = rng.choice(['u8', 'u32', 'i16', 'u64'])
        wide = modent(path('wide'), module(defs=[type_def(True, nm, [], [field(True, 'x', ty_id('u16'))])]))
        m = modent(path('m'), module(uses=[path('wide', nm)], defs=[gen_enum(rng, 'E0')[:3] + [[S('enum'), ty_id(nm)] + gen_enum(rng, 'E0')[3][2:]]]))
        out.append(case('shadow%d' % i, rng.choice([4, 8]), [wide, m] if rng.random() < 0.5 else [m, wide]))
    return out

def spec_values(stmts):
    vals = []
    nxt = 0
    for st in stmts:
        e = opt(st[2])
        v = e[1] if (e is not None and tag(e) == 'int') else nxt
        vals.append((st[1], v))
        nxt = v + 1
    return vals

def judge(c, impl, model):
    cid = c[1]
    info = {'dist': []}
    fs = k_compare(ID, c, impl, model)
    cls = outcome_class(impl.get('o3'))
    count(info, 'impl-' + cls)
    must_reject = None
    enums = []
    all_defs = [(mp, d) for (mp, file, m) in modules_of(c) for d in m_defs(m)]
    spec = find(c, 'enumspec')
    if spec is not None:
        all_defs = [(['m'], spec[1])]
    for (mp, d) in all_defs:
            if def_is_type(d):
                continue
            enums.append((mp, d))
            for st in enum_stmts(d):
                e = opt(st[2])
                if e is not None and tag(e) == 'int' and not (IMIN <= e[1] <= IMAX):
                    must_reject = must_reject or 'literal-outside-isize'
            base = enum_base(d)
            stmts = enum_stmts(d)
            bname = base[1] if tag(base) == 'id' else None
            vals = spec_values(stmts)
            markers = [i for i, st in enumerate(stmts) if has_ident(st[3][1:], 'default')]
            nmark = sum(sum(1 for a in st[3][1:] if tag(a) == 'ai' and a[1] == 'default') for st in stmts)
            dfl = has_ident(enum_attrs(d), 'defaultable')
            if bname not in BASES:
                must_reject = must_reject or 'non-integer-base'
            elif spec is None:
                b_ = binder(c, mp)(bname)
                if b_ is not None and len(b_) > 1:
                    must_reject = must_reject or 'non-integer-base'      # the name denotes a user type that shadows the built-in
            if bname in BASES:
                signed, bits = BASES[bname]
                for (n_, v) in vals:
                    if v < -(1 << (bits - 1)) or v > (1 << bits) - 1 or (signed and v > (1 << (bits - 1)) - 1):
                        must_reject = must_reject or 'value-does-not-fit-width'
            if nmark >= 2 or (dfl and not markers) or (not dfl and markers):
                must_reject = must_reject or 'marker-inconsistent'
    if must_reject:
        count(info, 'must-reject:' + must_reject)
        if cls == 'ok':
            fs.append(Finding('O', 'C08/' + must_reject + '-accepted', cid, ''))
        else:
            info['nontrivial'] = True
        return fs, info
    if cls != 'ok':
        return fs, info
    io3 = canon.canon_o3(impl['o3'], 'impl')
    files = o3_files(io3)
    items2 = {tuple(it[1][1:]): it for it in find(impl['o2'], 'items')[1:]} if tag(impl.get('o2')) == 'resolved' else {}
    checked = 0
    for (mp, d) in enums:
        name = def_name(d)
        base = enum_base(d)
        if tag(base) != 'id' or base[1] not in BASES:
            continue
        en = find_item(file_items(files, mp), 'enum', name)
        if en is None:
            fs.append(Finding('O', 'C08/enum-missing', cid, name)); continue
        reprs = list(find(en, 'repr')[1:])
        if reprs != [base[1]]:
            fs.append(Finding('O', 'C08/repr', cid, '%s: repr %s, declared base %s' % (name, reprs, base[1])))
        vals = spec_values(enum_stmts(d))
        emitted = [(v[1], opt(v[2]), v[3]) for v in en[6:]]
        markers = [i for i, st in enumerate(enum_stmts(d)) if has_ident(st[3][1:], 'default')]
        if [x[0] for x in emitted] != [x[0] for x in vals]:
            fs.append(Finding('O', 'C08/variants', cid, '%s: %s vs %s' % (name, [x[0] for x in emitted], [x[0] for x in vals])))
            continue
        for i, ((vn, ev, edef), (sn, sv)) in enumerate(zip(emitted, vals)):
            checked += 1
            compiled = cast(base[1], ev) if ev is not None else None
            if compiled != sv:
                lo, hi = rng_of(base[1])
                if ev == sv and sv < 0 and not BASES[base[1]][0]:
                    fs.append(Finding('O', 'C08/negative-value-in-unsigned-base', cid,
                                      '%s::%s declared %d, compiled discriminant %d' % (name, vn, sv, compiled)))
                else:
                    fs.append(Finding('O', 'C08/discriminant', cid, '%s::%s declared %d, emitted %s, compiled %s' % (name, vn, sv, ev, compiled)))
            if bool(edef) != (i in markers):
                fs.append(Finding('O', 'C08/default-marker', cid, '%s::%s #[default]=%s, marker in source=%s' % (name, vn, edef, i in markers)))
        derives = list(find(en, 'derives')[1:])
        if ('Default' in derives) != has_ident(enum_attrs(d), 'defaultable'):
            fs.append(Finding('O', 'C08/derive-default', cid, name))
        it = items2.get(tuple(mp + [name]))
        sz = BASES[base[1]][1] // 8
        if it is not None and (it[4] != sz or it[5] != sz):
            fs.append(Finding('O', 'C08/size-align', cid, '%s: resolved (%d,%d), base type has (%d,%d)' % (name, it[4], it[5], sz, sz)))
    if checked >= 3:
        info['nontrivial'] = True
    count(info, 'variants-checked:%s' % ('0' if not checked else '1-2' if checked < 3 else '3-9' if checked < 10 else '10+'))
    # one finding per reason and case
    seen = set(); out = []
    for f in fs:
        if (f.kind, f.reason) not in seen:
            seen.add((f.kind, f.reason)); out.append(f)
    return out, info
