"""C18 – parsing is the inverse of printing for every well-formed module."""
import hashlib, re
from .world import *
from .. import core

ID = 'C18'
POINTS = ['o1']
MODEL_POINTS = ['o1', 'o1text']
SHRINK = False
RULE = ("abstract modules over the full grammar (every item kind, attribute shape, type nesting depth up to 5, `_` fields, "
        "negative and boundary integers, doc attributes, backends in all three forms) and the modules of ordinary worlds are "
        "rendered by the *Lean* printer with a seeded lay-out (blanks / tabs / newlines / CRLF, line comments, nested block "
        "comments, integers in decimal / hex / octal / binary with `_` separators, doc comments as `///`, `/** */` or "
        "`#[doc = ..]`); the real parser must return exactly the original module for every rendering, and the parser model "
        "must agree with the real parser on it. A malformed stream (a character deleted, duplicated, swapped or replaced in a "
        "rendered text) must be rejected or parsed identically by both, with the same position. The corpus of 450 hand-made "
        "texts runs first. non-trivial = a rendered module with >= 3 items or >= 10 attributes/fields that the real parser "
        "mapped back to the original; distinct by rendered text")
ASSUMPTIONS = ["identifiers are plain ASCII identifiers that are not keywords or the grammar's contextual words (the theorem's WF predicate)",
               "error positions are compared exactly between model and implementation; the property only needs them to lie inside the text"]

IDENTS = ['a', 'b1', 'Foo', 'bar_baz', 'T', 'x', 'field_1', 'Vehicle', 'r#type', 'r#fn', '_x', 'q9', 'SpawnManager', 'value']
TYNAMES = ['u8', 'u32', 'i64', 'f32', 'bool', 'void', 'Foo', 'Bar', 'T1', 'SharedPtr']
STRS = ['', 'a', ' doc text', 'with "quotes"', 'back\\slash', 'tab\there', 'nl\nline', 'cdecl', 'use x::y;', 'émoji-free ascii only']
INTS = [0, 1, 2, 7, 10, 255, 256, 4096, 0x1234, 0xEC4, 65535, 2 ** 31 - 1, 2 ** 31, 2 ** 32, 2 ** 63 - 1]

def r_ty(rng, depth=0):
    r = rng.random()
    if depth >= 5 or r < 0.4:
        return ty_id(rng.choice(TYNAMES)) if rng.random() < 0.85 else ty_unk(rng.choice(INTS[:10]))
    if r < 0.6: return ty_cptr(r_ty(rng, depth + 1))
    if r < 0.8: return ty_mptr(r_ty(rng, depth + 1))
    return ty_arr(r_ty(rng, depth + 1), rng.choice(INTS[:12]))

def r_expr(rng):
    r = rng.random()
    if r < 0.5:
        v = rng.choice(INTS)
        return e_int(-v if rng.random() < 0.25 else v)
    if r < 0.8: return e_str(rng.choice(STRS))
    return e_ident(rng.choice(IDENTS[:8]))

def r_attrs(rng, p=0.5, docs=True):
    out = []
    while rng.random() < p and len(out) < 5:
        r = rng.random()
        if r < 0.3: out.append(a_ident(rng.choice(['copyable', 'cloneable', 'defaultable', 'packed', 'base', 'default', 'foo'])))
        elif r < 0.65: out.append(a_fn(rng.choice(['size', 'align', 'address', 'index', 'singleton', 'calling_convention', 'multi']),
                                       *[r_expr(rng) for _ in range(rng.choice([0, 1, 1, 1, 2, 3]))]))
        elif r < 0.8 and docs: out.append(a_doc(rng.choice(STRS[:6])))
        else: out.append(a_assign(rng.choice(['key', 'name', 'since']), r_expr(rng)))
    return out

def r_fn(rng):
    args = []
    if rng.random() < 0.7: args.append(SELF if rng.random() < 0.5 else MUTSELF)
    for i in range(rng.randint(0, 4)):
        args.append(arg(rng.choice(IDENTS[:8]) + str(i), r_ty(rng, 2)))
    return fn(rng.random() < 0.5, rng.choice(IDENTS[:8]) + str(rng.randint(0, 99)), r_attrs(rng, 0.4), args,
              r_ty(rng, 2) if rng.random() < 0.5 else None)

def r_module(rng):
    defs = []
    for i in range(rng.randint(0, 4)):
        nm = rng.choice(['Alpha', 'Beta', 'Gamma', 'T', 'r#type']) + str(i)
        if rng.random() < 0.65:
            stmts = []
            if rng.random() < 0.3:
                stmts.append(vftable(r_attrs(rng, 0.3, docs=False), [r_fn(rng) for _ in range(rng.randint(0, 3))]))
            for k in range(rng.randint(0, 5)):
                fname = '_' if rng.random() < 0.15 else rng.choice(IDENTS[:8]) + str(k)
                stmts.append(field(rng.random() < 0.5, fname, r_ty(rng), r_attrs(rng, 0.4)))
            defs.append(type_def(rng.random() < 0.5, nm, r_attrs(rng, 0.5), stmts))
        else:
            es = [enum_stmt('V%d' % k, r_expr(rng) if rng.random() < 0.5 else None, r_attrs(rng, 0.2)) for k in range(rng.randint(0, 5))]
            defs.append(enum_def(rng.random() < 0.5, nm, r_ty(rng, 3), r_attrs(rng, 0.5), es))
    uses = [path(*[rng.choice(['a', 'b', 'core', 'Foo', 'mod_1']) for _ in range(rng.randint(1, 4))]) for _ in range(rng.randint(0, 3))]
    xts = [xtype(rng.choice(['Ext', 'Opaque', 'X']) + str(i), r_attrs(rng, 0.6)) for i in range(rng.randint(0, 2))]
    xvs = [xval(rng.random() < 0.5, 'g%d' % i, r_ty(rng, 2), r_attrs(rng, 0.6)) for i in range(rng.randint(0, 2))]
    impls = [impl(rng.choice(['Alpha0', 'Beta1', 'Zed']), r_attrs(rng, 0.2), [r_fn(rng) for _ in range(rng.randint(0, 3))]) for _ in range(rng.randint(0, 2))]
    bes = []
    for i in range(rng.randint(0, 2)):
        pro = rng.choice(STRS[1:]).strip() if rng.random() < 0.6 else None
        epi = rng.choice(STRS[1:]).strip() if rng.random() < 0.5 else None
        bes.append(backend(rng.choice(['rust', 'cpp']), pro, epi))
    mattrs = [a for a in r_attrs(rng, 0.4)]
    return module(mattrs, uses, xts, xvs, defs, impls, bes)

def generate(rng, tier):
    n = 600 if tier == 'quick' else 20000
    out = []
    for i in range(n):
        out.append(case('g%d' % i, 4, [modent(path('m'), r_module(rng))], extras=[[S('seed'), rng.randrange(1 << 30)]]))
    o = gen.Opts(p_doc=0.5, max_modules=2)
    for c in std_worlds(rng, n // 4, o, prefix='w'):
        c.append([S('seed'), rng.randrange(1 << 30)])
        out.append(c)
    return out

def judge(c, impl, model):
    """phase 1: corpus texts and AST cases through the harness's own printer – model and real parser must agree"""
    cid = c[1]
    info = {'dist': []}
    fs = []
    io, mo = impl.get('o1'), model.get('o1')
    if io is None or mo is None:
        return [Finding('K', 'C18/no-observation', cid, '')], info
    texts = [me for me in find(c, 'modules')[1:] if tag(me) == 'tmodule']
    if texts:
        # hand-made corpus text: same result, same error position
        if io != mo and find(c, 'skipk') is None:
            if len(io) == len(mo) and all(tag(a) == 'perr' and tag(b) == 'perr' or a == b for a, b in zip(io[1:], mo[1:])):
                count(info, 'error-position-differs')
            else:
                fs.append(Finding('K', 'C18/parser-model-differs', cid, canon.first_diff(io, mo) or ''))
        for r in io[1:]:
            count(info, 'corpus-' + tag(r))
            if tag(r) == 'perr':
                nlines = texts[0][2].count('\n') + 1
                if not (1 <= r[2] <= nlines + 1):
                    fs.append(Finding('O', 'C18/error-position-outside-text', cid, dump(r)))
    return fs, info

MUT = ['del', 'dup', 'swap', 'junk']

def mutate_text(rng, t):
    if len(t) < 2:
        return t + '$'
    i = rng.randrange(len(t) - 1)
    k = rng.choice(MUT)
    if k == 'del': return t[:i] + t[i + 1:]
    if k == 'dup': return t[:i] + t[i] + t[i:]
    if k == 'swap': return t[:i] + t[i + 1] + t[i] + t[i + 2:]
    # splice a token in at a token boundary if possible (so that keywords really arrive as keywords)
    j = t.find(' ', i)
    j = i if j < 0 else j
    return t[:j] + rng.choice(['$', '@', ';', '}', '{', ',', '<', '>', '>>', '<>', '"', "'", '#', '0x', ' type ', ')', '::', ' pub ', ' pub ', ' extern ',
                               ' fn ', ' impl ', ' use ', ' mut ', ' const ', ' enum ', ' vftable ', ' _ ', ' * ', ' & ', ' -> ', ' = ', ' : ']) + t[j:]

def semi_module(rng):
    """(text, module) of a module whose empty types are written `type Name;`"""
    defs, out = [], []
    for k in range(rng.randint(1, 4)):
        at, parts = [], []
        if rng.random() < 0.4:
            d = rng.choice([' a doc line', ' second', ''])
            at.append(a_doc(d)); out.append('///' + d)
        for (nm, vals) in (('size', [0, 4, 6, 8, 16, 24]), ('align', [1, 2, 3, 4, 8, 16]), ('singleton', [4096, 0x1000_0000])):
            if rng.random() < 0.45:
                v = rng.choice(vals); at.append(a_int(nm, v)); parts.append('%s(%s)' % (nm, rng.choice(['%d', '0x%X']) % v))
        for nm in ('packed', 'copyable', 'cloneable', 'defaultable'):
            if rng.random() < 0.25:
                at.append(a_ident(nm)); parts.append(nm)
        pub = rng.random() < 0.5
        name = 'S%d' % k
        if parts:
            out.append('#[' + ', '.join(parts) + ']')
        if rng.random() < 0.75:
            # both spellings of a type without statements (the Lean printer writes `;` at tr = true, `{ }` at tr = false;
            # the driver renders with tr = true)
            out.append('%stype %s%s' % ('pub ' if pub else '', name, rng.choice([';', ' ;', '  ;', ' {}', '{ }', ' {\n}'])))
            defs.append(type_def(pub, name, at, []))
        else:
            # type names may carry (nested) generic arguments: for pyxis `SharedPtr<Vec<Item>>` is ONE name
            gname = rng.choice(['u32', 'SharedPtr<Item>', 'SharedPtr<Vec<Item>>', 'Map<Key<A>>', 'Array<Array<Array<u8>>>'])
            out.append('%stype %s { a: %s, b: *mut %s }' % ('pub ' if pub else '', name, gname, gname))
            defs.append(type_def(pub, name, at, [field(False, 'a', ty_id(gname), []), field(False, 'b', ty_mptr(ty_id(gname)), [])]))
    # the braced form of a backend block accepts its two parts in either order (the Lean printer writes the prologue first)
    bes = []
    for k in range(rng.choice([0, 1, 1, 2])):
        pro, epi = 'use x::y%d;' % k, 'fn z%d() {}' % k
        r = rng.random()
        if r < 0.5:
            out.append('backend rust { epilogue "%s"; prologue "%s"; }' % (epi, pro)); bes.append(backend('rust', pro, epi))
        elif r < 0.7:
            out.append('backend rust { prologue "%s"; epilogue "%s"; }' % (pro, epi)); bes.append(backend('rust', pro, epi))
        elif r < 0.85:
            out.append('backend cpp { epilogue "%s"; }' % epi); bes.append(backend('cpp', None, epi))
        else:
            out.append('backend rust epilogue "%s";' % epi); bes.append(backend('rust', None, epi))
    return '\n'.join(out) + '\n', module(defs=defs, backends=bes)

def judge_all(cases, impl, model, tier):
    import random
    fs = []
    info = {'dist': [], 'nontrivial_hashes': [], 'compared': 0}
    second = []
    origin = {}
    rng = random.Random(len(cases) * 7919 + 13)
    for c in cases:
        cid = c[1]
        mt = model.get(cid, {}).get('o1text')
        if mt is None or not any(tag(me) == 'module' for me in find(c, 'modules')[1:]):
            continue
        mods = [me for me in find(c, 'modules')[1:]]
        for k, (me, t) in enumerate(zip(mods, mt[1:])):
            if tag(me) != 'module':
                continue
            text = t[2]
            c2 = case('%s#%d' % (cid, k), 4, [tmodule(me[2], text)])
            second.append(c2); origin[c2[1]] = (me[3], 'render')
            if rng.random() < 0.35:
                c3 = case('%s#%d!' % (cid, k), 4, [tmodule(me[2], mutate_text(rng, text))])
                second.append(c3); origin[c3[1]] = (None, 'malformed')
    # the grammar's second spelling of an empty type, `type Name;` (the Lean printer always writes braces): texts written
    # here, with their module; attributes, visibility and doc comments must survive exactly as for the braced form
    for i in range(max(20, len(cases) // 20)):
        text, mod = semi_module(rng)
        c2 = case('semi%d#0' % i, 4, [tmodule('m.pyxis', text)])
        second.append(c2); origin[c2[1]] = (mod, 'render')
    # an impossible token (`$`) spliced between two tokens of a hand-rendered text: the parse error must point AT it
    junkpos = {}
    for i in range(max(20, len(cases) // 20)):
        text, mod = semi_module(rng)
        ls = text.split('\n')
        cand = [(li, m_.start()) for li, l_ in enumerate(ls) if not l_.startswith('///') and '"' not in l_ for m_ in re.finditer(r' ', l_)]
        if not cand: continue
        li, col = rng.choice(cand)
        ls[li] = ls[li][:col] + ' $ ' + ls[li][col + 1:]
        c2 = case('junkpos%d#0' % i, 4, [tmodule('m.pyxis', '\n'.join(ls))])
        second.append(c2); origin[c2[1]] = (None, 'malformed'); junkpos[c2[1]] = (li + 1, col + 1)
    lines = [sexp.dump(c2) for c2 in second]
    impl2 = core.run_harness(lines, ['o1'], jobs=12)
    model2 = core.run_model(lines, ['o1'], jobs=12)
    for c2 in second:
        cid = c2[1]
        io, mo = impl2.get(cid, {}).get('o1'), model2.get(cid, {}).get('o1')
        orig, kind = origin[cid]
        if io is None or mo is None:
            fs.append(Finding('K', 'C18/no-observation', cid, '')); continue
        info['compared'] += 1
        r = io[1]
        if kind == 'render':
            info['dist'].append('render-' + tag(r))
            if tag(r) != 'parsed':
                fs.append(Finding('O', 'C18/printed-module-rejected', cid, dump(r)))
            elif r[2] != orig:
                fs.append(Finding('O', 'C18/parse-is-not-inverse-of-print', cid, canon.first_diff(orig, r[2]) or ''))
            else:
                size = len([x for x in core_nodes(orig) if tag(x) in ('def', 'field', 'fn', 'es', 'af', 'aa', 'ai')])
                if size >= 10 or len(orig[5]) - 1 >= 3:
                    info['nontrivial_hashes'].append(hashlib.sha1(c2[4][1][2].encode('utf-8', 'surrogateescape')).hexdigest())
        else:
            info['dist'].append('malformed-' + tag(r))
            if tag(r) == 'perr':
                nlines = c2[4][1][2].count('\n') + 1
                if not (1 <= r[2] <= nlines + 1):
                    fs.append(Finding('O', 'C18/error-position-outside-text', cid, dump(r)))
                if cid in junkpos and (r[2], r[3]) != junkpos[cid]:
                    fs.append(Finding('O', 'C18/error-position-not-at-the-offending-token', cid, 'the `$` is at line %d, column %d (0-based); reported %d:%d' % (junkpos[cid] + (r[2], r[3]))))
            elif cid in junkpos:
                fs.append(Finding('O', 'C18/impossible-token-accepted', cid, dump(r)[:120]))
        if io != mo:
            if tag(io[1]) == 'perr' and tag(mo[1]) == 'perr':
                # both reject; the exact position syn attaches to an error is not part of the property
                info['dist'].append('error-position-differs')
            else:
                fs.append(Finding('K', 'C18/parser-model-differs', cid, canon.first_diff(io, mo) or ''))
    # third phase – over-acceptance: a text the real parser ACCEPTS must be a printing of the module it was
    # parsed to (same tokens, up to optional separators): a parser that silently drops or invents tokens fails this
    third = []
    for c2 in second + [c for c in cases if any(tag(me) == 'tmodule' for me in find(c, 'modules')[1:])]:
        src = impl2 if c2[1] in impl2 else impl
        io = src.get(c2[1], {}).get('o1')
        mods = [me for me in find(c2, 'modules')[1:] if tag(me) == 'tmodule']
        if io is None or len(mods) != 1 or len(io) != 2 or tag(io[1]) != 'parsed' or find(c2, 'skip-tokeq') is not None:
            continue
        m = io[1][2]
        if len(m[7]) > 1 or '<' in dump(m):
            continue                     # backend blocks have three spellings and trim their text; `a<b>` is one glued name
        c3 = case(c2[1] + '?', 4, [modent(path('m'), m)], extras=[[S('orig'), mods[0][2]]])
        third.append(c3)
    if third:
        model3 = core.run_model([sexp.dump(c3) for c3 in third], ['tokeq'], jobs=12)
        for c3 in third:
            r = model3.get(c3[1], {}).get('tokeq')
            if r is None:
                continue
            info['dist'].append('accepted-text-token-roundtrip')
            if len(r) > 1 and r[1] == 0:
                fs.append(Finding('O', 'C18/accepted-text-is-not-a-printing-of-its-parse', c3[1], dump(r)[:300]))
    return fs, info, second + third

def core_nodes(x):
    if isinstance(x, list):
        yield x
        for y in x:
            yield from core_nodes(y)
