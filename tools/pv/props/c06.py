"""C06 – a derived type's vftable extends its first base's vftable and shares its pointer."""
from .layoutcommon import *

ID = 'C06'
POINTS = ['o2', 'o3']
MODEL_POINTS = ['o2', 'o3']
RULE = ("inheritance worlds: chains of depth 1-4, one to three bases per type, each base with or without a vftable, derived "
        "type with or without its own block, compatible prefixes; a second stream applies one single-slot mutation (name, "
        "receiver mutability, one parameter type, return type, convention, truncation) to a compatible derived block and must "
        "be rejected. Checked on the implementation: prefix relation between the resolved tables (O2), absence / presence / "
        "position / privacy / type of the vftable pointer field, accessor shape (own field vs. delegation to the first base). "
        "non-trivial = accepted with at least one derived type checked, or a rejected mutation; distinct by case text")
ASSUMPTIONS = ["the pointer actually returned by an executed accessor is observed only in the thorough tier (O4)"]

def generate(rng, tier):
    n = 250 if tier == 'quick' else 5000
    o = gen.Opts(p_vftable=0.6, p_base=0.75, p_enum=0.0, p_impl=0.15, p_backend=0.0, p_extern_val=0.0, p_extern_type=0.1,
                 max_modules=2, max_items=6, max_fields=2, p_index=0.25, p_vft_size=0.25, p_packed=0.0)
    out = std_worlds(rng, n, o)
    for i in range(n // 2):
        c = gen.world(rng, 'mut%d' % i, opts=o)
        mutated = mutate_derived(rng, c)
        if mutated is not None:
            out.append(mutated)
    # hand-made: the base's table ends in placeholder slots (declared size / a trailing index gap); a derived block that repeats
    # only the declared functions is SHORTER than the base's table and must be rejected; with the size it is accepted
    vf = lambda nm, at=(): fn(True, nm, list(at), [SELF], None)
    for i, (bsize, dsize, ok) in enumerate([(4, None, False), (4, 4, True), (3, 2, False), (5, 6, True), (4, 3, False)]):
        base = type_def(True, 'Base', [], [vftable([a_int('size', bsize)], [vf('f'), vf('g')])])
        der = type_def(True, 'Derived', [], [vftable([a_int('size', dsize)] if dsize is not None else [], [vf('f'), vf('g')]),
                                             field(True, 'base', ty_id('Base'), [a_ident('base')])])
        c = case('padtail%d' % i, rng.choice([4, 8]), [modent(path('m'), module(defs=[base, der] if i % 2 else [der, base]))])
        out.append(c if ok else c + [[S('expect'), 'reject-vftable-mismatch']])
    from . import rare
    for c in rare.vftable_cases():
        out.append(c + [[S('expect'), 'reject-vftable-mismatch']] if find(c, 'must-reject') is not None else c)
    # a derived block written AFTER the base field: must be rejected, not silently ignored
    vf2 = lambda nm: fn(True, nm, [], [SELF], None)
    b_ = type_def(True, 'Base', [], [vftable([], [vf2('f'), vf2('g')])])
    for k, blk in enumerate([[vf2('other')], [vf2('f'), vf2('g'), vf2('h')], [vf2('f'), vf2('g')]]):
        d_ = type_def(True, 'Derived', [], [field(True, 'base', ty_id('Base'), [a_ident('base')]), vftable([], blk)])
        out.append(case('blocklate%d' % k, rng.choice([4, 8]), [modent(path('m'), module(defs=[b_, d_]))]) + [[S('expect'), 'reject-vftable-mismatch']])
    return out

def first_base_name(d):
    for st in type_stmts(d):
        if stmt_is_field(st) and has_ident(st[4][1:], 'base'):
            return st[3][1] if tag(st[3]) == 'id' else None
    return None

def own_block(d):
    sts = type_stmts(d)
    return sts[0] if sts and tag(sts[0]) == 'vftable' else None

def mutate_derived(rng, c, kinds=('name', 'recv', 'arg', 'ret', 'cc', 'trunc', 'arity', 'padtrunc', 'gap')):
    """pick a derived type whose own block repeats inherited slots and damage one inherited slot"""
    defs = {}
    for (mp, file, m) in modules_of(c):
        for d in m_defs(m):
            if def_is_type(d):
                defs[def_name(d)] = d
    def table_len(name, depth=0):
        d = defs.get(name)
        if d is None or depth > 8: return 0
        b = own_block(d)
        if b is not None: return len(b) - 2
        fb = first_base_name(d)
        return table_len(fb, depth + 1) if fb else 0
    cands = []
    for p, nd in all_nodes(c):
        if tag(nd) == 'def' and tag(nd[3]) == 'type':
            b = own_block(nd); fb = first_base_name(nd)
            if b is not None and fb and table_len(fb) > 0 and len(b) - 2 >= 1:
                cands.append((p, nd, min(table_len(fb), len(b) - 2)))
    if not cands:
        return None
    if 'padtrunc' in kinds and rng.random() < 0.6:
        # the base's table ends in padding slots (declared size above its functions); the derived block repeats every declared
        # function but forgets the size: its table is shorter than the base's – not a prefix extension, must be rejected
        from .c04 import spec_table
        pc = []
        for (p_, d_, ninh_) in cands:
            blk = own_block(d_); fbn = first_base_name(d_)
            bb = own_block(defs[fbn]) if fbn in defs else None
            if bb is None or attr_fn(blk[1][1:], 'size') is None: continue
            bt, _ = spec_table(bb)
            nosize = [blk[0], attrs(*[a for a in blk[1][1:] if not (tag(a) == 'af' and a[1] == 'size')])] + blk[2:]
            dt, _ = spec_table(nosize)
            if bt is not None and dt is not None and len(dt) < len(bt):
                pc.append((p_, d_, nosize))
        if pc:
            p_, d_, nosize = rng.choice(pc)
            d2 = list(d_); t2 = list(d_[3]); t2[2] = nosize; d2[3] = t2
            c2 = replace_at(c, p_, d2)
            c2[1] = c2[1] + '-padtrunc'
            return c2 + [[S('expect'), 'reject-vftable-mismatch']]
    if 'gap' in kinds and rng.random() < (0.5 if len(kinds) <= 2 else 0.15):
        # the derived block skips an inherited slot with #[index]: a placeholder sits where the base has a function – must be rejected
        from .c04 import spec_table
        gc = []
        for (p_, d_, ninh_) in cands:
            blk = own_block(d_); fbn = first_base_name(d_)
            bb = own_block(defs[fbn]) if fbn in defs else None
            if bb is None: continue
            bt, _ = spec_table(bb)
            if bt is None: continue
            fns_ = blk[2:]
            if any(attr_fn(fn_attrs(f_), 'index') is not None for f_ in fns_): continue
            for k_ in range(min(ninh_, len(fns_) - 1)):
                if k_ < len(bt) and not bt[k_].startswith('_vfunc_'):
                    gc.append((p_, d_, k_))
        if gc:
            p_, d_, k_ = rng.choice(gc)
            blk = own_block(d_)
            g = list(blk[3 + k_])
            g[3] = attrs(*([a_int('index', k_ + 1)] + list(g[3][1:])))
            newblock = blk[:2 + k_] + [g] + blk[4 + k_:]
            d2 = list(d_); t2 = list(d_[3]); t2[2] = newblock; d2[3] = t2
            c2 = replace_at(c, p_, d2)
            c2[1] = c2[1] + '-gap'
            return c2 + [[S('expect'), 'reject-vftable-mismatch']]
    p, d, ninh = rng.choice(cands)
    block = d[3][2]
    k = rng.randrange(ninh)
    f = list(block[2 + k])
    kind = rng.choice([k_ for k_ in kinds if k_ not in ('padtrunc', 'gap')])
    if kind == 'name':
        f[2] = f[2] + '_x'
    elif kind == 'recv':
        a = list(f[4])
        if len(a) > 1 and isinstance(a[1], Sym):
            a[1] = S('self') if a[1] == 'mutself' else S('mutself')
        else:
            a.insert(1, S('self'))
        f[4] = a
    elif kind == 'arg':
        a = list(f[4])
        named = [i for i in range(1, len(a)) if not isinstance(a[i], Sym)]
        if named:
            i = rng.choice(named)
            a[i] = arg(a[i][1], ty_cptr(ty_cptr(ty_id('u8'))) if a[i][2] != ty_cptr(ty_cptr(ty_id('u8'))) else ty_id('u8'))
        else:
            a.append(arg('extra', ty_id('u8')))
        f[4] = a
    elif kind == 'arity':
        a = list(f[4])
        named = [i for i in range(1, len(a)) if not isinstance(a[i], Sym)]
        if named and rng.random() < 0.5:
            a = a[:named[-1]] + a[named[-1] + 1:]       # drop the last parameter
        else:
            a.append(arg('extra', ty_id('u32')))          # add a trailing parameter
        f[4] = a
    elif kind == 'ret':
        r = opt(f[5])
        f[5] = mkopt(None) if r is not None else mkopt(ty_id('u16'))
    elif kind == 'cc':
        cur = attr_fn(f[3][1:], 'calling_convention')
        if cur is not None and cur != ('thiscall' if has_self(f) else 'system') and rng.random() < 0.5:
            # the attribute forgotten on the repeated slot (falls back to the default convention)
            f[3] = attrs(*[a for a in f[3][1:] if not (tag(a) == 'af' and a[1] == 'calling_convention')])
        else:
            dflt = 'thiscall' if has_self(f) else 'system'
            new = rng.choice([x for x in ['fastcall', 'cdecl', 'stdcall', 'C'] if x != cur and not (cur is None and x == dflt)])
            f[3] = attrs(*([a for a in f[3][1:] if not (tag(a) == 'af' and a[1] == 'calling_convention')] + [a_fn('calling_convention', e_str(new))]))
    if kind == 'trunc':
        newblock = block[:2 + k]
        newblock = [newblock[0], attrs(*[a for a in newblock[1][1:] if not (tag(a) == 'af' and a[1] == 'size')])] + newblock[2:]
    else:
        newblock = block[:2 + k] + [f] + block[3 + k:]
    d2 = list(d); t2 = list(d[3]); t2[2] = newblock; d2[3] = t2
    c2 = replace_at(c, p, d2)
    c2[1] = c2[1] + '-' + kind
    return c2 + [[S('expect'), 'reject-vftable-mismatch']]

def judge(c, impl, model):
    cid = c[1]
    info = {'dist': []}
    fs = k_compare(ID, c, impl, model)
    cls = outcome_class(impl.get('o3'))
    count(info, 'impl-' + cls)
    expect = find(c, 'expect')
    if expect is not None:
        count(info, 'mutation')
        if cls == 'ok':
            fs.append(Finding('O', 'C06/incompatible-derived-vftable-accepted', cid, cid.split('-')[-1]))
        else:
            info['nontrivial'] = True
        return fs, info
    if cls != 'ok' or tag(impl.get('o2')) != 'resolved':
        return fs, info
    io3 = canon.canon_o3(impl['o3'], 'impl')
    files, crate = crate_of(c, io3)
    items2 = {tuple(it[1][1:]): it for it in find(impl['o2'], 'items')[1:]}
    by_last = {}
    for pth, it in items2.items():
        by_last.setdefault(pth[-1], []).append(it)
    ps = crate.ps
    seen = set()
    def report(reason, detail):
        if reason not in seen:
            seen.add(reason); fs.append(Finding('O', reason, cid, detail))
    def vft_of(it):
        inner = it[6]
        if tag(inner) != 'ty': return None
        v = opt(inner[4])
        return v
    checked = 0
    for (mp, file, m) in modules_of(c):
        items = file_items(files, mp)
        for d in m_defs(m):
            if not def_is_type(d): continue
            name = def_name(d)
            it = items2.get(tuple(mp + [name]))
            st = find_item(items, 'struct', name)
            if it is None or st is None: continue
            v = vft_of(it)
            fb = first_base_name(d)
            block = own_block(d)
            bit = by_last.get(fb, [None])[0] if fb else None
            bv = vft_of(bit) if bit is not None else None
            flds = struct_fields(st)
            has_ptr = any(f[0] == 'vftable' for f in flds)
            im = find_item(items, 'impl', name)
            acc = opt(im[2]) if im is not None else None
            if bv is not None:
                checked += 1
                # derived from a base that supplies a vftable
                if v is None:
                    report('C06/inherited-table-lost', name); continue
                bf, df = find(bv, 'fns')[1:], find(v, 'fns')[1:]
                if df[:len(bf)] != bf:
                    report('C06/base-slots-not-a-prefix', '%s: base %s' % (name, fb))
                if has_ptr:
                    report('C06/second-vftable-pointer', name)
                base_field = [s_[2] for s_ in type_stmts(d) if stmt_is_field(s_) and has_ident(s_[4][1:], 'base')][0]
                if acc is None or opt(acc[2]) != base_field:
                    report('C06/accessor-does-not-delegate', '%s: %s' % (name, dump(acc) if acc else None))
                if block is None and find(v, 'fns') != find(bv, 'fns'):
                    report('C06/inherited-table-changed', name)
            elif block is not None:
                checked += 1
                if not flds or flds[0][0] != 'vftable':
                    report('C06/own-pointer-not-first', name); continue
                n0, vis0, ty0, _ = flds[0]
                if vis0 != 'priv' or ty0 != '*const crate::' + '::'.join(mp + [name + 'Vftable']):
                    report('C06/own-pointer-shape', '%s: %s %s' % (name, vis0, ty0))
                if sum(1 for f in flds if f[0] == 'vftable') != 1:
                    report('C06/second-vftable-pointer', name)
                try:
                    _, _, lay = crate.item_layout('crate::' + '::'.join(mp + [name]))
                    if lay[0][1] != 0 or lay[0][2] != ps:
                        report('C06/own-pointer-offset', name)
                except rustlay.LayoutError:
                    pass
                if acc is None or opt(acc[2]) is not None:
                    report('C06/accessor-shape', '%s: %s' % (name, dump(acc) if acc else None))
            else:
                if has_ptr or v is not None:
                    report('C06/unexpected-vftable', name)
    if checked:
        info['nontrivial'] = True
    count(info, 'derived-or-owning-types:%s' % ('0' if not checked else '1' if checked == 1 else '2+'))
    return fs, info
