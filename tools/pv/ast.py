"""Builders for case S-expressions (PROTOCOL.md §2)."""
from .sexp import Sym, S, mkopt

def path(*segs):
    return [S('p')] + list(segs)

def ty_id(n): return [S('id'), n]
def ty_cptr(t): return [S('cptr'), t]
def ty_mptr(t): return [S('mptr'), t]
def ty_arr(t, n): return [S('arr'), t, n]
def ty_unk(n): return [S('unk'), n]

def e_int(z): return [S('int'), z]
def e_str(s): return [S('str'), s]
def e_ident(s): return [S('ident'), s]

def a_ident(n): return [S('ai'), n]
def a_fn(n, *exprs): return [S('af'), n] + list(exprs)
def a_int(n, z): return [S('af'), n, e_int(z)]
def a_assign(n, e): return [S('aa'), n, e]
def a_doc(s): return a_assign('doc', e_str(s))
def attrs(*a): return [S('attrs')] + list(a)

def vis(pub): return S('pub') if pub else S('priv')

def arg(n, t): return [S('arg'), n, t]
SELF = S('self')
MUTSELF = S('mutself')

def fn(pub, name, at, args, ret=None):
    return [S('fn'), vis(pub), name, attrs(*at), [S('args')] + list(args), mkopt(ret)]

def field(pub, name, t, at=()):
    return [S('field'), vis(pub), name, t, attrs(*at)]

def vftable(at, fns):
    return [S('vftable'), attrs(*at)] + list(fns)

def type_def(pub, name, at, stmts):
    return [S('def'), vis(pub), name, [S('type'), attrs(*at)] + list(stmts)]

def enum_stmt(name, expr=None, at=()):
    return [S('es'), name, mkopt(expr), attrs(*at)]

def enum_def(pub, name, base, at, stmts):
    return [S('def'), vis(pub), name, [S('enum'), base, attrs(*at)] + list(stmts)]

def impl(name, at, fns):
    return [S('impl'), name, attrs(*at)] + list(fns)

def backend(name, prologue=None, epilogue=None):
    return [S('be'), name, mkopt(prologue), mkopt(epilogue)]

def xtype(name, at): return [S('xt'), name, attrs(*at)]
def xval(pub, name, t, at): return [S('xv'), vis(pub), name, t, attrs(*at)]

def module(at=(), uses=(), xtypes=(), xvals=(), defs=(), impls=(), backends=()):
    return [S('m'), attrs(*at), [S('uses')] + list(uses), [S('xtypes')] + list(xtypes),
            [S('xvals')] + list(xvals), [S('defs')] + list(defs), [S('impls')] + list(impls),
            [S('backends')] + list(backends)]

def modent(p, m, file=None):
    segs = p[1:]
    if file is None:
        file = '/'.join(segs) + '.pyxis'
    return [S('module'), p, file, m]

def tmodule(file, text):
    return [S('tmodule'), file, text]

def case(cid, ps, modules, prio=(), extras=()):
    return [S('case'), cid, [S('ps'), ps], [S('prio')] + list(prio), [S('modules')] + list(modules)] + list(extras)
