"""Orchestration shared by all property checks: build, regenerate, run, compare, classify,
shrink, evidence (DESIGN.md §3)."""
import os, sys, json, time, random, re, subprocess, shutil
from . import sexp
from .sexp import Sym, S
from .env import *

FORBIDDEN = re.compile(r'\b(sorry|admit|native_decide|bv_decide|implemented_by)\b|^\s*axiom\s|unsafe\s|maxHeartbeats\s+0')
ALLOWED_AXIOMS = {'propext', 'Classical.choice', 'Quot.sound'}

# ---------------------------------------------------------------- building

def build_harness():
    """cargo build of pxharness against $VERIF_REPO's working tree (with the pyxis_verif hooks)."""
    with Lock('cargo.lock'):
        lock_src = os.path.join(REPO, 'Cargo.lock')
        p, dt = run(['cargo', 'build', '--offline', '--quiet'], cwd=HARNESS, timeout=1200)
        ok = p.returncode == 0 and os.path.exists(HARNESS_BIN)
        if not ok:
            # the O2 observer reads pyxis's internals; if those changed shape, fall back to the public API only
            # (O1 and O3 still work, O2 observations are `(unavailable)`) so that a failing input can still be found
            p2, dt2 = run(['cargo', 'build', '--offline', '--quiet', '--no-default-features'], cwd=HARNESS, timeout=1200)
            if p2.returncode == 0 and os.path.exists(HARNESS_BIN):
                return 'surface', (p.stderr or '')[-3000:], dt + dt2
        return ok, (p.stderr or '')[-3000:], dt

def extract_tables():
    p, dt = run([sys.executable, os.path.join(VERIF, 'tools', 'extract.py'), '--write',
                 os.path.join(LEAN, 'PyxisVerif', 'Generated', 'Tables.lean')])
    return p.returncode == 0, p.stderr.strip()

def lake_build(targets):
    with Lock('lake.lock'):
        p, dt = run(['lake', 'build'] + targets, cwd=LEAN, timeout=3600)
        return p.returncode == 0, (p.stdout + p.stderr)[-6000:], dt

def strip_comments(src):
    # remove /- ... -/ (nested) and -- comments
    out = []
    i = 0; depth = 0; n = len(src)
    while i < n:
        if src.startswith('/-', i):
            depth += 1; i += 2
        elif depth and src.startswith('-/', i):
            depth -= 1; i += 2
        elif depth:
            i += 1
        elif src.startswith('--', i):
            j = src.find('\n', i)
            i = n if j < 0 else j
        elif src[i] == '"':
            # string literal: keep the quotes, drop the contents
            j = i + 1
            while j < n and src[j] != '"':
                j += 2 if src[j] == '\\' else 1
            out.append('""'); i = j + 1
        else:
            out.append(src[i]); i += 1
    return ''.join(out)

def lean_sources():
    res = []
    for d, dirs, files in os.walk(os.path.join(LEAN, 'PyxisVerif')):
        for f in files:
            if f.endswith('.lean'):
                res.append(os.path.join(d, f))
    res.append(os.path.join(LEAN, 'Driver', 'Main.lean'))
    return sorted(res)

def import_closure(prop):
    """files of this project that Props/<prop>.lean and Audit/<prop>.lean import, transitively (plus the driver)"""
    seen, todo = set(), ['PyxisVerif.Props.' + prop, 'PyxisVerif.Audit.' + prop, 'Driver.Main']
    while todo:
        m = todo.pop()
        if m in seen:
            continue
        path = os.path.join(LEAN, *m.split('.')) + '.lean'
        if not os.path.exists(path):
            continue
        seen.add(m)
        for line in open(path):
            mm = re.match(r'\s*(?:public\s+)?import\s+(\S+)', line)
            if mm:
                todo.append(mm.group(1))
    return sorted(os.path.join(LEAN, *m.split('.')) + '.lean' for m in seen)

def forbidden_scan(prop=None):
    hits = []
    for p in (import_closure(prop) if prop else lean_sources()):
        code = strip_comments(open(p).read())
        for ln, line in enumerate(code.split('\n'), 1):
            if FORBIDDEN.search(line):
                hits.append("%s: %s" % (os.path.relpath(p, LEAN), line.strip()[:120]))
    return hits

def audit_imports(prop):
    """the Props modules the audit file of a property imports (its own, plus shared ones such as Props.Exec)"""
    path = os.path.join(LEAN, 'PyxisVerif', 'Audit', prop + '.lean')
    mods = ['PyxisVerif.Props.' + prop]
    if os.path.exists(path):
        for line in open(path):
            mm = re.match(r'\s*import\s+(PyxisVerif\.Props\.\S+)', line)
            if mm and mm.group(1) not in mods:
                mods.append(mm.group(1))
    return mods

def audit(prop):
    """`#print axioms` for every theorem listed in Audit/<prop>.lean.
    Returns (theorems: {name: [axioms]}, problems: [str])."""
    path = os.path.join('PyxisVerif', 'Audit', prop + '.lean')
    if not os.path.exists(os.path.join(LEAN, path)):
        return {}, ["no audit file " + path]
    with Lock('lake.lock'):
        p, dt = run(['lake', 'env', 'lean', path], cwd=LEAN, timeout=1800)
    out = p.stdout + p.stderr
    thms = {}
    problems = []
    for m in re.finditer(r"'([^']+)' depends on axioms: \[([^\]]*)\]", out, re.S):
        axs = [a.strip() for a in m.group(2).replace('\n', ' ').split(',') if a.strip()]
        thms[m.group(1)] = axs
        bad = [a for a in axs if a not in ALLOWED_AXIOMS]
        if bad:
            problems.append("%s uses inadmissible axioms %s" % (m.group(1), bad))
    for m in re.finditer(r"'([^']+)' does not depend on any axioms", out):
        thms[m.group(1)] = []
    if p.returncode != 0:
        problems.append("audit file failed to compile: " + out[-1500:])
    listed = re.findall(r'#print axioms\s+(\S+)', strip_comments(open(os.path.join(LEAN, path)).read()))
    for name in listed:
        if name not in thms:
            problems.append("obligation %s not discharged (no axiom report)" % name)
    return thms, problems, listed

# ---------------------------------------------------------------- running

def _run_lines(cmd, lines, timeout, env=None):
    data = '\n'.join(lines) + '\n'
    p = subprocess.run(cmd, input=data, capture_output=True, text=True, env=env or ENV, timeout=timeout)
    return p

def parse_obs(stdout):
    """-> {case id: {point: obs sexp}}"""
    res = {}
    for line in stdout.split('\n'):
        line = line.strip()
        if not line.startswith('(obs '):
            continue
        try:
            x = sexp.parse(line)
        except ValueError as e:
            log("unparsable observation line:", line[:200], e)
            continue
        res.setdefault(x[1], {})[str(x[2])] = x[3]
    return res

def chunks(l, n):
    for i in range(0, len(l), n):
        yield l[i:i + n]

def run_harness(case_lines, points, isolate=False, timeout_ms=5000, jobs=8, extra_env=None):
    """Runs pxharness over the cases, in parallel chunks.  A chunk whose process dies is re-run
    case by case in isolate mode."""
    from concurrent.futures import ThreadPoolExecutor
    res = {}
    if not case_lines:
        return res
    size = max(1, (len(case_lines) + jobs - 1) // jobs)
    env = dict(ENV)
    env.update(extra_env or {})
    def work(idx_chunk):
        idx, chunk = idx_chunk
        wd = os.path.join(WORK, 'tmp', 'h%d_%d' % (os.getpid(), idx))
        cmd = [HARNESS_BIN, 'run', '--points', ','.join(points), '--work', wd, '--timeout-ms', str(timeout_ms)]
        if isolate:
            cmd.append('--isolate')
        try:
            # in-process runs are fast (milliseconds per case); a chunk that takes this long is hanging
            p = _run_lines(cmd, chunk, timeout=(600 + len(chunk) * (timeout_ms / 1000.0 + 1)) if isolate else (90 + len(chunk) * 0.25), env=env)
            out = parse_obs(p.stdout)
            rc = p.returncode
        except subprocess.TimeoutExpired:
            out, rc = {}, -1
        shutil.rmtree(wd, ignore_errors=True)
        if rc != 0 and not isolate:
            # the process died (abort / stack overflow / OOM): isolate each case
            cmd2 = [HARNESS_BIN, 'run', '--points', ','.join(points), '--work', wd, '--timeout-ms', str(timeout_ms), '--isolate']
            p = _run_lines(cmd2, chunk, timeout=600 + len(chunk) * (timeout_ms / 1000.0 + 1), env=env)
            out = parse_obs(p.stdout)
            shutil.rmtree(wd, ignore_errors=True)
        return out
    with ThreadPoolExecutor(max_workers=jobs) as ex:
        for out in ex.map(work, list(enumerate(chunks(case_lines, size)))):
            res.update(out)
    return res

def run_model(case_lines, points, jobs=8):
    from concurrent.futures import ThreadPoolExecutor
    res = {}
    if not case_lines:
        return res
    size = max(1, (len(case_lines) + jobs - 1) // jobs)
    def work(chunk):
        p = _run_lines([MODEL_BIN, 'run', '--points', ','.join(points)], chunk, timeout=1800)
        if p.returncode != 0:
            log("pxmodel failed:", p.stderr[-2000:])
        return parse_obs(p.stdout)
    with ThreadPoolExecutor(max_workers=jobs) as ex:
        for out in ex.map(work, list(chunks(case_lines, size))):
            res.update(out)
    return res

FRAG_BIN = os.path.join(LEAN, '.lake', 'build', 'bin', 'pxfrag')

def run_frag(case_lines, jobs=8):
    """per case: does it satisfy the decidable hypotheses of the whole-run theorems (see lean/Driver/Frag.lean)"""
    from concurrent.futures import ThreadPoolExecutor
    res = {}
    if not case_lines or not os.path.exists(FRAG_BIN):
        return res
    size = max(1, (len(case_lines) + jobs - 1) // jobs)
    def work(chunk):
        p = _run_lines([FRAG_BIN], chunk, timeout=1800)
        return parse_obs(p.stdout)
    with ThreadPoolExecutor(max_workers=jobs) as ex:
        for out in ex.map(work, list(chunks(case_lines, size))):
            res.update(out)
    return res

# ---------------------------------------------------------------- findings

class Finding:
    """kind: 'O' – the property fails on the implementation's observation (a concrete failing input);
             'K' – model and implementation disagree on the property's projection;
       reason: stable reason code `<ID>/<clause>[/<feature>]`."""
    def __init__(self, kind, reason, case_id, detail=''):
        self.kind, self.reason, self.case_id, self.detail = kind, reason, case_id, detail
    def __repr__(self):
        return "Finding(%s %s %s %s)" % (self.kind, self.reason, self.case_id, self.detail[:200])

def load_known():
    path = os.path.join(VERIF, 'known_findings.jsonl')
    out = []
    if os.path.exists(path):
        for l in open(path):
            l = l.strip()
            if l and not l.startswith('#'):
                out.append(json.loads(l))
    return out

def outcome_class(obs):
    """ok | err | bad (panic/timeout/abort) for O2/O3 observations"""
    t = sexp.tag(obs)
    if t in ('resolved', 'files'):
        return 'ok'
    if t == 'err':
        return 'err'
    if t in ('panic', 'timeout'):
        return 'bad'
    return t or '?'
