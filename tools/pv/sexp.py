"""S-expressions per PROTOCOL.md §1.  Python representation:
   list -> list, symbol -> Sym(str), string -> str, int -> int."""
import re

class Sym(str):
    __slots__ = ()
    def __repr__(self):
        return "Sym(%s)" % str.__repr__(self)

def S(name):
    return Sym(name)

_tok = re.compile(r'\s*(?:(\()|(\))|(-?[0-9]+)|([A-Za-z_][A-Za-z0-9_\-]*)|"((?:[^"\\]|\\.)*)")')
_esc = re.compile(r'\\(x[0-9A-Fa-f]{2}|.)')

def _unescape(body):
    out = bytearray()
    i = 0
    n = len(body)
    while i < n:
        c = body[i]
        if c == '\\':
            d = body[i + 1]
            if d == 'x':
                out.append(int(body[i + 2:i + 4], 16)); i += 4
            elif d == 'n':
                out.append(10); i += 2
            elif d == 'r':
                out.append(13); i += 2
            elif d == 't':
                out.append(9); i += 2
            else:
                out += d.encode('utf-8'); i += 2
        else:
            out += c.encode('utf-8'); i += 1
    return out.decode('utf-8', errors='surrogateescape')

def parse(line):
    pos = 0
    stack = [[]]
    n = len(line)
    while True:
        m = _tok.match(line, pos)
        if not m:
            if line[pos:].strip() == '':
                break
            raise ValueError("bad sexp at %d: %r" % (pos, line[pos:pos + 40]))
        pos = m.end()
        if m.group(1):
            stack.append([])
        elif m.group(2):
            top = stack.pop()
            if not stack:
                raise ValueError("unbalanced )")
            stack[-1].append(top)
        elif m.group(3) is not None:
            stack[-1].append(int(m.group(3)))
        elif m.group(4) is not None:
            stack[-1].append(Sym(m.group(4)))
        else:
            stack[-1].append(_unescape(m.group(5)))
    if len(stack) != 1 or len(stack[0]) != 1:
        raise ValueError("expected exactly one sexp")
    return stack[0][0]

def _escape(s):
    out = []
    for b in s.encode('utf-8', errors='surrogateescape'):
        if b == 34:
            out.append('\\"')
        elif b == 92:
            out.append('\\\\')
        elif 32 <= b <= 126:
            out.append(chr(b))
        else:
            out.append('\\x%02X' % b)
    return ''.join(out)

def dump(x):
    if isinstance(x, Sym):
        return str(x)
    if isinstance(x, bool):
        return '1' if x else '0'
    if isinstance(x, int):
        return str(x)
    if isinstance(x, str):
        return '"' + _escape(x) + '"'
    if isinstance(x, (list, tuple)):
        return '(' + ' '.join(dump(y) for y in x) + ')'
    if x is None:
        return 'none'
    raise TypeError(type(x))

def tag(x):
    if isinstance(x, list) and x and isinstance(x[0], Sym):
        return str(x[0])
    if isinstance(x, Sym):
        return str(x)
    return None

def find(x, name):
    """first child list of x with head symbol name"""
    for y in x:
        if isinstance(y, list) and y and isinstance(y[0], Sym) and y[0] == name:
            return y
    return None

def find_all(x, name):
    return [y for y in x if isinstance(y, list) and y and isinstance(y[0], Sym) and y[0] == name]

def opt(x):
    """(some X) -> X ; none -> None"""
    if isinstance(x, Sym) and x == 'none':
        return None
    if isinstance(x, list) and len(x) == 2 and x[0] == 'some':
        return x[1]
    raise ValueError("not an option: %r" % (x,))

def mkopt(x):
    return Sym('none') if x is None else [Sym('some'), x]
