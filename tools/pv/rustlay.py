"""An independent model (Python) of what rustc does with the *emitted* items, used by the oracles
that run on the implementation's output: layout of `repr(C)` / `repr(C, align(N))` / `repr(C, packed)`
structs and `repr(int)` enums, over the canonical O3 observation (PROTOCOL.md §3).

Modelled, not verified; validated against the real compiler by the O4 runs (tools/pv/o4.py)."""
import re
from .sexp import tag, find

PRIM = {'bool': (1, 1), 'u8': (1, 1), 'i8': (1, 1), 'u16': (2, 2), 'i16': (2, 2), 'u32': (4, 4), 'i32': (4, 4),
        'f32': (4, 4), 'u64': (8, 8), 'i64': (8, 8), 'f64': (8, 8), 'u128': (16, 16), 'i128': (16, 16),
        '::std::ffi::c_void': (1, 1)}

class LayoutError(Exception):
    pass

def align_up(o, a):
    return o if a == 0 else (o + a - 1) // a * a

def split_array(ty):
    """'[T;N]' -> (T, N) with bracket matching"""
    assert ty.startswith('[') and ty.endswith(']')
    inner = ty[1:-1]
    depth = 0
    for i in range(len(inner) - 1, -1, -1):
        ch = inner[i]
        if ch == ']': depth += 1
        elif ch == '[': depth -= 1
        elif ch == ';' and depth == 0:
            return inner[:i], int(inner[i + 1:])
    raise LayoutError('bad array type ' + ty)

class Crate:
    """all emitted structs / enums of one observation, by fully qualified path `crate::a::B`"""
    def __init__(self, files, ps, externs=None):
        self.ps = ps
        self.items = {}
        self.externs = dict(externs or {})     # 'crate::m::X' -> (size, align)
        self.cache = {}
        for fname, items in files.items():
            if items is None:
                continue
            mod = fname[:-3].split('/')
            for it in items:
                if tag(it) in ('struct', 'enum'):
                    self.items['crate::' + '::'.join(mod + [it[5]])] = it

    def type_layout(self, ty):
        """(size, align) of a canonical type string"""
        ty = ty.strip()
        if ty in PRIM:
            return PRIM[ty]
        if ty.startswith('*const ') or ty.startswith('*mut ') or ty.startswith('unsafe extern') or ty.startswith('extern') or ty.startswith('fn('):
            return (self.ps, self.ps)
        if ty.startswith('['):
            t, n = split_array(ty)
            s, a = self.type_layout(t)
            return (s * n, a)
        if ty in self.externs:
            return self.externs[ty]
        if ty in self.items:
            return self.item_layout(ty)[:2]
        raise LayoutError('unknown type ' + ty)

    def item_layout(self, path):
        """(size, align, [(field name, offset, size)])"""
        if path in self.cache:
            r = self.cache[path]
            if r is None:
                raise LayoutError('recursive type ' + path)
            return r
        self.cache[path] = None
        it = self.items[path]
        reprs = [x for x in find(it, 'repr')[1:]]
        if tag(it) == 'enum':
            if len(reprs) != 1 or reprs[0] not in PRIM:
                raise LayoutError('enum repr ' + str(reprs))
            s, a = PRIM[reprs[0]]
            r = (s, a, [])
        else:
            if 'C' not in reprs:
                raise LayoutError('struct without repr(C): ' + path)
            packed = 'packed' in reprs
            al_attr = 1
            for x in reprs:
                m = re.fullmatch(r'align\((\d+)\)', x)
                if m:
                    al_attr = max(al_attr, int(m.group(1)))
                elif x not in ('C', 'packed'):
                    raise LayoutError('unknown repr ' + x)
            off = 0
            maxal = 1
            fields = []
            for f in it[6:]:
                name, ty = f[3], f[4]
                s, a = self.type_layout(ty)
                if packed:
                    a = 1
                off = align_up(off, a)
                fields.append((name, off, s))
                off += s
                maxal = max(maxal, a)
            al = 1 if packed else max(maxal, al_attr)
            r = (align_up(off, al), al, fields)
        self.cache[path] = r
        return r
