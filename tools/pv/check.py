"""bin/check <ID> --tier quick|thorough [--replay FILE]   (DESIGN.md §3)"""
import os, sys, json, time, random, importlib, argparse, hashlib
from . import sexp, core
from .sexp import Sym, S
from .env import *
from .core import Finding

TRUSTED_BASE = [
    "Lean 4.33.0 kernel (thorough tier: re-checked with leanchecker); axioms per theorem listed under coverage.axioms",
    "hand-written Lean model of pyxis (lean/PyxisVerif/Model); tied to /repo by the correspondence runs counted in traces_validated_against_impl, only as far as the generators reach",
    "tools/extract.py (regenerates Generated/Tables.lean from /repo/src on every run)",
    "pxharness canonicalisation (syn re-parse of emitted files into abstract items, template matching of bodies)",
    "modelled, not verified: rustc's repr(C)/repr(int) layout rules and integer casts (Model/RustSem), str::lines, Path::set_extension, sort_by_key; validated by differential runs against the real compiler where the check says so",
    "outside every model: quote!, prettyplease, the file system, allocator, stack depth, 32-bit calling sequences",
]

def case_id(c):
    return c[1]

def corpus_cases(prop):
    d = os.path.join(VERIF, 'corpus', prop)
    out = []
    if os.path.isdir(d):
        for f in sorted(os.listdir(d)):
            if f.endswith('.case'):
                for line in open(os.path.join(d, f)):
                    line = line.strip()
                    if line and not line.startswith(';'):
                        out.append(sexp.parse(line))
    return out

def write_replay(prop, seed, tag, payload):
    d = os.path.join(VERIF, 'replays')
    os.makedirs(d, exist_ok=True)
    path = os.path.join(d, '%s-%s-%s.case' % (prop, seed, tag))
    with open(path, 'w') as f:
        f.write(payload)
    return path

def evaluate(P, cases, tier):
    """runs both sides and judges; returns (findings, stats)"""
    # observations are keyed by case id: a generator that re-uses an id would make one case be judged against another's output
    seen_ids = {}
    for c in cases:
        k = seen_ids.get(c[1], 0)
        seen_ids[c[1]] = k + 1
        if k:
            c[1] = '%s~dup%d' % (c[1], k)
    lines = [sexp.dump(c) for c in cases]
    t0 = time.time()
    impl = core.run_harness(lines, P.POINTS, isolate=getattr(P, 'ISOLATE', False),
                            timeout_ms=getattr(P, 'TIMEOUT_MS', 5000), jobs=JOBS, extra_env=getattr(P, 'HARNESS_ENV', None))
    t1 = time.time()
    model = core.run_model(lines, getattr(P, 'MODEL_POINTS', P.POINTS + ['spec']), jobs=JOBS)
    t2 = time.time()
    findings = []
    stats = {'impl_s': round(t1 - t0, 2), 'model_s': round(t2 - t1, 2), 'compared': 0, 'dist': {}}
    nontrivial = set()
    for c in cases:
        cid = case_id(c)
        io, mo = impl.get(cid), model.get(cid)
        if io is None or mo is None:
            findings.append(Finding('K', P.ID + '/no-observation', cid,
                                    'impl=%s model=%s' % (io is not None, mo is not None)))
            continue
        stats['compared'] += 1
        fs, info = P.judge(c, io, mo)
        findings += fs
        for k in info.get('dist', []):
            stats['dist'][k] = stats['dist'].get(k, 0) + 1
        if info.get('nontrivial'):
            nontrivial.add(hashlib.sha1(sexp.dump(c[2:]).encode()).hexdigest())
    if hasattr(P, 'judge_all'):
        # properties that relate several runs (C09, C19, C20): second phase with access to everything
        fs2, info2, extra = P.judge_all(cases, impl, model, tier)
        findings += fs2
        for k in info2.get('dist', []):
            stats['dist'][k] = stats['dist'].get(k, 0) + 1
        for h in info2.get('nontrivial_hashes', []):
            nontrivial.add(h)
        stats['compared'] += info2.get('compared', 0)
        stats['extra'] = {k: v for k, v in info2.items() if k not in ('dist', 'nontrivial_hashes', 'compared')}
        cases.extend(extra)          # so that replays / shrinking can find them by id
    stats['distinct_nontrivial'] = len(nontrivial)
    return findings, stats, impl, model

JOBS = int(os.environ.get('VERIF_JOBS', '12'))

def shrink(P, case, reason, kind, budget=120):
    """greedy structural shrinking: delete list elements / shrink integers while the same
    reason code is still reported"""
    def fails(c):
        fs, _, _, _ = evaluate(P, [c], 'quick')
        return any(f.reason == reason and f.kind == kind for f in fs)
    cur = case
    tries = 0
    improved = True
    while improved and tries < budget:
        improved = False
        for cand in candidates(cur):
            tries += 1
            if tries > budget:
                break
            try:
                if fails(cand):
                    cur = cand; improved = True
                    break
            except Exception:
                continue
    return cur

PROTECTED = {'case', 'ps', 'prio', 'modules', 'module', 'm', 'attrs', 'uses', 'xtypes', 'xvals', 'defs', 'impls',
             'backends', 'p', 'args'}

def candidates(c):
    """smaller variants of a case: remove one element from any variadic list"""
    out = []
    def rec(node, rebuild):
        if not isinstance(node, list):
            return
        head = sexp.tag(node)
        start = 1 if head else 0
        variadic = head in ('attrs', 'uses', 'xtypes', 'xvals', 'defs', 'impls', 'backends', 'modules', 'type',
                            'enum', 'vftable', 'impl', 'args', 'af', 'prio')
        if variadic:
            fixed = {'type': 2, 'enum': 3, 'vftable': 2, 'impl': 3, 'af': 2}.get(head, 1)
            for i in range(fixed, len(node)):
                out.append(rebuild(node[:i] + node[i + 1:]))
        for i in range(start, len(node)):
            ch = node[i]
            if isinstance(ch, list):
                rec(ch, lambda new, i=i, node=node, rebuild=rebuild: rebuild(node[:i] + [new] + node[i + 1:]))
            elif isinstance(ch, int) and not isinstance(ch, bool) and head in ('int', 'arr', 'unk') and abs(ch) > 1:
                for v in (0, 1, ch // 2):
                    if v != ch:
                        out.append(rebuild(node[:i] + [v] + node[i + 1:]))
    rec(c, lambda new: new)
    return out

def main(argv=None):
    ap = argparse.ArgumentParser()
    ap.add_argument('prop')
    ap.add_argument('--tier', default=os.environ.get('VERIF_TIER', 'quick'))
    ap.add_argument('--replay')
    args = ap.parse_args(argv)
    prop = args.prop
    tier = args.tier if args.tier in ('quick', 'thorough') else 'quick'
    seed = int(os.environ.get('VERIF_SEED', '20260930'))
    t0 = time.time()
    P = importlib.import_module('pv.props.' + prop.lower())
    rng = random.Random(seed * 1000003 + int(prop[1:]))
    out_lines = []
    def emit(s):
        print(s, flush=True)
        out_lines.append(s)

    # ---- (T) build, regenerate, audit
    tie_ok, tie_msg = core.extract_tables()
    hok, hmsg, hdt = core.build_harness()
    mok, mmsg, mdt = core.lake_build(['pxmodel', 'pxfrag'])
    prop_targets = core.audit_imports(prop)
    pok, pmsg, pdt = core.lake_build(prop_targets)
    thms, problems, listed = ({}, ['property module did not build'], [])
    if pok:
        thms, problems, listed = core.audit(prop)
    forb = core.forbidden_scan(prop)
    t_problems = []
    if not tie_ok:
        t_problems.append('translator: ' + tie_msg)
    if not pok:
        t_problems.append('lake build PyxisVerif.Props.%s failed: %s' % (prop, pmsg[-1500:]))
    t_problems += problems
    t_problems += ['forbidden construct: ' + h for h in forb]
    if tier == 'thorough' and pok:
        with core.Lock('lake.lock'):
            p, dt = run(['lake', 'env', 'leanchecker'] + prop_targets, cwd=LEAN, timeout=3600)
        if p.returncode != 0:
            t_problems.append('leanchecker rejected PyxisVerif.Props.%s: %s' % (prop, (p.stdout + p.stderr)[-800:]))
    obligations = len(listed)
    discharged = sum(1 for n in listed if n in thms and all(a in core.ALLOWED_AXIOMS for a in thms[n]))

    findings, stats = [], {'compared': 0, 'distinct_nontrivial': 0, 'dist': {}}
    cases = []
    if hok == 'surface':
        t_problems.append('correspondence harness builds only against the public API of the current tree (internal API changed): ' + hmsg[-800:])
    if not hok or not mok:
        if not hok:
            t_problems.append('correspondence harness does not build against the current tree: ' + hmsg[-1500:])
        if not mok:
            t_problems.append('model driver does not build: ' + mmsg[-1500:])
    else:
        if args.replay:
            cases = []
            for line in open(args.replay):
                line = line.strip()
                if line.startswith('(case '):
                    cases.append(sexp.parse(line))
        else:
            cases = corpus_cases(prop) + P.generate(rng, tier)
        findings, stats, impl, model = evaluate(P, cases, tier)

    # ---- classification
    known = [k for k in core.load_known() if k.get('property') == prop]
    open_reasons = {k['reason']: k for k in known if k.get('status') == 'open'}
    rc = 0
    o_fail = [f for f in findings if f.kind == 'O']
    k_fail = [f for f in findings if f.kind == 'K']
    by_case = {case_id(c): c for c in cases}
    reported = set()
    known_printed = []
    for f in o_fail:
        if f.reason in open_reasons:
            if f.reason not in reported:
                reported.add(f.reason)
                emit('KNOWN-FINDING: property=%s %s (%s)' % (prop, f.reason, open_reasons[f.reason].get('what', '')))
                known_printed.append(f.reason)
            continue
        if f.reason in reported:
            continue
        reported.add(f.reason)
        c = by_case.get(f.case_id)
        small = c
        if c is not None and not args.replay and getattr(P, 'SHRINK', True):
            try:
                small = shrink(P, c, f.reason, 'O')
            except Exception as e:
                log('shrink failed:', e)
        payload = '; property %s violated: %s\n; %s\n%s\n' % (prop, f.reason, f.detail.replace('\n', ' ')[:1500],
                                                              sexp.dump(small) if small is not None else '')
        path = write_replay(prop, seed, f.reason.split('/', 1)[-1].replace('/', '_'), payload)
        emit('VIOLATION property=%s replay=%s' % (prop, path))
        rc = 1
    unexplained_k = [f for f in k_fail if f.reason not in open_reasons]
    if rc == 0 and (t_problems or unexplained_k):
        # broken proof obligation or correspondence, and no failing input among what was explored:
        # extended search (10x cases) before giving up
        extra_fail = None
        if hok and mok and not args.replay:
            rng2 = random.Random(seed * 7919 + 17)
            more = []
            for rnd in range(2):
                batch = P.generate(rng2, tier)
                for c in batch:
                    c[1] = 'x%d-%s' % (rnd, c[1])      # ids must stay unique across batches
                more += batch
            f2, s2, _, _ = evaluate(P, more, tier)
            stats['extended_search_cases'] = len(more)
            for f in f2:
                if f.kind == 'O' and f.reason not in open_reasons:
                    extra_fail = (f, {case_id(c): c for c in more}.get(f.case_id))
                    break
        if extra_fail:
            f, c = extra_fail
            payload = '; property %s violated: %s\n; %s\n%s\n' % (prop, f.reason, f.detail.replace('\n', ' ')[:1500], sexp.dump(c))
            path = write_replay(prop, seed, f.reason.split('/', 1)[-1].replace('/', '_'), payload)
            emit('VIOLATION property=%s replay=%s' % (prop, path))
        else:
            what = []
            for tp in t_problems:
                what.append('; theorem/obligation no longer checks: ' + tp.replace('\n', ' ')[:1500])
            seen = set()
            for f in unexplained_k[:20]:
                what.append('; correspondence (model vs implementation) differs: %s on case %s: %s' %
                            (f.reason, f.case_id, f.detail.replace('\n', ' ')[:800]))
                if f.case_id in by_case and f.case_id not in seen:
                    seen.add(f.case_id)
                    what.append(sexp.dump(by_case[f.case_id]))
            path = write_replay(prop, seed, 'unproved', '\n'.join(what) + '\n')
            emit('VIOLATION property=%s replay=%s no-failing-input-found' % (prop, path))
        rc = 1

    # ---- evidence
    samples = [sexp.dump(c)[:1200] for c in cases[:3]]
    # which share of the cases that went through the implementation lies inside the hypotheses of the whole-run theorems
    frag = {}
    try:
        sample = cases if len(cases) <= 4000 else random.Random(seed).sample(cases, 4000)
        fr = core.run_frag([sexp.dump(c) for c in sample], jobs=JOBS)
        cnt = {'cases': 0, 'unparsed': 0, 'bounded': 0, 'novft': 0, 'nogenrefs': 0, 'bounded_and_nogenrefs': 0, 'bounded_and_novft': 0}
        for cid_, o in fr.items():
            f_ = o.get('frag')
            if f_ is None: continue
            cnt['cases'] += 1
            if len(f_) == 2 and not isinstance(f_[1], list):
                cnt['unparsed'] += 1; continue
            d_ = {str(x[0]): x[1] for x in f_[1:] if isinstance(x, list)}
            for k_ in ('bounded', 'novft', 'nogenrefs'):
                cnt[k_] += 1 if d_.get(k_) == 1 else 0
            if d_.get('bounded') == 1 and d_.get('nogenrefs') == 1: cnt['bounded_and_nogenrefs'] += 1
            if d_.get('bounded') == 1 and d_.get('novft') == 1: cnt['bounded_and_novft'] += 1
        frag = cnt
        frag['meaning'] = ('bounded = C12.CaseBounded (integer literals in isize), novft = C09.CaseNoVft, nogenrefs = C09.CaseNoGenRefs: a case with '
                           'bounded_and_nogenrefs lies inside the hypotheses of the whole-run theorems (case_* lifts, C09Vft, C02Global, Exec); the others are '
                           'covered by the per-item theorems and by the correspondence only')
    except Exception as e:
        frag = {'error': repr(e)[:200]}
    ev = {
        'property_id': prop, 'tier': tier, 'seed': seed, 'level': 'proof',
        'coverage': {
            'obligations': obligations, 'discharged': discharged,
            'checker_cmd': 'cd /verif/lean && lake build %s && lake env lean PyxisVerif/Audit/%s.lean%s'
                           % (' '.join(prop_targets), prop, ' && lake env leanchecker ' + ' '.join(prop_targets) if tier == 'thorough' else ''),
            'trusted_base': TRUSTED_BASE + getattr(P, 'TRUSTED_EXTRA', []),
            'theorems': listed, 'axioms': thms,
            'evaluations': len(cases), 'distinct_nontrivial': stats.get('distinct_nontrivial', 0),
            'rule': getattr(P, 'RULE', ''), 'samples': samples or ['(no cases: build failure)'],
            'traces_validated_against_impl': stats.get('compared', 0),
            'input_distribution': stats.get('dist', {}),
            'second_phase': stats.get('extra', {}),
            'theorem_fragment': frag,
            'model_vs_impl_disagreements': len(k_fail), 'oracle_failures_on_impl': len(o_fail),
            'known_findings_printed': known_printed,
            'proof_problems': t_problems,
            'exhaustive': bool(getattr(P, 'EXHAUSTIVE', {}).get(tier, False)),
            'timings_s': {k: v for k, v in stats.items() if k.endswith('_s')},
        },
        'assumptions': getattr(P, 'ASSUMPTIONS', []),
        'wall_s': round(time.time() - t0, 2),
        'violations': 1 if rc else 0,
    }
    os.makedirs(os.path.join(VERIF, 'evidence'), exist_ok=True)
    with open(os.path.join(VERIF, 'evidence', prop + '.json'), 'w') as f:
        json.dump(ev, f, indent=1)
    log('%s %s: %d cases, %d compared, %d K, %d O, obligations %d/%d, %.1fs' %
        (prop, tier, len(cases), stats.get('compared', 0), len(k_fail), len(o_fail), discharged, obligations, time.time() - t0))
    for f in (o_fail + k_fail)[:10]:
        log('  ', f)
    for tp in t_problems[:5]:
        log('  T:', tp[:400])
    return rc

if __name__ == '__main__':
    sys.exit(main())
