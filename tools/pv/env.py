import os, sys, fcntl, subprocess, time, json, hashlib

VERIF = os.path.dirname(os.path.dirname(os.path.dirname(os.path.abspath(__file__))))
REPO = os.environ.get('VERIF_REPO', '/repo')
WORK = os.path.join(VERIF, '.work')
LEAN = os.path.join(VERIF, 'lean')
HARNESS = os.path.join(VERIF, 'harness')
HARNESS_BIN = os.path.join(WORK, 'harness-target', 'debug', 'pxharness')
MODEL_BIN = os.path.join(LEAN, '.lake', 'build', 'bin', 'pxmodel')

ENV = dict(os.environ)
ENV.update({'CARGO_NET_OFFLINE': 'true', 'GOPROXY': 'off', 'PIP_NO_INDEX': '1'})

def log(*a):
    print(*a, file=sys.stderr, flush=True)

class Lock:
    def __init__(self, name):
        os.makedirs(WORK, exist_ok=True)
        self.path = os.path.join(WORK, name)
    def __enter__(self):
        self.f = open(self.path, 'w')
        fcntl.flock(self.f, fcntl.LOCK_EX)
        return self
    def __exit__(self, *a):
        fcntl.flock(self.f, fcntl.LOCK_UN)
        self.f.close()

def run(cmd, cwd=None, timeout=None, input=None, check=False):
    t0 = time.time()
    p = subprocess.run(cmd, cwd=cwd, env=ENV, input=input, capture_output=True, text=True, timeout=timeout)
    if check and p.returncode != 0:
        raise RuntimeError("command failed (%d): %s\n%s\n%s" % (p.returncode, cmd, p.stdout[-4000:], p.stderr[-4000:]))
    return p, time.time() - t0

def tree_digest(root, exts):
    h = hashlib.sha256()
    for d, dirs, files in sorted(os.walk(root)):
        dirs[:] = sorted(x for x in dirs if x not in ('target', '.git', '.lake'))
        for f in sorted(files):
            if f.endswith(exts):
                p = os.path.join(d, f)
                h.update(p.encode()); h.update(open(p, 'rb').read())
    return h.hexdigest()
