#!/bin/sh
t() { python3 /verif/tools/seedtest.py /tmp/seedout6/$1 $2 $3 $4 $5 2>&1 | grep -v '^ "\|^}\|^{' ; }
t C01/A C01-G C01 C02; t C01/B C01-H C01 C11
t C03/A C03-G C03; t C03/B C03-H C03 C02
t C05/A C05-G C05; t C05/B C05-H C05 C17
t C06/A C06-G C06 C04; t C06/B C06-H C06
t C10/A C10-G C10 C05; t C10/B C10-H C10 C11
t C11/A C11-G C11 C15; t C11/B C11-H C11 C13
t C12/A C12-G C12; t C12/B C12-H C12 C18
t C18/A C18-G C18; t C18/B C18-H C18 C17
t C19/A C19-G C19 C14; t C19/B C19-H C19 C14
t C20/A C20-G C20 C01; t C20/B C20-H C20 C17
echo wave6-done
