#!/usr/bin/env python3
"""Dev tool: run generated worlds through implementation and model, compare O2 and O3.
usage: kdiff.py [N] [seed]"""
import sys, os, random, collections
sys.path.insert(0, os.path.dirname(os.path.abspath(__file__)))
from pv import sexp, core, gen, canon
from pv.sexp import tag, find

n = int(sys.argv[1]) if len(sys.argv) > 1 else 200
seed = int(sys.argv[2]) if len(sys.argv) > 2 else 1
rng = random.Random(seed)
cases = [gen.world(rng, 'w%d' % i) for i in range(n)]
lines = [sexp.dump(c) for c in cases]
impl = core.run_harness(lines, ['o2', 'o3'], jobs=12)
model = core.run_model(lines, ['o2', 'o3'], jobs=12)
stats = collections.Counter()
shown = 0
for c, line in zip(cases, lines):
    cid = c[1]
    io, mo = impl.get(cid, {}), model.get(cid, {})
    for pt, cf in (('o2', lambda o, s: canon.canon_o2(o)), ('o3', canon.canon_o3)):
        a = cf(io.get(pt), 'impl') if io.get(pt) is not None else None
        b = cf(mo.get(pt), 'model') if mo.get(pt) is not None else None
        stats['%s-impl-%s' % (pt, tag(a))] += 1
        if a != b:
            stats[pt + '-DIFF'] += 1
            if shown < int(os.environ.get('SHOW', '5')):
                shown += 1
                print('----', cid, pt)
                print(canon.first_diff(a, b))
                if tag(a) in ('err',) or tag(b) in ('err',):
                    print(' impl:', sexp.dump(io.get(pt))[:400]); print(' model:', sexp.dump(mo.get(pt))[:400])
                if os.environ.get('DUMP'):
                    print(line)
        else:
            stats[pt + '-same'] += 1
for k in sorted(stats):
    print(k, stats[k])
errs = collections.Counter()
for c in cases:
    o = impl.get(c[1], {}).get('o2')
    if tag(o) == 'err':
        errs[sexp.dump(o)[:110]] += 1
for k, v in errs.most_common(25):
    print(v, k)
