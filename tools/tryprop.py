#!/usr/bin/env python3
"""dev tool: run one property module's generator + judge without the proof side.  usage: tryprop.py c11 [seed] [tier]"""
import sys, random, time, importlib, collections, os
sys.path.insert(0, os.path.dirname(os.path.abspath(__file__)))
from pv import check, core, sexp
name = sys.argv[1]
seed = int(sys.argv[2]) if len(sys.argv) > 2 else 5
tier = sys.argv[3] if len(sys.argv) > 3 else 'quick'
P = importlib.import_module('pv.props.' + name)
rng = random.Random(seed)
cases = check.corpus_cases(P.ID) + P.generate(rng, tier)
t = time.time()
findings, stats, impl, model = check.evaluate(P, cases, tier)
print(name, len(cases), 'cases', round(time.time() - t, 1), 's', stats)
print(collections.Counter((f.kind, f.reason) for f in findings))
for f in findings[:int(os.environ.get('SHOW', '6'))]:
    print(f)
    if os.environ.get('DUMP'):
        print(sexp.dump([c for c in cases if c[1] == f.case_id][0]))
