#!/usr/bin/env python3
"""Writes the hand-made witness cases of corpus/<ID>/ (past findings and their fixes; always run first)."""
import os, sys
VERIF = os.path.dirname(os.path.dirname(os.path.abspath(__file__)))
sys.path.insert(0, os.path.join(VERIF, 'tools'))
from pv.ast import *
from pv import sexp
from pv.sexp import S

def one(mod, cid, ps=4, **kw):
    return case(cid, ps, [modent(path('m'), mod)], **kw)

def T(name, at, stmts, pub=True): return type_def(pub, name, at, stmts)
def F(name, t, at=(), pub=True): return field(pub, name, t, at)
u8, u16, u32, u64 = ty_id('u8'), ty_id('u16'), ty_id('u32'), ty_id('u64')

W = {}
W['C08/width'] = one(module(defs=[enum_def(True, 'E', u8, [], [enum_stmt('A', e_int(300))])]), 'width-u8-300')
W['C08/negative_unsigned'] = one(module(defs=[enum_def(True, 'E', u8, [], [enum_stmt('A', e_int(-2)), enum_stmt('B')])]), 'neg-u8')
W['C08/nonint_base'] = one(module(defs=[enum_def(True, 'E', ty_cptr(u8), [], [enum_stmt('A')])]), 'enum-over-pointer')
vf = lambda name, at=(), args=(MUTSELF,), ret=None: fn(True, name, at, list(args), ret)
W['C04/contradiction'] = one(module(defs=[T('T', [], [vftable([], [vf('a'), vf('b'), vf('c', [a_int('index', 0)])])])]), 'index-below')
W['C04/size_below'] = one(module(defs=[T('T', [], [vftable([a_int('size', 1)], [vf('a'), vf('b')])])]), 'size-below')
W['C12/neg_index'] = one(module(defs=[T('T', [], [vftable([], [vf('a', [a_int('index', -1)])])])]), 'neg-index')
W['C12/neg_size'] = one(module(defs=[T('T', [], [vftable([a_int('size', -1)], [vf('a')])])]), 'neg-size')
W['C12/overflow'] = one(module(defs=[T('Big', [], [F('a', ty_arr(u64, 4611686018427387904))])]), 'mul-overflow')
W['C12/overflow_add'] = one(module(defs=[T('Big', [], [F('a', ty_arr(u8, 9223372036854775807)), F('b', ty_arr(u8, 9223372036854775807)), F('c', u64)])]), 'add-overflow', ps=8)
W['C12/align0'] = one(module(xtypes=[xtype('X', [a_int('size', 4), a_int('align', 0)])], defs=[T('T', [], [F('x', ty_id('X'))])]), 'extern-align-0')
W['C12/huge_align_backend'] = one(module(defs=[T('T', [a_int('align', 4611686018427387904)], [])]), 'huge-align-backend')
W['C12/huge_align_backend8'] = one(module(defs=[T('T', [a_int('align', 8589934592), a_int('size', 8589934592)], [F('a', u64)])]), 'huge-align-backend8', ps=8)
W['C12/enum_max'] = one(module(defs=[enum_def(True, 'E', ty_id('i64'), [], [enum_stmt('A', e_int(9223372036854775807))])]), 'enum-isize-max', ps=8)
W['C12/enum_max_next'] = one(module(defs=[enum_def(True, 'E', ty_id('i64'), [], [enum_stmt('A', e_int(9223372036854775807)), enum_stmt('B')])]), 'enum-isize-max-next', ps=8)
af = lambda name, addr, args=(MUTSELF,), ret=None, at=(): fn(True, name, [a_int('address', addr)] + list(at), list(args), ret)
W['C05/ret_missing'] = one(module(defs=[T('T', [], [F('a', u32)])], impls=[impl('T', [], [af('f', 4096, ret=ty_id('Missing'))])]), 'ret-missing')
W['C10/ret_missing'] = W['C05/ret_missing']
W['C05/two_impls'] = one(module(defs=[T('T', [], [F('a', u32)])], impls=[impl('T', [], [af('f', 4096)]), impl('T', [], [af('g', 8192)])]), 'two-impls')
W['C05/impl_unknown'] = one(module(defs=[T('T', [], [F('a', u32)])], impls=[impl('Missing', [], [af('f', 4096)])]), 'impl-unknown')
W['C05/underscore'] = one(module(defs=[T('T', [], [F('a', u32)])], impls=[impl('T', [], [af('_hidden', 4096), af('shown', 8192)])]), 'underscore-fn')
W['C15/negative'] = one(module(defs=[enum_def(True, 'E', u8, [a_ident('copyable'), a_int('singleton', -1)], [enum_stmt('A')])]), 'neg-singleton')
W['C15/negative_xval'] = one(module(xvals=[xval(True, 'g', u32, [a_int('address', -1)])]), 'neg-extern-value')
W['C14/duplicate'] = one(module(defs=[T('T', [], [F('a', u8)]), T('T', [], [F('b', u16)])]), 'duplicate-type')
W['C14/vftable_clash'] = one(module(defs=[T('T', [], [vftable([], [vf('a')])]), T('TVftable', [], [F('x', u32)])]), 'vftable-name-clash')
W['C14/dotted'] = case('dotted-stem', 4, [modent(path('c.d'), module(defs=[T('T', [], [F('a', u8)])]), file='c.d.pyxis'),
                                          modent(path('c'), module(defs=[T('U', [], [F('a', u16)])]), file='c.pyxis')])
W['C17/blank_doc'] = one(module(defs=[T('T', [a_doc(''), a_doc(' middle'), a_doc('')], [F('a', u8, [a_doc(' x'), a_doc('')])])]), 'blank-doc-lines')
abc = module(defs=[
    T('A', [a_int('align', 4)], [F('p', ty_cptr(ty_id('BVftable')))]),
    T('B', [a_int('align', 4)], [vftable([], [fn(True, 'f', [], [SELF], None)]), F('c', ty_id('C'))]),
    T('C', [a_int('align', 4)], [F('a', ty_id('A'))])])
W['C09/abc'] = one(abc, 'abc-bad-order', prio=[path('m', 'A'), path('m', 'B'), path('m', 'C')])
W['C09/abc2'] = one(abc, 'abc-good-order', prio=[path('m', 'B'), path('m', 'A'), path('m', 'C')])
W['C10/abc'] = W['C09/abc']
W['C03/align3'] = one(module(defs=[T('T', [a_int('align', 3)], [])]), 'align3')
W['C03/align3b'] = one(module(defs=[T('T', [a_int('align', 3)], [F('a', u8), F('b', u8), F('c', u8)])]), 'align3-fields')

W['C11/own_path'] = case('own-path-is-type', 4, [
    modent(path('a'), module(defs=[T('b', [a_ident('packed')], [F('x', ty_arr(u8, 5))])])),
    modent(path('a', 'b'), module(defs=[T('b', [a_ident('packed')], [F('x', ty_arr(u8, 7))]),
                                        T('User', [a_ident('packed')], [F('f0', ty_id('b'))])]))],
    extras=[[S('observe'), path('a', 'b')]])

dbase = module(defs=[
    T('D', [], [vftable([], [fn(True, 'f', [], [SELF], None)]), F('b', ty_id('B'), [a_ident('base'), a_int('address', 0)])]),
    T('B', [], [vftable([], [fn(True, 'f', [], [SELF], None)])])])
W['C20/base_address'] = one(dbase, 'derived-before-base', prio=[path('m', 'D'), path('m', 'B')])
W['C09/base_address'] = W['C20/base_address']

sig = module(defs=[
    T('A', [], [F('x', u32)]),
    T('B', [], [vftable([], [fn(True, 'f', [], [SELF], None)])])],
    impls=[impl('A', [], [af('g', 4096, args=(SELF, arg('p', ty_cptr(ty_id('BVftable')))))])])
# found by the Lean proof of C20.explicit_address_e2e (Witness in Props/C20E2E.lean): the generated a::FooVftable appears DURING the
# run and takes over the name `FooVftable` from the by-name import of b::FooVftable, so the first attempt on c::T sees a different layout
# than the final one; with the redundant #[address(8)] that first attempt is a hard error, unless a::Foo happens to be attempted first
shadow = [modent(path('d'), module(defs=[T('Late', [], [F('v', u32)])])),
          modent(path('a'), module(defs=[T('Foo', [], [vftable([], [fn(True, 'f', [], [SELF], None)])])])),
          modent(path('c'), module(uses=[path('b', 'FooVftable'), path('a', 'FooVftable'), path('d', 'Late')],
                                   defs=[T('T', [], [F('x', ty_id('FooVftable')), F('y', u32, [a_int('address', 8)]), F('z', ty_id('Late'))])])),
          modent(path('b'), module(defs=[T('FooVftable', [], [F('x', u64), F('y', u64)])]))]
W['C09/generated_shadows_import'] = case('generated-shadows-import', 8, shadow,
    prio=[path('b', 'FooVftable'), path('c', 'T'), path('a', 'Foo'), path('d', 'Late')])
# a user type that is structurally EQUAL to the generated vftable struct of its namesake (both empty): accepted when the user's
# type is resolved first (the clash test compares the two items and finds them equal), a conflict when the owner is attempted first
W['C09/user_equals_generated'] = one(module(defs=[T('Foo', [], [vftable([], [])]), T('FooVftable', [], [])]), 'user-equals-generated',
    ps=8, prio=[path('m', 'FooVftable'), path('m', 'Foo')])
W['C09/sig'] = one(sig, 'generated-vftable-in-signature', prio=[path('m', 'A'), path('m', 'B')])

# --- C13: accepted by pyxis, rejected by rustc (open findings); ps 8 so that the host compiler can be used
W['C13/static_forwarder'] = one(module(defs=[
    T('Base', [], [F('a', u32)]),
    T('Derived', [], [F('b', ty_id('Base'), [a_ident('base')])])],
    impls=[impl('Base', [], [fn(True, 'create', [a_int('address', 4096)], [arg('n', u32)], ty_mptr(ty_id('Base')))])]), 'static-forwarder', ps=8)
# a public `_`-named function of two bases: the second one is renamed b__tick and used to call the never-emitted self.b._tick()
W['C13/internal_forwarder'] = one(module(defs=[
    T('A', [], [F('x', u32)]), T('B', [], [F('y', u32)]),
    T('D', [], [F('a', ty_id('A'), [a_ident('base')]), F('b', ty_id('B'), [a_ident('base')])])],
    impls=[impl('A', [], [af('_tick', 4096)]), impl('B', [], [af('_tick', 8192)])]), 'internal-forwarder', ps=8)
W['C07/underscore_base_fn'] = W['C13/internal_forwarder']
W['C19/module_path_becomes_type'] = case('module-path-becomes-type', 8, [modent(path('a', 'b'), module(defs=[
    T('b', [], [F('x', u32)]), T('U', [], [F('t', ty_id('b'))])]))],
    extras=[[S('fseed'), 1], [S('observe-hint'), path('a', 'b')], [S('witness-module-path-becomes-type')]])
W['C10/own_vftable_field'] = one(module(defs=[T('N', [], [vftable([], [fn(True, 'vf', [], [SELF], None)]), F('pv', ty_cptr(ty_id('NVftable')))])]),
    'own-vftable-in-field', ps=8, extras=[[S('witness-own-vftable-in-field')]])
W['C13/copy_of_noncopy'] = one(module(defs=[T('P', [], [F('x', u32)]), T('D', [a_ident('copyable')], [F('f', ty_id('P'))])]), 'copy-of-noncopy', ps=8)
W['C13/rename_clash'] = one(module(defs=[
    T('A', [], [F('x', u32)]), T('B', [], [F('y', u32)]),
    T('D', [], [F('a', ty_id('A'), [a_ident('base')]), F('b', ty_id('B'), [a_ident('base')])])],
    impls=[impl('A', [], [af('run', 4096), af('b_run', 4100)]), impl('B', [], [af('run', 8192)])]), 'rename-clash', ps=8)
W['C13/packed_aligned'] = one(module(defs=[
    T('Inner', [], [F('x', u32)]),
    T('Outer', [a_ident('packed')], [F('i', ty_id('Inner')), F('c', u8)])]), 'packed-contains-aligned', ps=8)
W['C13/singleton_enum'] = one(module(defs=[enum_def(True, 'E', u32, [a_int('singleton', 4096)], [enum_stmt('A')])]), 'singleton-noncopy-enum', ps=8)
W['C13/empty_enum'] = one(module(defs=[enum_def(True, 'E', u32, [], [])]), 'zero-variant-enum', ps=8)
W['C13/dup_discr'] = one(module(defs=[enum_def(True, 'E', u32, [], [enum_stmt('A', e_int(1)), enum_stmt('B', e_int(1))])]), 'duplicate-discriminant', ps=8)
W['C13/dup_field'] = one(module(defs=[T('T', [], [F('a', u32), F('a', u32)])]), 'duplicate-field', ps=8)
W['C01/void_by_value'] = one(module(defs=[T('T', [a_int('align', 1)], [F('v', ty_id('void')), F('a', u8)])]), 'void-by-value', ps=8)
W['C02/void_by_value'] = W['C01/void_by_value']
W['C13/void_by_value'] = one(module(defs=[T('T', [a_int('align', 1)], [F('v', ty_id('void')), F('a', u8)])]), 'void-by-value', ps=8)

W['C13/vfunc_static'] = one(module(defs=[T('T', [], [vftable([], [fn(True, 'count', [], [], u32)])])]), 'vfunc-without-receiver', ps=8)

for key, c in W.items():
    d, name = key.split('/')
    os.makedirs(os.path.join(VERIF, 'corpus', d), exist_ok=True)
    with open(os.path.join(VERIF, 'corpus', d, name + '.case'), 'w') as f:
        f.write(sexp.dump(c) + '\n')
print(len(W), 'witness cases written')
