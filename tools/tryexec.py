#!/usr/bin/env python3
"""dev tool: O4 execution on n generated worlds.  usage: tryexec.py [n] [seed]"""
import sys, random, os
sys.path.insert(0, os.path.dirname(os.path.abspath(__file__)))
from pv import core, sexp, gen, o4exec
n = int(sys.argv[1]) if len(sys.argv) > 1 else 5
seed = int(sys.argv[2]) if len(sys.argv) > 2 else 1
rng = random.Random(seed)
cases = o4exec.exec_worlds(rng, n)
impl = core.run_harness([sexp.dump(c) for c in cases], ['o3'], extra_env={'PXHARNESS_TEXT': '1'})
res = o4exec.execute_all(cases, impl, show=os.environ.get('SHOW'))
print(res)
