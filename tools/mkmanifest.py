#!/usr/bin/env python3
"""Regenerates /verif/MANIFEST.json from the table below (kept in one place so that the file is
always valid and `not_applicable` is always the complement of `checks`)."""
import json, os, sys
VERIF = os.path.dirname(os.path.dirname(os.path.abspath(__file__)))
sys.path.insert(0, os.path.join(VERIF, 'tools'))
from pv.claims import CLAIMS, NOT_CLAIMED

ALL = ['C%02d' % i for i in range(1, 21)]
checks = []
for pid in ALL:
    if pid not in CLAIMS:
        continue
    c = CLAIMS[pid]
    checks.append({
        'property_id': pid,
        'quick_cmd': 'bin/check %s --tier quick' % pid,
        'thorough_cmd': 'bin/check %s --tier thorough' % pid,
        'evidence_file': 'evidence/%s.json' % pid,
        'replay_cmd_template': 'bin/check %s --replay {path}' % pid,
        'engine': 'lean-proof+correspondence',
        'level_claimed': {'category': 'proof', 'text': c['text'], 'design_ref': c.get('design_ref', 'DESIGN.md §6 ' + pid)},
        'level_note': c['note'],
        'technique': c['technique'],
    })
na = [{'property_id': pid, 'reason': NOT_CLAIMED.get(pid, 'check under construction; not claimed yet')}
      for pid in ALL if pid not in CLAIMS]
m = {
    'version': 1,
    'setup_cmd': 'bin/setup',
    'hooks': {
        'guard': 'cargo feature pyxis_verif',
        'enable': 'pyxis = { path = "/repo", features = ["pyxis_verif"] } in /verif/harness/Cargo.toml',
        'baseline_off_cmd': 'cd /repo && cargo test --workspace --no-fail-fast --offline',
        'source_commits': ['af8910a'],
        'add_only': True,
    },
    'engines': [
        {'name': 'lean-proof+correspondence', 'path': 'tools/pv/check.py',
         'serves_properties': [c['property_id'] for c in checks],
         'kind_free_text': 'Lean 4 theorems about an executable model of pyxis (lean/PyxisVerif), tables regenerated from the Rust source by tools/extract.py, and a differential correspondence harness (harness/, Rust, links pyxis in-process) that runs model and implementation on the same generated cases'},
    ],
    'checks': checks,
    'notes': 'bin/check <ID> rebuilds the harness against /repo\'s working tree, regenerates Generated/Tables.lean, rebuilds and audits the Lean theorems, then runs corpus + generated cases through implementation and model. See DESIGN.md.',
    'not_applicable': na,
}
with open(os.path.join(VERIF, 'MANIFEST.json'), 'w') as f:
    json.dump(m, f, indent=1)
print('claimed:', [c['property_id'] for c in checks])
