#!/bin/sh
# dev: apply a seeded patch to /repo, run the quick checks of the given properties, restore /repo.
# usage: seedcheck.sh <patch.diff> PROP [PROP...]
patch=$1; shift
git -C /repo apply "$patch" || exit 2
for p in "$@"; do
  out=$(/verif/bin/check $p --tier quick 2>/dev/null)
  echo "$out" | grep "^VIOLATION" | head -3
  echo "$out" | grep "quick:" | head -1
done
git -C /repo checkout -- .
