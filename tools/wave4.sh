#!/bin/sh
t() { python3 /verif/tools/seedtest.py /tmp/seedout4/$1 $2 $3 $4 $5 2>&1 | grep -v '^ "\|^}\|^{' ; }
t C01/A C01-E C01 C02; t C01/B C01-F C01 C14
t C05/A C05-E C05; t C05/B C05-F C05 C18
t C07/A C07-E C07 C13; t C07/B C07-F C07
t C10/A C10-E C10 C09; t C10/B C10-F C10
t C11/A C11-E C11; t C11/B C11-F C11
t C13/A C13-E C13 C07; t C13/B C13-F C13
t C15/A C15-E C15 C14; t C15/B C15-F C15
t C19/A C19-E C19; t C19/B C19-F C19 C14
echo wave4-done
