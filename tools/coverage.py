#!/usr/bin/env python3
"""dev / evidence tool: line coverage of /repo/src reached by the generated cases of the checks.

Builds the correspondence harness with `-C instrument-coverage` (nightly toolchain, its own target directory), runs the
quick-tier cases of the given properties (default: all) through it at the points each property uses, merges the profiles
and prints, per source file of pyxis, the covered / total lines and the uncovered line ranges.  The result is written to
/verif/coverage/summary.json.  This measures what the correspondence (K) and the oracles (O) can SEE of the implementation:
an uncovered line is behaviour on which model and implementation could differ without any check noticing.

usage: coverage.py [C01 C02 …]"""
import sys, os, subprocess, json, random, importlib, glob, shutil, re
sys.path.insert(0, os.path.dirname(os.path.abspath(__file__)))
from pv import core, sexp, check
from pv.env import VERIF, WORK, ENV, HARNESS

TOOLS = os.path.expanduser('~/.rustup/toolchains/nightly-x86_64-unknown-linux-gnu/lib/rustlib/x86_64-unknown-linux-gnu/bin')
TARGET = os.path.join(WORK, 'harness-cov')
PROF = os.path.join(WORK, 'tmp', 'cov-prof')

def main():
    props = sys.argv[1:] or ['C%02d' % i for i in range(1, 21)]
    env = dict(ENV); env['RUSTFLAGS'] = '-C instrument-coverage'; env['CARGO_TARGET_DIR'] = TARGET
    p = subprocess.run(['cargo', '+nightly', 'build', '--offline', '--quiet'], cwd=HARNESS, env=env, capture_output=True, text=True)
    if p.returncode != 0:
        print('instrumented build failed:', p.stderr[-2000:]); return 1
    binp = os.path.join(TARGET, 'debug', 'pxharness')
    shutil.rmtree(PROF, ignore_errors=True); os.makedirs(PROF)
    seed = int(os.environ.get('VERIF_SEED', '20260930'))
    total_cases = 0
    for prop in props:
        P = importlib.import_module('pv.props.' + prop.lower())
        rng = random.Random(seed * 1000003 + int(prop[1:]))
        cases = check.corpus_cases(prop) + P.generate(rng, 'quick')
        lines = [sexp.dump(c) for c in cases]
        total_cases += len(lines)
        e2 = dict(ENV); e2.update(getattr(P, 'HARNESS_ENV', None) or {})
        e2['LLVM_PROFILE_FILE'] = os.path.join(PROF, prop + '-%p-%m.profraw')
        for chunk in core.chunks(lines, 200):
            wd = os.path.join(WORK, 'tmp', 'cov-wd')
            subprocess.run([binp, 'run', '--points', ','.join(P.POINTS), '--work', wd, '--timeout-ms', '5000'],
                           input='\n'.join(chunk) + '\n', capture_output=True, text=True, env=e2, timeout=3600)
            shutil.rmtree(wd, ignore_errors=True)
        print(prop, len(lines), 'cases', flush=True)
    raws = glob.glob(os.path.join(PROF, '*.profraw'))
    merged = os.path.join(PROF, 'all.profdata')
    subprocess.run([os.path.join(TOOLS, 'llvm-profdata'), 'merge', '-sparse', '-o', merged] + raws, check=True)
    ex = subprocess.run([os.path.join(TOOLS, 'llvm-cov'), 'export', '--format=text', '--instr-profile', merged, binp,
                         '--ignore-filename-regex', r'(\.cargo|rustc|/verif/)'], capture_output=True, text=True)
    data = json.loads(ex.stdout)
    summary = {'properties': props, 'cases': total_cases, 'files': {}}
    for f in data['data'][0]['files']:
        name = f['filename']
        if not name.startswith('/repo/src') or '/tests' in name:
            continue
        # segments: [line, col, count, hasCount, isRegionEntry, isGap]
        lines_cov = {}
        for seg_i, sg in enumerate(f['segments']):
            pass
        ls = f['summary']['lines']
        uncovered = []
        # per-line execution counts via `llvm-cov show` would be more exact; use the region list of the functions instead
        summary['files'][name[len('/repo/'):]] = {'lines': ls['count'], 'covered': ls['covered'], 'percent': round(ls['percent'], 1)}
    # exact uncovered lines
    sh = subprocess.run([os.path.join(TOOLS, 'llvm-cov'), 'show', '--instr-profile', merged, binp, '--show-line-counts-or-regions=false',
                         '--ignore-filename-regex', r'(\.cargo|rustc|/verif/|tests)'], capture_output=True, text=True)
    cur = None
    for line in sh.stdout.split('\n'):
        m = re.match(r'^(/repo/src/\S+):$', line)
        if m:
            cur = m.group(1)[len('/repo/'):]; continue
        m = re.match(r'^\s*(\d+)\|\s*0\|(.*)$', line)
        if m and cur in summary['files']:
            summary['files'][cur].setdefault('uncovered', []).append([int(m.group(1)), m.group(2).strip()[:100]])
    os.makedirs(os.path.join(VERIF, 'coverage'), exist_ok=True)
    with open(os.path.join(VERIF, 'coverage', 'summary.json'), 'w') as f:
        json.dump(summary, f, indent=1)
    tot = sum(v['lines'] for v in summary['files'].values()); cov = sum(v['covered'] for v in summary['files'].values())
    for k, v in sorted(summary['files'].items()):
        print('%-50s %5d / %5d  %5.1f%%' % (k, v['covered'], v['lines'], v['percent']))
    print('TOTAL %d / %d = %.1f%%' % (cov, tot, 100.0 * cov / max(tot, 1)))
    shutil.rmtree(PROF, ignore_errors=True)
    return 0

if __name__ == '__main__':
    sys.exit(main())
