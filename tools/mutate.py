#!/usr/bin/env python3
"""Mechanical mutation campaign against the checks (dev tool; runs in an isolated copy, never in /repo or /verif).

setup (done by the caller):  /tmp/mrepo  = scratch git worktree of /repo,  /tmp/mverif = copy of /verif whose harness
depends on /tmp/mrepo.  For every mutant: apply to /tmp/mrepo, `cargo build` + the 62 unit tests; a mutant the tests do not
kill is a SURVIVOR and is given to the checks (VERIF_REPO=/tmp/mrepo /tmp/mverif/bin/check), most relevant property first,
stopping at the first VIOLATION.  Results: /verif/mutation/results.jsonl (one line per mutant) + summary.

usage: mutate.py [max mutants] [seed]"""
import sys, os, re, subprocess, json, random, time

MREPO, MVERIF = '/tmp/mrepo', '/tmp/mverif'
OUT = '/verif/mutation'
FILES = ['src/parser/mod.rs', 'src/grammar.rs', 'src/semantic/enum_definition.rs', 'src/semantic/function.rs', 'src/semantic/module.rs',
         'src/semantic/semantic_state.rs', 'src/semantic/type_registry.rs', 'src/semantic/types.rs',
         'src/semantic/type_definition/mod.rs', 'src/semantic/type_definition/vftable.rs', 'src/backends/rust.rs']
ORDER = {
 'src/parser/mod.rs': ['C18', 'C12', 'C08', 'C03'], 'src/grammar.rs': ['C18', 'C17', 'C12'],
 'src/semantic/enum_definition.rs': ['C08', 'C17', 'C15', 'C02', 'C20'], 'src/semantic/function.rs': ['C05', 'C16', 'C04', 'C06'],
 'src/semantic/module.rs': ['C11', 'C15', 'C14', 'C19'], 'src/semantic/semantic_state.rs': ['C02', 'C14', 'C15', 'C10', 'C09', 'C03', 'C12'],
 'src/semantic/type_registry.rs': ['C11', 'C10', 'C19', 'C09', 'C02'], 'src/semantic/types.rs': ['C02', 'C01', 'C10', 'C16'],
 'src/semantic/type_definition/mod.rs': ['C01', 'C03', 'C02', 'C07', 'C17', 'C20', 'C15', 'C06', 'C05', 'C10'],
 'src/semantic/type_definition/vftable.rs': ['C04', 'C06', 'C16', 'C14', 'C09'],
 'src/backends/rust.rs': ['C13', 'C17', 'C14', 'C15', 'C05', 'C04', 'C07', 'C08', 'C16', 'C06', 'C02'],
}
ALL = ['C%02d' % i for i in range(1, 21)]

def sh(cmd, cwd=None, timeout=3600, env=None):
    p = subprocess.run(cmd, shell=True, cwd=cwd, capture_output=True, text=True, timeout=timeout, env=env)
    return p.returncode, p.stdout + p.stderr

def candidates():
    out = []
    for f in FILES:
        lines = open(os.path.join(MREPO, f)).read().split('\n')
        in_test = False
        for i, l in enumerate(lines):
            s = l.strip()
            if s.startswith('#[cfg(test)]') or s.startswith('mod tests'):
                in_test = True
            if in_test or s.startswith('//') or s.startswith('#[') or 'format!' in l and 'if ' not in l:
                continue
            def add(op, new):
                if new != l:
                    out.append((f, i, op, new))
            for a, b in ((' < ', ' <= '), (' <= ', ' < '), (' > ', ' >= '), (' >= ', ' > '), (' == ', ' != '), (' != ', ' == ')):
                if a in l and '->' not in l.split(a)[0][-2:] and not re.search(r'fn .*<', l):
                    add('rel' + a.strip() + 'to' + b.strip(), l.replace(a, b, 1))
            if ' && ' in l: add('and-to-or', l.replace(' && ', ' || ', 1))
            if ' || ' in l: add('or-to-and', l.replace(' || ', ' && ', 1))
            if ' + 1' in l: add('drop-plus-one', l.replace(' + 1', '', 1))
            if ' - 1' in l: add('drop-minus-one', l.replace(' - 1', '', 1))
            if re.search(r'\.rev\(\)', l): add('drop-rev', l.replace('.rev()', '', 1))
            if '.max(' in l: add('max-to-min', l.replace('.max(', '.min(', 1))
            if '.min(' in l: add('min-to-max', l.replace('.min(', '.max(', 1))
            if re.search(r'= true;', l): add('true-to-false', l.replace('= true;', '= false;', 1))
            if re.search(r'= false;', l): add('false-to-true', l.replace('= false;', '= true;', 1))
            m = re.match(r'^(\s*)(?:\} else )?if (.+) \{\s*$', l)
            if m and 'let ' not in m.group(2):
                nxt = ' '.join(x.strip() for x in lines[i + 1:i + 4])
                if 'bail!' in nxt or 'return Ok(None)' in nxt or 'return None' in nxt or 'continue' in nxt:
                    add('lost-check', l.replace('if ' + m.group(2), 'if false && (' + m.group(2) + ')', 1))
                add('negate-if', l.replace('if ' + m.group(2), 'if !(' + m.group(2) + ')', 1))
            if re.search(r'\.checked_(add|mul|sub)\(', l): add('unchecked', re.sub(r'\.checked_(add|mul|sub)\(([^)]*)\)', lambda mm: '.wrapping_%s(%s).into()' % (mm.group(1), mm.group(2)), l, 1))
            if '.first()' in l: add('first-to-last', l.replace('.first()', '.last()', 1))
            if '.last()' in l: add('last-to-first', l.replace('.last()', '.first()', 1))
            if '.is_some()' in l: add('some-to-none', l.replace('.is_some()', '.is_none()', 1))
            if '.is_none()' in l: add('none-to-some', l.replace('.is_none()', '.is_some()', 1))
            if '.any(' in l: add('any-to-all', l.replace('.any(', '.all(', 1))
            # second batch of operators
            if re.search(r'= 0;', l): add('zero-to-one', l.replace('= 0;', '= 1;', 1))
            if re.search(r'= 1;', l): add('one-to-zero', l.replace('= 1;', '= 0;', 1))
            if ' += ' in l: add('plus-to-minus-assign', l.replace(' += ', ' -= ', 1))
            if re.search(r'\[\.\.[a-z_]+\]', l): add('slice-shorter', re.sub(r'\[\.\.([a-z_]+)\]', r'[..\1 - 1]', l, 1))
            if re.search(r'\b0\.\.', l): add('range-from-one', re.sub(r'\b0\.\.', '1..', l, 1))
            if '.0' in l and '.1' in l: add('swap-tuple', l.replace('.0', '.@@').replace('.1', '.0').replace('.@@', '.1'))
            if re.search(r'= Some\(', l) and 'let ' not in l: add('some-to-none-assign', re.sub(r'= Some\([^;]*\);', '= None;', l, 1))
            if ' * ' in l and 'fn ' not in l and '*mut' not in l and '*const' not in l: add('mul-to-add', l.replace(' * ', ' + ', 1))
            if ' % ' in l: add('mod-to-div', l.replace(' % ', ' / ', 1))
            if '.skip(1)' in l: add('drop-skip', l.replace('.skip(1)', '', 1))
            if '.is_empty()' in l and '!' not in l.split('.is_empty()')[0][-12:]: add('empty-to-nonempty', l.replace('.is_empty()', '.len() > 0 /*m*/', 1))
            if '.all(' in l: add('all-to-any', l.replace('.all(', '.any(', 1))
    return out

def main():
    limit = int(sys.argv[1]) if len(sys.argv) > 1 else 300
    seed = int(sys.argv[2]) if len(sys.argv) > 2 else 1
    os.makedirs(OUT, exist_ok=True)
    cands = candidates()
    rng = random.Random(seed)
    rng.shuffle(cands)
    cands = cands[:limit]
    env = dict(os.environ); env.update({'CARGO_NET_OFFLINE': 'true', 'CARGO_TARGET_DIR': MREPO + '/target'})
    # the checks build their harness into their own target directory (harness/.cargo/config.toml): no CARGO_TARGET_DIR for them
    cenv = dict(os.environ); cenv.update({'CARGO_NET_OFFLINE': 'true', 'VERIF_REPO': MREPO})
    res_path = os.path.join(OUT, 'results.jsonl')
    done = set()
    if os.path.exists(res_path):
        for l in open(res_path):
            r = json.loads(l); done.add((r['file'], r['line'], r['op']))
    with open(res_path, 'a') as resf:
        for k, (f, i, op, new) in enumerate(cands):
            if (f, i + 1, op) in done:
                continue
            path = os.path.join(MREPO, f)
            orig = open(path).read()
            lines = orig.split('\n')
            old = lines[i]
            lines[i] = new
            open(path, 'w').write('\n'.join(lines))
            rec = {'file': f, 'line': i + 1, 'op': op, 'old': old.strip()[:160], 'new': new.strip()[:160]}
            t0 = time.time()
            try:
                rc, out = sh('timeout -k 5 600 cargo build --offline --quiet 2>&1 | tail -3', cwd=MREPO, env=env, timeout=700)
                if 'error' in out:
                    rec['status'] = 'does-not-compile'
                else:
                    rc, out = sh('timeout -k 5 240 cargo test --offline --lib 2>&1 | grep "test result" | head -1', cwd=MREPO, env=env, timeout=400)
                    if '62 passed; 0 failed' not in out:
                        rec['status'] = 'killed-by-unit-tests'
                    else:
                        rec['status'] = 'survivor'
                        order = ORDER.get(f, []) + [p for p in ALL if p not in ORDER.get(f, [])]
                        rec['checks_run'] = []
                        for p in order:
                            rc, out = sh('timeout -k 10 1500 bin/check %s --tier quick 2>/dev/null' % p, cwd=MVERIF, env=cenv, timeout=1600)
                            viol = [l_ for l_ in out.split('\n') if l_.startswith('VIOLATION')]
                            rec['checks_run'].append(p)
                            if viol:
                                rec['detected_by'] = p
                                rec['violation'] = viol[0][:200]
                                rec['concrete'] = 'no-failing-input-found' not in viol[0]
                                break
                        if 'detected_by' not in rec:
                            rec['status'] = 'survivor-undetected'
            except subprocess.TimeoutExpired:
                rec['status'] = rec.get('status', 'timeout') + '+timeout'
            finally:
                open(path, 'w').write(orig)
            rec['s'] = round(time.time() - t0, 1)
            resf.write(json.dumps(rec) + '\n'); resf.flush()
            print(k, rec['status'], rec.get('detected_by', ''), f, i + 1, op, flush=True)

if __name__ == '__main__':
    main()
