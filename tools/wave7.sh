#!/bin/sh
t() { python3 /verif/tools/seedtest.py /tmp/seedout7/$1 $2 $3 $4 $5 2>&1 | grep -v '^ "\|^}\|^{' ; }
t C02/A C02-G C02 C01; t C02/B C02-H C02 C13
t C04/A C04-G C04 C06; t C04/B C04-H C04 C13
t C07/A C07-G C07 C13; t C07/B C07-H C07
t C08/A C08-G C08; t C08/B C08-H C08
t C09/A C09-G C09 C14; t C09/B C09-H C09 C14
t C13/A C13-G C13 C02; t C13/B C13-H C13 C07
t C14/A C14-G C14 C15; t C14/B C14-H C14 C19
t C15/A C15-G C15; t C15/B C15-H C15 C13
t C16/A C16-G C16 C06; t C16/B C16-H C16
t C17/A C17-G C17; t C17/B C17-H C17 C13
echo wave7-done
