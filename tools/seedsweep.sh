#!/bin/sh
# dev: every property's quick check under several VERIF_SEEDs; prints anything that is not a clean pass
for sd in "$@"; do
  for n in 01 02 03 04 05 06 07 08 09 10 11 12 13 14 15 16 17 18 19 20; do
    out=$(VERIF_SEED=$sd /verif/bin/check C$n --tier quick 2>&1); rc=$?
    echo "$out" | grep -q "VIOLATION" && echo "seed $sd C$n: VIOLATION"; [ $rc -ne 0 ] && echo "seed $sd C$n: rc=$rc" && echo "$out" | grep -v KNOWN-FINDING | tail -8 | cut -c1-400
  done
done
echo sweep-done
