#!/bin/sh
# dev: final confirmation + check run of every wave-3 seeded change
t() { python3 /verif/tools/seedtest.py /tmp/seedout3/$1 $2 $3 $4 2>&1 | grep -v '^ "\|^}\|^{' ; }
t C01/A C01-C C01; t C01/B C01-D C01 C02
t C02/A C02-C C02; t C02/B C02-D C02
t C03/A C03-C C03; t C03/B C03-D C03 C18
t C04/A C04-C C04 C06; t C04/B C04-D C04
t C05/A C05-C C05; t C05/B C05-D C05 C11
t C06/A C06-C C06; t C06/B C06-D C06
t C07/A C07-C C07; t C07/B C07-D C07
t C08/A C08-C C08; t C08/B C08-D C08
t C09/A C09-C C09; t C09/B C09-D C09 C11
t C10/A C10-C C10 C11; t C10/B C10-D C10
t C11/A C11-C C11; t C11/B C11-D C11
t C12/A C12-C C12; t C12/B C12-D C12
t C13/A C13-C C13 C07; t C13/B C13-D C13 C11
t C14/A C14-C C14; t C14/B C14-D C14
t C15/A C15-C C15 C11; t C15/B C15-D C15
t C16/A C16-C C16; t C16/B C16-D C16
t C17/A C17-C C17; t C17/B C17-D C17
t C18/A C18-C C18; t C18/B C18-D C18
t C19/A C19-C C19; t C19/B C19-D C19
t C20/A C20-C C20; t C20/B C20-D C20
echo wave3-done
