#!/bin/sh
# dev: confirm + check the two deliveries of a wave-3 agent.  usage: seedwave.sh C02 [extra props]
p=$1; shift
for v in A B; do
  n=C; [ $v = B ] && n=D
  if [ -f /tmp/seedout3/$p/$v/patch.diff ]; then
    python3 /verif/tools/seedtest.py /tmp/seedout3/$p/$v $p-$n $p "$@" 2>&1 | tail -4
  fi
done
