#!/usr/bin/env python3
"""Translator for the table-like parts of pyxis: regenerates
lean/PyxisVerif/Generated/Tables.lean from /repo/src on every run.

Exit status 0 and the Lean text on stdout (or written with --write); exit status 2 and a
message naming the construct that could not be found when the source was restructured
(a *broken tie*, reported by the checks, never ignored)."""
import os, re, sys

REPO = os.environ.get('VERIF_REPO', '/repo')

class BrokenTie(Exception):
    pass

def read(rel):
    p = os.path.join(REPO, rel)
    try:
        return open(p).read()
    except OSError as e:
        raise BrokenTie("cannot read %s: %s" % (rel, e))

def strip_tests(src):
    # drop everything from a `#[cfg(test)]` module on (tests are at the end of files in this repo)
    i = src.find('#[cfg(test)]\nmod tests')
    return src if i < 0 else src[:i]

def need(m, what):
    if not m:
        raise BrokenTie("construct not found: " + what)
    return m

def lean_str(s):
    return '"' + s.replace('\\', '\\\\').replace('"', '\\"') + '"'

def extract():
    fn = strip_tests(read('src/semantic/function.rs'))
    st = strip_tests(read('src/semantic/semantic_state.rs'))
    vf = strip_tests(read('src/semantic/type_definition/vftable.rs'))
    td = strip_tests(read('src/semantic/type_definition/mod.rs'))
    be = strip_tests(read('src/backends/rust.rs'))

    m = need(re.search(r'pub enum CallingConvention\s*\{([^}]*)\}', fn), 'enum CallingConvention')
    ctors = [c.strip() for c in m.group(1).split(',') if c.strip()]
    for c in ctors:
        if not re.fullmatch(r'[A-Z][A-Za-z0-9]*', c):
            raise BrokenTie("CallingConvention constructor with payload: " + c)

    m = need(re.search(r'pub fn as_str\(&self\)[^{]*\{\s*match self\s*\{(.*?)\n\s*\}\s*\}', fn, re.S), 'CallingConvention::as_str')
    as_str = re.findall(r'CallingConvention::(\w+)\s*=>\s*"([^"]*)"', m.group(1))
    if sorted(c for c, _ in as_str) != sorted(ctors):
        raise BrokenTie("as_str does not cover every constructor exactly once")
    as_str_d = dict(as_str)

    m = need(re.search(r'fn from_str\(s: &str\)[^{]*\{\s*match s\s*\{(.*?)\n\s*\}\s*\}', fn, re.S), 'CallingConvention::from_str')
    from_str = re.findall(r'"([^"]*)"\s*=>\s*Ok\(CallingConvention::(\w+)\)', m.group(1))
    need(re.search(r'_\s*=>\s*Err\(\(\)\)', m.group(1)), 'from_str default arm')
    if not from_str:
        raise BrokenTie("from_str arms")

    m = need(re.search(r'if has_self\s*\{\s*CallingConvention::(\w+)\s*\}\s*else\s*\{\s*CallingConvention::(\w+)\s*\}', fn), 'default calling convention rule')
    cc_self, cc_noself = m.group(1), m.group(2)

    m = need(re.search(r'fn make_padding_functions.*?calling_convention:\s*CallingConvention::(\w+)', vf, re.S), 'placeholder slot convention')
    cc_placeholder = m.group(1)
    m = need(re.search(r'fn make_padding_functions.*?format!\("([^"{]*)\{\}"', vf, re.S), 'placeholder slot name template')
    fmt_placeholder = m.group(1)

    m = need(re.search(r'let predefined_types = \[(.*?)\];', st, re.S), 'predefined_types')
    predefined = [(a, int(b)) for a, b in re.findall(r'\("(\w+)",\s*(\d+)\)', m.group(1))]
    if not predefined:
        raise BrokenTie("predefined_types entries")
    m = need(re.search(r'let alignment = ([^;]+);', st), 'predefined alignment rule')
    rule = m.group(1).strip()
    mm = re.fullmatch(r'size\.max\((\d+)\)', rule)
    if mm:
        align_rule = 'max size %s' % mm.group(1)
    elif rule == 'size':
        align_rule = 'size'
    else:
        raise BrokenTie("predefined alignment rule not understood: " + rule)

    m = need(re.search(r'format!\("([^"{]*)\{size:x\}"\)', td), 'padding field name template')
    fmt_padding = m.group(1)
    m = need(re.search(r'format!\("\{\}([^"{]*)", name\.as_str\(\)\)', vf), 'vftable type name template')
    fmt_vftable = m.group(1)
    # the three derived names are built from identifiers without their `r#` prefix
    m = need(re.search(r'format!\(\s*"\{\}([^"{]*)\{\}",\s*base_name\.strip_prefix\("r#"\)\.unwrap_or\(&base_name\),\s*original_name\.strip_prefix\("r#"\)\.unwrap_or\(&original_name\)\s*\)', td), 'renamed function template')
    fmt_renamed_sep = m.group(1)
    m = need(re.search(r'format_ident!\("([^"{]*)\{\}", unraw\(&ev\.name\)\)', be), 'extern getter template')
    fmt_getter = m.group(1)
    m = need(re.search(r'format_ident!\("([^"{]*)\{\}([^"{]*)", unraw\(name\.as_str\(\)\)\)', be), 'size check name template')
    fmt_sc_pre, fmt_sc_post = m.group(1), m.group(2)
    need(re.search(r'fn unraw\(s: &str\) -> &str \{\s*s\.strip_prefix\("r#"\)\.unwrap_or\(s\)\s*\}', be), 'unraw helper')
    m = need(re.search(r'name: Some\("(\w+)"\.to_string\(\)\)', vf), 'vftable field name')
    vftable_field = m.group(1)
    this_names = set(re.findall(r'Argument::(?:ConstSelf|MutSelf) => \(\s*"(\w+)"\.to_string\(\)', vf))
    if len(this_names) != 1:
        raise BrokenTie("receiver argument name in function_to_region")
    this_name = this_names.pop()

    # statics would make the pipeline impure (C09.pure)
    for rel in ['src/lib.rs', 'src/grammar.rs', 'src/parser/mod.rs', 'src/util.rs', 'src/backends/rust.rs',
                'src/semantic/semantic_state.rs', 'src/semantic/type_registry.rs', 'src/semantic/module.rs',
                'src/semantic/types.rs', 'src/semantic/function.rs', 'src/semantic/enum_definition.rs',
                'src/semantic/type_definition/mod.rs', 'src/semantic/type_definition/vftable.rs']:
        src = strip_tests(read(rel))
        # the pyxis_verif hook module is allowed its thread_local
        src = re.sub(r'#\[cfg\(feature = "pyxis_verif"\)\]\s*pub mod verif \{.*', '', src, flags=re.S)
        if re.search(r'^\s*(pub(\([a-z]+\))?\s+)?static\s', src, re.M) or re.search(r'thread_local!|lazy_static!|OnceLock|OnceCell|LazyLock', src):
            raise BrokenTie("global state found in " + rel + " (C09.pure)")

    out = []
    w = out.append
    w('/-!')
    w('# Tables regenerated from /repo/src on every run by `tools/extract.py`')
    w('')
    w('DO NOT EDIT BY HAND – this file is overwritten before every `lake build`.')
    w('Sources: `src/semantic/semantic_state.rs` (predefined types, alignment rule),')
    w('`src/semantic/function.rs` (CallingConvention, as_str, from_str, default rule),')
    w('`src/semantic/type_definition/vftable.rs` (placeholder slot), format templates.')
    w('-/')
    w('namespace PyxisVerif.Gen')
    w('')
    w('/-- `enum CallingConvention` -/')
    w('inductive CC where')
    w('  | ' + ' | '.join(ctors))
    w('deriving Repr, DecidableEq, Inhabited')
    w('')
    w('/-- every constructor, in declaration order -/')
    w('def CC.all : List CC := [' + ', '.join('.' + c for c in ctors) + ']')
    w('')
    w('/-- `CallingConvention::as_str` -/')
    w('def CC.asStr : CC → String')
    for c in ctors:
        w('  | .%s => %s' % (c, lean_str(as_str_d[c])))
    w('')
    w('/-- `impl FromStr for CallingConvention` -/')
    w('def CC.fromStr (s : String) : Option CC :=')
    first = True
    for s_, c in from_str:
        w('  %sif s = %s then some .%s' % ('' if first else 'else ', lean_str(s_), c))
        first = False
    w('  else none')
    w('')
    w('/-- default convention in `function::build`: with a receiver / without -/')
    w('def ccDefaultSelf : CC := .%s' % cc_self)
    w('def ccDefaultNoSelf : CC := .%s' % cc_noself)
    w('/-- convention of the placeholder slots made by `make_padding_functions` -/')
    w('def ccPlaceholder : CC := .%s' % cc_placeholder)
    w('')
    w('/-- `predefined_types` in `SemanticState::new`: (name, size) -/')
    w('def predefinedTypes : List (String × Nat) :=')
    w('  [' + ', '.join('(%s, %d)' % (lean_str(a), b) for a, b in predefined) + ']')
    w('')
    w('/-- `let alignment = %s;` -/' % rule)
    w('def predefinedAlign (size : Nat) : Nat := ' + align_rule)
    w('')
    w('/-- format templates -/')
    w('def fmtPaddingField (offsetHexLower : String) : String := %s ++ offsetHexLower' % lean_str(fmt_padding))
    w('def fmtPlaceholderFn (index : String) : String := %s ++ index' % lean_str(fmt_placeholder))
    w('def fmtVftableType (name : String) : String := name ++ %s' % lean_str(fmt_vftable))
    w('/-- `s.strip_prefix("r#").unwrap_or(s)`: a raw identifier without its prefix -/')
    w('def unraw (s : String) : String := match s.toList with | \'r\' :: \'#\' :: rest => String.ofList rest | _ => s')
    w('def fmtRenamed (base fn : String) : String := unraw base ++ %s ++ unraw fn' % lean_str(fmt_renamed_sep))
    w('def fmtExternGetter (name : String) : String := %s ++ unraw name' % lean_str(fmt_getter))
    w('def fmtSizeCheck (name : String) : String := %s ++ unraw name ++ %s' % (lean_str(fmt_sc_pre), lean_str(fmt_sc_post)))
    w('def vftableFieldName : String := %s' % lean_str(vftable_field))
    w('def thisArgName : String := %s' % lean_str(this_name))
    w('')
    w('end PyxisVerif.Gen')
    return '\n'.join(out) + '\n'

def main():
    try:
        text = extract()
    except BrokenTie as e:
        print("BROKEN-TIE: %s" % e, file=sys.stderr)
        return 2
    if len(sys.argv) > 2 and sys.argv[1] == '--write':
        path = sys.argv[2]
        old = open(path).read() if os.path.exists(path) else None
        if old != text:
            open(path, 'w').write(text)
            print("updated", path, file=sys.stderr)
    else:
        sys.stdout.write(text)
    return 0

if __name__ == '__main__':
    sys.exit(main())
