import PyxisVerif.Spec.C06
import PyxisVerif.Lemmas.C06
/-!
# C06 – a derived type's vftable extends its first base's vftable and shares its pointer
-/
namespace PyxisVerif.C06
open Gen

/-- **accepted ⇒ prefix**: a type with its own vftable block whose first base has a vftable is accepted
    only if the base's slots are a prefix of its own (same position, same name, receiver, parameter
    types, return type, convention – in fact the same function value); it then gets no pointer of its
    own and records the base field through which the pointer is reached -/
theorem accept_implies_prefix (s s1 : State) (owner : Path) (vis : Vis) (fb : Option Region) (fns : List SFunc)
    (v : Option Vft) (ptr : Option Region) (bn : String) (bv : Vft)
    (vpath : Path) (hp : vftablePath owner = some vpath)
    (h : buildVftable s owner vis fb (some fns) = (s1, .ok (v, ptr)))
    (hb : baseVftable s1.reg fb = .ok (some (bn, bv))) :
    bv.fns <+: fns ∧ (bv.fns.map slotSig) <+: (fns.map slotSig) ∧ ptr = none ∧
      v = some { fns := fns, baseField := some bn, ty := .cptr (.raw vpath) } := by
  exact accept_main s s1 owner vis fb fns v ptr bn bv vpath hp h hb

/-- every single-slot mutation of a compatible prefix (a slot that differs in any listed component, or
    a table shorter than the base's) is rejected -/
theorem mutation_rejected (s : State) (owner : Path) (vis : Vis) (fb : Option Region) (fns : List SFunc)
    (s1 : State) (item : ItemDef) (bn : String) (bv : Vft)
    (hi : buildVftableItem s.reg owner vis fns = some item) (ha : s.addItem item = .ok s1)
    (hc : (match s.reg.get item.path with | some e => e != item | none => false) = false)
    (hb : baseVftable s1.reg fb = .ok (some (bn, bv)))
    (hm : ¬ (bv.fns.map slotSig) <+: (fns.map slotSig)) :
    ∃ m, (buildVftable s owner vis fb (some fns)).2 = .err m := by
  exact mutation_main s owner vis fb fns s1 item bn bv hi ha hc hb hm

/-- **own pointer**: a type that declares a vftable block and has no base supplying one gets exactly
    the pointer field `vftable : *const <T>Vftable`, private -/
theorem own_pointer (s s1 : State) (owner : Path) (vis : Vis) (fb : Option Region) (fns : List SFunc)
    (v : Option Vft) (ptr : Option Region)
    (vpath : Path) (hp : vftablePath owner = some vpath)
    (h : buildVftable s owner vis fb (some fns) = (s1, .ok (v, ptr)))
    (hb : baseVftable s1.reg fb = .ok none) :
    ptr = some (ownPointer vpath) ∧ v = some { fns := fns, baseField := none, ty := .cptr (.raw vpath) } := by
  exact own_pointer_main s s1 owner vis fb fns v ptr vpath hp h hb

/-- no block of its own: the base's table and pointer type are inherited unchanged, no pointer field -/
theorem inherited (s s1 : State) (owner : Path) (vis : Vis) (fb : Option Region)
    (v : Option Vft) (ptr : Option Region)
    (h : buildVftable s owner vis fb none = (s1, .ok (v, ptr))) :
    s1 = s ∧ ptr = none ∧
      (match baseVftable s.reg fb with
       | .ok (some (bn, bv)) => v = some { fns := bv.fns, baseField := some bn, ty := bv.ty }
       | _ => v = none) := by
  exact inherited_main s s1 owner vis fb v ptr h

/-- **the pointer is the first region, at offset 0, before all declared fields**: when the layout core
    is handed a vftable pointer region it places it first -/
theorem pointer_first {β} (vp : Layout.PField β) (fields : List (Layout.PField β)) (target : Option Nat)
    (placed : List (Layout.Placed β)) (size : Nat)
    (h : Layout.resolve (some vp) fields target = .ok (placed, size)) :
    ∃ sz rest, vp.size = .ok (some sz) ∧ (sz = 0 ∧ vp.isArr = true ∨
      placed = ⟨sz, vp.align, some vp.val⟩ :: rest) := by
  exact pointer_first_main vp fields target placed size h

/-- the accessor emitted for a type with a vftable: reads the own field, or delegates to the base
    field's accessor, and reinterprets the result as the type's own table pointer type -/
theorem accessor_shape (reg : Registry) (path : Path) (size align : Nat) (vis : Vis) (td : TypeDefn) (v : Vft)
    (h : td.vft = some v) :
    ∃ pre post ms, Emit.typeItems reg path size align vis td = pre ++
      [Sexp.mk "impl" (.str (path.getLast?.getD "") ::
        Sexp.mk "some" [Sexp.mk "vftacc" [.str (Emit.tyStr v.ty), Sexp.ofOpt .str v.baseField]] :: ms)] ++ post := by
  exact accessor_main reg path size align vis td v h

end PyxisVerif.C06
