import PyxisVerif.Lemmas.C19FrameVft
import PyxisVerif.Props.C19Frame
import PyxisVerif.Props.C09Vft
/-!
# C19, end to end, for descriptions WITH vftable blocks: the frame theorem under `CaseNoGenRefs`

`Props/C19Frame.lean` proves the frame property – "adding an unrelated module to the input set leaves the file of every
old module byte-identical (when both input sets are accepted)" – for descriptions without `vftable` blocks.  Here it is
proved for descriptions WITH `vftable` blocks in which nothing mentions a generated `<T>Vftable` item by name
(`C09.CaseNoGenRefs` of the bigger case, `Lemmas/MonoVft.lean`), in the same shape: `CaseNoGenRefs` stands where `CaseNoVft`
stood, every conclusion is kept.

## What changes with generated items, and why `Unrelated` does not

* The final registry of a case has, besides the items written in its modules, the generated item
  `mp ++ [name ++ "Vftable"]` of every type `mp ++ [name]` with a vftable block.  A generated path has the PARENT of its
  owner.  So the generated items of the old modules are not directly under `path`, they are there in both final
  registries, equal (an old owner generates the same item in both initial states, `gen_ext`), and the statement "every
  old registry entry is preserved" (`added_module_registry_vft`, first part) covers them; the generated items of the new
  module are directly under `path` and are among the new keys `path ++ [x]` (second part).  `RegExt path s.reg s'.reg` holds
  verbatim.
* `Unrelated` needs NO extra clause.  The one new coincidence one could fear – the path of the new module IS a generated
  path of an old module (`path = mp ++ [name ++ "Vftable"]`; the module path would turn into a type key during the run) –
  is excluded by `CaseNoGenRefs` of the bigger case (`ModNoGenRefs … path m` has `path ∉ caseGenPaths`), and a generated
  path of the new module cannot be an old key because no old key is directly under `path` (`Unrelated`: `path` is no
  prefix of an old module path, and it is not the root).  `CaseNoGenRefs` of the smaller case follows from the one of
  the bigger case (`caseNoGenRefs_of_withModule`: fewer generated paths, fewer items).
* The module lists: `add_item` PREPENDS a generated path to the `defPaths` of its module, in attempt order, and the
  attempt order of the old types may differ between the two runs (the rounds are different).  So the old modules of
  the two final states are equal up to the order of their definition paths (`added_module_core_vft`: the same `base`
  list with the definition paths `f1` resp. `f2`, `(f2 key).Perm (f1 key)`); the emitted file sorts them, and the files
  are EQUAL.
-/
namespace PyxisVerif.C19
open C09 Mono

/-! ## the smaller case satisfies the syntactic condition too -/

theorem caseGenPaths_withModule {c : Case} {me : ModEnt} {q : Path} (h : q ∈ caseGenPaths c) :
    q ∈ caseGenPaths (c.withModule me) := by
  unfold caseGenPaths at h ⊢
  obtain ⟨x, hx, hq⟩ := List.mem_flatMap.mp h
  exact List.mem_flatMap.mpr ⟨x, List.mem_append_left _ hx, hq⟩

theorem caseItemPaths_withModule {c : Case} {me : ModEnt} {q : Path} (h : q ∈ caseItemPaths c) :
    q ∈ caseItemPaths (c.withModule me) := by
  unfold caseItemPaths at h ⊢
  rcases List.mem_append.mp h with h | h
  · exact List.mem_append_left _ h
  · obtain ⟨x, hx, hq⟩ := List.mem_flatMap.mp h
    exact List.mem_append_right _ (List.mem_flatMap.mpr ⟨x, List.mem_append_left _ hx, hq⟩)

theorem gnames_mono {Gs Gs' : List Path} (h : ∀ q ∈ Gs, q ∈ Gs') {nm : String} (hn : nm ∉ gnames Gs') :
    nm ∉ gnames Gs := by
  intro hx
  obtain ⟨q, hq, hl⟩ := List.mem_filterMap.mp hx
  exact hn (List.mem_filterMap.mpr ⟨q, h q hq, hl⟩)

theorem modNoGenRefs_mono {Gs Gs' : List Path} (h : ∀ q ∈ Gs, q ∈ Gs') {path : Path} {m : G.Module}
    (hm : ModNoGenRefs Gs' path m) : ModNoGenRefs Gs path m :=
  ⟨fun hp => hm.1 (h _ hp), fun u hu hg => hm.2.1 u hu (h _ hg),
   fun d hd nm hnm => gnames_mono h (hm.2.2.1 d hd nm hnm),
   fun b hb f hf nm hnm => gnames_mono h (hm.2.2.2 b hb f hf nm hnm)⟩

/-- the syntactic condition of the bigger case gives the one of the smaller case: fewer generated paths, fewer items -/
theorem caseNoGenRefs_of_withModule {c : Case} {me : ModEnt} (h : CaseNoGenRefs (c.withModule me)) :
    CaseNoGenRefs c := by
  refine ⟨?_, ?_⟩
  · intro q hq hi
    exact h.fresh q (caseGenPaths_withModule hq) (caseItemPaths_withModule hi)
  · intro me' hme'
    have := h.mods me' (List.mem_append_left _ hme')
    cases me' with
    | ast path file m => exact modNoGenRefs_mono (fun q hq => caseGenPaths_withModule hq) this
    | text f t => trivial

/-! ## the frame theorem -/

/-- **frame, registry and modules** (exact condition), with `vftable` blocks: when both input sets are accepted,

* the resolved registries agree on every path that is not directly under `path` – in particular on every item of
  `c` AND on every generated item of a module of `c` – and the bigger one has additional entries directly under
  `path` only (`RegExt`; the generated items of the new module are among them);
* the module list of the bigger final state is that of the smaller one plus the new module, up to the order of the
  definition paths of each old module (`base` with `f1` resp. `f2`);
* every module of `c` is there, and every module of the smaller final state is printed identically from the bigger
  final state. -/
theorem added_module_core_vft (c : Case) (path : Path) (file : String) (m : G.Module)
    (hps : c.ps = 4 ∨ c.ps = 8)
    (hb : C12.CaseBounded (c.withModule (.ast path file m)))
    (hg : CaseNoGenRefs (c.withModule (.ast path file m)))
    (hu : UnrelatedTight c path)
    (s s' : State) (h : c.run = .ok s) (h' : (c.withModule (.ast path file m)).run = .ok s') :
    RegExt path s.reg s'.reg ∧
    ∃ (base : List (Path × Mod)) (f1 f2 : Path → List Path) (M' : Mod),
      s.modules = base.map (fun e => (e.1, { e.2 with defPaths := f1 e.1 })) ∧
      s'.modules = (path, M') :: base.map (fun e => (e.1, { e.2 with defPaths := f2 e.1 })) ∧
      (∀ e ∈ base, e.1 ≠ path) ∧
      (∀ mp f0 m0, ModEnt.ast mp f0 m0 ∈ c.modules → (List.lookup mp base).isSome = true) ∧
      (∀ e ∈ base, (f2 e.1).Perm (f1 e.1)) ∧
      (∀ e ∈ base, Emit.moduleFile s' e.1 { e.2 with defPaths := f2 e.1 }
        = Emit.moduleFile s e.1 { e.2 with defPaths := f1 e.1 }) := by
  obtain ⟨s0, t0, hi, hi', hadd, hbs, hbt⟩ := runs_inv c path file m s s' h h'
  have hbc := caseBounded_of_withModule hb
  have hgc := caseNoGenRefs_of_withModule hg
  have cs : Ctx s0 := ⟨(C12.initialState_shape c hps hbc).2 s0 hi, initial_noGenRefs c hps hbc hgc s0 hi⟩
  have ct : Ctx t0 := ⟨(C12.initialState_shape (c.withModule (.ast path file m)) hps hb).2 t0 hi',
    initial_noGenRefs (c.withModule (.ast path file m)) hps hb hg t0 hi'⟩
  have hf := initialState_frameInv hu.1 c hu.2 s0 hi
  obtain ⟨hr, base, f1, f2, M', e1, e2, e3, e4, e5, e6⟩ :=
    frame_statesV hu.1 (addModule_stExt s0 t0 m hf hadd) hf cs ct
      (initialState_flat c s0 hi) (initialState_flat _ t0 hi') c.prio c.prio s s' hbs hbt
  refine ⟨hr, base, f1, f2, M', e1, e2, e3, ?_, e5, e6⟩
  intro mp f0 m0 hm
  rw [e4 mp]
  exact initialState_getModule c s0 hi mp f0 m0 hm

theorem getModule_setDp (base : List (Path × Mod)) (f : Path → List Path) (key : Path) :
    List.lookup key (base.map fun e => (e.1, ({ e.2 with defPaths := f e.1 } : Mod)))
      = (List.lookup key base).map (fun mod => ({ mod with defPaths := f key } : Mod)) :=
  lookup_map_val (fun k (mod : Mod) => ({ mod with defPaths := f k } : Mod)) base key

/-- **frame, per module** (exact condition): the file of every module path other than `path` is the same in both
    final states; for the modules of `c` there is such a file -/
theorem added_module_frame_tight_vft (c : Case) (path : Path) (file : String) (m : G.Module)
    (hps : c.ps = 4 ∨ c.ps = 8)
    (hb : C12.CaseBounded (c.withModule (.ast path file m)))
    (hg : CaseNoGenRefs (c.withModule (.ast path file m)))
    (hu : UnrelatedTight c path)
    (s s' : State) (h : c.run = .ok s) (h' : (c.withModule (.ast path file m)).run = .ok s') :
    (∀ key, key ≠ path → fileOf s' key = fileOf s key) ∧
    (∀ mp f0 m0, ModEnt.ast mp f0 m0 ∈ c.modules → mp ≠ path ∧ (fileOf s mp).isSome = true) := by
  obtain ⟨_, base, f1, f2, M', e1, e2, _, e4, _, e6⟩ := added_module_core_vft c path file m hps hb hg hu s s' h h'
  have hs : ∀ key, s.getModule key = (List.lookup key base).map (fun mod => ({ mod with defPaths := f1 key } : Mod)) := by
    intro key
    unfold State.getModule
    rw [e1]
    exact getModule_setDp base f1 key
  refine ⟨?_, ?_⟩
  · intro key hk
    have : (key == path) = false := by simpa using hk
    have hs' : s'.getModule key = (List.lookup key base).map (fun mod => ({ mod with defPaths := f2 key } : Mod)) := by
      unfold State.getModule
      rw [e2, List.lookup_cons, this]
      exact getModule_setDp base f2 key
    unfold fileOf
    rw [hs key, hs']
    cases hl : List.lookup key base with
    | none => simp only [Option.map_none]
    | some mod =>
      simp only [Option.map_some, Option.some.injEq]
      exact e6 (key, mod) (C14.mem_of_lookup _ _ _ hl)
  · intro mp f0 m0 hm
    refine ⟨fun e => (hu.2 _ hm).1 (.inl e), ?_⟩
    unfold fileOf
    rw [Option.isSome_map, hs mp, Option.isSome_map]
    exact e4 mp f0 m0 hm

/-- **frame** (with `vftable` blocks, nothing mentioning a generated name): when both input sets are accepted, every
    old module's emitted file is the same (and there is one) -/
theorem added_module_frame_vft (c : Case) (path : Path) (file : String) (m : G.Module)
    (hps : c.ps = 4 ∨ c.ps = 8)
    (hb : C12.CaseBounded (c.withModule (.ast path file m)))
    (hg : C09.CaseNoGenRefs (c.withModule (.ast path file m)))
    (hu : Unrelated c path)
    (s s' : State) (h : c.run = .ok s) (h' : (c.withModule (.ast path file m)).run = .ok s') :
    ∀ me ∈ c.modules, ∀ mp f0 m0, me = ModEnt.ast mp f0 m0 →
      fileOf s' mp = fileOf s mp ∧ (fileOf s mp).isSome = true := by
  intro me hme mp f0 m0 e
  subst e
  have hut := hu.tight (List.ne_nil_of_mem hme)
  obtain ⟨h1, h2⟩ := added_module_frame_tight_vft c path file m hps hb hg hut s s' h h'
  obtain ⟨hne, hsome⟩ := h2 mp f0 m0 hme
  exact ⟨h1 mp hne, hsome⟩

/-- **frame, file lists** (exact condition): the files of the bigger case are the files of `c` plus the file of the
    new module (as lists: up to the position at which the new file is sorted in) -/
theorem added_module_files_tight_vft (c : Case) (path : Path) (file : String) (m : G.Module)
    (hps : c.ps = 4 ∨ c.ps = 8)
    (hb : C12.CaseBounded (c.withModule (.ast path file m)))
    (hg : CaseNoGenRefs (c.withModule (.ast path file m)))
    (hu : UnrelatedTight c path)
    (s s' : State) (h : c.run = .ok s) (h' : (c.withModule (.ast path file m)).run = .ok s') :
    ∃ M', s'.getModule path = some M' ∧
      (Emit.files s').Perm (Emit.moduleFile s' path M' :: Emit.files s) := by
  obtain ⟨_, base, f1, f2, M', e1, e2, _, _, _, e6⟩ := added_module_core_vft c path file m hps hb hg hu s s' h h'
  refine ⟨M', by simp [State.getModule, e2], ?_⟩
  unfold Emit.files Emit.sortBy
  have hnp : (!(path.isEmpty)) = true := by
    cases path with
    | nil => exact absurd rfl hu.1
    | cons a l => rfl
  have k1 : (s.modules.filter fun e => !e.1.isEmpty)
      = (base.filter fun e => !e.1.isEmpty).map (fun e => (e.1, ({ e.2 with defPaths := f1 e.1 } : Mod))) := by
    rw [e1, List.filter_map]
    rfl
  have k2 : (s'.modules.filter fun e => !e.1.isEmpty)
      = (path, M') :: (base.filter fun e => !e.1.isEmpty).map (fun e => (e.1, ({ e.2 with defPaths := f2 e.1 } : Mod))) := by
    rw [e2, List.filter_cons, if_pos hnp, List.filter_map]
    rfl
  have k3 : ((base.filter fun e => !e.1.isEmpty).map (fun e => (e.1, ({ e.2 with defPaths := f2 e.1 } : Mod)))).map
        (fun e => Emit.moduleFile s' e.1 e.2)
      = ((base.filter fun e => !e.1.isEmpty).map (fun e => (e.1, ({ e.2 with defPaths := f1 e.1 } : Mod)))).map
        (fun e => Emit.moduleFile s e.1 e.2) := by
    rw [List.map_map, List.map_map]
    exact List.map_congr_left (fun e he => e6 e (List.mem_filter.mp he).1)
  simp only [k1, k2]
  refine ((List.mergeSort_perm _ _).map _).trans ?_
  rw [List.map_cons, k3]
  exact List.Perm.cons _ ((List.mergeSort_perm _ _).map _).symm

/-- **frame, file lists**: every file of `c` is a file of the bigger case, every file of the bigger case is a file of
    `c` or the file of the new module -/
theorem added_module_files_vft (c : Case) (path : Path) (file : String) (m : G.Module)
    (hps : c.ps = 4 ∨ c.ps = 8)
    (hb : C12.CaseBounded (c.withModule (.ast path file m)))
    (hg : C09.CaseNoGenRefs (c.withModule (.ast path file m)))
    (hu : Unrelated c path) (hne : c.modules ≠ [])
    (s s' : State) (h : c.run = .ok s) (h' : (c.withModule (.ast path file m)).run = .ok s') :
    (∀ f ∈ Emit.files s, f ∈ Emit.files s') ∧
    (∀ f ∈ Emit.files s', f ∈ Emit.files s ∨ some f = fileOf s' path) ∧
    (Emit.files s').length = (Emit.files s).length + 1 := by
  obtain ⟨M', hM', hp⟩ := added_module_files_tight_vft c path file m hps hb hg (hu.tight hne) s s' h h'
  refine ⟨fun f hf => hp.symm.subset (List.mem_cons_of_mem _ hf), ?_, ?_⟩
  · intro f hf
    rcases List.mem_cons.mp (hp.subset hf) with e | e
    · right; rw [e]; unfold fileOf; rw [hM']; rfl
    · exact .inl e
  · rw [hp.length_eq, List.length_cons]

/-- … and so for the observation O3: both are file lists, the bigger one is the smaller one plus one file -/
theorem added_module_o3_vft (c : Case) (path : Path) (file : String) (m : G.Module)
    (hps : c.ps = 4 ∨ c.ps = 8)
    (hb : C12.CaseBounded (c.withModule (.ast path file m)))
    (hg : C09.CaseNoGenRefs (c.withModule (.ast path file m)))
    (hu : Unrelated c path) (hne : c.modules ≠ [])
    (s s' : State) (h : c.run = .ok s) (h' : (c.withModule (.ast path file m)).run = .ok s') :
    ∃ fs fs' f, c.o3 = Sexp.mk "files" fs ∧ (c.withModule (.ast path file m)).o3 = Sexp.mk "files" fs' ∧
      fs'.Perm (f :: fs) := by
  obtain ⟨M', _, hp⟩ := added_module_files_tight_vft c path file m hps hb hg (hu.tight hne) s s' h h'
  refine ⟨Emit.files s, Emit.files s', _, ?_, ?_, hp⟩
  · unfold Case.o3; rw [h]
  · unfold Case.o3; rw [h']

/-- … and for the resolved registry (O2's items): every entry of the smaller final registry – the items of `c` AND the
    generated `<T>Vftable` items of its modules, `mp ++ [name ++ "Vftable"]` – is in the bigger one, unchanged; every
    other key of the bigger one is directly under `path` (the items of the new module and its generated items) -/
theorem added_module_registry_vft (c : Case) (path : Path) (file : String) (m : G.Module)
    (hps : c.ps = 4 ∨ c.ps = 8)
    (hb : C12.CaseBounded (c.withModule (.ast path file m)))
    (hg : C09.CaseNoGenRefs (c.withModule (.ast path file m)))
    (hu : Unrelated c path) (hne : c.modules ≠ [])
    (s s' : State) (h : c.run = .ok s) (h' : (c.withModule (.ast path file m)).run = .ok s') :
    (∀ q i, s.reg.get q = some i → s'.reg.get q = some i) ∧
    (∀ q, s'.reg.contains q = true → s.reg.contains q = true ∨ ∃ x, q = path ++ [x]) := by
  obtain ⟨hr, _⟩ := added_module_core_vft c path file m hps hb hg (hu.tight hne) s s' h h'
  exact ⟨fun q i hi => hr.get_ext hi, hr.new⟩

/-! ## non-vacuity: a concrete pair of cases with `vftable` blocks that satisfies every hypothesis, both accepted

The smaller case is `C09.VftExample.case` (pointer width 8, one module `m` with a base `B` that has a vftable block, a
derived `D` with its own block extending it, a type `P` with a pointer to `D`, and an extern value of the generated type
`*const DVftable`).  The added module DERIVES from a type of the old module and has a vftable block of its own:

```text
// z.pyxis
use m::D;
pub type Z { vftable { pub fn v(&self, x: u32); pub fn w(&mut self) -> u32; pub fn q(&self); }
             #[base] pub d: D,  pub n: u64 }
```

It depends on the old module (its first base is `m::D`, whose vftable – generated as `m::DVftable` during the run – its
own table has to extend); nothing of `m` mentions `z`.  The generated paths of the bigger case are `m::BVftable`,
`m::DVftable` and `z::ZVftable`, and nothing mentions them in a type expression of a definition (`CaseNoGenRefs`, decided
by the kernel; the extern value of `m` does, which is allowed).  The priority is the one of the smaller case,
`[m::P, m::D, m::B]`; `z::Z` is not listed and comes last.  Round 1: `P` resolved, `D` waits for the size of its base `B`,
`B` registers `m::BVftable` and is resolved, `Z` waits for the size of its base `D` (before `vftable::build`: no
`z::ZVftable` yet).  Round 2: `D` registers `m::DVftable` and is resolved (24 bytes), `Z` registers `z::ZVftable`, finds the
table of `D` to be a prefix of its own and is resolved (32 bytes).  A third round sees that nothing is left. -/
namespace VftFrameExample

def modZ : G.Module :=
  { uses := [["m", "D"]],
    defs := [
      { vis := .pub, name := "Z",
        inner := .type { stmts := [{ field := .vftable [
                                       { vis := .pub, name := "v", attrs := [],
                                         args := [.constSelf, .named "x" (.ident "u32")], ret := none },
                                       { vis := .pub, name := "w", attrs := [], args := [.mutSelf],
                                         ret := some (.ident "u32") },
                                       { vis := .pub, name := "q", attrs := [], args := [.constSelf], ret := none }],
                                     attrs := [] },
                                   { field := .field .pub "d" (.ident "D"), attrs := [.ident "base"] },
                                   { field := .field .pub "n" (.ident "u64"), attrs := [] }],
                         attrs := [] } }] }

def small : Case := C09.VftExample.case

def big : Case := small.withModule (.ast ["z"] "z.pyxis" modZ)

/-! ### the hypotheses of the theorems -/

theorem big_bounded : C12.CaseBounded big := by
  intro path file m hm
  simp only [big, small, Case.withModule, C09.VftExample.case, List.cons_append, List.nil_append, List.mem_cons,
    List.not_mem_nil, or_false, ModEnt.ast.injEq] at hm
  rcases hm with ⟨_, _, rfl⟩ | ⟨_, _, rfl⟩
  · exact C09.VftExample.bounded ["m"] "m.pyxis" C09.VftExample.modM (by simp [C09.VftExample.case])
  · refine ⟨?_, fun xt hx => by cases hx⟩
    intro d hd
    simp only [modZ, List.mem_cons, List.not_mem_nil, or_false] at hd
    subst hd
    intro n args z ha; cases ha

/-- the generated paths of the bigger case … -/
example : caseGenPaths big = [["m", "BVftable"], ["m", "DVftable"], ["z", "ZVftable"]] := by decide +kernel

/-- … and nothing mentions them -/
theorem big_noGenRefs : CaseNoGenRefs big := by decide +kernel

theorem unrelated : Unrelated small ["z"] := by
  intro me hme
  simp only [small, C09.VftExample.case, List.mem_cons, List.not_mem_nil, or_false] at hme
  subst hme
  refine ⟨Example.not_prefix_of_head (by decide) _ _, ?_⟩
  intro u hu
  simp only [C09.VftExample.modM] at hu
  cases hu

/-! ### both runs are accepted -/

theorem small_ok : isOkB small.run = true := C09.VftExample.run_ok

/-- the state after `add_module` of the two modules … -/
def t0 : State := C12.stateOf big.initialState
/-- … after round 1 (`P` resolved; `D` deferred; `B` resolved, `m::BVftable` registered; `Z` deferred, nothing registered) … -/
def t1 : State := (runRound t0 [["m", "P"], ["m", "D"], ["m", "B"], ["z", "Z"]]).1
/-- … and after round 2 (`D` resolved, `m::DVftable` registered; `Z` resolved, `z::ZVftable` registered) -/
def t2 : State := (runRound t1 [["m", "D"], ["z", "Z"]]).1

theorem init : big.initialState = .ok t0 := C12.eq_ok_stateOf _ (by decide +kernel)
theorem nItems : (t0.reg.types.filter fun e => !e.2.isResolved).length = 4 := by decide +kernel

theorem u0 : t0.reg.unresolved big.prio = [["m", "P"], ["m", "D"], ["m", "B"], ["z", "Z"]] :=
  unresolved_of_perm _ _ [["z", "Z"], ["m", "P"], ["m", "D"], ["m", "B"]] _ (by decide +kernel)
    (by decide) (by decide +kernel)
theorem u1 : t1.reg.unresolved big.prio = [["m", "D"], ["z", "Z"]] :=
  unresolved_of_perm _ _ [["z", "Z"], ["m", "D"]] _ (by decide +kernel) (List.Perm.swap _ _ _) (by decide +kernel)
theorem u2 : t2.reg.unresolved big.prio = [] :=
  unresolved_of_sorted _ _ _ (by decide +kernel) (by decide +kernel)

theorem r0 : runRound t0 [["m", "P"], ["m", "D"], ["m", "B"], ["z", "Z"]] = (t1, .ok ()) := by
  have : (runRound t0 [["m", "P"], ["m", "D"], ["m", "B"], ["z", "Z"]]).2 = .ok () := by decide +kernel
  rw [← this]; rfl
theorem r1 : runRound t1 [["m", "D"], ["z", "Z"]] = (t2, .ok ()) := by
  have : (runRound t1 [["m", "D"], ["z", "Z"]]).2 = .ok () := by decide +kernel
  rw [← this]; rfl

theorem loop : resolveLoop big.prio 10 t0 = .ok t2 := by
  rw [resolveLoop_step _ 9 t0 t1 _ u0 rfl r0 (by rw [u1]; decide +kernel),
      resolveLoop_step _ 8 t1 t2 _ u1 rfl r1 (by rw [u2]; decide +kernel),
      resolveLoop_done _ 7 t2 u2]

theorem run_eq : big.run = finish t2 := by
  unfold Case.run
  rw [init]
  simp only []
  rw [build_eq, nItems, loop]

/-- the bigger case is accepted -/
theorem big_ok : isOkB big.run = true := by
  rw [run_eq]
  decide +kernel

/-- in round 1 the new type waited for the size of its base BEFORE `vftable::build`: its generated item is not there yet -/
example : t1.reg.contains ["z", "ZVftable"] = false ∧ t1.reg.contains ["m", "BVftable"] = true := by decide +kernel
/-- all three generated items are registered in the bigger final registry; `Z` has size 32, which needs `m::D` (24) -/
example : t2.reg.contains ["m", "BVftable"] = true ∧ t2.reg.contains ["m", "DVftable"] = true ∧
    t2.reg.contains ["z", "ZVftable"] = true := by decide +kernel
example : (t2.reg.get ["z", "Z"]).bind (fun i => i.resolved?.map (·.size)) = some 32 := by decide +kernel

/-- the theorems apply: the file of `m` exists and is the same in both final states, the bigger case emits exactly one
    file more, every entry of the smaller final registry – the generated `m::BVftable` and `m::DVftable` among them – is
    in the bigger one unchanged, and every other key of the bigger one is directly under `z` -/
theorem frame_applies :
    ∃ s s', small.run = .ok s ∧ big.run = .ok s' ∧
      (fileOf s' ["m"] = fileOf s ["m"] ∧ (fileOf s ["m"]).isSome = true) ∧
      (∀ f ∈ Emit.files s, f ∈ Emit.files s') ∧ (Emit.files s').length = (Emit.files s).length + 1 ∧
      (∀ q i, s.reg.get q = some i → s'.reg.get q = some i) ∧
      (∀ q, s'.reg.contains q = true → s.reg.contains q = true ∨ ∃ x, q = ["z"] ++ [x]) := by
  obtain ⟨s, hs⟩ := (isOkB_iff _).mp small_ok
  obtain ⟨s', hs'⟩ := (isOkB_iff _).mp big_ok
  have hne : small.modules ≠ [] := by simp [small, C09.VftExample.case]
  have hf := added_module_frame_vft small ["z"] "z.pyxis" modZ (Or.inr rfl) big_bounded big_noGenRefs unrelated s s' hs hs'
  have hl := added_module_files_vft small ["z"] "z.pyxis" modZ (Or.inr rfl) big_bounded big_noGenRefs unrelated hne s s' hs hs'
  have hr := added_module_registry_vft small ["z"] "z.pyxis" modZ (Or.inr rfl) big_bounded big_noGenRefs unrelated hne s s' hs hs'
  refine ⟨s, s', hs, hs', ?_, hl.1, hl.2.2, hr.1, hr.2⟩
  exact hf _ (by simp [small, C09.VftExample.case]) ["m"] "m.pyxis" C09.VftExample.modM rfl

/-- the generated items of the old module are entries of the smaller final registry (so the registry statement is about
    them too) -/
example : ∃ s, small.run = .ok s ∧ s.reg.contains ["m", "BVftable"] = true ∧ s.reg.contains ["m", "DVftable"] = true := by
  obtain ⟨s, hs⟩ := (isOkB_iff _).mp small_ok
  refine ⟨s, hs, ?_⟩
  have e : small.run = finish C09.VftExample.s2 := C09.VftExample.run_eq
  rw [e] at hs
  have hreg : s.reg = C09.VftExample.s2.reg := by
    unfold finish at hs
    split at hs
    · cases hs; rfl
    · cases hs
    · cases hs
    · cases hs
  rw [hreg]
  decide +kernel

end VftFrameExample

end PyxisVerif.C19
