import PyxisVerif.Lemmas.C19FrameVft
import PyxisVerif.Props.C19Frame
import PyxisVerif.Props.C09Vft
/-!
# C19, end to end, for descriptions WITH vftable blocks: the frame theorem under `CaseNoGenRefs`

`Props/C19Frame.lean` proves the frame property – "adding an unrelated module to the input set leaves the file of every
old module byte-identical (when both input sets are accepted)" – for descriptions without `vftable` blocks.  Here it is
proved for descriptions WITH `vftable` blocks in which nothing mentions a generated `<T>Vftable` item by name
(`C09.CaseNoGenRefs` of the bigger case, `Lemmas/MonoVft.lean`), in the same shape: `CaseNoGenRefs` stands where `CaseNoVft`
stood, every conclusion is kept.

## What changes with generated items, and why `Unrelated` does not

* The final registry of a case has, besides the items written in its modules, the generated item
  `mp ++ [name ++ "Vftable"]` of every type `mp ++ [name]` with a vftable block.  A generated path has the PARENT of its
  owner.  So the generated items of the old modules are not directly under `path`, they are there in both final
  registries, equal (an old owner generates the same item in both initial states, `gen_ext`), and the statement "every
  old registry entry is preserved" (`added_module_registry_vft`, first part) covers them; the generated items of the new
  module are directly under `path` and are among the new keys `path ++ [x]` (second part).  `RegExt path s.reg s'.reg` holds
  verbatim.
* `Unrelated` needs NO extra clause.  The one new coincidence one could fear – the path of the new module IS a generated
  path of an old module (`path = mp ++ [name ++ "Vftable"]`; the module path would turn into a type key during the run) –
  is excluded by `CaseNoGenRefs` of the bigger case (`ModNoGenRefs … path m` has `path ∉ caseGenPaths`), and a generated
  path of the new module cannot be an old key because no old key is directly under `path` (`Unrelated`: `path` is no
  prefix of an old module path, and it is not the root).  `CaseNoGenRefs` of the smaller case follows from the one of
  the bigger case (`caseNoGenRefs_of_withModule`: fewer generated paths, fewer items).
* The module lists: `add_item` PREPENDS a generated path to the `defPaths` of its module, in attempt order, and the
  attempt order of the old types may differ between the two runs (the rounds are different).  So the old modules of
  the two final states are equal up to the order of their definition paths (`added_module_core_vft`: the same `base`
  list with the definition paths `f1` resp. `f2`, `(f2 key).Perm (f1 key)`); the emitted file sorts them, and the files
  are EQUAL.
-/
namespace PyxisVerif.C19
open C09 Mono

/-! ## the smaller case satisfies the syntactic condition too -/

theorem caseGenPaths_withModule {c : Case} {me : ModEnt} {q : Path} (h : q ∈ caseGenPaths c) :
    q ∈ caseGenPaths (c.withModule me) := by
  unfold caseGenPaths at h ⊢
  obtain ⟨x, hx, hq⟩ := List.mem_flatMap.mp h
  exact List.mem_flatMap.mpr ⟨x, List.mem_append_left _ hx, hq⟩

theorem caseItemPaths_withModule {c : Case} {me : ModEnt} {q : Path} (h : q ∈ caseItemPaths c) :
    q ∈ caseItemPaths (c.withModule me) := by
  unfold caseItemPaths at h ⊢
  rcases List.mem_append.mp h with h | h
  · exact List.mem_append_left _ h
  · obtain ⟨x, hx, hq⟩ := List.mem_flatMap.mp h
    exact List.mem_append_right _ (List.mem_flatMap.mpr ⟨x, List.mem_append_left _ hx, hq⟩)

theorem gnames_mono {Gs Gs' : List Path} (h : ∀ q ∈ Gs, q ∈ Gs') {nm : String} (hn : nm ∉ gnames Gs') :
    nm ∉ gnames Gs := by
  intro hx
  obtain ⟨q, hq, hl⟩ := List.mem_filterMap.mp hx
  exact hn (List.mem_filterMap.mpr ⟨q, h q hq, hl⟩)

theorem modNoGenRefs_mono {Gs Gs' : List Path} (h : ∀ q ∈ Gs, q ∈ Gs') {path : Path} {m : G.Module}
    (hm : ModNoGenRefs Gs' path m) : ModNoGenRefs Gs path m :=
  ⟨fun hp => hm.1 (h _ hp), fun u hu hg => hm.2.1 u hu (h _ hg),
   fun d hd nm hnm => gnames_mono h (hm.2.2.1 d hd nm hnm),
   fun b hb f hf nm hnm => gnames_mono h (hm.2.2.2 b hb f hf nm hnm)⟩

/-- the syntactic condition of the bigger case gives the one of the smaller case: fewer generated paths, fewer items -/
theorem caseNoGenRefs_of_withModule {c : Case} {me : ModEnt} (h : CaseNoGenRefs (c.withModule me)) :
    CaseNoGenRefs c := by
  refine ⟨?_, ?_⟩
  · intro q hq hi
    exact h.fresh q (caseGenPaths_withModule hq) (caseItemPaths_withModule hi)
  · intro me' hme'
    have := h.mods me' (List.mem_append_left _ hme')
    cases me' with
    | ast path file m => exact modNoGenRefs_mono (fun q hq => caseGenPaths_withModule hq) this
    | text f t => trivial

/-! ## the frame theorem -/

/-- **frame, registry and modules** (exact condition), with `vftable` blocks: when both input sets are accepted,

* the resolved registries agree on every path that is not directly under `path` – in particular on every item of
  `c` AND on every generated item of a module of `c` – and the bigger one has additional entries directly under
  `path` only (`RegExt`; the generated items of the new module are among them);
* the module list of the bigger final state is that of the smaller one plus the new module, up to the order of the
  definition paths of each old module (`base` with `f1` resp. `f2`);
* every module of `c` is there, and every module of the smaller final state is printed identically from the bigger
  final state. -/
theorem added_module_core_vft (c : Case) (path : Path) (file : String) (m : G.Module)
    (hps : c.ps = 4 ∨ c.ps = 8)
    (hb : C12.CaseBounded (c.withModule (.ast path file m)))
    (hg : CaseNoGenRefs (c.withModule (.ast path file m)))
    (hu : UnrelatedTight c path)
    (s s' : State) (h : c.run = .ok s) (h' : (c.withModule (.ast path file m)).run = .ok s') :
    RegExt path s.reg s'.reg ∧
    ∃ (base : List (Path × Mod)) (f1 f2 : Path → List Path) (M' : Mod),
      s.modules = base.map (fun e => (e.1, { e.2 with defPaths := f1 e.1 })) ∧
      s'.modules = (path, M') :: base.map (fun e => (e.1, { e.2 with defPaths := f2 e.1 })) ∧
      (∀ e ∈ base, e.1 ≠ path) ∧
      (∀ mp f0 m0, ModEnt.ast mp f0 m0 ∈ c.modules → (List.lookup mp base).isSome = true) ∧
      (∀ e ∈ base, (f2 e.1).Perm (f1 e.1)) ∧
      (∀ e ∈ base, Emit.moduleFile s' e.1 { e.2 with defPaths := f2 e.1 }
        = Emit.moduleFile s e.1 { e.2 with defPaths := f1 e.1 }) := by
  obtain ⟨s0, t0, hi, hi', hadd, hbs, hbt⟩ := runs_inv c path file m s s' h h'
  have hbc := caseBounded_of_withModule hb
  have hgc := caseNoGenRefs_of_withModule hg
  have cs : Ctx s0 := ⟨(C12.initialState_shape c hps hbc).2 s0 hi, initial_noGenRefs c hps hbc hgc s0 hi⟩
  have ct : Ctx t0 := ⟨(C12.initialState_shape (c.withModule (.ast path file m)) hps hb).2 t0 hi',
    initial_noGenRefs (c.withModule (.ast path file m)) hps hb hg t0 hi'⟩
  have hf := initialState_frameInv hu.1 c hu.2 s0 hi
  obtain ⟨hr, base, f1, f2, M', e1, e2, e3, e4, e5, e6⟩ :=
    frame_statesV hu.1 (addModule_stExt s0 t0 m hf hadd) hf cs ct
      (initialState_flat c s0 hi) (initialState_flat _ t0 hi') c.prio c.prio s s' hbs hbt
  refine ⟨hr, base, f1, f2, M', e1, e2, e3, ?_, e5, e6⟩
  intro mp f0 m0 hm
  rw [e4 mp]
  exact initialState_getModule c s0 hi mp f0 m0 hm

theorem getModule_setDp (base : List (Path × Mod)) (f : Path → List Path) (key : Path) :
    List.lookup key (base.map fun e => (e.1, ({ e.2 with defPaths := f e.1 } : Mod)))
      = (List.lookup key base).map (fun mod => ({ mod with defPaths := f key } : Mod)) :=
  lookup_map_val (fun k (mod : Mod) => ({ mod with defPaths := f k } : Mod)) base key

/-- **frame, per module** (exact condition): the file of every module path other than `path` is the same in both
    final states; for the modules of `c` there is such a file -/
theorem added_module_frame_tight_vft (c : Case) (path : Path) (file : String) (m : G.Module)
    (hps : c.ps = 4 ∨ c.ps = 8)
    (hb : C12.CaseBounded (c.withModule (.ast path file m)))
    (hg : CaseNoGenRefs (c.withModule (.ast path file m)))
    (hu : UnrelatedTight c path)
    (s s' : State) (h : c.run = .ok s) (h' : (c.withModule (.ast path file m)).run = .ok s') :
    (∀ key, key ≠ path → fileOf s' key = fileOf s key) ∧
    (∀ mp f0 m0, ModEnt.ast mp f0 m0 ∈ c.modules → mp ≠ path ∧ (fileOf s mp).isSome = true) := by
  obtain ⟨_, base, f1, f2, M', e1, e2, _, e4, _, e6⟩ := added_module_core_vft c path file m hps hb hg hu s s' h h'
  have hs : ∀ key, s.getModule key = (List.lookup key base).map (fun mod => ({ mod with defPaths := f1 key } : Mod)) := by
    intro key
    unfold State.getModule
    rw [e1]
    exact getModule_setDp base f1 key
  refine ⟨?_, ?_⟩
  · intro key hk
    have : (key == path) = false := by simpa using hk
    have hs' : s'.getModule key = (List.lookup key base).map (fun mod => ({ mod with defPaths := f2 key } : Mod)) := by
      unfold State.getModule
      rw [e2, List.lookup_cons, this]
      exact getModule_setDp base f2 key
    unfold fileOf
    rw [hs key, hs']
    cases hl : List.lookup key base with
    | none => rfl
    | some mod =>
      simp only [Option.map_some, Option.some.injEq]
      exact e6 (key, mod) (C14.mem_of_lookup _ _ _ hl)
  · intro mp f0 m0 hm
    refine ⟨fun e => (hu.2 _ hm).1 (.inl e), ?_⟩
    unfold fileOf
    rw [Option.isSome_map, hs mp, Option.isSome_map]
    exact e4 mp f0 m0 hm

/-- **frame** (with `vftable` blocks, nothing mentioning a generated name): when both input sets are accepted, every
    old module's emitted file is the same (and there is one) -/
theorem added_module_frame_vft (c : Case) (path : Path) (file : String) (m : G.Module)
    (hps : c.ps = 4 ∨ c.ps = 8)
    (hb : C12.CaseBounded (c.withModule (.ast path file m)))
    (hg : C09.CaseNoGenRefs (c.withModule (.ast path file m)))
    (hu : Unrelated c path)
    (s s' : State) (h : c.run = .ok s) (h' : (c.withModule (.ast path file m)).run = .ok s') :
    ∀ me ∈ c.modules, ∀ mp f0 m0, me = ModEnt.ast mp f0 m0 →
      fileOf s' mp = fileOf s mp ∧ (fileOf s mp).isSome = true := by
  intro me hme mp f0 m0 e
  subst e
  have hut := hu.tight (List.ne_nil_of_mem hme)
  obtain ⟨h1, h2⟩ := added_module_frame_tight_vft c path file m hps hb hg hut s s' h h'
  obtain ⟨hne, hsome⟩ := h2 mp f0 m0 hme
  exact ⟨h1 mp hne, hsome⟩

/-- **frame, file lists** (exact condition): the files of the bigger case are the files of `c` plus the file of the
    new module (as lists: up to the position at which the new file is sorted in) -/
theorem added_module_files_tight_vft (c : Case) (path : Path) (file : String) (m : G.Module)
    (hps : c.ps = 4 ∨ c.ps = 8)
    (hb : C12.CaseBounded (c.withModule (.ast path file m)))
    (hg : CaseNoGenRefs (c.withModule (.ast path file m)))
    (hu : UnrelatedTight c path)
    (s s' : State) (h : c.run = .ok s) (h' : (c.withModule (.ast path file m)).run = .ok s') :
    ∃ M', s'.getModule path = some M' ∧
      (Emit.files s').Perm (Emit.moduleFile s' path M' :: Emit.files s) := by
  obtain ⟨_, base, f1, f2, M', e1, e2, _, _, _, e6⟩ := added_module_core_vft c path file m hps hb hg hu s s' h h'
  refine ⟨M', by simp [State.getModule, e2], ?_⟩
  unfold Emit.files Emit.sortBy
  have hnp : (!(path.isEmpty)) = true := by
    cases path with
    | nil => exact absurd rfl hu.1
    | cons a l => rfl
  have k1 : (s.modules.filter fun e => !e.1.isEmpty)
      = (base.filter fun e => !e.1.isEmpty).map (fun e => (e.1, ({ e.2 with defPaths := f1 e.1 } : Mod))) := by
    rw [e1, List.filter_map]
    rfl
  have k2 : (s'.modules.filter fun e => !e.1.isEmpty)
      = (path, M') :: (base.filter fun e => !e.1.isEmpty).map (fun e => (e.1, ({ e.2 with defPaths := f2 e.1 } : Mod))) := by
    rw [e2, List.filter_cons, if_pos hnp, List.filter_map]
    rfl
  have k3 : ((base.filter fun e => !e.1.isEmpty).map (fun e => (e.1, ({ e.2 with defPaths := f2 e.1 } : Mod)))).map
        (fun e => Emit.moduleFile s' e.1 e.2)
      = ((base.filter fun e => !e.1.isEmpty).map (fun e => (e.1, ({ e.2 with defPaths := f1 e.1 } : Mod)))).map
        (fun e => Emit.moduleFile s e.1 e.2) := by
    rw [List.map_map, List.map_map]
    exact List.map_congr_left (fun e he => e6 e (List.mem_filter.mp he).1)
  simp only [k1, k2]
  refine ((List.mergeSort_perm _ _).map _).trans ?_
  rw [List.map_cons, k3]
  exact List.Perm.cons _ ((List.mergeSort_perm _ _).map _).symm

/-- **frame, file lists**: every file of `c` is a file of the bigger case, every file of the bigger case is a file of
    `c` or the file of the new module -/
theorem added_module_files_vft (c : Case) (path : Path) (file : String) (m : G.Module)
    (hps : c.ps = 4 ∨ c.ps = 8)
    (hb : C12.CaseBounded (c.withModule (.ast path file m)))
    (hg : C09.CaseNoGenRefs (c.withModule (.ast path file m)))
    (hu : Unrelated c path) (hne : c.modules ≠ [])
    (s s' : State) (h : c.run = .ok s) (h' : (c.withModule (.ast path file m)).run = .ok s') :
    (∀ f ∈ Emit.files s, f ∈ Emit.files s') ∧
    (∀ f ∈ Emit.files s', f ∈ Emit.files s ∨ some f = fileOf s' path) ∧
    (Emit.files s').length = (Emit.files s).length + 1 := by
  obtain ⟨M', hM', hp⟩ := added_module_files_tight_vft c path file m hps hb hg (hu.tight hne) s s' h h'
  refine ⟨fun f hf => hp.symm.subset (List.mem_cons_of_mem _ hf), ?_, ?_⟩
  · intro f hf
    rcases List.mem_cons.mp (hp.subset hf) with e | e
    · right; rw [e]; unfold fileOf; rw [hM']; rfl
    · exact .inl e
  · rw [hp.length_eq, List.length_cons]

/-- … and so for the observation O3: both are file lists, the bigger one is the smaller one plus one file -/
theorem added_module_o3_vft (c : Case) (path : Path) (file : String) (m : G.Module)
    (hps : c.ps = 4 ∨ c.ps = 8)
    (hb : C12.CaseBounded (c.withModule (.ast path file m)))
    (hg : C09.CaseNoGenRefs (c.withModule (.ast path file m)))
    (hu : Unrelated c path) (hne : c.modules ≠ [])
    (s s' : State) (h : c.run = .ok s) (h' : (c.withModule (.ast path file m)).run = .ok s') :
    ∃ fs fs' f, c.o3 = Sexp.mk "files" fs ∧ (c.withModule (.ast path file m)).o3 = Sexp.mk "files" fs' ∧
      fs'.Perm (f :: fs) := by
  obtain ⟨M', _, hp⟩ := added_module_files_tight_vft c path file m hps hb hg (hu.tight hne) s s' h h'
  refine ⟨Emit.files s, Emit.files s', _, ?_, ?_, hp⟩
  · unfold Case.o3; rw [h]
  · unfold Case.o3; rw [h']

/-- … and for the resolved registry (O2's items): every entry of the smaller final registry – the items of `c` AND the
    generated `<T>Vftable` items of its modules, `mp ++ [name ++ "Vftable"]` – is in the bigger one, unchanged; every
    other key of the bigger one is directly under `path` (the items of the new module and its generated items) -/
theorem added_module_registry_vft (c : Case) (path : Path) (file : String) (m : G.Module)
    (hps : c.ps = 4 ∨ c.ps = 8)
    (hb : C12.CaseBounded (c.withModule (.ast path file m)))
    (hg : C09.CaseNoGenRefs (c.withModule (.ast path file m)))
    (hu : Unrelated c path) (hne : c.modules ≠ [])
    (s s' : State) (h : c.run = .ok s) (h' : (c.withModule (.ast path file m)).run = .ok s') :
    (∀ q i, s.reg.get q = some i → s'.reg.get q = some i) ∧
    (∀ q, s'.reg.contains q = true → s.reg.contains q = true ∨ ∃ x, q = path ++ [x]) := by
  obtain ⟨hr, _⟩ := added_module_core_vft c path file m hps hb hg (hu.tight hne) s s' h h'
  exact ⟨fun q i hi => hr.get_ext hi, hr.new⟩

end PyxisVerif.C19
