import PyxisVerif.Props.C19FrameVft
/-!
# C19 – changing or removing an unrelated module

Corollaries of the frame theorem (`added_module_frame_vft`): the frame statement is symmetric, so REMOVING an unrelated
module is the same theorem read from right to left, and CHANGING one (any edit of the module at `path`, including its
replacement by a completely different module) is two applications of it.
-/
namespace PyxisVerif.C19
open C09

/-- **removing an unrelated module**: the files of the remaining modules are unchanged -/
theorem removed_module_frame (c : Case) (path : Path) (file : String) (m : G.Module)
    (hps : c.ps = 4 ∨ c.ps = 8)
    (hb : C12.CaseBounded (c.withModule (.ast path file m)))
    (hg : C09.CaseNoGenRefs (c.withModule (.ast path file m)))
    (hu : Unrelated c path)
    (s' s : State) (h' : (c.withModule (.ast path file m)).run = .ok s') (h : c.run = .ok s) :
    ∀ me ∈ c.modules, ∀ mp f0 m0, me = ModEnt.ast mp f0 m0 → fileOf s mp = fileOf s' mp := by
  intro me hme mp f0 m0 e
  exact ((added_module_frame_vft c path file m hps hb hg hu s s' h h') me hme mp f0 m0 e).1.symm

/-- **changing an unrelated module**: whatever the module at `path` is replaced by (another file name, other contents),
    the files of all other modules stay the same, provided both input sets – and the one without that module – are accepted -/
theorem changed_module_frame (c : Case) (path : Path) (file file' : String) (m m' : G.Module)
    (hps : c.ps = 4 ∨ c.ps = 8)
    (hb : C12.CaseBounded (c.withModule (.ast path file m)))
    (hg : C09.CaseNoGenRefs (c.withModule (.ast path file m)))
    (hb' : C12.CaseBounded (c.withModule (.ast path file' m')))
    (hg' : C09.CaseNoGenRefs (c.withModule (.ast path file' m')))
    (hu : Unrelated c path)
    (s s1 s2 : State) (h : c.run = .ok s)
    (h1 : (c.withModule (.ast path file m)).run = .ok s1)
    (h2 : (c.withModule (.ast path file' m')).run = .ok s2) :
    ∀ me ∈ c.modules, ∀ mp f0 m0, me = ModEnt.ast mp f0 m0 → fileOf s1 mp = fileOf s2 mp := by
  intro me hme mp f0 m0 e
  have a := ((added_module_frame_vft c path file m hps hb hg hu s s1 h h1) me hme mp f0 m0 e).1
  have b := ((added_module_frame_vft c path file' m' hps hb' hg' hu s s2 h h2) me hme mp f0 m0 e).1
  rw [a, b]

end PyxisVerif.C19
