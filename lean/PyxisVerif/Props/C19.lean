import PyxisVerif.Spec.C09
import PyxisVerif.Lemmas.C09
import PyxisVerif.Lemmas.C19
import PyxisVerif.Props.C19Frame
import PyxisVerif.Props.C19FrameVft
import PyxisVerif.Props.C19Change
/-!
# C19 – a module's bindings do not depend on unrelated definitions

The locality facts the frame property rests on: a name lookup inspects a fixed list of candidate
paths and nothing else; sizes and alignments are read at the by-value dependencies only; a
module's file is printed from the module's own definition paths and extern values.  The end-to-end
statement (two accepted input sets that differ only outside what a module reaches give the same
file) composes these with C09's schedule independence; it is checked on the implementation with
generated pairs of input sets on every run.
-/
namespace PyxisVerif.C19
open C09

/-- **lookup is local**: two registries that agree on the membership of the candidate paths of a
    lookup give the same answer -/
theorem lookup_local (r r' : Registry) (scope : List Path) (name : String)
    (h : ∀ p ∈ candidates scope name, r'.contains p = r.contains p) :
    r'.resolveString scope name = r.resolveString scope name := by
  exact lookup_local_lem r r' scope name h

/-- the answer of a lookup is one of its candidates -/
theorem lookup_answer_is_candidate (r : Registry) (scope : List Path) (name : String) (p : Path)
    (h : r.resolveString scope name = some (.raw p)) : p ∈ candidates scope name ∧ r.contains p = true := by
  exact lookup_answer_lem r scope name p h

/-- **layout is local**: size and alignment of a type expression depend on the entries of its
    by-value dependencies only -/
theorem size_local (r r' : Registry) (t : DTy) (hps : r'.ps = r.ps)
    (h : ∀ p ∈ byValue t, r'.get p = r.get p) : t.size r' = t.size r ∧ t.align r' = t.align r := by
  exact size_local_lem r r' t hps h

/-- **emission is local**: the items printed for a definition depend on that definition's entry and,
    through the base-class hierarchy, on the entries of its (transitive) base types; an item that
    is not a type with bases depends on its own entry only -/
theorem enum_items_local (path : Path) (size : Nat) (vis : Vis) (ed : EnumDefn) (reg reg' : Registry)
    (i : ItemDef) (hi : i.state = .res { size := size, align := size, inner := .enum ed }) (hc : i.cat = .defined) :
    Emit.itemItems reg' i = Emit.itemItems reg i := by
  have _ := path
  have _ := vis
  exact enum_items_lem size ed reg reg' i hi hc

theorem type_items_local (reg reg' : Registry) (path : Path) (size align : Nat) (vis : Vis) (td : TypeDefn)
    (hl : reg'.types.length = reg.types.length)
    (h : ∀ p, reg'.get p = reg.get p) :
    Emit.typeItems reg' path size align vis td = Emit.typeItems reg path size align vis td := by
  exact type_items_lem reg reg' path size align vis td hl h

/-- a type without base regions is printed without consulting the registry at all -/
theorem type_items_no_bases (reg reg' : Registry) (path : Path) (size align : Nat) (vis : Vis) (td : TypeDefn)
    (hb : ∀ r ∈ td.regions, r.isBase = false) :
    Emit.typeItems reg' path size align vis td = Emit.typeItems reg path size align vis td := by
  exact type_items_no_bases_lem reg reg' path size align vis td hb

/-- a module's file mentions only the module's own definition paths and extern values -/
theorem module_file_local (s s' : State) (key : Path) (m : Mod)
    (h : ∀ p ∈ m.defPaths, s'.reg.get p = s.reg.get p)
    (hi : ∀ p ∈ m.defPaths, ∀ i, s.reg.get p = some i → Emit.itemItems s'.reg i = Emit.itemItems s.reg i) :
    Emit.moduleFile s' key m = Emit.moduleFile s key m := by
  exact module_file_lem s s' key m h hi

end PyxisVerif.C19
