import PyxisVerif.Spec.C02
import PyxisVerif.Spec.C08
import PyxisVerif.Lemmas.C02
import PyxisVerif.Props.C02Global
/-!
# C02 – resolved size and alignment equal the compiler's for every emitted type

Per kind of emitted item: primitives (`init_sound`), structs (`struct_sound`, from C01's
`rustc_offsets`), enums (`enum_sound`), generated vftable structs (`vftable_sound`); and the glue:
the size and alignment pyxis uses when it *embeds* a type are the ones it recorded for that type
(`embedding_uses_recorded`), which is what the compiler uses too (`tyLayout`).
-/
namespace PyxisVerif.C02
open Layout Gen

/-- **primitives**: pyxis's table of predefined types (regenerated from the Rust source) gives every
    primitive the compiler's size and alignment; the only other entry is `void` -/
theorem init_sound :
    ∀ e ∈ predefinedTypes, e.1 = "void" ∨ (e.1, e.2, predefinedAlign e.2) ∈ primLayout := by
  decide

theorem init_complete : ∀ e ∈ primLayout, (e.1, e.2.1) ∈ predefinedTypes := by
  decide

/-- the size / alignment pyxis computes for a type expression are the modelled compiler's, computed
    from the layouts recorded in the registry -/
theorem embedding_uses_recorded (reg : Registry) (t : DTy) (s a : Nat)
    (hs : t.size reg = .ok (some s)) (ha : t.align reg = some a) :
    tyLayout reg.ps (regLayout reg) t = some (s, a) := by
  exact embedding_lem reg t s a hs ha

/-- **structs**: for an accepted type, the compiler's `repr(C)` size and alignment of the emitted struct
    (fields = the placed regions with the layouts pyxis recorded for their types, `align(a)` or
    `packed` as emitted) are the resolved size and alignment; a declared `#[size(N)]` is the compiled
    size, a declared `#[align(N)]` the compiled alignment, `#[packed]` gives alignment 1 -/
theorem struct_sound {β} (ps : Nat) (packed : Bool) (align? : Option Nat)
    (vptr : Option (PField β)) (fields : List (PField β)) (target : Option Nat)
    (placed : List (Placed β)) (size a : Nat)
    (h : resolve vptr fields target = .ok (placed, size))
    (ha : alignCheck ps packed align? placed size = .ok a) :
    RustSem.structSize packed (if packed then none else some a) (placed.map C01.toFld) = size
    ∧ RustSem.structAlign packed (if packed then none else some a) (placed.map C01.toFld) = a
    ∧ (∀ n, target = some n → size = n)
    ∧ (∀ n, align? = some n → a = n)
    ∧ (packed = true → a = 1) := by
  exact struct_sound_lem ps packed align? vptr fields target placed size a h ha

/-- the fields handed to the compiler carry the layouts recorded in the registry: a placed source
    region's size and alignment are `Type::size` / `Type::alignment` of its type -/
theorem placed_layouts (reg : Registry) (vptr : Option Region) (pending : List (Option Nat × Region))
    (target : Option Nat) (placed : List (Placed Region)) (size : Nat)
    (h : resolve (vptr.map (toPField reg none)) (pending.map fun p => toPField reg p.1 p.2) target = .ok (placed, size)) :
    ∀ pl ∈ placed, ∀ r, pl.src = some r → r.ty.size reg = .ok (some pl.size) ∧ r.ty.align reg = pl.align := by
  exact placed_layouts_lem reg vptr pending target placed size h

/-- **enums**: an accepted enum has the size and alignment of its base integer type in the compiler's table
    (`hreg`: the ten integer names still denote the predefined types, i.e. nobody registered a root-level
    item under such a name – impossible through `pyxis::build`, whose modules all have non-empty paths) -/
theorem enum_sound (s : State) (p : Path) (d : G.EnumDef) (r : Resolved)
    (hreg : ∀ e ∈ C08.intTypes, s.reg.get [e.1] = (State.new s.reg.ps).reg.get [e.1])
    (h : buildEnum s p d = .ok r) :
    ∃ ed name, r.inner = .enum ed ∧ ed.ty = .raw [name] ∧ (name, r.size, r.align) ∈ primLayout := by
  exact enum_sound_lem s p d r hreg h

/-- **generated vftable structs**: `slots * ps` bytes, pointer-aligned, for the compiler as for pyxis -/
theorem vftable_sound (ps n : Nat) (hps : 0 < ps) :
    RustSem.structSize false (some ps) (List.replicate n ⟨ps, ps⟩) = n * ps
    ∧ RustSem.structAlign false (some ps) (List.replicate n ⟨ps, ps⟩) = ps := by
  exact vftable_sound_lem ps n hps

/-- the emitted size check transmutes between the resolved size and the item, and is present exactly
    for non-zero sizes -/
theorem size_check_emitted (reg : Registry) (path : Path) (size align : Nat) (vis : Vis) (td : TypeDefn) :
    (size > 0 → Sexp.mk "sizecheck" [.str (fmtSizeCheck (path.getLast?.getD "")), .str (path.getLast?.getD ""), .int size]
        ∈ Emit.typeItems reg path size align vis td) := by
  exact size_check_lem reg path size align vis td

end PyxisVerif.C02
