import PyxisVerif.Spec.C15
import PyxisVerif.Lemmas.C15
/-!
# C15 – singleton and extern-value accessors address the declared location
-/
namespace PyxisVerif.C15
open Gen

/-- a type's singleton address is the declared (non-negative) number -/
theorem type_singleton (attrs : List G.Attr) (ta : TypeAttrs) (h : Res.foldlM typeAttrStep {} attrs = .ok ta) :
    (match declInt "singleton" attrs with
     | some a => 0 ≤ a ∧ ta.singleton = some a.toNat
     | none => ta.singleton = none) :=
  type_singleton_main attrs ta h

theorem enum_singleton (attrs : List G.Attr) (ea : EnumAttrs) (h : Res.foldlM enumAttrStep {} attrs = .ok ea) :
    (match declInt "singleton" attrs with
     | some a => 0 ≤ a ∧ ea.singleton = some a.toNat
     | none => ea.singleton = none) :=
  enum_singleton_main attrs ea h

/-- the emitted `get()` of a struct singleton is the one-indirection shape at that address, with the
    type's visibility -/
theorem struct_getter_emitted (reg : Registry) (path : Path) (size align : Nat) (vis : Vis) (td : TypeDefn) (a : Nat)
    (h : td.singleton = some a) :
    Sexp.mk "singleton-struct" [.str (path.getLast?.getD ""), Emit.visS vis, .int a] ∈ Emit.typeItems reg path size align vis td :=
  struct_getter_main reg path size align vis td a h

theorem enum_getter_emitted (path : Path) (size : Nat) (vis : Vis) (ed : EnumDefn) (a : Nat) (h : ed.singleton = some a) :
    Sexp.mk "singleton-enum" [.str (path.getLast?.getD ""), Emit.visS vis, .int a] ∈ Emit.enumItems path size vis ed :=
  enum_getter_main path size vis ed a h

theorem no_singleton_no_getter (reg : Registry) (path : Path) (size align : Nat) (vis : Vis) (td : TypeDefn)
    (h : td.singleton = none) :
    ∀ x ∈ Emit.typeItems reg path size align vis td, Sexp.head? x ≠ some "singleton-struct" :=
  no_getter_main reg path size align vis td h

/-- **extern values**: an accepted module's extern value has the declared non-negative address, keeps its
    name and visibility, and one without an address (or with a negative one) is rejected -/
theorem extern_value_address (s s' : State) (m : G.Module) (path : Path) (h : s.addModule m path = .ok s') :
    ∃ md, s'.getModule path = some md ∧ md.xvals.length = m.xvals.length ∧
      ∀ k (hk : k < m.xvals.length) (hk' : k < md.xvals.length),
        ∃ a : Int, declInt "address" m.xvals[k].attrs = some a ∧ 0 ≤ a ∧ md.xvals[k].addr = a.toNat
          ∧ md.xvals[k].name = m.xvals[k].name ∧ md.xvals[k].vis = m.xvals[k].vis ∧ md.xvals[k].gty = m.xvals[k].ty :=
  extern_value_address_main s s' m path h

theorem extern_without_address_rejected (s : State) (m : G.Module) (path : Path)
    (h : ∃ x ∈ m.xvals, declInt "address" x.attrs = none ∨ ∃ a, declInt "address" x.attrs = some a ∧ a < 0) :
    (s.addModule m path).isOk = false :=
  extern_without_address_main s m path h

/-- the accessor emitted for an extern value: `get_<name>`, its visibility, the resolved type, the address -/
theorem extern_accessor_emitted (x : XValue) (t : DTy) (h : x.ty = some t) :
    Emit.xvalItem x = Sexp.mk "xaccessor" [Emit.visS x.vis, .str ("get_" ++ unraw x.name), .str (Emit.tyStr t), .int x.addr] :=
  extern_accessor_main x t h

/-- the type of an extern value is resolved with the module's scope after all types are resolved, and
    an unresolvable one is an error -/
theorem extern_value_type (reg : Registry) (m m' : Mod) (h : resolveXVals reg m = .ok m') :
    m'.xvals.length = m.xvals.length ∧
    ∀ k (hk : k < m.xvals.length) (hk' : k < m'.xvals.length),
      ∃ t, reg.resolveTy m.scope m.xvals[k].gty = .ok t ∧ m'.xvals[k].ty = some t ∧ m'.xvals[k].addr = m.xvals[k].addr
        ∧ m'.xvals[k].name = m.xvals[k].name ∧ m'.xvals[k].vis = m.xvals[k].vis :=
  extern_value_type_main reg m m' h

/-- **modelled run-time meaning** of the three shapes (definitions in `Spec/C15.lean`): the struct getter
    returns `None` exactly when the cell at `A` is null and otherwise the pointer stored there; the enum
    getter the value at `A`; the extern accessor the address `A` itself -/
theorem getter_semantics (mem : Mem) (a : Nat) :
    (execSingletonStruct mem a = none ↔ mem a = 0) ∧ (∀ p, execSingletonStruct mem a = some p → p = mem a ∧ p ≠ 0)
    ∧ execSingletonEnum mem a = mem a ∧ execExternValue a = a :=
  getter_semantics_main mem a

end PyxisVerif.C15
