import PyxisVerif.Spec.C14
import PyxisVerif.Lemmas.C14
/-!
# C14 – every declared item is emitted exactly once, in the file of its module
-/
namespace PyxisVerif.C14
open Gen

/-- **one file per non-root module, at the same relative path with `.rs`** -/
theorem files_per_module (s : State) :
    (Emit.files s).length = (s.modules.filter fun e => !e.1.isEmpty).length
    ∧ ∀ f ∈ Emit.files s, ∃ e ∈ s.modules, e.1 ≠ [] ∧ f = Emit.moduleFile s e.1 e.2 :=
  ⟨files_length s, files_mem s⟩

theorem file_name (s : State) (key : Path) (m : Mod) :
    ∃ body, Emit.moduleFile s key m = Sexp.mk "file" [.str (specFile key), body] :=
  ⟨_, rfl⟩

/-- **content and order of a file**: module docs, then the rust prologues (complete, in source order),
    then the items of the module's definitions sorted by path, then the extern-value accessors sorted
    by name, then the rust epilogues -/
theorem file_content (s : State) (key : Path) (m : Mod) :
    Emit.moduleFile s key m = Sexp.mk "file" [.str (Emit.relFile key), Sexp.mk "rs" (
      Sexp.mk "inner" ((Emit.docLines m.doc).map fun l => Sexp.mk "doc" [.str l]) ::
      ((let pro := (m.backendsFor "rust").filterMap (·.prologue)
        if pro.isEmpty then [] else [Sexp.mk "opaque-block" [.str ("\n".intercalate pro)]]) ++
       (Emit.sortBy (fun (a b : ItemDef) => Path.le a.path b.path) (m.defPaths.filterMap s.reg.get)).flatMap (Emit.itemItems s.reg) ++
       (Emit.sortBy (fun (a b : XValue) => a.name ≤ b.name) m.xvals).map Emit.xvalItem ++
       (let epi := (m.backendsFor "rust").filterMap (·.epilogue)
        if epi.isEmpty then [] else [Sexp.mk "opaque-block" [.str ("\n".intercalate epi)]])))] :=
  rfl

/-- text for other backends is not included: only blocks named `rust` are read -/
theorem other_backends_excluded (m : Mod) (b : SBackend) (h : b ∈ m.backendsFor "rust") :
    ("rust", b) ∈ m.backends :=
  backendsFor_mem m "rust" b h

/-- built-in and extern types are not emitted; a defined, resolved item emits its struct / enum first -/
theorem only_defined_emitted (reg : Registry) (i : ItemDef) (h : i.cat ≠ .defined) : Emit.itemItems reg i = [] :=
  itemItems_not_defined reg i h

/-- each definition path of a module is listed once (the path set behaves as a set) -/
theorem defPaths_nodup (s s' : State) (i : ItemDef) (h : s.addItem i = .ok s')
    (hn : ∀ e ∈ s.modules, e.2.defPaths.Nodup) : ∀ e ∈ s'.modules, e.2.defPaths.Nodup :=
  defPaths_nodup_main s s' i h hn

/-- **two declarations that would produce the same item are an error**: a second definition (type,
    enum or extern type) of a name already registered under the module's path -/
theorem duplicate_definition_rejected (s : State) (m : G.Module) (path : Path)
    (h : ¬ (declaredNames m).Nodup) : (s.addModule m path).isOk = false :=
  duplicate_main s m path h

/-- … and a user definition that collides with the vftable struct generated for another type -/
theorem vftable_clash_rejected (s : State) (owner : Path) (vis : Vis) (fb : Option Region) (fns : List SFunc)
    (item : ItemDef) (existing : ItemDef)
    (hi : buildVftableItem s.reg owner vis fns = some item)
    (he : s.reg.get item.path = some existing) (hne : existing ≠ item) :
    ∃ msg, (buildVftable s owner vis fb (some fns)).2 = .err msg :=
  vftable_clash_main s owner vis fb fns item existing hi he hne

/-- one generated vftable struct per type that declares a block: it is registered under
    `<module>::<Type>Vftable` in the same module -/
theorem vftable_item_path (reg : Registry) (owner : Path) (vis : Vis) (fns : List SFunc) (item : ItemDef)
    (h : buildVftableItem reg owner vis fns = some item) :
    ∃ name, owner.getLast? = some name ∧ item.path = owner.dropLast ++ [name ++ "Vftable"] ∧ item.cat = .defined :=
  vftable_item_path_main reg owner vis fns item h

end PyxisVerif.C14
