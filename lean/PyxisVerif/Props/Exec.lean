import PyxisVerif.Lemmas.Exec
/-!
# Run-time clauses of C04, C05 and C07: what the emitted wrappers *do*

`Props/C04.lean`, `Props/C05.lean`, `Props/C07.lean` cover the shape of the emitted wrappers.  This
file gives the three shapes a (modelled) operational meaning – `Exec.execMethod`, `Exec.execVftable`
in `Lemmas/Exec.lean`, specification part – and connects it to what the builder produces.  What is
observed is the list of calls a wrapper performs (target and actual arguments); the value returned is the
callee's by construction of the three shapes (each *is* the call expression) and is not modelled.

Per item (the hypotheses are those of the existing per-item theorems):

* `vfunc_wrapper_calls_declared_slot` (C04) – the wrapper of the virtual function the description puts in
  slot `p` performs exactly one call, through the word at `vt + p * ps` of the table the accessor returns,
  with the object's address where the receiver is declared and the argument values in order;
* `address_wrapper_calls_declared_address` (C05) – exactly one call to the declared address;
* `forwarder_calls_original_on_subobject` (C07) – a re-exposed base function is the original run on
  `self + offset(base field)`, and that offset is the one C01 assigns (`forwarder_on_built_type`);
* `own_accessor_reads_pointer`, `inherited_accessor_reads_base_pointer` (C06) – the accessor reads the own
  pointer at offset 0, or is the base's accessor on the base sub-object.

For whole accepted types (`built_type_*`, from one hypothesis `buildType … = (s1, .ok r)`) and for the final
registry of every accepted case (`case_*`, from `c.run = .ok s`, by the provenance invariant `case_inv`).

Two hypotheses recur that are *not* consequences of acceptance by pyxis; they say that rustc accepts
the emitted items at all: `DistinctFields` (no two fields of an emitted struct share a name, E0124; for a
generated vftable struct: `(out.map (·.name)).Nodup`) and `DistinctMethods` (no two methods of an emitted
`impl` block share a name, E0592).  The registry `reg` in which the wrappers run is any extension
(`C02.Ext`) of the registry in which the type was built: resolved items never change (`execMethod_mono`).
`fieldOffsets_compiled` shows that the field offsets the semantics uses (layouts recorded in the registry) are
the ones the recursive compiler judgement `C02.Lay` yields.

An inherited table (`D` without a pointer of its own): the wrapper reads the pointer of the base sub-object
(`self + o`) but passes `self as *const Self as _`, the address of the *derived* object, as receiver – the two
coincide exactly when the base supplying the table is at offset 0.
-/
namespace PyxisVerif.Exec
open Gen Layout

/-! ## C05 -/

/-- **C05, run-time clause**: the wrapper built for an impl function declared with `#[address(A)]` performs
    exactly one call, to `A`, passing the declared parameters in declared order – the object's address for
    a receiver, the argument values for the others.  (Any type, any registry, any memory, any fuel.) -/
theorem address_wrapper_calls_declared_address (reg0 : Registry) (scope : List Path) (gf : G.Func) (sf : SFunc)
    (h : buildFunction reg0 scope false gf = .ok sf)
    (reg : Registry) (mem : Mem) (fuel : Nat) (ty : Path) (self : Nat) (args : List Nat) :
    ∃ a : Int, C05.declAddress gf = some a ∧ 0 ≤ a ∧ C05.specArgs reg0 scope gf.args = some sf.args ∧
      execMethod reg mem fuel ty sf self args =
        (passArgs sf.args self args).map fun as => [⟨a.toNat, as⟩] := by
  obtain ⟨⟨a, ha, h0, hb⟩, hargs, _⟩ := C05.built_shape reg0 scope gf sf h
  exact ⟨a, ha, h0, hargs, execMethod_addr reg mem fuel ty sf self args a.toNat hb⟩

/-- … with a receiver declared first: one call to `A` with the object's address followed by the arguments -/
theorem address_wrapper_with_receiver (reg0 : Registry) (scope : List Path) (gf : G.Func) (sf : SFunc)
    (h : buildFunction reg0 scope false gf = .ok sf)
    (recv : G.Arg) (named : List G.Arg) (hg : gf.args = recv :: named) (hr : isRecv recv = true)
    (hn : ∀ x ∈ named, isRecv x = false)
    (reg : Registry) (mem : Mem) (fuel : Nat) (ty : Path) (self : Nat) (args : List Nat)
    (hl : args.length = named.length) :
    ∃ a : Int, C05.declAddress gf = some a ∧ 0 ≤ a ∧
      execMethod reg mem fuel ty sf self args = some [⟨a.toNat, self :: args⟩] := by
  obtain ⟨a, ha, h0, hargs, he⟩ := address_wrapper_calls_declared_address reg0 scope gf sf h reg mem fuel ty self args
  refine ⟨a, ha, h0, ?_⟩
  rw [he, passArgs_of_decl_recv sf.args gf.args (specArgs_isSelf reg0 scope _ _ hargs) recv named hg hr hn self args hl]
  rfl

/-- … without a receiver: one call to `A` with the arguments -/
theorem address_wrapper_static (reg0 : Registry) (scope : List Path) (gf : G.Func) (sf : SFunc)
    (h : buildFunction reg0 scope false gf = .ok sf) (hn : ∀ x ∈ gf.args, isRecv x = false)
    (reg : Registry) (mem : Mem) (fuel : Nat) (ty : Path) (self : Nat) (args : List Nat)
    (hl : args.length = gf.args.length) :
    ∃ a : Int, C05.declAddress gf = some a ∧ 0 ≤ a ∧
      execMethod reg mem fuel ty sf self args = some [⟨a.toNat, args⟩] := by
  obtain ⟨a, ha, h0, hargs, he⟩ := address_wrapper_calls_declared_address reg0 scope gf sf h reg mem fuel ty self args
  refine ⟨a, ha, h0, ?_⟩
  rw [he, passArgs_of_decl_static sf.args gf.args (specArgs_isSelf reg0 scope _ _ hargs) hn self args hl]
  rfl

/-! ## C04 -/

/-- the parameters of a built function are the declared ones, resolved (virtual or not) -/
theorem built_args (reg0 : Registry) (scope : List Path) (isV : Bool) (gf : G.Func) (sf : SFunc)
    (h : buildFunction reg0 scope isV gf = .ok sf) : C05.specArgs reg0 scope gf.args = some sf.args := by
  obtain ⟨_, _, _, args, _, _, _, _, hargs, _, _, _, _, _, ha, _⟩ := buildFunction_ok reg0 scope isV gf sf h
  rw [ha]
  exact C05.specArgs_of_mapM reg0 scope gf.args args hargs

/-- **C04, run-time clause**.  A vftable block `gfns` is accepted (`convertVfuncs`, giving the table `out`)
    and the description puts its `j`-th function `gf` in slot `p` (`C04.specPositions`: written index, else
    predecessor + 1).  In any registry `reg` that holds the generated vftable struct under its path and a type
    `ty` whose vftable is that table (`v.fns = out`, accessor return type `*const <that struct>`), on an object
    at `self` whose accessor yields `vt`: the wrapper of `gf` (the function value in slot `p`, named like `gf`)
    performs exactly one call, to the word stored at `vt + p * ps`, passing the declared parameters in
    declared order – the object's address for the receiver, the argument values for the others.

    The slot is found by *name* in the emitted struct and placed by the modelled compiler; `hnd` is
    rustc's demand that the fields of that struct have distinct names. -/
theorem vfunc_wrapper_calls_declared_slot
    (reg0 : Registry) (scope : List Path) (size : Option Nat) (gfns : List G.Func) (out : List SFunc)
    (hconv : convertVfuncs reg0 scope size gfns = .ok out)
    (owner : Path) (vis : Vis) (item : ItemDef) (hitem : buildVftableItem reg0 owner vis out = some item)
    (pos : List Nat) (hpos : C04.specPositions 0 (gfns.map C04.declIndex) = some pos)
    (j : Nat) (gf : G.Func) (p : Nat) (hj : gfns[j]? = some gf) (hp : pos[j]? = some p)
    (reg : Registry) (hps : 0 < reg.ps) (hget : reg.get item.path = some item)
    (ty : Path) (td : TypeDefn) (v : Vft) (hty : typeDefn? reg ty = some td) (hv : td.vft = some v)
    (hfns : v.fns = out) (hvty : v.ty = .cptr (.raw item.path))
    (hnd : (out.map (·.name)).Nodup)
    (mem : Mem) (fuel : Nat) (self vt : Nat) (args : List Nat)
    (hacc : execVftable reg mem fuel ty self = some vt) :
    ∃ sf, out[p]? = some sf ∧ sf.name = gf.name ∧ C05.specArgs reg0 scope gf.args = some sf.args ∧
      execMethod reg mem fuel ty sf self args =
        (passArgs sf.args self args).map fun as => [⟨mem (vt + p * reg.ps), as⟩] := by
  obtain ⟨sf, hsf, hout, hbody, hname⟩ := vfunc_built reg0 scope size gfns out hconv pos hpos j gf p hj hp
  obtain ⟨vtd, hstate, hregions, _⟩ := C04.vftable_item reg0 owner vis out item hitem
  refine ⟨sf, hout, hname, built_args reg0 scope true gf sf hsf, ?_⟩
  have hvtd : typeDefn? reg item.path = some vtd := typeDefn?_of_get reg _ item _ vtd hget hstate rfl
  have hpk : vtd.packed = false := by
    unfold buildVftableItem at hitem
    cases hvp : vftablePath owner with
    | none => simp [hvp] at hitem
    | some q =>
      simp only [hvp, Option.map_some, Option.some.injEq] at hitem
      subst hitem
      simp only [IState.res.injEq, Resolved.mk.injEq, SInner.type.injEq] at hstate
      rw [← hstate.2.2]
  exact vfunc_calls_slot reg mem fuel ty sf self args td vtd v item.path owner p vt hty hv hvty hvtd
    (by rw [hfns]; exact hregions) hpk (by rw [hfns]; exact hout) hbody (by rw [hfns]; exact hnd) hps hacc

/-- … with the receiver declared first (the usual shape): one call through slot `p`, the object's address
    followed by the arguments -/
theorem vfunc_wrapper_with_receiver
    (reg0 : Registry) (scope : List Path) (size : Option Nat) (gfns : List G.Func) (out : List SFunc)
    (hconv : convertVfuncs reg0 scope size gfns = .ok out)
    (owner : Path) (vis : Vis) (item : ItemDef) (hitem : buildVftableItem reg0 owner vis out = some item)
    (pos : List Nat) (hpos : C04.specPositions 0 (gfns.map C04.declIndex) = some pos)
    (j : Nat) (gf : G.Func) (p : Nat) (hj : gfns[j]? = some gf) (hp : pos[j]? = some p)
    (recv : G.Arg) (named : List G.Arg) (hg : gf.args = recv :: named) (hr : isRecv recv = true)
    (hn : ∀ x ∈ named, isRecv x = false)
    (reg : Registry) (hps : 0 < reg.ps) (hget : reg.get item.path = some item)
    (ty : Path) (td : TypeDefn) (v : Vft) (hty : typeDefn? reg ty = some td) (hv : td.vft = some v)
    (hfns : v.fns = out) (hvty : v.ty = .cptr (.raw item.path))
    (hnd : (out.map (·.name)).Nodup)
    (mem : Mem) (fuel : Nat) (self vt : Nat) (args : List Nat) (hl : args.length = named.length)
    (hacc : execVftable reg mem fuel ty self = some vt) :
    ∃ sf, out[p]? = some sf ∧ sf.name = gf.name ∧
      execMethod reg mem fuel ty sf self args = some [⟨mem (vt + p * reg.ps), self :: args⟩] := by
  obtain ⟨sf, hout, hname, hargs, he⟩ := vfunc_wrapper_calls_declared_slot reg0 scope size gfns out hconv owner vis item
    hitem pos hpos j gf p hj hp reg hps hget ty td v hty hv hfns hvty hnd mem fuel self vt args hacc
  refine ⟨sf, hout, hname, ?_⟩
  rw [he, passArgs_of_decl_recv sf.args gf.args (specArgs_isSelf reg0 scope _ _ hargs) recv named hg hr hn self args hl]
  rfl

/-! ## C06: the accessor -/

/-- **own pointer**: a type that declares a vftable block and has no base supplying one
    (`C06.own_pointer`) went through the layout core with its pointer region (`hres`, `hn`: what
    `resolve_regions` does).  Its accessor reads one word, at the object's address: the pointer is the first
    field, at offset 0 for the modelled compiler. -/
theorem own_accessor_reads_pointer (s s1 : State) (owner : Path) (vis : Vis) (fb : Option Region) (fns : List SFunc)
    (v : Option Vft) (ptr : Option Region) (vpath : Path) (hp : vftablePath owner = some vpath)
    (h : buildVftable s owner vis fb (some fns) = (s1, .ok (v, ptr)))
    (hb : baseVftable s1.reg fb = .ok none)
    (hprims : C02.PrimsOk s1.reg)
    (pending : List (Option Nat × Region)) (target : Option Nat) (placed : List (Placed Region)) (size : Nat)
    (td : TypeDefn)
    (hres : resolve (ptr.map (toPField s1.reg none)) (pending.map fun p => toPField s1.reg p.1 p.2) target
      = .ok (placed, size))
    (hn : nameRegions s1.reg 0 placed = .ok td.regions) (hvft : td.vft = v)
    (reg : Registry) (he : C02.Ext s1.reg reg) (ty : Path) (hty : typeDefn? reg ty = some td)
    (mem : Mem) (fuel : Nat) (self : Nat) :
    td.regions.head? = some (C06.ownPointer vpath) ∧
    execVftable reg mem (fuel + 1) ty self = some (mem self) := by
  obtain ⟨hptr, hv⟩ := C06.own_pointer s s1 owner vis fb fns v ptr vpath hp h hb
  subst hptr
  obtain ⟨ho, hhead⟩ := own_pointer_offset s1.reg hprims (C06.ownPointer vpath) pending target placed size td
    rfl rfl hres hn
  refine ⟨hhead, ?_⟩
  exact execVftable_own reg mem fuel ty self td _ 0 hty (by rw [hvft, hv]) rfl
    (fieldOffset_mono he td _ 0 ho)

/-- **inherited pointer**: a type without a vftable block whose first base has a vftable
    (`C06.inherited`) gets the base's table and no pointer; its accessor is the accessor of the base's type
    run on the base sub-object, which lies at the offset C01 assigns to the base field – 0 when the base is
    the first declared field and is written without an address (`declared_first`). -/
theorem inherited_accessor_reads_base_pointer (s s1 : State) (owner : Path) (vis : Vis) (fb : Option Region)
    (v : Vft) (ptr : Option Region)
    (h : buildVftable s owner vis fb none = (s1, .ok (some v, ptr)))
    (hprims : C02.PrimsOk s1.reg)
    (pending : List (Option Nat × Region)) (hfb : fb = (pending.map (·.2)).find? (·.isBase))
    (target align? : Option Nat) (placed : List (Placed Region)) (size a : Nat) (td : TypeDefn)
    (hres : resolve (ptr.map (toPField s1.reg none)) (pending.map fun p => toPField s1.reg p.1 p.2) target
      = .ok (placed, size))
    (hal : alignCheck s1.reg.ps td.packed align? placed size = .ok a)
    (hn : nameRegions s1.reg 0 placed = .ok td.regions) (hdf : DistinctFields td) (hvft : td.vft = some v)
    (reg : Registry) (he : C02.Ext s1.reg reg) (ty : Path) (hty : typeDefn? reg ty = some td) :
    ∃ rg bn bp btd bv o,
      fb = some rg ∧ rg.name = some bn ∧ rg.ty = .data (.raw bp) ∧ v.baseField = some bn ∧
      typeDefn? reg bp = some btd ∧ btd.vft = some bv ∧ v.fns = bv.fns ∧ v.ty = bv.ty ∧
      (o, rg) ∈ declaredOffsets none (pending.map fun p => toPField s1.reg p.1 p.2) ∧
      fieldOffset reg td bn = some o ∧
      ∀ (mem : Mem) (fuel self : Nat),
        execVftable reg mem (fuel + 1) ty self = execVftable reg mem fuel bp (self + o) := by
  obtain ⟨hs, hptr, hm⟩ := C06.inherited s s1 owner vis fb (some v) ptr h
  subst hs; subst hptr
  cases hbv : baseVftable s1.reg fb with
  | ok x =>
    cases x with
    | none => simp [hbv] at hm
    | some y =>
      obtain ⟨bn, bv⟩ := y
      simp only [hbv, Option.some.injEq] at hm
      subst hm
      obtain ⟨rg, bp, btd, hfb', hname, hrty, hbtd, hbvft⟩ := baseVftable_some_inv s1.reg fb bn bv hbv
      have hmem : rg ∈ pending.map (·.2) := by
        rw [hfb'] at hfb
        exact List.mem_of_find?_eq_some hfb.symm
      obtain ⟨o, ho⟩ := declared_of_pending (reg := s1.reg) none pending rg bp hmem hrty
      obtain ⟨hoff, hfind⟩ := fieldOffset_declared s1.reg hprims none pending target align? placed size a td hres hal hn
        hdf o rg bn hname ho
      have hbp : fieldTypePath td bn = some bp := fieldTypePath_of_find td bn rg bp hfind hrty
      refine ⟨rg, bn, bp, btd, bv, o, hfb', hname, hrty, rfl, typeDefn?_mono he bp btd hbtd, hbvft, rfl, rfl, ho,
        fieldOffset_mono he td bn o hoff, ?_⟩
      intro mem fuel self
      exact execVftable_base reg mem fuel ty self td _ bn bp o hty hvft rfl hbp (fieldOffset_mono he td bn o hoff)
  | defer => simp [hbv] at hm
  | err m => simp [hbv] at hm
  | panic m => simp [hbv] at hm

/-! ## C07 -/

/-- **C07, run-time clause** (registry level).  `g` is one of the functions the builder re-exposes for base
    field `b` (`C07.specInject`, the functions `C07.addFunctions_spec` says are added; `fs` is what
    `inject_bases` hands over: the base type's associated functions or its vftable's functions).  Then `g`
    forwards to a public function `f` of the base, and calling `g` on an object at `self` has exactly the
    effect of calling `f` on the base sub-object: the receiver the callee sees is `self + o`, `o` being where
    the modelled compiler puts field `b` in the emitted struct of the derived type. -/
theorem forwarder_calls_original_on_subobject (reg : Registry) (mem : Mem) (fuel : Nat)
    (D : Path) (td btd : TypeDefn) (b : String) (bp : Path) (o : Nat)
    (hD : typeDefn? reg D = some td) (hbp : fieldTypePath td b = some bp) (ho : fieldOffset reg td b = some o)
    (hB : typeDefn? reg bp = some btd) (hdm : DistinctMethods btd)
    (fs : List SFunc) (hfs : fs = btd.fns ∨ ∃ v, btd.vft = some v ∧ fs = v.fns)
    (used : List String) (g : SFunc) (hg : g ∈ C07.specInject b used fs) (self : Nat) (args : List Nat) :
    ∃ f ∈ fs, f.vis = .pub ∧ f.isInternal = false ∧ g.body = .field b f.name ∧
      execMethod reg mem (fuel + 1) D g self args = execMethod reg mem fuel bp f (self + o) args := by
  obtain ⟨f, hf, hpub, hint, hbody⟩ := C07.private_not_reexposed b used fs g hg
  refine ⟨f, hf, hpub, hint, hbody, ?_⟩
  have hem : f ∈ emittedMethods btd := by
    rcases hfs with rfl | ⟨v, hv, rfl⟩
    · exact mem_emitted_of_fns btd f hf hint
    · exact mem_emitted_of_vft btd v hv f hf hint
  exact execMethod_field reg mem fuel D g self args b f.name td btd bp o f hbody hD hbp ho hB
    (findMethod_of_nodup btd f hem hdm)

/-- conversely, *every* public (non-internal) function of the base is re-exposed, under its own name or
    `<field>_<name>`, with the same parameters, and calling it is calling the original on the sub-object -/
theorem every_public_function_forwarded (reg : Registry) (mem : Mem) (fuel : Nat)
    (D : Path) (td btd : TypeDefn) (b : String) (bp : Path) (o : Nat)
    (hD : typeDefn? reg D = some td) (hbp : fieldTypePath td b = some bp) (ho : fieldOffset reg td b = some o)
    (hB : typeDefn? reg bp = some btd) (hdm : DistinctMethods btd)
    (fs : List SFunc) (hfs : fs = btd.fns ∨ ∃ v, btd.vft = some v ∧ fs = v.fns)
    (used : List String) (f : SFunc) (hf : f ∈ fs) (hpub : f.vis = .pub) (hint : f.isInternal = false) :
    ∃ g ∈ C07.specInject b used fs, (g.name = f.name ∨ g.name = C07.renamed b f.name) ∧ g.args = f.args ∧
      ∀ (self : Nat) (args : List Nat),
        execMethod reg mem (fuel + 1) D g self args = execMethod reg mem fuel bp f (self + o) args := by
  obtain ⟨g, hg, hbody, hname, hargs, _⟩ := C07.every_public_reexposed b used fs f hf hpub hint
  refine ⟨g, hg, hname, hargs, ?_⟩
  intro self args
  have hem : f ∈ emittedMethods btd := by
    rcases hfs with rfl | ⟨v, hv, rfl⟩
    · exact mem_emitted_of_fns btd f hf hint
    · exact mem_emitted_of_vft btd v hv f hf hint
  exact execMethod_field reg mem fuel D g self args b f.name td btd bp o f hbody hD hbp ho hB
    (findMethod_of_nodup btd f hem hdm)

/-- **… and the offset is the one C01 assigns.**  The derived type went through the layout core in registry
    `reg0` (`hres`, `hal`, `hn`: placement, alignment block, naming – the decomposition `C01.buildType_layout`
    gives), `rg` is its declared field `b`, of the named type `bp`, and `(o, rg)` is C01's answer for it
    (`declaredOffsets` = the right-hand side of `C01.placed_at_spec`).  Then in every registry extending
    `reg0`, a forwarder to base field `b` runs the original with receiver `self + o`. -/
theorem forwarder_on_built_type (reg0 : Registry) (hprims : C02.PrimsOk reg0)
    (vptr : Option Region) (pending : List (Option Nat × Region)) (target align? : Option Nat)
    (placed : List (Placed Region)) (size a : Nat) (td : TypeDefn)
    (hres : resolve (vptr.map (toPField reg0 none)) (pending.map fun p => toPField reg0 p.1 p.2) target
      = .ok (placed, size))
    (hal : alignCheck reg0.ps td.packed align? placed size = .ok a)
    (hn : nameRegions reg0 0 placed = .ok td.regions) (hdf : DistinctFields td)
    (o : Nat) (rg : Region) (b : String) (bp : Path) (hb : rg.name = some b) (hrty : rg.ty = .data (.raw bp))
    (hmem : (o, rg) ∈ declaredOffsets (vptr.map (toPField reg0 none)) (pending.map fun p => toPField reg0 p.1 p.2))
    (reg : Registry) (he : C02.Ext reg0 reg) (D : Path) (hD : typeDefn? reg D = some td)
    (btd : TypeDefn) (hB : typeDefn? reg bp = some btd) (hdm : DistinctMethods btd)
    (fs : List SFunc) (hfs : fs = btd.fns ∨ ∃ v, btd.vft = some v ∧ fs = v.fns)
    (used : List String) (g : SFunc) (hg : g ∈ C07.specInject b used fs)
    (mem : Mem) (fuel : Nat) (self : Nat) (args : List Nat) :
    fieldOffset reg td b = some o ∧
    ∃ f ∈ fs, f.vis = .pub ∧ f.isInternal = false ∧ g.body = .field b f.name ∧
      execMethod reg mem (fuel + 1) D g self args = execMethod reg mem fuel bp f (self + o) args := by
  obtain ⟨hoff, hfind⟩ := fieldOffset_declared reg0 hprims vptr pending target align? placed size a td hres hal hn
    hdf o rg b hb hmem
  have hbp : fieldTypePath td b = some bp := fieldTypePath_of_find td b rg bp hfind hrty
  have ho := fieldOffset_mono he td b o hoff
  exact ⟨ho, forwarder_calls_original_on_subobject reg mem fuel D td btd b bp o hD hbp ho hB hdm fs hfs used g hg self args⟩

/-! ## whole accepted types

The theorems above take the per-item hypotheses of the existing theorems (`convertVfuncs`, `buildVftable`,
`resolve`, `alignCheck`, `nameRegions`, `specInject`, `buildFunction`).  `buildType_parts` (in
`Lemmas/Exec.lean`) decomposes an accepted `type_definition::build` into exactly these, so the run-time clauses
hold for every type the builder accepts; `s1` is the state right after the build (the generated vftable struct
added), `reg` any registry extending it – in particular the registry after the type's own result is stored
(`attempt_registers` in `Lemmas/Exec.lean`) and every later one. -/

/-- **C05 for a whole accepted type**: every function of the type's (merged) `impl` block has a wrapper among the
    type's associated functions, with the same name, and running it – on any object, in any registry – performs
    exactly one call to the declared address -/
theorem built_type_address_methods (s s1 : State) (path : Path) (vis : Vis) (d : G.TypeDef) (r : Resolved)
    (h : buildType s path vis d = (s1, .ok r)) :
    ∃ td module1, r.inner = .type td ∧ s1.moduleFor path = some module1 ∧
      ∀ im, module1.implFor path = some im → ∀ gf ∈ im.fns,
        ∃ sf ∈ td.fns, sf.name = gf.name ∧ ∃ a : Int, C05.declAddress gf = some a ∧ 0 ≤ a ∧
          C05.specArgs s1.reg module1.scope gf.args = some sf.args ∧
          ∀ (reg : Registry) (mem : Mem) (fuel : Nat) (ty : Path) (self : Nat) (args : List Nat),
            execMethod reg mem fuel ty sf self args =
              (passArgs sf.args self args).map fun as => [⟨a.toNat, as⟩] := by
  obtain ⟨module, module1, ta, sa, vft, vregion, placed, acc1, acc2, td, _, hmod1, _, _, _, _, _, _, hacc2, hin, hfns, _⟩ :=
    buildType_parts s s1 path vis d r h
  refine ⟨td, module1, hin, hmod1, ?_⟩
  intro im him gf hgf
  rw [him] at hacc2
  obtain ⟨built, hbuilt, hfns2⟩ := C05.impl_functions_all_present s1.reg module1.scope im acc1 acc2 hacc2
  obtain ⟨hl, hpt⟩ := C15.mapM'_ok _ im.fns built hbuilt
  obtain ⟨k, hk, hke⟩ := List.mem_iff_getElem.mp hgf
  have hkb : k < built.length := by rw [hl]; exact hk
  have hb := hpt k hk hkb
  rw [hke] at hb
  obtain ⟨_, _, _, hname, _⟩ := C05.built_shape s1.reg module1.scope gf built[k] hb
  refine ⟨built[k], ?_, hname, ?_⟩
  · rw [hfns, hfns2]; exact List.mem_append_right _ (List.getElem_mem hkb)
  · obtain ⟨a, ha, h0, hargs, _⟩ := address_wrapper_calls_declared_address s1.reg module1.scope gf built[k] hb
      s1.reg (fun _ => 0) 0 [] 0 []
    refine ⟨a, ha, h0, hargs, ?_⟩
    intro reg mem fuel ty self args
    obtain ⟨a', ha', _, _, he⟩ := address_wrapper_calls_declared_address s1.reg module1.scope gf built[k] hb
      reg mem fuel ty self args
    rw [ha] at ha'
    cases ha'
    exact he

/-- **C04 for a whole accepted type**: a type whose first statement is a vftable block `gfns` is accepted.  Then
    the block converts (`convertVfuncs`, table `out`), the type's table is `out` with the generated struct
    `<T>Vftable` – present in the registry, one function-pointer field per slot – as accessor return type, and in
    every later registry the wrapper of the function the description puts in slot `p` performs exactly one call
    through the word at `vt + p * ps` of the table `vt` the accessor yields. -/
theorem built_type_vfunc_wrappers (s s1 : State) (path : Path) (vis : Vis) (d : G.TypeDef) (r : Resolved)
    (h : buildType s path vis d = (s1, .ok r))
    (st : G.Stmt) (gfns : List G.Func) (hst : d.stmts[0]? = some st) (hfield : st.field = .vftable gfns)
    (vpath : Path) (hvp : vftablePath path = some vpath) :
    ∃ td module size out v, r.inner = .type td ∧ s.moduleFor path = some module ∧
      vftableSizeAttr st.attrs = .ok size ∧ convertVfuncs s.reg module.scope size gfns = .ok out ∧
      td.vft = some v ∧ v.fns = out ∧ v.ty = .cptr (.raw vpath) ∧
      typeDefn? s1.reg vpath = some { regions := out.map (functionToRegion path) } ∧
      ∀ (pos : List Nat), C04.specPositions 0 (gfns.map C04.declIndex) = some pos →
      ∀ (j : Nat) (gf : G.Func) (p : Nat), gfns[j]? = some gf → pos[j]? = some p →
      ∀ (reg : Registry), C02.Ext s1.reg reg → 0 < reg.ps → typeDefn? reg path = some td → (out.map (·.name)).Nodup →
      ∀ (mem : Mem) (fuel self vt : Nat) (args : List Nat), execVftable reg mem fuel path self = some vt →
        ∃ sf, out[p]? = some sf ∧ sf.name = gf.name ∧ C05.specArgs s.reg module.scope gf.args = some sf.args ∧
          execMethod reg mem fuel path sf self args =
            (passArgs sf.args self args).map fun as => [⟨mem (vt + p * reg.ps), as⟩] := by
  obtain ⟨module, module1, ta, sa, vft, vregion, placed, acc1, acc2, td, hmod, _, hsa, hbv, _, _, _, _, _, hin, _, hvft⟩ :=
    buildType_parts s s1 path vis d r h
  obtain ⟨size, out, hsize, hconv, hvfns⟩ := stmts_vfns_of_block s.reg module.scope d.stmts sa hsa st gfns hst hfield
  rw [hvfns] at hbv
  rcases buildVftable_some_inv s s1 path vis _ out vft vregion hbv with ⟨hnone, _⟩ | ⟨item, hitem, hget, hext, bf, hv⟩
  · rw [hvp] at hnone; cases hnone
  · have hpath : item.path = vpath := by
      have := vftablePath_of_item s.reg path vis out item hitem
      rw [hvp] at this; cases this; rfl
    obtain ⟨vtd, hstate, hregions, _⟩ := C04.vftable_item s.reg path vis out item hitem
    have hvtd : vtd = { regions := out.map (functionToRegion path) } := by
      unfold buildVftableItem at hitem
      rw [hvp] at hitem
      simp only [Option.map_some, Option.some.injEq] at hitem
      subst hitem
      simp only [IState.res.injEq, Resolved.mk.injEq, SInner.type.injEq] at hstate
      exact hstate.2.2.symm
    refine ⟨td, module, size, out, _, hin, hmod, hsize, hconv, by rw [hvft, hv], rfl, by rw [hpath], ?_, ?_⟩
    · rw [← hpath, ← hvtd]
      exact typeDefn?_of_get s1.reg _ item _ vtd hget hstate rfl
    · intro pos hpos j gf p hj hp reg he hps hty hnd mem fuel self vt args hacc
      exact vfunc_wrapper_calls_declared_slot s.reg module.scope size gfns out hconv path vis item hitem pos hpos j gf p hj hp
        reg hps (he.res hget hstate) path td _ hty (by rw [hvft, hv]) rfl rfl hnd mem fuel self vt args hacc

/-- **C07 for a whole accepted type**: every associated function of an accepted type is either an address-bound
    wrapper (from its `impl` block) or a forwarder of one of its `#[base]` fields `rg` (named `b`, of the resolved type
    `bp`) to a public function `f` of that base; the base field has an offset `o` assigned by C01
    (`declaredOffsets` over the placement `resolve_regions` performed), and in every later registry – provided rustc
    accepts the emitted struct and the base's `impl` block – calling the forwarder on an object at `self` is
    calling `f` on the sub-object at `self + o`. -/
theorem built_type_forwarders (s s1 : State) (path : Path) (vis : Vis) (d : G.TypeDef) (r : Resolved)
    (h : buildType s path vis d = (s1, .ok r)) (hprims : C02.PrimsOk s.reg) :
    ∃ (td : TypeDefn) (vptr : Option Region) (pending : List (Option Nat × Region)) (target : Option Nat)
      (placed : List (Placed Region)),
      r.inner = .type td ∧
      resolve (vptr.map (toPField s1.reg none)) (pending.map fun p => toPField s1.reg p.1 p.2) target = .ok (placed, r.size) ∧
      nameRegions s1.reg 0 placed = .ok td.regions ∧
      ∀ g ∈ td.fns,
        (∃ a, g.body = .addr a) ∨
        ∃ rg ∈ td.regions, ∃ (b : String) (bp : Path) (btd : TypeDefn) (fs : List SFunc) (used : List String) (o : Nat),
          rg.isBase = true ∧ rg.name = some b ∧ rg.ty = .data (.raw bp) ∧ typeDefn? s1.reg bp = some btd ∧
          (fs = btd.fns ∨ ∃ v, btd.vft = some v ∧ fs = v.fns) ∧ g ∈ C07.specInject b used fs ∧
          (o, rg) ∈ declaredOffsets (vptr.map (toPField s1.reg none)) (pending.map fun p => toPField s1.reg p.1 p.2) ∧
          ∀ (reg : Registry), C02.Ext s1.reg reg → typeDefn? reg path = some td → DistinctFields td → DistinctMethods btd →
            fieldOffset reg td b = some o ∧
            ∀ (mem : Mem) (fuel self : Nat) (args : List Nat),
              ∃ f ∈ fs, f.vis = .pub ∧ f.isInternal = false ∧ g.body = .field b f.name ∧
                execMethod reg mem (fuel + 1) path g self args = execMethod reg mem fuel bp f (self + o) args := by
  obtain ⟨module, module1, ta, sa, vft, vregion, placed, acc1, acc2, td, _, hmod1, _, hbv, hres, hn, hal, hacc1, hacc2,
    hin, hfns, _⟩ := buildType_parts s s1 path vis d r h
  have hprims1 : C02.PrimsOk s1.reg := primsOk_ext (buildVftable_ext s s1 path vis _ _ _ hbv) hprims
  refine ⟨td, vregion, sa.pending, ta.targetSize, placed, hin, hres, hn, ?_⟩
  intro g hg
  rw [hfns] at hg
  -- impl functions or injected ones
  have hsplit : g ∈ acc1.fns ∨ ∃ a, g.body = .addr a := by
    cases him : module1.implFor path with
    | none =>
      rw [him] at hacc2
      simp only [addImplFns, Res.ok.injEq] at hacc2
      subst hacc2
      exact Or.inl hg
    | some im =>
      rw [him] at hacc2
      obtain ⟨built, hbuilt, hfns2⟩ := C05.impl_functions_all_present s1.reg module1.scope im acc1 acc2 hacc2
      rw [hfns2] at hg
      rcases List.mem_append.mp hg with hg | hg
      · exact Or.inl hg
      · right
        obtain ⟨hl, hpt⟩ := C15.mapM'_ok _ im.fns built hbuilt
        obtain ⟨k, hk, hke⟩ := List.mem_iff_getElem.mp hg
        have hb := hpt k (by rw [← hl]; exact hk) hk
        rw [hke] at hb
        obtain ⟨⟨a, _, _, hbody⟩, _⟩ := C05.built_shape s1.reg module1.scope _ g hb
        exact ⟨_, hbody⟩
  rcases hsplit with hg1 | haddr
  · rcases injectBases_forwarders s1.reg td.regions _ acc1 hacc1 g hg1 with hnil | hfw
    · cases hnil
    · right
      obtain ⟨rg, hrg, hbase, b, bp, btd, fs, used, hname, hrty, hbtd, hfs, hspec⟩ := hfw
      obtain ⟨o, ho⟩ := base_region_declared s1.reg vregion sa.pending ta.targetSize ta.align placed r.size r.align td
        hres hal hn rg hrg hbase
      refine ⟨rg, hrg, b, bp, btd, fs, used, o, hbase, hname, hrty, hbtd, hfs, hspec, ho, ?_⟩
      intro reg he hty hdf hdm
      have hfo := forwarder_on_built_type s1.reg hprims1 vregion sa.pending ta.targetSize ta.align placed r.size r.align td
        hres hal hn hdf o rg b bp hname hrty ho reg he path hty btd (typeDefn?_mono he bp btd hbtd) hdm fs hfs used g hspec
      refine ⟨(hfo (fun _ => 0) 0 0 []).1, ?_⟩
      intro mem fuel self args
      exact (hfo mem fuel self args).2
  · exact Or.inl haddr

/-- **C06 for a whole accepted type**: the accessor of an accepted type with a vftable `v`.
    Own pointer (`v.baseField = none`): the first field of the emitted struct is the pointer `vftable`, and the
    accessor reads the word at the object's address.  Pointer supplied by a base (`v.baseField = some bn`, with or
    without a vftable block of its own): `bn` is a `#[base]` field of a resolved type with a vftable whose slots are
    a prefix of `v`'s, and the accessor is that type's accessor run on the sub-object at the offset of `bn`. -/
theorem built_type_accessor (s s1 : State) (path : Path) (vis : Vis) (d : G.TypeDef) (r : Resolved)
    (h : buildType s path vis d = (s1, .ok r)) (hprims : C02.PrimsOk s.reg) :
    ∃ td, r.inner = .type td ∧ ∀ v, td.vft = some v →
      (v.baseField = none →
        (td.regions.head?.bind (·.name)) = some vftableFieldName ∧
        ∀ (reg : Registry), C02.Ext s1.reg reg → typeDefn? reg path = some td →
          ∀ (mem : Mem) (fuel self : Nat), execVftable reg mem (fuel + 1) path self = some (mem self)) ∧
      (∀ bn, v.baseField = some bn →
        ∃ rg ∈ td.regions, ∃ (bp : Path) (btd : TypeDefn) (bv : Vft) (o : Nat),
          rg.isBase = true ∧ rg.name = some bn ∧ rg.ty = .data (.raw bp) ∧ typeDefn? s1.reg bp = some btd ∧
          btd.vft = some bv ∧ bv.fns <+: v.fns ∧
          ∀ (reg : Registry), C02.Ext s1.reg reg → typeDefn? reg path = some td → DistinctFields td →
            fieldOffset reg td bn = some o ∧
            ∀ (mem : Mem) (fuel self : Nat),
              execVftable reg mem (fuel + 1) path self = execVftable reg mem fuel bp (self + o)) := by
  obtain ⟨module, module1, ta, sa, vft, vregion, placed, acc1, acc2, td, _, _, _, hbv, hres, hn, hal, _, _, hin, _, hvft⟩ :=
    buildType_parts s s1 path vis d r h
  have hext := buildVftable_ext s s1 path vis _ _ _ hbv
  have hprims1 : C02.PrimsOk s1.reg := primsOk_ext hext hprims
  refine ⟨td, hin, ?_⟩
  intro v hv
  rw [hvft] at hv
  subst hv
  -- the part shared by the two "through a base" cases
  have through : ∀ (bn : String) (bv : Vft), baseVftable s1.reg ((sa.pending.map (·.2)).find? (·.isBase)) = .ok (some (bn, bv)) →
      vregion = none → v.baseField = some bn → bv.fns <+: v.fns →
      ∃ rg ∈ td.regions, ∃ (bp : Path) (btd : TypeDefn) (bv : Vft) (o : Nat),
          rg.isBase = true ∧ rg.name = some bn ∧ rg.ty = .data (.raw bp) ∧ typeDefn? s1.reg bp = some btd ∧
          btd.vft = some bv ∧ bv.fns <+: v.fns ∧
          ∀ (reg : Registry), C02.Ext s1.reg reg → typeDefn? reg path = some td → DistinctFields td →
            fieldOffset reg td bn = some o ∧
            ∀ (mem : Mem) (fuel self : Nat),
              execVftable reg mem (fuel + 1) path self = execVftable reg mem fuel bp (self + o) := by
    intro bn bv hb hvr hbf hpre
    subst hvr
    obtain ⟨rg, bp, btd, hfb', hname, hrty, hbtd, hbvft⟩ := baseVftable_some_inv s1.reg _ bn bv hb
    have hbase : rg.isBase = true := by
      have := List.find?_some hfb'
      simpa using this
    have hmem : rg ∈ sa.pending.map (·.2) := List.mem_of_find?_eq_some hfb'
    obtain ⟨o, ho⟩ := declared_of_pending (reg := s1.reg) none sa.pending rg bp hmem hrty
    -- `rg` is a region of the emitted struct (it is placed, and naming keeps named regions)
    have hrgmem : rg ∈ td.regions := by
      have hex : _ = declaredOffsets none (sa.pending.map fun p => toPField s1.reg p.1 p.2) :=
        offsets_exact s1.reg.ps td.packed ta.align _ _ ta.targetSize placed r.size r.align hres hal
      rw [← hex] at ho
      obtain ⟨p, hp1, hp2⟩ := List.mem_filterMap.mp ho
      obtain ⟨k, hk⟩ := List.mem_iff_getElem?.mp hp1
      obtain ⟨_, hk2⟩ := List.getElem?_zip_eq_some.mp hk
      cases hsrc : p.2.src with
      | none => simp [hsrc] at hp2
      | some x =>
        simp only [hsrc, Option.map_some, Option.some.injEq, Prod.mk.injEq] at hp2
        obtain ⟨_, hx⟩ := hp2
        subst hx
        obtain ⟨hlen, hnamed⟩ := C01.nameRegions_types_lem s1.reg 0 placed td.regions hn
        obtain ⟨hkl, hke⟩ := List.getElem?_eq_some_iff.mp hk2
        have hkr : k < td.regions.length := by rw [hlen]; exact hkl
        have hna := hnamed k hkl hkr
        unfold C01.NamedAs at hna
        rw [hke, hsrc] at hna
        rw [← hna.2 (by rw [hname]; rfl)]
        exact List.getElem_mem hkr
    refine ⟨rg, hrgmem, bp, btd, bv, o, hbase, hname, hrty, hbtd, hbvft, hpre, ?_⟩
    intro reg he hty hdf
    obtain ⟨rg', bp', btd', o', hfb'', _, hrty', _, _, ho', hoff, hex⟩ := accessor_through_base s1.reg hprims1 _ bn bv hb
      sa.pending rfl ta.targetSize ta.align placed r.size r.align td hres hal hn hdf v hvft hbf reg he path hty
    rw [hfb'] at hfb''
    cases hfb''
    rw [hrty] at hrty'
    cases hrty'
    -- the declared offset is unique: both are the offset of field `bn`
    obtain ⟨hoff1, _⟩ := fieldOffset_declared s1.reg hprims1 none sa.pending ta.targetSize ta.align placed r.size r.align td
      hres hal hn hdf o rg bn hname ho
    have := fieldOffset_mono he td bn o hoff1
    rw [hoff] at this
    cases this
    exact ⟨hoff, hex⟩
  cases hvf : sa.vfns with
  | some fns =>
    rw [hvf] at hbv
    rcases buildVftable_some_inv s s1 path vis _ fns (some v) vregion hbv with ⟨_, hnone, _⟩ | ⟨item, hitem, hget, _, bf, hv⟩
    · cases hnone
    · have hvp := vftablePath_of_item s.reg path vis fns item hitem
      have hck := C06.buildVftable_ok_inv s s1 path vis _ fns item (some v, vregion) hitem hbv
      cases hb : baseVftable s1.reg ((sa.pending.map (·.2)).find? (·.isBase)) with
      | ok x =>
        cases x with
        | none =>
          obtain ⟨hptr, hv'⟩ := C06.own_pointer s s1 path vis _ fns (some v) vregion item.path hvp hbv hb
          simp only [Option.some.injEq] at hv'
          subst hptr
          obtain ⟨ho, hhead⟩ := own_pointer_offset s1.reg hprims1 (C06.ownPointer item.path) sa.pending ta.targetSize placed
            r.size td rfl rfl hres hn
          refine ⟨?_, ?_⟩
          · intro _
            refine ⟨by rw [hhead]; rfl, ?_⟩
            intro reg he hty mem fuel self
            exact execVftable_own reg mem fuel path self td v 0 hty hvft (by rw [hv']) (fieldOffset_mono he td _ 0 ho)
          · intro bn hbn
            rw [hv'] at hbn
            cases hbn
        | some y =>
          obtain ⟨bn, bv⟩ := y
          obtain ⟨hpre, _, hptr, hv'⟩ := C06.accept_implies_prefix s s1 path vis _ fns (some v) vregion bn bv item.path hvp hbv hb
          simp only [Option.some.injEq] at hv'
          refine ⟨?_, ?_⟩
          · intro hnone
            rw [hv'] at hnone
            cases hnone
          · intro bn' hbn'
            have : bn' = bn := by rw [hv'] at hbn'; simpa using hbn'.symm
            subst this
            exact through bn' bv hb hptr hbn' (by rw [hv']; exact hpre)
      | defer => unfold C06.vftCheck at hck; rw [hb] at hck; exact absurd hck (C01.cast_ne_ok _ _)
      | err m => unfold C06.vftCheck at hck; rw [hb] at hck; exact absurd hck (C01.cast_ne_ok _ _)
      | panic m => unfold C06.vftCheck at hck; rw [hb] at hck; exact absurd hck (C01.cast_ne_ok _ _)
  | none =>
    rw [hvf] at hbv
    obtain ⟨hs, hptr, hm⟩ := C06.inherited s s1 path vis _ (some v) vregion hbv
    subst hs
    cases hb : baseVftable s1.reg ((sa.pending.map (·.2)).find? (·.isBase)) with
    | ok x =>
      cases x with
      | none => rw [hb] at hm; exact absurd hm (by simp)
      | some y =>
        obtain ⟨bn, bv⟩ := y
        simp only [hb, Option.some.injEq] at hm
        refine ⟨?_, ?_⟩
        · intro hnone
          rw [hm] at hnone
          cases hnone
        · intro bn' hbn'
          have : bn' = bn := by rw [hm] at hbn'; simpa using hbn'.symm
          subst this
          exact through bn' bv hb hptr hbn' (by rw [hm]; exact List.prefix_refl _)
    | defer => rw [hb] at hm; exact absurd hm (by simp)
    | err m => rw [hb] at hm; exact absurd hm (by simp)
    | panic m => rw [hb] at hm; exact absurd hm (by simp)

/-! ## accepted cases: the final registry

`case_inv` (in `Lemmas/Exec.lean`) carries a provenance invariant through `SemanticState::new`, `add_module`, every
resolution attempt, the resolution loop and `build`, next to `C02.RegSound`: every emitted struct of the registry is
the result of an accepted `type_definition::build` (of the definition registered under its path) whose post-state the
registry extends, or a generated vftable struct.  So the clauses hold in the final registry of every accepted case. -/

/-- **accepted cases, registry-wide.**  For every accepted case (pointer width 4 or 8, `isize` literals) and every
    emitted struct `p` of its final registry that has methods or a vftable: `p` was built by an accepted
    `type_definition::build` from the definition `d` registered under `p`, in a state `s0` whose predefined types are
    intact, and the final registry extends the state after that build – so `built_type_address_methods`,
    `built_type_vfunc_wrappers`, `built_type_forwarders` and `built_type_accessor` apply with `reg :=` the final
    registry, in which `p` denotes the built definition. -/
theorem case_types_built (c : Case) (hps : c.ps = 4 ∨ c.ps = 8) (hb : C12.CaseBounded c) (s : State)
    (h : c.run = .ok s) (p : Path) (i : ItemDef) (r : Resolved) (td : TypeDefn)
    (hg : s.reg.get p = some i) (hs : i.state = .res r) (hin : r.inner = .type td) (hc : i.cat = .defined)
    (hne : td.fns ≠ [] ∨ td.vft ≠ none) :
    typeDefn? s.reg p = some td ∧
    ∃ (s0 s1 : State) (i0 : ItemDef) (item : G.Item) (d : G.TypeDef),
      C02.PrimsOk s0.reg ∧ s0.reg.get p = some i0 ∧ i0.state = .unres item ∧ item.inner = .type d ∧
      buildType s0 p item.vis d = (s1, .ok r) ∧ C02.Ext s1.reg s.reg := by
  refine ⟨typeDefn?_of_get s.reg p i r td hg hs hin, ?_⟩
  rcases (case_inv c hps hb s h).2.1 p i r td hg hs hin hc with hl | ⟨reg0, owner, vis, fns, hv⟩
  · exact hl
  · obtain ⟨h1, h2⟩ := vftable_item_plain reg0 owner vis fns i r td hv hs hin
    rcases hne with hne | hne
    · exact absurd h1 hne
    · exact absurd h2 hne

/-- **C07 in the final registry of an accepted case**: every associated function of an emitted struct is an
    address-bound wrapper or a forwarder of a `#[base]` field `b` (of the resolved type `bp`) to a public function of
    that base, and – provided rustc accepts the emitted struct and the base's `impl` block – calling it on an object at
    `self` is calling the original on the sub-object at `self + o`, `o` the offset of `b` in the emitted struct. -/
theorem case_forwarders (c : Case) (hps : c.ps = 4 ∨ c.ps = 8) (hb : C12.CaseBounded c) (s : State)
    (h : c.run = .ok s) (p : Path) (i : ItemDef) (r : Resolved) (td : TypeDefn)
    (hg : s.reg.get p = some i) (hs : i.state = .res r) (hin : r.inner = .type td) (hc : i.cat = .defined) :
    ∀ g ∈ td.fns,
      (∃ a, g.body = .addr a) ∨
      ∃ rg ∈ td.regions, ∃ (b : String) (bp : Path) (btd : TypeDefn) (fs : List SFunc) (used : List String) (o : Nat),
        rg.isBase = true ∧ rg.name = some b ∧ rg.ty = .data (.raw bp) ∧ typeDefn? s.reg bp = some btd ∧
        (fs = btd.fns ∨ ∃ v, btd.vft = some v ∧ fs = v.fns) ∧ g ∈ C07.specInject b used fs ∧
        (DistinctFields td → DistinctMethods btd →
          fieldOffset s.reg td b = some o ∧
          ∀ (mem : Mem) (fuel self : Nat) (args : List Nat),
            ∃ f ∈ fs, f.vis = .pub ∧ f.isInternal = false ∧ g.body = .field b f.name ∧
              execMethod s.reg mem (fuel + 1) p g self args = execMethod s.reg mem fuel bp f (self + o) args) := by
  intro g hgm
  obtain ⟨hty, s0, s1, i0, item, d, hp0, _, _, _, hbt, he⟩ := case_types_built c hps hb s h p i r td hg hs hin hc
    (Or.inl (List.ne_nil_of_mem hgm))
  obtain ⟨td', vptr, pending, target, placed, hin', _, _, hall⟩ := built_type_forwarders s0 s1 p item.vis d r hbt hp0
  rw [hin] at hin'
  cases hin'
  rcases hall g hgm with ha | ⟨rg, hrg, b, bp, btd, fs, used, o, h1, h2, h3, h4, h5, h6, _, h8⟩
  · exact Or.inl ha
  · refine Or.inr ⟨rg, hrg, b, bp, btd, fs, used, o, h1, h2, h3, typeDefn?_mono he bp btd h4, h5, h6, ?_⟩
    intro hdf hdm
    exact h8 s.reg he hty hdf hdm

/-- **C06 in the final registry of an accepted case**: the accessor of an emitted struct with a vftable reads the
    word at the object's address (own pointer), or is the accessor of the base's type on the base sub-object -/
theorem case_accessor (c : Case) (hps : c.ps = 4 ∨ c.ps = 8) (hb : C12.CaseBounded c) (s : State)
    (h : c.run = .ok s) (p : Path) (i : ItemDef) (r : Resolved) (td : TypeDefn)
    (hg : s.reg.get p = some i) (hs : i.state = .res r) (hin : r.inner = .type td) (hc : i.cat = .defined)
    (v : Vft) (hv : td.vft = some v) :
    (v.baseField = none →
      (td.regions.head?.bind (·.name)) = some vftableFieldName ∧
      ∀ (mem : Mem) (fuel self : Nat), execVftable s.reg mem (fuel + 1) p self = some (mem self)) ∧
    (∀ bn, v.baseField = some bn →
      ∃ rg ∈ td.regions, ∃ (bp : Path) (btd : TypeDefn) (bv : Vft) (o : Nat),
        rg.isBase = true ∧ rg.name = some bn ∧ rg.ty = .data (.raw bp) ∧ typeDefn? s.reg bp = some btd ∧
        btd.vft = some bv ∧ bv.fns <+: v.fns ∧
        (DistinctFields td →
          fieldOffset s.reg td bn = some o ∧
          ∀ (mem : Mem) (fuel self : Nat),
            execVftable s.reg mem (fuel + 1) p self = execVftable s.reg mem fuel bp (self + o))) := by
  obtain ⟨hty, s0, s1, i0, item, d, hp0, _, _, _, hbt, he⟩ := case_types_built c hps hb s h p i r td hg hs hin hc
    (Or.inr (by rw [hv]; simp))
  obtain ⟨td', hin', hall⟩ := built_type_accessor s0 s1 p item.vis d r hbt hp0
  rw [hin] at hin'
  cases hin'
  obtain ⟨hown, hbase⟩ := hall v hv
  refine ⟨?_, ?_⟩
  · intro hn
    obtain ⟨h1, h2⟩ := hown hn
    exact ⟨h1, h2 s.reg he hty⟩
  · intro bn hbn
    obtain ⟨rg, hrg, bp, btd, bv, o, h1, h2, h3, h4, h5, h6, h7⟩ := hbase bn hbn
    exact ⟨rg, hrg, bp, btd, bv, o, h1, h2, h3, typeDefn?_mono he bp btd h4, h5, h6, fun hdf => h7 s.reg he hty hdf⟩

/-- **C04 in the final registry of an accepted case**: an emitted struct whose registered definition starts with a
    vftable block `gfns`.  The wrapper of the function the description puts in slot `q` performs exactly one call,
    through the word at `vt + q * ps` of the table `vt` the object's accessor yields, with the object's address for the
    receiver and the argument values for the other parameters. -/
theorem case_vfunc_wrappers (c : Case) (hps : c.ps = 4 ∨ c.ps = 8) (hb : C12.CaseBounded c) (s : State)
    (h : c.run = .ok s) (p : Path) (i : ItemDef) (r : Resolved) (td : TypeDefn)
    (hg : s.reg.get p = some i) (hs : i.state = .res r) (hin : r.inner = .type td) (hc : i.cat = .defined)
    (hv : td.vft ≠ none) :
    ∃ (s0 : State) (i0 : ItemDef) (item : G.Item) (d : G.TypeDef),
      s0.reg.get p = some i0 ∧ i0.state = .unres item ∧ item.inner = .type d ∧
      ∀ (st : G.Stmt) (gfns : List G.Func), d.stmts[0]? = some st → st.field = .vftable gfns →
      ∀ (vpath : Path), vftablePath p = some vpath →
      ∃ (module : Mod) (size : Option Nat) (out : List SFunc) (v : Vft),
        s0.moduleFor p = some module ∧ vftableSizeAttr st.attrs = .ok size ∧
        convertVfuncs s0.reg module.scope size gfns = .ok out ∧
        td.vft = some v ∧ v.fns = out ∧ v.ty = .cptr (.raw vpath) ∧
        typeDefn? s.reg vpath = some { regions := out.map (functionToRegion p) } ∧
        ∀ (pos : List Nat), C04.specPositions 0 (gfns.map C04.declIndex) = some pos →
        ∀ (j : Nat) (gf : G.Func) (q : Nat), gfns[j]? = some gf → pos[j]? = some q →
        (out.map (·.name)).Nodup →
        ∀ (mem : Mem) (fuel self vt : Nat) (args : List Nat), execVftable s.reg mem fuel p self = some vt →
          ∃ sf, out[q]? = some sf ∧ sf.name = gf.name ∧ C05.specArgs s0.reg module.scope gf.args = some sf.args ∧
            execMethod s.reg mem fuel p sf self args =
              (passArgs sf.args self args).map fun as => [⟨mem (vt + q * s.reg.ps), as⟩] := by
  obtain ⟨hty, s0, s1, i0, item, d, hp0, hg0, hu0, hd0, hbt, he⟩ := case_types_built c hps hb s h p i r td hg hs hin hc
    (Or.inr hv)
  refine ⟨s0, i0, item, d, hg0, hu0, hd0, ?_⟩
  intro st gfns hst hfield vpath hvp
  obtain ⟨td', module, size, out, v, hin', hmod, hsize, hconv, hvft, hfns, hvty, hvtd, hall⟩ :=
    built_type_vfunc_wrappers s0 s1 p item.vis d r hbt st gfns hst hfield vpath hvp
  rw [hin] at hin'
  cases hin'
  have hpos : 0 < s.reg.ps := (case_inv c hps hb s h).2.2
  refine ⟨module, size, out, v, hmod, hsize, hconv, hvft, hfns, hvty, typeDefn?_mono he vpath _ hvtd, ?_⟩
  intro pos hpos' j gf q hj hq hnd mem fuel self vt args hacc
  exact hall pos hpos' j gf q hj hq s.reg he hpos hty hnd mem fuel self vt args hacc

/-- **C05 in the final registry of an accepted case**: every function of the `impl` block the module held for the
    type when it was built has a wrapper of the same name among the emitted struct's associated functions, and
    running that wrapper – anywhere – performs exactly one call, to the declared address -/
theorem case_address_methods (c : Case) (hps : c.ps = 4 ∨ c.ps = 8) (hb : C12.CaseBounded c) (s : State)
    (h : c.run = .ok s) (p : Path) (i : ItemDef) (r : Resolved) (td : TypeDefn)
    (hg : s.reg.get p = some i) (hs : i.state = .res r) (hin : r.inner = .type td) (hc : i.cat = .defined)
    (hne : td.fns ≠ [] ∨ td.vft ≠ none) :
    ∃ (s1 : State) (module1 : Mod), s1.moduleFor p = some module1 ∧ C02.Ext s1.reg s.reg ∧
      ∀ im, module1.implFor p = some im → ∀ gf ∈ im.fns,
        ∃ sf ∈ td.fns, sf.name = gf.name ∧ ∃ a : Int, C05.declAddress gf = some a ∧ 0 ≤ a ∧
          C05.specArgs s1.reg module1.scope gf.args = some sf.args ∧
          ∀ (reg : Registry) (mem : Mem) (fuel : Nat) (ty : Path) (self : Nat) (args : List Nat),
            execMethod reg mem fuel ty sf self args =
              (passArgs sf.args self args).map fun as => [⟨a.toNat, as⟩] := by
  obtain ⟨_, s0, s1, i0, item, d, _, _, _, _, hbt, he⟩ := case_types_built c hps hb s h p i r td hg hs hin hc hne
  obtain ⟨td', module1, hin', hmod1, hall⟩ := built_type_address_methods s0 s1 p item.vis d r hbt
  rw [hin] at hin'
  cases hin'
  exact ⟨s1, module1, hmod1, he, hall⟩

/-! ## the offsets used by the semantics are the compiler's -/

section Compiled
open C02

/-- **the offsets of the semantics are the compiler's**: under registry-wide soundness, for a struct none of whose
    fields contains `void` by value, whatever field layouts `flds` the recursive judgement `C02.Lay` assigns to the
    emitted fields (the premise of `Lay.struct`), the field offsets `RustSem.offsets` computes from them are
    `fieldOffsets` -/
theorem fieldOffsets_compiled (s : State) (hs : RegSound s) (td : TypeDefn) (offs : List Nat)
    (h : fieldOffsets s.reg td = some offs)
    (hnv : ∀ rg ∈ td.regions, ¬ Tainted s.reg (.rty rg.ty))
    (flds : List RustSem.Fld) (hlen : flds.length = td.regions.length)
    (hl : ∀ k (h1 : k < td.regions.length) (h2 : k < flds.length),
      Lay s.reg (.rty (td.regions[k]).ty) (flds[k]).size (flds[k]).align) :
    RustSem.offsets td.packed 0 flds = offs := by
  unfold fieldOffsets at h
  cases hf : fldsOf s.reg td.regions with
  | none => simp [hf] at h
  | some fs =>
    simp only [hf, Option.map_some, Option.some.injEq] at h
    subst h
    have key : ∀ (rs : List Region) (fs flds : List RustSem.Fld), fldsOf s.reg rs = some fs → flds.length = rs.length →
        (∀ rg ∈ rs, ¬ Tainted s.reg (.rty rg.ty)) →
        (∀ k (h1 : k < rs.length) (h2 : k < flds.length), Lay s.reg (.rty (rs[k]).ty) (flds[k]).size (flds[k]).align) →
        flds = fs := by
      intro rs
      induction rs with
      | nil =>
        intro fs flds hfs hlen _ _
        simp only [fldsOf, Option.some.injEq] at hfs
        subst hfs
        exact List.eq_nil_of_length_eq_zero hlen
      | cons r rs ih =>
        intro fs flds hfs hlen hnv hl
        simp only [fldsOf] at hfs
        cases h1 : fldOf s.reg r with
        | none => simp [h1] at hfs
        | some f =>
          cases h2 : fldsOf s.reg rs with
          | none => simp [h1, h2] at hfs
          | some fs' =>
            simp only [h1, h2, Option.some.injEq] at hfs
            subst hfs
            cases flds with
            | nil => simp at hlen
            | cons g gs =>
              have h0 := hl 0 (by simp) (by simp)
              simp only [List.getElem_cons_zero] at h0
              have hg : g = f := by
                rcases fldOf_compiled s.reg hs.items r f h1 with hc | ht
                · obtain ⟨e1, e2⟩ := Lay.unique h0 hc
                  exact fld_ext g f e1 e2
                · exact absurd ht (hnv r (by simp))
              have := ih fs' gs h2 (by simpa using hlen) (fun rg hrg => hnv rg (by simp [hrg]))
                (fun k h1 h2 => by
                  have := hl (k + 1) (by simpa using h1) (by simpa using h2)
                  simpa using this)
              rw [hg, this]
    rw [key td.regions fs flds hf hlen hnv hl]

end Compiled

/-! ## non-vacuity: a concrete accepted case

Pointer width 8, one module `m`:

```text
pub type D { pub pad: u64, #[base] pub b: B, pub z: u64 }                             // 32 bytes, `b` at offset 8
pub type B { vftable { pub fn v(&self, x: u32); #[index(2)] pub fn w(&mut self) -> u32; }, pub n: u64 }   // 16 bytes
impl B { #[address(0x1000)] pub fn a(&mut self, y: u32) -> u32; }
```

`B` owns its pointer (first field) and a three-slot table (`v`, a placeholder, `w`); `D` inherits the table through `b`
and re-exposes `a`.  The resolution loop is stepped through as in `Props/C02Global.lean`; every evaluation is
`decide +kernel`. -/
namespace Example
open C09 C02

def modM : G.Module :=
  { defs := [
      { vis := .pub, name := "D",
        inner := .type { stmts := [{ field := .field .pub "pad" (.ident "u64"), attrs := [] },
                                   { field := .field .pub "b" (.ident "B"), attrs := [.ident "base"] },
                                   { field := .field .pub "z" (.ident "u64"), attrs := [] }],
                         attrs := [] } },
      { vis := .pub, name := "B",
        inner := .type { stmts := [{ field := .vftable [
                                       { vis := .pub, name := "v", attrs := [], args := [.constSelf, .named "x" (.ident "u32")], ret := none },
                                       { vis := .pub, name := "w", attrs := [.fn "index" [.int 2]], args := [.mutSelf], ret := some (.ident "u32") }],
                                     attrs := [] },
                                   { field := .field .pub "n" (.ident "u64"), attrs := [] }],
                         attrs := [] } }],
    impls := [{ name := "B", attrs := [],
                fns := [{ vis := .pub, name := "a", attrs := [.fn "address" [.int 0x1000]],
                          args := [.mutSelf, .named "y" (.ident "u32")], ret := some (.ident "u32") }] }] }

def prio : List Path := [["m", "B"], ["m", "D"]]

def case : Case :=
  { id := "exec", ps := 8, prio := prio, modules := [.ast ["m"] "m.pyxis" modM], extras := [] }

def s0 : State := C12.stateOf case.initialState
def s1 : State := (runRound s0 prio).1

theorem init : case.initialState = .ok s0 := C12.eq_ok_stateOf _ (by decide +kernel)

theorem u0 : s0.reg.unresolved case.prio = prio :=
  unresolved_of_sorted _ _ _ (by decide +kernel) (by decide +kernel)
theorem u1 : s1.reg.unresolved case.prio = [] :=
  unresolved_of_sorted _ _ _ (by decide +kernel) (by decide +kernel)

theorem r0 : runRound s0 prio = (s1, .ok ()) := by
  have : (runRound s0 prio).2 = .ok () := by decide +kernel
  rw [← this]; rfl

theorem loop : resolveLoop case.prio 6 s0 = .ok s1 := by
  rw [resolveLoop_step _ 5 s0 s1 _ u0 rfl r0 (by rw [u1]; decide +kernel),
      resolveLoop_done _ 4 s1 u1]

theorem nItems : (s0.reg.types.filter fun e => !e.2.isResolved).length = 2 := by decide +kernel

theorem run_ok : isOkB case.run = true := by
  unfold Case.run
  rw [init]
  simp only []
  unfold State.build
  simp only []
  rw [nItems, loop]
  decide +kernel

theorem run_reg (s : State) (h : case.run = .ok s) : s.reg = s1.reg := by
  unfold Case.run at h
  rw [init] at h
  simp only [] at h
  obtain ⟨s', hl, ms, _, rfl⟩ := build_ok_inv s0 case.prio s h
  rw [nItems, loop] at hl
  cases hl
  rfl

/-- the case is accepted, and its final registry is `s1.reg` -/
example : ∃ s, case.run = .ok s ∧ s.reg = s1.reg := by
  obtain ⟨s, hs⟩ := (isOkB_iff _).mp run_ok
  exact ⟨s, hs, run_reg s hs⟩

/-- a memory: a `D` at 1000 (so its `B` sub-object at 1008); the vftable pointer of that `B` holds 5000;
    the table at 5000 holds 7001 in slot 0 and 7003 in slot 2 -/
def mem : Mem := fun a => if a = 1008 then 5000 else if a = 5000 then 7001 else if a = 5016 then 7003 else 0

/-- calling the emitted method named `name` of the type at `ty` -/
def call (ty : Path) (name : String) (self : Nat) (args : List Nat) : Option (List CallEvent) :=
  match typeDefn? s1.reg ty with
  | some td => match findMethod td name with
    | some f => execMethod s1.reg mem 2 ty f self args
    | none => none
  | none => none

/-- C04: `B::v` goes through slot 0, `B::w` (written `#[index(2)]`) through slot 2 (byte 16) of the table the
    object's first word points to; the receiver is the object's address -/
example : call ["m", "B"] "v" 1008 [42] = some [⟨7001, [1008, 42]⟩] := by decide +kernel
example : call ["m", "B"] "w" 1008 [] = some [⟨7003, [1008]⟩] := by decide +kernel
/-- C05: `B::a` calls address 0x1000 with the receiver and the argument -/
example : call ["m", "B"] "a" 1008 [7] = some [⟨0x1000, [1008, 7]⟩] := by decide +kernel
/-- C07: `D::a` (re-exposed from base field `b`, which C01 puts at offset 8) calls the same address with the
    address of the sub-object as receiver -/
example : call ["m", "D"] "a" 1000 [7] = some [⟨0x1000, [1008, 7]⟩] := by decide +kernel
example : call ["m", "D"] "a" 1000 [7] = call ["m", "B"] "a" (1000 + 8) [7] := by decide +kernel
/-- C06: `D` inherits the table; its accessor reads the pointer of the base sub-object (at `self + 8`), and the
    wrapper `D::w` calls through slot 2 of that table, passing the address of the `D` object -/
example : execVftable s1.reg mem 2 ["m", "D"] 1000 = some 5000 := by decide +kernel
example : execVftable s1.reg mem 1 ["m", "B"] 1008 = some 5000 := by decide +kernel
example : call ["m", "D"] "w" 1000 [] = some [⟨7003, [1000]⟩] := by decide +kernel
/-- a wrong number of arguments is not a run -/
example : call ["m", "B"] "a" 1008 [] = none := by decide +kernel

/-! the theorems apply to this case: their hypotheses hold, their conclusions are the events computed above -/

def tdB : TypeDefn := (typeDefn? s1.reg ["m", "B"]).getD {}
def tdD : TypeDefn := (typeDefn? s1.reg ["m", "D"]).getD {}
theorem hB : typeDefn? s1.reg ["m", "B"] = some tdB := by decide +kernel
theorem hD : typeDefn? s1.reg ["m", "D"] = some tdD := by decide +kernel

/-- rustc's demands hold for the emitted items -/
example : DistinctFields tdB ∧ DistinctFields tdD ∧ DistinctMethods tdB ∧ DistinctMethods tdD := by
  unfold DistinctFields DistinctMethods; decide +kernel

def gfV : G.Func := { vis := .pub, name := "v", attrs := [], args := [.constSelf, .named "x" (.ident "u32")], ret := none }
def gfW : G.Func := { vis := .pub, name := "w", attrs := [.fn "index" [.int 2]], args := [.mutSelf], ret := some (.ident "u32") }
def gfA : G.Func := { vis := .pub, name := "a", attrs := [.fn "address" [.int 0x1000]],
                      args := [.mutSelf, .named "y" (.ident "u32")], ret := some (.ident "u32") }
def outB : List SFunc := (tdB.vft.map (·.fns)).getD []
def itemB : ItemDef := (s1.reg.get ["m", "BVftable"]).getD default

/-- C05 by the theorem: for every registry, memory, type, object and argument value, `B::a` performs one call to 0x1000 -/
example (reg : Registry) (m : Mem) (fuel : Nat) (ty : Path) (self y : Nat) :
    ∃ sf ∈ tdB.fns, execMethod reg m fuel ty sf self [y] = some [⟨0x1000, [self, y]⟩] := by
  have hb : buildFunction s1.reg [["m"]] false gfA = .ok (tdB.fns.headD default) := by decide +kernel
  obtain ⟨a, ha, _, he⟩ := address_wrapper_with_receiver s1.reg [["m"]] gfA _ hb .mutSelf [.named "y" (.ident "u32")] rfl rfl
    (by decide) reg m fuel ty self [y] rfl
  have : a = 0x1000 := by
    have : C05.declAddress gfA = some 0x1000 := by decide
    rw [this] at ha; cases ha; rfl
  subst this
  exact ⟨_, by decide +kernel, he⟩

/-- C04 by the theorem: for every memory and object whose accessor yields `vt`, `B::w` – written `#[index(2)]`, so
    in slot 2 by `C04.specPositions` – performs one call through the word at `vt + 2 * 8` -/
example (m : Mem) (fuel self vt : Nat) (hacc : execVftable s1.reg m fuel ["m", "B"] self = some vt) :
    ∃ sf, outB[2]? = some sf ∧ sf.name = "w" ∧
      execMethod s1.reg m fuel ["m", "B"] sf self [] = some [⟨m (vt + 2 * 8), [self]⟩] := by
  have hconv : convertVfuncs s1.reg [["m"]] none [gfV, gfW] = .ok outB := by decide +kernel
  have hitem : buildVftableItem s1.reg ["m", "B"] .pub outB = some itemB := by decide +kernel
  have hpos : C04.specPositions 0 ([gfV, gfW].map C04.declIndex) = some [0, 2] := by decide
  have hv : tdB.vft = some ((tdB.vft).getD default) := by decide +kernel
  exact vfunc_wrapper_with_receiver s1.reg [["m"]] none [gfV, gfW] outB hconv ["m", "B"] .pub itemB hitem [0, 2] hpos
    1 gfW 2 rfl rfl .mutSelf [] rfl rfl (by decide) s1.reg (by decide +kernel) (by decide +kernel)
    ["m", "B"] tdB _ hB hv (by decide +kernel) (by decide +kernel) (by decide +kernel) m fuel self vt [] rfl hacc

/-- C07 by the theorem: for every memory, object and arguments, `D::a` is `B::a` on the sub-object at `self + 8` -/
example (m : Mem) (fuel self : Nat) (args : List Nat) :
    ∃ g ∈ tdD.fns, ∃ f ∈ tdB.fns, g.name = "a" ∧ f.name = "a" ∧
      execMethod s1.reg m (fuel + 1) ["m", "D"] g self args = execMethod s1.reg m fuel ["m", "B"] f (self + 8) args := by
  have hg : tdD.fns.headD default ∈ C07.specInject "b" ["v", "_vfunc_1", "w"] tdB.fns := by decide +kernel
  obtain ⟨f, hf, _, _, _, he⟩ := forwarder_calls_original_on_subobject s1.reg m fuel ["m", "D"] tdD tdB "b" ["m", "B"] 8 hD
    (by decide +kernel) (by decide +kernel) hB (by unfold DistinctMethods; decide +kernel) tdB.fns (Or.inl rfl)
    ["v", "_vfunc_1", "w"] _ hg self args
  have hfa : f.name = "a" := by
    have : ∀ x ∈ tdB.fns, x.name = "a" := by decide +kernel
    exact this f hf
  exact ⟨_, by decide +kernel, f, hf, by decide +kernel, hfa, he⟩

/-! the registry-wide theorems apply to the case -/

theorem case_bounded : C12.CaseBounded case := by
  intro path file m hm
  simp only [case, List.mem_cons, List.not_mem_nil, or_false, ModEnt.ast.injEq] at hm
  obtain ⟨_, _, rfl⟩ := hm
  refine ⟨?_, fun xt hx => by cases hx⟩
  intro d hd
  simp only [modM, List.mem_cons, List.not_mem_nil, or_false] at hd
  rcases hd with rfl | rfl <;> (intro n args z ha; cases ha)

def itemD : ItemDef := (s1.reg.get ["m", "D"]).getD default
def resD : Resolved := itemD.resolved?.getD default

/-- in the final registry of the accepted case, `D::a` – the only associated function of `D` – is a forwarder of the
    `#[base]` field `b`, which the emitted struct has at offset 8, and calling it is calling `B::a` on `self + 8` -/
example : ∃ s, case.run = .ok s ∧ ∀ g ∈ tdD.fns, ∃ f ∈ tdB.fns,
    ∀ (m : Mem) (fuel self : Nat) (args : List Nat),
      execMethod s.reg m (fuel + 1) ["m", "D"] g self args = execMethod s.reg m fuel ["m", "B"] f (self + 8) args := by
  obtain ⟨s, hs⟩ := (isOkB_iff _).mp run_ok
  have hreg := run_reg s hs
  refine ⟨s, hs, ?_⟩
  intro g hg
  have hget : s.reg.get ["m", "D"] = some itemD := by rw [hreg]; decide +kernel
  have hst : itemD.state = .res resD := by decide +kernel
  have hin : resD.inner = .type tdD := by decide +kernel
  rcases case_forwarders case (Or.inr rfl) case_bounded s hs ["m", "D"] itemD resD tdD hget hst hin (by decide +kernel) g hg
    with ⟨a, ha⟩ | ⟨rg, hrg, b, bp, btd, fs, used, o, hbase, hname, hrty, hbtd, hfs, hspec, hrun⟩
  · exfalso
    have : ∀ x ∈ tdD.fns, x.body = .field "b" "a" := by decide +kernel
    rw [this g hg] at ha
    cases ha
  · -- the only `#[base]` region of `D` is `b : m::B`
    have hb : ∀ x ∈ tdD.regions, x.isBase = true → x.name = some "b" ∧ x.ty = .data (.raw ["m", "B"]) := by decide +kernel
    obtain ⟨e1, e2⟩ := hb rg hrg hbase
    rw [e1] at hname; cases hname
    rw [e2] at hrty; cases hrty
    rw [hreg, hB] at hbtd; cases hbtd
    have hfs' : fs = tdB.fns ∨ fs = outB := by
      rcases hfs with rfl | ⟨v, hv, rfl⟩
      · exact Or.inl rfl
      · right
        have : tdB.vft = some ((tdB.vft).getD default) := by decide +kernel
        rw [this] at hv; cases hv
        decide +kernel
    obtain ⟨hoff, hex⟩ := hrun (by unfold DistinctFields; decide +kernel) (by unfold DistinctMethods; decide +kernel)
    have ho : o = 8 := by
      have : fieldOffset s1.reg tdD "b" = some 8 := by decide +kernel
      rw [hreg, this] at hoff; cases hoff; rfl
    subst ho
    -- `g` forwards to a function of `B`'s `impl` block (a forwarder of a vftable function would be named `v`, `w`, …)
    have hgbody : ∀ x ∈ tdD.fns, x.body = .field "b" "a" := by decide +kernel
    obtain ⟨f, hf, _, _, hbody, _⟩ := hex (fun _ => 0) 0 0 []
    rw [hgbody g hg] at hbody
    simp only [FBody.field.injEq, true_and] at hbody
    have hfB : f ∈ tdB.fns := by
      rcases hfs' with rfl | rfl
      · exact hf
      · exfalso
        have : ∀ x ∈ outB, x.name ≠ "a" := by decide +kernel
        exact this f hf hbody.symm
    refine ⟨f, hfB, ?_⟩
    intro m fuel self args
    obtain ⟨f', hf', _, _, hbody', he⟩ := hex m fuel self args
    have hff : f' = f := by
      rw [hgbody g hg] at hbody'
      simp only [FBody.field.injEq, true_and] at hbody'
      have hf'B : f' ∈ tdB.fns ∨ f' ∈ outB := by
        rcases hfs' with rfl | rfl
        · exact Or.inl hf'
        · exact Or.inr hf'
      rcases hf'B with h1 | h1
      · have : ∀ x ∈ tdB.fns, ∀ y ∈ tdB.fns, x = y := by decide +kernel
        exact this f' h1 f hfB
      · exfalso
        have : ∀ x ∈ outB, x.name ≠ "a" := by decide +kernel
        exact this f' h1 hbody'.symm
    rw [← hff]
    exact he

end Example

end PyxisVerif.Exec
