import PyxisVerif.Lemmas.C20Gap
import PyxisVerif.Props.C20E2E
/-!
# C20, end to end – an `unknown<N>` gap versus an explicit address on the following field

`Props/C20.lean` has the per-stage statements: `gap_vs_address` (the placement loop gives lists that agree
region for region in size and alignment; the gap is a source region in one and generated padding in the
other) and `gap_region_named_like_padding` (the naming pass gives both the same region).  Here the
statement is about whole cases, in the style of `explicit_address_e2e` (`Props/C20E2E.lean`):

```text
type T { …, _: unknown<n>, f: X, … }        type T { …, #[address(A)] f: X, … }
```

give the same run (`SemanticState::new`, `add_module`, the resolution loop, the extern values), hence the
same registry observation O2 and the same files O3, provided `A` is the offset of the gap plus `n` in
every state the resolution can visit while `T` is unresolved (`naturalOffset`, as for (c) in
`Props/C20E2E.lean`; the final state alone is not enough for the reason given there).

What the hypotheses exclude, and what they do not need to exclude (definitions in `Lemmas/C20Gap.lean`):

* `IsGapStmt gap n` – the gap is a field named `_` of type `unknown<n>`; its attributes contain neither
  `#[base]` (the build rejects "a `#[base]` field has no name") nor `#[address(..)]` nor a malformed doc
  attribute.  **Visibility and doc comment of the gap are free**: `resolve_regions` (mod.rs:640-661,
  `nameRegions` in the model) replaces *every* unnamed region by a private, undocumented field
  `_field_<offset>` and keeps its type only, so `pub _: unknown<n>` and `/// text` on a gap are not
  observable in this compiler.  `n = 0` is allowed (`Regions::push` drops a zero-sized array on both
  sides), and so is an `n` that is not a `usize` (both builds ask to be retried at the same place).
* `IsPlainFieldStmt st` – the statement after the gap is a field statement (not a `vftable` block) without
  an `#[address]` attribute of its own.  It may be a `#[base]` field.
* O2 (`Obs.outcomeS`) prints the resolved registry (regions, sizes, alignments, functions, vftables) and
  the modules; it does not print the source statement list of a definition, and `Emit.files` does not
  either – so the removed statement itself is not observable, only its effect on the regions is, and that
  is equal (`TypeDefn.regions` of the two resolved items are *equal*, not merely similar).
* one fact about all runs is needed and proved: `u8` is the predefined one-byte type in every visited
  state (`u8ok_visited`), so the user's `unknown<n>` – whose size is looked up through the registry –
  and the generated padding – whose size `n` and alignment 1 are built in – are laid out alike.
-/
namespace PyxisVerif.C20

/-- **an `unknown<n>` gap replaced by an address on the following field, end to end**: for every case `c`,
    if `c'` is `c` with the gap statement `gap` (`_: unknown<n>`) of the type at `p` removed and
    `#[address(A)]` added to the field statement `st` that followed it, and in every state the resolution of
    `c` can visit in which the type is still unresolved the placement loop, when it gets to the gap, is at
    offset `A - n`, then the two cases have the same O2 and the same O3 -/
theorem gap_to_address_e2e (c c' : Case) (p : Path) (d : G.Item) (td : G.TypeDef) (spre spost : List G.Stmt)
    (gap st : G.Stmt) (n A : Nat)
    (hd : d.inner = .type td) (hs : td.stmts = spre ++ gap :: st :: spost)
    (hgap : IsGapStmt gap n) (hst : IsPlainFieldStmt st)
    (hrep : ReplacedDef c c' p d (gapRewrite d td spre spost gap st A))
    (hside : ∀ s, Visited c s → ∀ i, s.reg.get p = some i → i.state = .unres d →
      ∀ a, naturalOffset s p d.vis td (spre.filter C01.isFieldStmt).length = some a → a + n = A) :
    c'.o2 = c.o2 ∧ c'.o3 = c.o3 :=
  obs_of_run (gap_to_address_run_lem c c' p d td spre spost gap st n A hd hs hgap hst hrep hside)

/-- … in fact the same run, up to the definition stored in the registry entry while it is unresolved -/
theorem gap_to_address_e2e_run (c c' : Case) (p : Path) (d : G.Item) (td : G.TypeDef) (spre spost : List G.Stmt)
    (gap st : G.Stmt) (n A : Nat)
    (hd : d.inner = .type td) (hs : td.stmts = spre ++ gap :: st :: spost)
    (hgap : IsGapStmt gap n) (hst : IsPlainFieldStmt st)
    (hrep : ReplacedDef c c' p d (gapRewrite d td spre spost gap st A))
    (hside : ∀ s, Visited c s → ∀ i, s.reg.get p = some i → i.state = .unres d →
      ∀ a, naturalOffset s p d.vis td (spre.filter C01.isFieldStmt).length = some a → a + n = A) :
    c'.run = mapO (swapS p d (gapRewrite d td spre spost gap st A)) c.run :=
  gap_to_address_run_lem c c' p d td spre spost gap st n A hd hs hgap hst hrep hside

/-- **the reverse**: `c` is the description with the address, `c'` the one with the gap statement put back
    (the side condition is about the description with the gap, which is `c'` here) -/
theorem address_to_gap_e2e (c c' : Case) (p : Path) (d : G.Item) (td : G.TypeDef) (spre spost : List G.Stmt)
    (gap st : G.Stmt) (n A : Nat)
    (hd : d.inner = .type td) (hs : td.stmts = spre ++ gap :: st :: spost)
    (hgap : IsGapStmt gap n) (hst : IsPlainFieldStmt st)
    (hrep : ReplacedDef c c' p (gapRewrite d td spre spost gap st A) d)
    (hside : ∀ s, Visited c' s → ∀ i, s.reg.get p = some i → i.state = .unres d →
      ∀ a, naturalOffset s p d.vis td (spre.filter C01.isFieldStmt).length = some a → a + n = A) :
    c'.o2 = c.o2 ∧ c'.o3 = c.o3 := by
  have h := gap_to_address_e2e c' c p d td spre spost gap st n A hd hs hgap hst (hrep.symm rfl) hside
  exact ⟨h.1.symm, h.2.symm⟩

/-- the same at the level of one attempt: in a state in which `u8` is the predefined type (every state of
    a run: `u8ok_visited`) and the natural offset of the gap, if determined, is `A - n`,
    `type_definition::build` gives the same answer and the same new state -/
theorem gap_to_address_build (s : State) (path : Path) (vis : Vis) (td : G.TypeDef) (spre spost : List G.Stmt)
    (gap st : G.Stmt) (n A : Nat) (hu : U8ok s.reg)
    (hs : td.stmts = spre ++ gap :: st :: spost) (hgap : IsGapStmt gap n) (hst : IsPlainFieldStmt st)
    (hoff : ∀ a, naturalOffset s path vis td (spre.filter C01.isFieldStmt).length = some a → a + n = A) :
    buildType s path vis { td with stmts := spre ++ withAddr st A :: spost } = buildType s path vis td := by
  obtain ⟨fvis, name, ty, hf⟩ := hst.field
  exact buildType_gap s path vis td spre spost gap st fvis name ty n A hu hs hgap hf hst.2 hoff

/-- `u8` is the predefined one-byte type in every state a run can visit -/
theorem u8_predefined_in_visited (c : Case) (s : State) (h : Visited c s) : U8ok s.reg :=
  u8ok_visited c s h

/-- `IsGapStmt`, syntactically: `_: unknown<n>` with any visibility, whose attributes are well-formed doc
    comments and attributes other than `#[base]` and `#[address(..)]` -/
theorem isGapStmt_of_no_base_address_attribute (vis : G.Vis) (n : Nat) (attrs : List G.Attr)
    (h : ∀ a ∈ attrs, a ≠ .ident "base" ∧ (∀ args, a ≠ .fn "address" args) ∧
      ∀ e, a = .assign "doc" e → ∃ v, e = .str v) :
    IsGapStmt { field := .field vis "_" (.unk n), attrs } n :=
  isGapStmt_of_attrs vis n attrs h

/-- the plain `_: unknown<n>` -/
theorem isGapStmt_unknown (vis : G.Vis) (n : Nat) : IsGapStmt { field := .field vis "_" (.unk n), attrs := [] } n :=
  isGapStmt_plain vis n

/-- `IsPlainFieldStmt`, syntactically -/
theorem isPlainFieldStmt_of_no_address_attribute (vis : G.Vis) (name : String) (ty : G.Ty) (attrs : List G.Attr)
    (h : ∀ a ∈ attrs, ∀ args, a ≠ .fn "address" args) :
    IsPlainFieldStmt { field := .field vis name ty, attrs } :=
  ⟨rfl, noAddrAttr_of_attrs _ h⟩

/-! ## non-vacuity: a concrete case

Pointer width 8, one module:

```text
// m.pyxis                                          // m.pyxis, rewritten
pub type T { a: u32, _: unknown<4>, b: u64 }        pub type T { a: u32, #[address(8)] b: u64 }
```

`T` is the only unresolved item; its first attempt resolves it (16 bytes, regions `a`, `_field_4`, `b`).
The placement loop arrives at the gap at offset 4 in the initial state, and `4 + 4 = 8`. -/
namespace GapExample

def stA : G.Stmt := { field := .field .priv "a" (.ident "u32"), attrs := [] }
def stGap : G.Stmt := { field := .field .priv "_" (.unk 4), attrs := [] }
def stB : G.Stmt := { field := .field .priv "b" (.ident "u64"), attrs := [] }

def tdT : G.TypeDef := { stmts := [stA, stGap, stB], attrs := [] }

def itemT : G.Item := { vis := .pub, name := "T", inner := .type tdT }

def modM : G.Module := { defs := [itemT] }

def case : Case :=
  { id := "c20-gap", ps := 8, prio := [], modules := [.ast ["m"] "m.pyxis" modM], extras := [] }

/-- `T` with the gap removed and `#[address(8)]` on `b` -/
def itemT' : G.Item := gapRewrite itemT tdT [stA] [] stGap stB 8

/-- the rewritten definition, written out -/
def tdT' : G.TypeDef :=
  { stmts := [stA, { field := .field .priv "b" (.ident "u64"), attrs := [.fn "address" [.int 8]] }], attrs := [] }

example : itemT'.inner = .type tdT' := rfl

example : itemT' ≠ itemT := by decide

def case' : Case :=
  { case with modules := case.modules.set 0 (.ast ["m"] "m.pyxis" { modM with defs := modM.defs.set 0 itemT' }) }

theorem replaced : ReplacedDef case case' ["m", "T"] itemT itemT' :=
  ⟨0, 0, ["m"], "m.pyxis", modM, rfl, rfl, rfl, rfl⟩

theorem gapStmt : IsGapStmt stGap 4 := isGapStmt_unknown .priv 4

/-- a `pub`, documented gap is a gap statement too (its visibility and doc comment are not observable) -/
example : IsGapStmt { field := .field .pub "_" (.unk 4), attrs := [.assign "doc" (.str " reserved")] } 4 :=
  isGapStmt_of_no_base_address_attribute .pub 4 _ (fun a ha => by
    cases ha with
    | head => exact ⟨by decide, fun args => by simp, fun e he => by cases he; exact ⟨_, rfl⟩⟩
    | tail _ h => cases h)

theorem plainB : IsPlainFieldStmt stB :=
  isPlainFieldStmt_of_no_address_attribute .priv "b" (.ident "u64") [] (fun a ha => by cases ha)

/-! ### the run of the original case, step by step -/

def s0 : State := C12.stateOf case.initialState
def s1 : State := (runRound s0 [["m", "T"]]).1

theorem init : case.initialState = .ok s0 := C12.eq_ok_stateOf _ (by decide +kernel)

theorem u0 : s0.reg.unresolved case.prio = [["m", "T"]] :=
  C09.unresolved_of_sorted _ _ _ (by decide +kernel) (by decide +kernel)
theorem u1 : s1.reg.unresolved case.prio = [] :=
  C09.unresolved_of_sorted _ _ _ (by decide +kernel) (by decide +kernel)

theorem r0 : runRound s0 [["m", "T"]] = (s1, .ok ()) := by
  have : (runRound s0 [["m", "T"]]).2 = .ok () := by decide +kernel
  rw [← this]; rfl

theorem loop : resolveLoop case.prio 4 s0 = .ok s1 := by
  rw [C09.resolveLoop_step _ 3 s0 s1 _ u0 rfl r0 (by rw [u1]; decide +kernel),
      C09.resolveLoop_done _ 2 s1 u1]

/-- the modules after the extern-value pass -/
def msFin : List (Path × Mod) :=
  match Res.mapM' (xvalPass s1.reg) s1.modules with | .ok ms => ms | _ => []

theorem xvals_ok : Res.mapM' (xvalPass s1.reg) s1.modules = .ok msFin := by
  have h : (Res.mapM' (xvalPass s1.reg) s1.modules).isOk = true := by decide +kernel
  unfold msFin
  cases hx : Res.mapM' (xvalPass s1.reg) s1.modules with
  | ok ms => rfl
  | defer => rw [hx] at h; cases h
  | err m => rw [hx] at h; cases h
  | panic m => rw [hx] at h; cases h

/-- the final state of the accepted build -/
def sFin : State := { s1 with modules := msFin }

theorem run_ok : case.run = .ok sFin := by
  unfold Case.run
  rw [init]
  simp only []
  rw [build_eq, (by decide +kernel : (s0.reg.types.filter fun e => !e.2.isResolved).length = 1), loop]
  unfold buildFinish
  simp only [xvals_ok]
  rfl

/-- in the initial state the placement loop reaches the gap (pending field 1) at offset 4 -/
theorem gap_offset : naturalOffset s0 ["m", "T"] itemT.vis tdT ([stA].filter C01.isFieldStmt).length = some 4 := by
  decide +kernel

/-- the side condition of `gap_to_address_e2e`: the states the case can visit are the initial state and
    states in which `T` is resolved -/
theorem side : ∀ s, Visited case s → ∀ i, s.reg.get ["m", "T"] = some i → i.state = .unres itemT →
    ∀ a, naturalOffset s ["m", "T"] itemT.vis tdT ([stA].filter C01.isFieldStmt).length = some a → a + 4 = 8 := by
  intro s hv i hg hst a ha
  rcases visited_single case ["m", "T"] s0 init (by decide +kernel) (by decide +kernel) s hv
    with rfl | ⟨j, r, hj, hr⟩
  · rw [gap_offset] at ha
    cases ha
    rfl
  · rw [hg] at hj
    cases hj
    rw [hr] at hst
    cases hst

/-- the two descriptions give the same registry observation and the same files … -/
theorem same_output : case'.o2 = case.o2 ∧ case'.o3 = case.o3 :=
  gap_to_address_e2e case case' ["m", "T"] itemT tdT [stA] [] stGap stB 4 8 rfl rfl gapStmt plainB replaced side

/-- … both are accepted … -/
theorem both_accepted : C09.isOkB case.run = true ∧ C09.isOkB case'.run = true := by
  have h := gap_to_address_e2e_run case case' ["m", "T"] itemT tdT [stA] [] stGap stB 4 8 rfl rfl gapStmt plainB
    replaced side
  rw [h, run_ok]
  exact ⟨rfl, rfl⟩

/-- … and the files are the files of the final state `sFin`: O3 is not an error observation -/
theorem o3_files : case'.o3 = Sexp.mk "files" (Emit.files sFin) ∧ case.o3 = Sexp.mk "files" (Emit.files sFin) := by
  have e : case.o3 = Sexp.mk "files" (Emit.files sFin) := by rw [o3_eq, run_ok]; rfl
  exact ⟨same_output.2.trans e, e⟩

/-- size, alignment and regions of the resolved type at `p` -/
def summary (s : State) (p : Path) : Option (Nat × Nat × List Region) :=
  (s.reg.get p).bind fun i => i.resolved?.bind fun r =>
    match r.inner with
    | .type t => some (r.size, r.align, t.regions)
    | .enum _ => none

/-- the resolved `T`: 16 bytes, alignment 8, regions `a`, `_field_4: [u8; 4]` (private, no doc), `b` -/
theorem resolved_T :
    summary sFin ["m", "T"]
      = some (16, 8, [{ vis := .priv, name := some "a", doc := none, ty := .data (.raw ["u32"]), isBase := false },
                      { vis := .priv, name := some "_field_4", doc := none, ty := .data (.arr (.raw ["u8"]) 4),
                        isBase := false },
                      { vis := .priv, name := some "b", doc := none, ty := .data (.raw ["u64"]), isBase := false }]) := by
  decide +kernel

end GapExample

end PyxisVerif.C20
