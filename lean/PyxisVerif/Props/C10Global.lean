import PyxisVerif.Lemmas.C10Global
import PyxisVerif.Props.C09Case
/-!
# C10, global – the `nonterm` verdict has a cause in the dependency graph

`Props/C10.lean` has the local facts (a size is unknown iff a by-value dependency is unresolved; an unknown
field name / enum base defers) and the shape of the verdict (the loop ends within its rounds bound; the error
lists the unresolved items).  This file ties the final verdict
`type resolution will not terminate, failed on types: [...]` to a *cause* for every item it lists.

## The dependency relation (read off the code, `Lemmas/C10Global.lean`)

The places where `type_definition::build` / `enum_definition::build` answer `Ok(None)` ("try again later"),
and only those, are:

* a **field** type or an **enum base** type whose identifier does not resolve in the scope of the item's module
  (`resolve_grammar_type` → `None`); this includes identifiers under `*const` / `*mut` / `[_; N]`;
* a field (plain, `#[base]`, or array element) or enum base whose resolved type has **no size yet**, i.e. one of
  the items it embeds *by value* (`C09.byValue`: through arrays, not through pointers) is unresolved;
* a **size that does not fit in a `usize`**: `Type::size` uses `checked_mul` and the placement loop
  `checked_add`, and both treat overflow as "size not known yet" (`Model/Sem.lean: DTy.size`,
  `Model/Layout.lean: push`).

Nothing else defers: an undefined name in a *function signature* (vftable block or `impl` block) is a hard error
(`function::build`), `vftable::build`, the base-function injection, the defaultable check and the alignment block
never answer `None` (`*_nd` lemmas).

```
inductive Cause | missing (name : String) | waitsFor (q : Path) | overflow
usedTys d      -- field types of a type definition / the base type of an enum
WaitsOn s p c  -- p is unresolved in s with definition d and module scope sc, and
               --   c = missing n   : n is the identifier of some t ∈ usedTys d
               --   c = waitsFor q  : some t ∈ usedTys d resolves (in the key set of s) to dt with q ∈ byValue dt
               --   c = overflow    : (any unresolved item)
Active s p c   --   missing n   : n does not resolve in p's module scope in s.reg
               --   waitsFor q  : q is registered and unresolved
               --   overflow    : Overflow s p  (below)
Overflow s p   -- array : a used type of p has all by-value dependencies resolved and still no size
               -- extent: all pending fields of p have a size, and pointer size + declared offsets + sizes
               --         + declared #[size] exceed usize::MAX
causes s p : List Cause,  activeCauses s p : List Cause    -- the same, computed (`waitsOn_iff_mem_causes`,
                                                           -- `mem_activeCauses`); evaluable on concrete states
```

## Findings (deviations from the informal property)

1. **A third cause.**  The informal property ("rejected exactly when a name is undefined or by-value embedding is
   cyclic") is FALSE for the model: `type T { a: [u64; 2^61] }` – every name defined, nothing cyclic – is
   rejected with `type resolution will not terminate, failed on types: [T]`, because `8 * 2^61` overflows
   `checked_mul` and the overflow is reported as "size unknown" forever.  (`2^61` is an `isize` literal, so the
   parser produces it.)  Kernel-checked: `OverflowExample`, `acyclic_defined_not_stuck_refuted`,
   `stuck_has_cause_two_causes_refuted`, `defer_has_cause_two_causes_refuted`.
2. **Predefined items.**  `TypeRegistry::unresolved` skips predefined items.  The closure statement
   ("what a listed item waits for is listed too") therefore needs "predefined items are resolved"
   (`PredefResolved`), which is not part of `C12.StateOkB` but holds in every state made by
   `SemanticState::new` + `add_module` (`initialState_predef`), hence for every case.
3. **Generated vftable items** are registered *resolved* (`vftable::build_type`), so they are never among the
   listed items; what they do is change the registry *between* the attempts of one round (the generated item
   is re-inserted), so the attempts of the last round happen in states that differ from the stuck state in the
   order of entries – the causes are transported along `Same` (same entries, pointer size, module scopes).
4. The converse (`acyclic_defined_not_stuck_novft_partial`) and "accepted ⇒ defined ∧ acyclic"
   (`accepted_defined_acyclic_novft`) are proved for descriptions **without vftable blocks** (`C09.NoVft`): with vftable blocks the key
   set grows during the run and `resolve_string` is not monotone in the key set (a generated `…Vftable` path
   that coincides with a module path of the scope moves that entry from the module candidates to the type
   candidates), so "all names resolve in the initial registry" is not preserved.  General statement: NOT PROVED.
-/
namespace PyxisVerif.C10
open C09

/-! ## 2. the local characterisation -/

/-- **a deferred attempt has a cause.**  In the model `attemptItem` folds `Ok(None)` into `Ok(())` with the item
    left as it was, so "deferred" is observed as: the attempt answers `Ok` and `p` is still unresolved afterwards.
    Then some cause read off the definition of `p` is active in `s`.
    (No registry invariant is needed; `hg`/`hu` only name the definition.) -/
theorem defer_has_cause (s : State) (p : Path) (i : ItemDef) (d : G.Item)
    (_hg : s.reg.get p = some i) (_hu : i.state = .unres d)
    (s1 : State) (h : attemptItem s p = (s1, .ok ()))
    (j : ItemDef) (hg1 : s1.reg.get p = some j) (hu1 : j.isResolved = false) :
    ∃ c, WaitsOn s p c ∧
      (match c with
       | .missing n => ∃ sc, scopeOf s p = some sc ∧ s.reg.resolveString sc n = none
       | .waitsFor q => ∃ j, s.reg.get q = some j ∧ j.isResolved = false
       | .overflow => Overflow s p) := by
  obtain ⟨hdef, _⟩ := attempt_deferred s s1 p h ⟨j, hg1, hu1⟩
  obtain ⟨c, hw, ha⟩ := deferred_has_cause s p hdef
  refine ⟨c, hw, ?_⟩
  cases c <;> exact ha

/-- the same with the `defer` answer of the build functions themselves -/
theorem defer_has_cause' (s : State) (p : Path) (h : Deferred s p) : ∃ c, WaitsOn s p c ∧ Active s p c :=
  deferred_has_cause s p h

/-- … and computed: the list of active causes of a deferred item is not empty -/
theorem defer_has_active_cause (s : State) (p : Path) (h : Deferred s p) : activeCauses s p ≠ [] := by
  obtain ⟨c, hw, ha⟩ := deferred_has_cause s p h
  intro he
  have := (mem_activeCauses s p c).mpr ⟨hw, ha⟩
  rw [he] at this
  cases this

/-! ## 3. the verdict -/

/-- **when the build gives up, every item named in the error has an active cause in the final stuck state, and the
    stuck set is closed under "waits for"**: the cause is an undefined name, a size beyond `usize::MAX`, or an
    item that is named in the error too.

    `s'` is the state the loop gives up in: reached from `s` by complete rounds (`Rounds`), `l` is its list of
    unresolved items and a whole round over `l` changed nothing (`StuckAt`).  Generated vftable items are
    registered resolved, so they are never in `l` (finding 3). -/
theorem stuck_has_cause (s : State) (prio : List Path) (hs : C12.StateOkB s) (hp : PredefResolved s)
    (l : List Path) (h : s.build prio = .nonterm l) :
    ∃ s', Rounds prio s s' ∧ StuckAt prio s' l ∧
      ∀ p ∈ l, ∃ c, WaitsOn s' p c ∧ Active s' p c ∧ (match c with | .waitsFor q => q ∈ l | _ => True) :=
  stuck_has_cause_lem s prio hs hp l h

/-- the same for a given stuck state -/
theorem stuck_state_has_cause (prio : List Path) (s' : State) (l : List Path) (hs : C12.StateOkB s')
    (hp : PredefResolved s') (hst : StuckAt prio s' l) :
    ∀ p ∈ l, ∃ c ∈ activeCauses s' p, (match c with | .waitsFor q => q ∈ l | _ => True) := by
  intro p hpl
  obtain ⟨c, hw, ha, hin⟩ := stuck_has_cause_at prio s' l hs hp hst p hpl
  exact ⟨c, (mem_activeCauses s' p c).mpr ⟨hw, ha⟩, hin⟩

/-- … for whole cases: pointer width 4 or 8, modules with `isize` literals (what the parser produces) -/
theorem case_stuck_has_cause (c : Case) (hps : c.ps = 4 ∨ c.ps = 8) (hb : C12.CaseBounded c)
    (l : List Path) (h : c.run = .nonterm l) :
    ∃ s0 s', c.initialState = .ok s0 ∧ Rounds c.prio s0 s' ∧ StuckAt c.prio s' l ∧
      ∀ p ∈ l, ∃ c', WaitsOn s' p c' ∧ Active s' p c' ∧ (match c' with | .waitsFor q => q ∈ l | _ => True) := by
  obtain ⟨s0, hi, hbuild⟩ := run_nonterm_inv c l h
  obtain ⟨s', h1, h2, h3⟩ := stuck_has_cause s0 c.prio ((C12.initialState_shape c hps hb).2 s0 hi)
    (initialState_predef c s0 hi) l hbuild
  exact ⟨s0, s', hi, h1, h2, h3⟩

/-! ## 4. the converse -/

/-- every type name used (in a field type / as enum base) by an unresolved definition resolves in its scope -/
def AllDefined (s : State) : Prop := ∀ p n, WaitsOn s p (.missing n) → ¬ Active s p (.missing n)

/-- the by-value dependency between the *definitions* of unresolved items: `p` embeds the unresolved `q` by value -/
def StaticWaits (s : State) (p q : Path) : Prop := WaitsOn s p (.waitsFor q) ∧ Active s p (.waitsFor q)

/-- by-value embedding among the unresolved items has no cycle -/
def Acyclic (s : State) : Prop := ∃ rank : Path → Nat, ∀ p q, StaticWaits s p q → rank q < rank p

/- NOT PROVED in general, and REFUTED as stated even without vftable blocks (finding 1):

/-- no undefined names and no by-value cycle among the unresolved items ⇒ the build does not end in `nonterm` -/
theorem acyclic_defined_not_stuck (s : State) (prio : List Path) (hs : C12.StateOkB s) (hp : PredefResolved s)
    (hdef : AllDefined s) (hacyc : Acyclic s) : ∀ l, s.build prio ≠ .nonterm l

   Counterexample (`OverflowExample`, checked below as `acyclic_defined_not_stuck_refuted`): the root module
   `type T { a: [u64; 2305843009213693952] }` at pointer width 8: `u64` is defined, nothing embeds anything
   unresolved, and the build answers `nonterm [T]` because `8 * 2^61 > usize::MAX`.
   With vftable blocks the statement is additionally out of reach of the proof (finding 4). -/

/-- **names defined, by-value embedding acyclic ⇒ if the build still gives up, it is for a size beyond
    `usize::MAX`** (descriptions without `vftable` blocks): some listed item has an `Overflow` in the stuck state -/
theorem acyclic_defined_not_stuck_novft_partial (s : State) (prio : List Path) (hs : C12.StateOkB s)
    (hp : PredefResolved s) (hv : C09.NoVft s) (hdef : AllDefined s) (hacyc : Acyclic s)
    (l : List Path) (h : s.build prio = .nonterm l) :
    ∃ s', Rounds prio s s' ∧ StuckAt prio s' l ∧ ∃ p ∈ l, Overflow s' p := by
  obtain ⟨rank, hrank⟩ := hacyc
  exact acyclic_defined_stuck_overflow s prio hs hp hv hdef rank (fun p q h1 h2 => hrank p q ⟨h1, h2⟩) l h

/-- … hence: names defined, acyclic and no size overflow in any state the rounds reach ⇒ the build does not end in
    `nonterm`.  (The third hypothesis is about the run, not about the initial state: whether a size overflows
    depends on the sizes the run computes.) -/
theorem acyclic_defined_not_stuck_novft (s : State) (prio : List Path) (hs : C12.StateOkB s)
    (hp : PredefResolved s) (hv : C09.NoVft s) (hdef : AllDefined s) (hacyc : Acyclic s)
    (hsmall : ∀ s', Rounds prio s s' → ∀ p, ¬ Overflow s' p) :
    ∀ l, s.build prio ≠ .nonterm l := by
  intro l h
  obtain ⟨s', hr, _, p, _, ho⟩ := acyclic_defined_not_stuck_novft_partial s prio hs hp hv hdef hacyc l h
  exact hsmall s' hr p ho

/-- … for whole cases without vftable blocks -/
theorem case_acyclic_defined_not_stuck_novft_partial (c : Case) (hps : c.ps = 4 ∨ c.ps = 8)
    (hb : C12.CaseBounded c) (hv : CaseNoVft c) (s0 : State) (hi : c.initialState = .ok s0)
    (hdef : AllDefined s0) (hacyc : Acyclic s0) (l : List Path) (h : c.run = .nonterm l) :
    ∃ s', Rounds c.prio s0 s' ∧ StuckAt c.prio s' l ∧ ∃ p ∈ l, Overflow s' p := by
  obtain ⟨s0', hi', hbuild⟩ := run_nonterm_inv c l h
  rw [hi] at hi'; cases hi'
  exact acyclic_defined_not_stuck_novft_partial s0 c.prio ((C12.initialState_shape c hps hb).2 s0 hi)
    (initialState_predef c s0 hi) (initialState_clean c hv s0 hi).noVft hdef hacyc l hbuild

/-- **accepted ⇒ every used name is defined and by-value embedding among the unresolved items is acyclic**
    (descriptions without `vftable` blocks): the order in which the run resolved the items is a rank.
    With `acyclic_defined_not_stuck_novft_partial` this is the "exactly when" of C10 up to finding 1:
    accepted ⇒ defined ∧ acyclic, and defined ∧ acyclic ⇒ not `nonterm` unless a size overflows.
    (A description with all names defined and no cycle can of course still be rejected with an *error* –
    overlapping fields, a bad alignment, … – that is C12/C13, not the `nonterm` verdict.) -/
theorem accepted_defined_acyclic_novft (s : State) (prio : List Path) (hs : C12.StateOkB s)
    (hp : PredefResolved s) (hv : C09.NoVft s) (s1 : State) (h : s.build prio = .ok s1) :
    AllDefined s ∧ Acyclic s := by
  obtain ⟨s', hl, _⟩ := C09.build_ok_inv s prio s1 h
  obtain ⟨h1, rank, h2⟩ := accepted_defined_acyclic_lem s prio hs hp hv _ s' hl
  exact ⟨h1, rank, fun p q hw => h2 p q hw.1 hw.2⟩

/-- … for whole cases without vftable blocks -/
theorem case_accepted_defined_acyclic_novft (c : Case) (hps : c.ps = 4 ∨ c.ps = 8) (hb : C12.CaseBounded c)
    (hv : CaseNoVft c) (s0 s1 : State) (hi : c.initialState = .ok s0) (h : c.run = .ok s1) :
    AllDefined s0 ∧ Acyclic s0 := by
  unfold Case.run at h
  rw [hi] at h
  exact accepted_defined_acyclic_novft s0 c.prio ((C12.initialState_shape c hps hb).2 s0 hi)
    (initialState_predef c s0 hi) (initialState_clean c hv s0 hi).noVft s1 h

/-! ## 5. non-vacuity

`List.mergeSort` does not reduce in the kernel, so the runs are stepped through round by round
(`unresolved_of_sorted`, `decide +kernel`), as in `Lemmas/C12.lean` (`ce_*`) and `Props/C09Case.lean`. -/

/-! ### a stuck description: a by-value cycle (through an array), an undefined name, and items waiting for those

```text
pub type A { pub b: B }
pub type B { pub n: u32, pub a: [A; 2] }          // A → B → A  by value
pub type C { pub p: *const A, pub x: Nope }       // the pointer does not wait for A; `Nope` is undefined
pub type D { pub c: C }                           // waits for C
pub enum E: D { X }                               // waits for D
```
-/
namespace StuckExample

def fld (n : String) (t : G.Ty) : G.Stmt := { field := .field .pub n t, attrs := [] }
def ty (n : String) (stmts : List G.Stmt) : G.Item :=
  { vis := .pub, name := n, inner := .type { stmts, attrs := [] } }

def mod : G.Module :=
  { defs := [
      ty "A" [fld "b" (.ident "B")],
      ty "B" [fld "n" (.ident "u32"), fld "a" (.arr (.ident "A") 2)],
      ty "C" [fld "p" (.cptr (.ident "A")), fld "x" (.ident "Nope")],
      ty "D" [fld "c" (.ident "C")],
      { vis := .pub, name := "E",
        inner := .enum { ty := .ident "D", stmts := [{ name := "X", expr := none, attrs := [] }], attrs := [] } }] }

/-- the list of unresolved items in registry order, which is also the priority used -/
def l : List Path := [["E"], ["D"], ["C"], ["B"], ["A"]]

def case : Case := { id := "c10-stuck", ps := 8, prio := l, modules := [.ast [] "stuck.pyxis" mod], extras := [] }

def s0 : State := C12.stateOf case.initialState
def s1 : State := (runRound s0 l).1

theorem init : case.initialState = .ok s0 := C12.eq_ok_stateOf _ (by decide +kernel)
theorem u0 : s0.reg.unresolved case.prio = l := unresolved_of_sorted _ _ _ (by decide +kernel) (by decide +kernel)
theorem r0 : runRound s0 l = (s1, .ok ()) := by
  have : (runRound s0 l).2 = .ok () := by decide +kernel
  rw [← this]; rfl
theorem u1 : s1.reg.unresolved case.prio = l := unresolved_of_sorted _ _ _ (by decide +kernel) (by decide +kernel)
theorem len : s0.reg.types.length = s1.reg.types.length := by decide +kernel

theorem loop (n : Nat) : resolveLoop case.prio (n + 1) s0 = .nonterm l := by
  unfold resolveLoop
  simp only [u0, r0, u1, len]
  rfl

/-- the build gives up and names all five items -/
theorem build : s0.build case.prio = .nonterm l := by
  unfold State.build
  simp only []
  rw [(by decide +kernel : (s0.reg.types.filter fun e => !e.2.isResolved).length = 5)]
  rw [loop 11]

theorem run : case.run = .nonterm l := by
  unfold Case.run
  rw [init]
  exact build

theorem bounded : C12.CaseBounded case := by
  intro path file m hm
  simp only [case, List.mem_cons, List.not_mem_nil, or_false, ModEnt.ast.injEq] at hm
  obtain ⟨_, _, rfl⟩ := hm
  refine ⟨?_, ?_⟩
  · intro d hd
    simp only [mod, List.mem_cons, List.not_mem_nil, or_false] at hd
    rcases hd with rfl | rfl | rfl | rfl | rfl
    · intro n args z ha; cases ha
    · intro n args z ha; cases ha
    · intro n args z ha; cases ha
    · intro n args z ha; cases ha
    · trivial
  · intro xt hx; cases hx

theorem ok : C12.StateOkB s0 := (C12.initialState_shape case (Or.inr rfl) bounded).2 s0 init
theorem predef : PredefResolved s0 := initialState_predef case s0 init

/-- `s0` is the state the build gives up in -/
theorem stuck : StuckAt case.prio s0 l := ⟨u0.symm, by decide, s1, r0, u1.symm, len⟩

/-- the hypotheses of `stuck_has_cause` hold and it applies -/
example : ∃ s', Rounds case.prio s0 s' ∧ StuckAt case.prio s' l ∧
    ∀ p ∈ l, ∃ c, WaitsOn s' p c ∧ Active s' p c ∧ (match c with | .waitsFor q => q ∈ l | _ => True) :=
  stuck_has_cause s0 case.prio ok predef l build

example : ∃ s0 s', case.initialState = .ok s0 ∧ Rounds case.prio s0 s' ∧ StuckAt case.prio s' l ∧
    ∀ p ∈ l, ∃ c', WaitsOn s' p c' ∧ Active s' p c' ∧ (match c' with | .waitsFor q => q ∈ l | _ => True) :=
  case_stuck_has_cause case (Or.inr rfl) bounded l run

/-! the active causes in the stuck state, computed: exactly the cycle, the undefined name, and the chain -/
theorem causes_A : activeCauses s0 ["A"] = [.waitsFor ["B"]] := by decide +kernel
theorem causes_B : activeCauses s0 ["B"] = [.waitsFor ["A"]] := by decide +kernel
theorem causes_C : activeCauses s0 ["C"] = [.missing "Nope"] := by decide +kernel
theorem causes_D : activeCauses s0 ["D"] = [.waitsFor ["C"]] := by decide +kernel
theorem causes_E : activeCauses s0 ["E"] = [.waitsFor ["D"]] := by decide +kernel

/-- `C` uses the name `A` (under a pointer) and the name `Nope`; only the latter is a cause, and the pointer to
    the unresolved `A` is not a by-value dependency -/
example : causes s0 ["C"] = [.missing "A", .missing "Nope", .overflow] := by decide +kernel

/-- what `stuck_state_has_cause` yields for the stuck state: the cause it exhibits for `A` is `B`, for `B` is `A`
    (the cycle), for `C` the undefined name `Nope`, for `D` and `E` the item before them in the chain – each
    waited-for item being named in the error as well -/
example : ∀ p ∈ l, ∃ c ∈ activeCauses s0 p, (match c with | .waitsFor q => q ∈ l | _ => True) :=
  stuck_state_has_cause case.prio s0 l ok predef stuck

example : ∃ c ∈ [Cause.waitsFor ["B"]], (match c with | .waitsFor q => q ∈ l | _ => True) := by
  have := stuck_state_has_cause case.prio s0 l ok predef stuck ["A"] (by decide)
  rw [causes_A] at this
  exact this

/-- the cycle, as the relation of section 4: `A` statically waits for `B` and `B` for `A`, so no rank exists -/
theorem not_acyclic : ¬ Acyclic s0 := by
  rintro ⟨rank, h⟩
  have hab : StaticWaits s0 ["A"] ["B"] := by
    have := (mem_activeCauses s0 ["A"] (.waitsFor ["B"])).mp (by rw [causes_A]; simp)
    exact this
  have hba : StaticWaits s0 ["B"] ["A"] := by
    have := (mem_activeCauses s0 ["B"] (.waitsFor ["A"])).mp (by rw [causes_B]; simp)
    exact this
  have h1 := h _ _ hab
  have h2 := h _ _ hba
  omega

/-- … and `Nope` is an undefined name of `C` -/
theorem not_allDefined : ¬ AllDefined s0 := by
  intro h
  have := (mem_activeCauses s0 ["C"] (.missing "Nope")).mp (by rw [causes_C]; simp)
  exact h _ _ this.1 this.2

end StuckExample

/-! ### a stuck description with a `vftable` block: the generated `VVftable` item is registered (resolved) in the
    first round, re-inserted by the attempt on `V` in the second, and the build gives up after the second round

```text
pub type V { vftable { pub fn f(&self); }  pub w: W }
pub type W { pub v: V }
```
-/
namespace VftExample

def fld (n : String) (t : G.Ty) : G.Stmt := { field := .field .pub n t, attrs := [] }

def mod : G.Module :=
  { defs := [
      { vis := .pub, name := "V",
        inner := .type { stmts := [{ field := .vftable [{ vis := .pub, name := "f", attrs := [], args := [.constSelf],
                                                             ret := none }], attrs := [] },
                                   fld "w" (.ident "W")], attrs := [] } },
      { vis := .pub, name := "W", inner := .type { stmts := [fld "v" (.ident "V")], attrs := [] } }] }

def l : List Path := [["W"], ["V"]]
def case : Case := { id := "c10-vft", ps := 8, prio := l, modules := [.ast [] "vft.pyxis" mod], extras := [] }

def s0 : State := C12.stateOf case.initialState
def s1 : State := (runRound s0 l).1
def s2 : State := (runRound s1 l).1

theorem init : case.initialState = .ok s0 := C12.eq_ok_stateOf _ (by decide +kernel)
theorem u0 : s0.reg.unresolved case.prio = l := unresolved_of_sorted _ _ _ (by decide +kernel) (by decide +kernel)
theorem r0 : runRound s0 l = (s1, .ok ()) := by
  have : (runRound s0 l).2 = .ok () := by decide +kernel
  rw [← this]; rfl
theorem u1 : s1.reg.unresolved case.prio = l := unresolved_of_sorted _ _ _ (by decide +kernel) (by decide +kernel)
theorem r1 : runRound s1 l = (s2, .ok ()) := by
  have : (runRound s1 l).2 = .ok () := by decide +kernel
  rw [← this]; rfl
theorem u2 : s2.reg.unresolved case.prio = l := unresolved_of_sorted _ _ _ (by decide +kernel) (by decide +kernel)
/-- the first round registered the generated item … -/
theorem len01 : (s0.reg.types.length == s1.reg.types.length) = false := by decide +kernel
/-- … the second registered nothing new -/
theorem len12 : s1.reg.types.length = s2.reg.types.length := by decide +kernel

theorem loop (n : Nat) : resolveLoop case.prio (n + 2) s0 = .nonterm l := by
  rw [resolveLoop_step _ (n + 1) s0 s1 l u0 rfl r0 (by rw [u1, len01]; simp)]
  unfold resolveLoop
  simp only [u1, r1, u2, len12]
  rfl

theorem build : s0.build case.prio = .nonterm l := by
  unfold State.build
  simp only []
  rw [(by decide +kernel : (s0.reg.types.filter fun e => !e.2.isResolved).length = 2)]
  rw [loop 4]

theorem bounded : C12.CaseBounded case := by
  intro path file m hm
  simp only [case, List.mem_cons, List.not_mem_nil, or_false, ModEnt.ast.injEq] at hm
  obtain ⟨_, _, rfl⟩ := hm
  refine ⟨?_, ?_⟩
  · intro d hd
    simp only [mod, List.mem_cons, List.not_mem_nil, or_false] at hd
    rcases hd with rfl | rfl
    · intro n args z ha; cases ha
    · intro n args z ha; cases ha
  · intro xt hx; cases hx

theorem ok : C12.StateOkB s0 := (C12.initialState_shape case (Or.inr rfl) bounded).2 s0 init
theorem predef : PredefResolved s0 := initialState_predef case s0 init

/-- the build gives up in `s1`, the state after the first round -/
theorem rounds : Rounds case.prio s0 s1 := .head s0 s1 s1 (by rw [u0]; exact r0) (.refl s1)
theorem stuck : StuckAt case.prio s1 l := ⟨u1.symm, by decide, s2, r1, u2.symm, len12⟩

example : ∃ s', Rounds case.prio s0 s' ∧ StuckAt case.prio s' l ∧
    ∀ p ∈ l, ∃ c, WaitsOn s' p c ∧ Active s' p c ∧ (match c with | .waitsFor q => q ∈ l | _ => True) :=
  stuck_has_cause s0 case.prio ok predef l build

/-- the generated item is registered and resolved in the stuck state, hence not listed -/
example : (s1.reg.get ["VVftable"]).map (·.isResolved) = some true := by decide +kernel

theorem causes_V : activeCauses s1 ["V"] = [.waitsFor ["W"]] := by decide +kernel
theorem causes_W : activeCauses s1 ["W"] = [.waitsFor ["V"]] := by decide +kernel

example : ∀ p ∈ l, ∃ c ∈ activeCauses s1 p, (match c with | .waitsFor q => q ∈ l | _ => True) :=
  stuck_state_has_cause case.prio s1 l (rounds.inv ok predef).1 (rounds.inv ok predef).2 stuck

end VftExample

/-! ### an accepted description: `C09.Example` (two modules, `B` embeds `A` embeds `Kind`, `A` points to `B`) -/
namespace AcceptedExample
open C09.Example

/-- the theorem applies to the accepted case of `Props/C09Case.lean` … -/
theorem defined_acyclic : AllDefined C09.Example.s0 ∧ Acyclic C09.Example.s0 := by
  obtain ⟨s1, h1⟩ := (C09.isOkB_iff _).mp C09.Example.run_ok
  exact case_accepted_defined_acyclic_novft C09.Example.case (Or.inr rfl) C09.Example.case_hyps.1
    C09.Example.case_hyps.2 C09.Example.s0 s1 C09.Example.init h1

/-- … whose dependency relation is not empty: `B` statically waits for `A`, and `A` for `Kind`; the pointer from `A`
    to `B` is not a dependency, which is why there is no cycle -/
example : activeCauses C09.Example.s0 ["b", "B"] = [.waitsFor ["a", "A"]] := by decide +kernel
example : activeCauses C09.Example.s0 ["a", "A"] = [.waitsFor ["a", "Kind"]] := by decide +kernel
example : activeCauses C09.Example.s0 ["a", "Kind"] = [] := by decide +kernel

end AcceptedExample

/-! ### finding 1: an oversized array is reported as "type resolution will not terminate"

```text
pub type T { pub a: [u64; 2305843009213693952] }     // 8 * 2^61 = 2^64 > usize::MAX
```
-/
namespace OverflowExample

def mod : G.Module :=
  { defs := [{ vis := .pub, name := "T",
               inner := .type { stmts := [{ field := .field .pub "a" (.arr (.ident "u64") (2 ^ 61)), attrs := [] }],
                                attrs := [] } }] }

def l : List Path := [["T"]]
def case : Case := { id := "c10-overflow", ps := 8, prio := [], modules := [.ast [] "big.pyxis" mod], extras := [] }

def s0 : State := C12.stateOf case.initialState
def s1 : State := (runRound s0 l).1

theorem init : case.initialState = .ok s0 := C12.eq_ok_stateOf _ (by decide +kernel)
theorem u0 : s0.reg.unresolved [] = l := unresolved_of_sorted _ _ _ (by decide +kernel) (by decide +kernel)
theorem r0 : runRound s0 l = (s1, .ok ()) := by
  have : (runRound s0 l).2 = .ok () := by decide +kernel
  rw [← this]; rfl
theorem u1 : s1.reg.unresolved [] = l := unresolved_of_sorted _ _ _ (by decide +kernel) (by decide +kernel)
theorem len : s0.reg.types.length = s1.reg.types.length := by decide +kernel

theorem loop (n : Nat) : resolveLoop [] (n + 1) s0 = .nonterm l := by
  unfold resolveLoop
  simp only [u0, r0, u1, len]
  rfl

theorem build : s0.build [] = .nonterm l := by
  unfold State.build
  simp only []
  rw [(by decide +kernel : (s0.reg.types.filter fun e => !e.2.isResolved).length = 1)]
  rw [loop 3]

theorem run : case.run = .nonterm l := by
  unfold Case.run
  rw [init]
  exact build

theorem bounded : C12.CaseBounded case := by
  intro path file m hm
  simp only [case, List.mem_cons, List.not_mem_nil, or_false, ModEnt.ast.injEq] at hm
  obtain ⟨_, _, rfl⟩ := hm
  refine ⟨?_, ?_⟩
  · intro d hd
    simp only [mod, List.mem_cons, List.not_mem_nil, or_false] at hd
    subst hd
    intro n args z ha; cases ha
  · intro xt hx; cases hx

theorem caseNoVft : CaseNoVft case := by
  intro me hme
  simp only [case, List.mem_cons, List.not_mem_nil, or_false] at hme
  subst hme
  intro d hd
  simp only [mod, List.mem_cons, List.not_mem_nil, or_false] at hd
  subst hd
  intro st hst
  simp only [List.mem_cons, List.not_mem_nil, or_false] at hst
  subst hst
  trivial

theorem ok : C12.StateOkB s0 := (C12.initialState_shape case (Or.inr rfl) bounded).2 s0 init
theorem predef : PredefResolved s0 := initialState_predef case s0 init
theorem noVft : C09.NoVft s0 := (initialState_clean case caseNoVft s0 init).noVft

/-- the array length is an `isize` literal: the parser produces this description -/
example : (2 : Int) ^ 61 ≤ isizeMax := by decide

/-- the only active cause of `T` is the overflow -/
theorem causes_T : activeCauses s0 ["T"] = [.overflow] := by decide +kernel

theorem unres_keys : (s0.reg.types.filter (fun e => !e.2.isResolved)).map (·.1) = [["T"]] := by decide +kernel

/-- in the initial state: whatever waits on something is `T`, and what is active for it is the overflow -/
theorem only_overflow (p : Path) (c : Cause) (hw : WaitsOn s0 p c) (ha : Active s0 p c) : c = .overflow := by
  have hp := hw.unres_key
  rw [unres_keys, List.mem_singleton] at hp
  subst hp
  have := (mem_activeCauses s0 ["T"] c).mpr ⟨hw, ha⟩
  rw [causes_T, List.mem_singleton] at this
  exact this

theorem allDefined : AllDefined s0 := fun p n hw ha => by cases only_overflow p _ hw ha
theorem acyclic : Acyclic s0 := ⟨fun _ => 0, fun p q h => by cases only_overflow p _ h.1 h.2⟩

/-- the hypotheses of the converse hold, the build gives up, and the theorem exhibits the overflow -/
example : ∃ s', Rounds [] s0 s' ∧ StuckAt [] s' l ∧ ∃ p ∈ l, Overflow s' p :=
  acyclic_defined_not_stuck_novft_partial s0 [] ok predef noVft allDefined acyclic l build

/-- it is the array: `u64` is resolved and `[u64; 2^61]` has no size -/
example : Overflow s0 ["T"] := (overflow_iff s0 ["T"]).mpr (by decide +kernel)

end OverflowExample

/-- **REFUTED** (finding 1): names defined and by-value embedding acyclic do not exclude `nonterm`, even without
    vftable blocks, with the registry invariant and `isize` literals -/
theorem acyclic_defined_not_stuck_refuted :
    ¬ ∀ (s : State) (prio : List Path), C12.StateOkB s → PredefResolved s → C09.NoVft s →
      AllDefined s → Acyclic s → ∀ l, s.build prio ≠ .nonterm l := by
  intro h
  exact h OverflowExample.s0 [] OverflowExample.ok OverflowExample.predef OverflowExample.noVft
    OverflowExample.allDefined OverflowExample.acyclic OverflowExample.l OverflowExample.build

/-- **REFUTED** (finding 1): the verdict with the two dependency-graph causes only.  In every state the rounds
    reach from `OverflowExample.s0`, `T` has no undefined name and waits for nothing unresolved. -/
theorem stuck_has_cause_two_causes_refuted :
    ¬ ∀ (s : State) (prio : List Path), C12.StateOkB s → PredefResolved s → ∀ l, s.build prio = .nonterm l →
      ∃ s', Rounds prio s s' ∧ StuckAt prio s' l ∧
        ∀ p ∈ l, ∃ c, WaitsOn s' p c ∧ Active s' p c ∧
          (match c with | .missing _ => True | .waitsFor q => q ∈ l | .overflow => False) := by
  intro h
  obtain ⟨s', hr, _, hall⟩ := h OverflowExample.s0 [] OverflowExample.ok OverflowExample.predef
    OverflowExample.l OverflowExample.build
  have hext : Ext OverflowExample.s0 s' :=
    hr.ext (C09.noVftS_of_noVft OverflowExample.noVft) OverflowExample.ok.ok.u8c
  obtain ⟨c, hw, ha, hm⟩ := hall ["T"] (by decide)
  cases c with
  | overflow => exact hm
  | missing n => cases OverflowExample.only_overflow _ _ (hext.waitsOn hw) (hext.active (by simp) ha)
  | waitsFor q => cases OverflowExample.only_overflow _ _ (hext.waitsOn hw) (hext.active (by simp) ha)

/-- **REFUTED** (finding 1): the local characterisation with the two dependency-graph causes only -/
theorem defer_has_cause_two_causes_refuted :
    ¬ ∀ (s : State) (p : Path) (s1 : State) (j : ItemDef), attemptItem s p = (s1, .ok ()) →
      s1.reg.get p = some j → j.isResolved = false →
      ∃ c, WaitsOn s p c ∧ Active s p c ∧ c ≠ .overflow := by
  intro h
  have h1 : (attemptItem OverflowExample.s0 ["T"]).2 = .ok () := by decide +kernel
  have h2 : ((attemptItem OverflowExample.s0 ["T"]).1.reg.get ["T"]).map (·.isResolved) = some false := by
    decide +kernel
  cases hg : (attemptItem OverflowExample.s0 ["T"]).1.reg.get ["T"] with
  | none => rw [hg] at h2; cases h2
  | some j =>
    rw [hg] at h2
    simp only [Option.map_some, Option.some.injEq] at h2
    obtain ⟨c, hw, ha, hne⟩ := h OverflowExample.s0 ["T"] (attemptItem OverflowExample.s0 ["T"]).1 j
      (by rw [← h1]) hg h2
    exact hne (OverflowExample.only_overflow _ _ hw ha)

/-! ### finding 2: an unresolved *predefined* item is waited for but never listed

A hand-made state (not reachable through `add_module`, which registers definitions as `defined`):
`State.new 8` plus `X` – category `predefined`, unresolved, `type X {}` – plus `type A { x: X }`.  It satisfies
`C12.StateOkB`; the loop never attempts `X` (`TypeRegistry::unresolved` skips predefined items), `A` waits for it
forever, and the error names `A` only. -/
namespace PredefExample
def defX : G.Item := { vis := .pub, name := "X", inner := .type { stmts := [], attrs := [] } }
def defA : G.Item :=
  { vis := .pub, name := "A", inner := .type { stmts := [{ field := .field .pub "x" (.ident "X"), attrs := [] }], attrs := [] } }
def itemX : ItemDef := { vis := .pub, path := ["X"], state := .unres defX, cat := .predefined }
def itemA : ItemDef := { vis := .pub, path := ["A"], state := .unres defA, cat := .defined }

def sX : State := C12.stateOf ((State.new 8).addItem itemX)
def s0 : State := C12.stateOf (sX.addItem itemA)
def s1 : State := (runRound s0 [["A"]]).1
def l : List Path := [["A"]]

theorem addX : (State.new 8).addItem itemX = .ok sX := C12.eq_ok_stateOf _ (by decide +kernel)
theorem addA : sX.addItem itemA = .ok s0 := C12.eq_ok_stateOf _ (by decide +kernel)

theorem ok : C12.StateOkB s0 := by
  have h0 := C12.new_okB 8 (Or.inr rfl)
  have hX : C12.StateOkB sX :=
    ⟨C12.addItem_ok _ _ itemX h0.ok addX (fun res h => by cases h) (fun h => absurd h (by decide)),
     C12.addItem_lits _ _ itemX h0.lits addX (fun d hd => by cases hd; intro n args z ha; cases ha)⟩
  exact ⟨C12.addItem_ok _ _ itemA hX.ok addA (fun res h => by cases h) (fun h => absurd h (by decide)),
     C12.addItem_lits _ _ itemA hX.lits addA (fun d hd => by cases hd; intro n args z ha; cases ha)⟩

theorem u0 : s0.reg.unresolved [] = l := unresolved_of_sorted _ _ _ (by decide +kernel) (by decide +kernel)
theorem r0 : runRound s0 l = (s1, .ok ()) := by
  have : (runRound s0 l).2 = .ok () := by decide +kernel
  rw [← this]; rfl
theorem u1 : s1.reg.unresolved [] = l := unresolved_of_sorted _ _ _ (by decide +kernel) (by decide +kernel)
theorem len : s0.reg.types.length = s1.reg.types.length := by decide +kernel
theorem loop (n : Nat) : resolveLoop [] (n + 1) s0 = .nonterm l := by
  unfold resolveLoop
  simp only [u0, r0, u1, len]
  rfl
theorem build : s0.build [] = .nonterm l := by
  unfold State.build
  simp only []
  rw [(by decide +kernel : (s0.reg.types.filter fun e => !e.2.isResolved).length = 2)]
  rw [loop 5]

theorem causes_A : activeCauses s0 ["A"] = [.waitsFor ["X"]] := by decide +kernel

/-- the round changes nothing (checked by unfolding) -/
theorem s1_eq : s1 = s0 := by
  with_unfolding_all rfl

/-- every state the rounds reach from `s0` is `s0` -/
theorem rounds_eq (s s' : State) (h : Rounds [] s s') (hs : s = s0) : s' = s0 := by
  induction h with
  | refl s => exact hs
  | head s sa s' hr _ ih =>
    subst hs
    rw [u0, r0] at hr
    simp only [Prod.mk.injEq, and_true] at hr
    exact ih (hr ▸ s1_eq)
end PredefExample

/-- **REFUTED** without `PredefResolved` (finding 2): `A` is listed, its only active cause is the unresolved
    predefined `X`, and `X` is not listed -/
theorem stuck_has_cause_without_predef_refuted :
    ¬ ∀ (s : State) (prio : List Path), C12.StateOkB s → ∀ l, s.build prio = .nonterm l →
      ∃ s', Rounds prio s s' ∧ StuckAt prio s' l ∧
        ∀ p ∈ l, ∃ c, WaitsOn s' p c ∧ Active s' p c ∧ (match c with | .waitsFor q => q ∈ l | _ => True) := by
  intro h
  obtain ⟨s', hr, _, hall⟩ := h PredefExample.s0 [] PredefExample.ok PredefExample.l PredefExample.build
  obtain ⟨c, hw, ha, hm⟩ := hall ["A"] (by decide)
  have hs' := PredefExample.rounds_eq _ _ hr rfl
  subst hs'
  have hc := (mem_activeCauses PredefExample.s0 ["A"] c).mpr ⟨hw, ha⟩
  rw [PredefExample.causes_A, List.mem_singleton] at hc
  subst hc
  exact absurd hm (by decide)

end PyxisVerif.C10
