import PyxisVerif.Lemmas.C20E2E
import PyxisVerif.Props.C09Case
/-!
# C20, end to end – descriptions that differ only in redundant information give the same output

`Props/C20.lean` shows, rewrite by rewrite, that the redundant spelling is a no-op for the inner function
it touches (`place`, `resolve`, `slotStep`, `enumStmtStep`).  Here the statements are about whole cases:
the complete build (`Case.run`: `SemanticState::new`, `add_module` for every module, the resolution loop,
the extern values) of the rewritten description is the build of the original one, hence the registry
observation O2 and the emitted files O3 are equal.

The definitions are in `Lemmas/C20E2E.lean`:

* `ReplacedDef c c' p d d'` – case `c'` is case `c` with the definition `d` at some position of some AST
  module (at module path `path`) replaced by `d'`; `p = path ++ [d.name]` is the path of the item;
* `BuildEquiv d d'` – same name, same visibility, same kind, and `type_definition::build` /
  `enum_definition::build` give the same answer (including the new state: the generated vftable item)
  for the two definitions in *every* state and at every path;
* `swapS p d d' s` – the state `s` with the definition `d` stored in the unresolved entry under `p`
  replaced by `d'` (nothing else changes; a state in which `p` is resolved is not changed at all);
* `mapO f o` – the outcome `o` with `f` applied to the final state of an accepted build.

The core is a simulation: `add_module` puts the two cases into states related by `swapS`; every attempt
keeps the relation (every other item reads only *resolved* information of the replaced item, which is the
same on both sides; while it is unresolved both sides see "unresolved"); the loop tests, the
extern-value pass, `Obs.outcomeS` and `Emit.files` do not look at stored definitions.  Error messages
never quote a definition, so error outcomes are equal too.
-/
namespace PyxisVerif.C20

/-! ## the general congruence -/

/-- **congruence**: replacing a definition by one that builds to the same thing gives the same run, up to
    the definition stored in the (unresolved) registry entry, which no observation shows … -/
theorem rewrite_congruence_run (c c' : Case) (p : Path) (d d' : G.Item) (h : ReplacedDef c c' p d d')
    (he : BuildEquiv d d') : c'.run = mapO (swapS p d d') c.run :=
  rewrite_congruence_lem c c' p d d' h he

/-- … hence the same resolved registry (O2) and the same emitted files (O3) -/
theorem rewrite_congruence (c c' : Case) (p : Path) (d d' : G.Item) (h : ReplacedDef c c' p d d')
    (he : BuildEquiv d d') : c'.o2 = c.o2 ∧ c'.o3 = c.o3 :=
  obs_of_run (rewrite_congruence_lem c c' p d d' h he)

/-- the congruence for definitions that are only equivalent in the states the run can be in: `I` is any
    invariant that holds after `add_module` and is kept by every attempt (of any item); it is enough that
    the two definitions give the same attempt at `p` in the states of `I` in which `p` still holds `d` -/
theorem rewrite_congruence_on (c c' : Case) (p : Path) (d d' : G.Item) (h : ReplacedDef c c' p d d')
    (hname : d'.name = d.name) (hvis : d'.vis = d.vis) (hk : isTypeDef d' = isTypeDef d)
    (I : State → Prop) (hI0 : ∀ s0, c.initialState = .ok s0 → I s0)
    (hI : ∀ s q, I s → I (attemptItem s q).1)
    (hE : ∀ s, I s → ∀ i, s.reg.get p = some i → i.state = .unres d → attemptDef s p d' = attemptDef s p d) :
    c'.o2 = c.o2 ∧ c'.o3 = c.o3 :=
  obs_of_run (run_replaced_on c c' p d d' h hname hvis hk I hI0 hI hE)

/-- the congruence along an accepted run: it is enough that the attempt on `d'` repeats every *retry* of
    the attempt on `d` and repeats a *success* whose value has a property `K` that the final value of the
    item has (a failed attempt of `d` cannot occur in an accepted run) -/
theorem rewrite_congruence_accepted (c c' : Case) (p : Path) (d d' : G.Item) (h : ReplacedDef c c' p d d')
    (hname : d'.name = d.name) (hvis : d'.vis = d.vis) (hk : isTypeDef d' = isTypeDef d)
    (K : Resolved → Prop)
    (hretry : ∀ s s1, attemptDef s p d = (s1, .defer) → attemptDef s p d' = (s1, .defer))
    (hok : ∀ s s1 r, attemptDef s p d = (s1, .ok r) → K r → attemptDef s p d' = (s1, .ok r))
    (sf : State) (hrun : c.run = .ok sf)
    (hK : ∀ i r, sf.reg.get p = some i → i.state = .res r → K r) :
    c'.o2 = c.o2 ∧ c'.o3 = c.o3 :=
  obs_of_run (run_replaced_ok c c' p d d' h hname hvis hk K (fun s => ⟨hretry s, hok s⟩) sf hrun hK)

/-! ## (a) writing the value an enum case would get implicitly

`implicitValue pre` is the value the case after the cases `pre` gets when none is written: one more than
its predecessor (written or not), `0` for the first case, nothing after `isize::MAX`.  It depends on the
preceding cases only. -/

/-- **an enum value equal to the implicit one, end to end**: for every case `c`, if `c'` is `c` with the
    case `st` (no value written) of the enum `d` rewritten to `st = v`, `v` the implicit value, then the
    two cases have the same run (up to the stored definition), the same O2 and the same O3 -/
theorem implicit_enum_value_e2e (c c' : Case) (p : Path) (d : G.Item) (ed : G.EnumDef)
    (pre post : List G.EnumStmt) (st : G.EnumStmt) (v : Int)
    (hd : d.inner = .enum ed) (hs : ed.stmts = pre ++ st :: post) (he : st.expr = none)
    (hv : implicitValue pre = some v)
    (h : ReplacedDef c c' p d (enumRewrite d ed pre post st v)) :
    c'.o2 = c.o2 ∧ c'.o3 = c.o3 :=
  rewrite_congruence c c' p d _ h (enumRewrite_equiv d ed pre post st v hd hs he hv)

theorem implicit_enum_value_equiv (d : G.Item) (ed : G.EnumDef) (pre post : List G.EnumStmt) (st : G.EnumStmt)
    (v : Int) (hd : d.inner = .enum ed) (hs : ed.stmts = pre ++ st :: post) (he : st.expr = none)
    (hv : implicitValue pre = some v) : BuildEquiv d (enumRewrite d ed pre post st v) :=
  enumRewrite_equiv d ed pre post st v hd hs he hv

/-! ## (d) giving a virtual function the index it already has

`slotsAfter 0 fpre` is the slot the function after the functions `fpre` of a vftable block takes: it
depends on the `#[index]` attributes of `fpre` only. -/

/-- **a natural index, end to end**: for every case `c`, if `c'` is `c` with the virtual function `f` (no
    index written) of the vftable block of the type `d` rewritten to `#[index(k)] f`, `k` the slot it takes
    anyway, then the two cases have the same O2 and the same O3 -/
theorem natural_index_e2e (c c' : Case) (p : Path) (d : G.Item) (td : G.TypeDef) (spre spost : List G.Stmt)
    (attrs : List G.Attr) (fpre fpost : List G.Func) (f : G.Func)
    (hd : d.inner = .type td) (hs : td.stmts = spre ++ ⟨.vftable (fpre ++ f :: fpost), attrs⟩ :: spost)
    (hf : C04.declIndex f = none)
    (h : ReplacedDef c c' p d (indexRewrite d td spre spost attrs fpre fpost f)) :
    c'.o2 = c.o2 ∧ c'.o3 = c.o3 :=
  rewrite_congruence c c' p d _ h (indexRewrite_equiv d td spre spost attrs fpre fpost f hd hs hf)

theorem natural_index_equiv (d : G.Item) (td : G.TypeDef) (spre spost : List G.Stmt) (attrs : List G.Attr)
    (fpre fpost : List G.Func) (f : G.Func) (hd : d.inner = .type td)
    (hs : td.stmts = spre ++ ⟨.vftable (fpre ++ f :: fpost), attrs⟩ :: spost) (hf : C04.declIndex f = none) :
    BuildEquiv d (indexRewrite d td spre spost attrs fpre fpost f) :=
  indexRewrite_equiv d td spre spost attrs fpre fpost f hd hs hf

/-! ## (b) adding `#[size(N)]` equal to the natural size

The two definitions are *not* `BuildEquiv`: in a state in which the layout of the type comes out
differently (or fails after the placement) the declared size makes a difference.  Along an accepted run
it does not: a retry of the type stays a retry (the declared size is looked at after the last point
where the build can ask to be retried), a failure cannot occur, and the one successful attempt gives the
value found in the final registry, whose size is `N`. -/

/-- **a natural size, end to end**: for every accepted case `c` in which the type at `p` (without a
    `#[size]` attribute) resolves to size `N`, the case `c'` with `#[size(N)]` added to that type has the
    same run (the very same final state), the same O2 and the same O3 -/
theorem natural_size_e2e (c c' : Case) (p : Path) (d : G.Item) (td : G.TypeDef) (N : Nat)
    (hd : d.inner = .type td) (hns : NoSizeAttr td)
    (h : ReplacedDef c c' p d (sizeRewrite d td N))
    (sf : State) (hrun : c.run = .ok sf)
    (hsz : ∃ i r, sf.reg.get p = some i ∧ i.state = .res r ∧ r.size = N) :
    c'.o2 = c.o2 ∧ c'.o3 = c.o3 :=
  obs_of_run (natural_size_run c c' p d td N hd hns h sf hrun hsz)

/-- `NoSizeAttr`, syntactically -/
theorem noSizeAttr_of_no_size_attribute (td : G.TypeDef) (h : ∀ a ∈ td.attrs, ∀ args, a ≠ .fn "size" args) :
    NoSizeAttr td :=
  noSizeAttr_of_attrs td h

/-! ## (c) writing the address a field would get anyway

Again not `BuildEquiv`, and here the side condition cannot be read off the final registry alone: an
attempt of the type that has to be *retried* (a later field is not resolved yet) already runs the
placement loop over the fields before the rewritten one, and with the address written an offset
different from `A` *in that state* is an error ("attempted to insert padding, but overlapped with
existing region") or inserts padding.  The offset in an earlier state can differ from the final one,
because name lookup is not stable while generated vftable items are still being registered (a field type
`FooVftable` can resolve to `b::FooVftable` in round 1 and to the generated `a::FooVftable` in round 2).
So the side condition is about every state the run can visit: `naturalOffset s p vis td k` is the offset at
which the placement loop arrives at the `k`-th pending field in state `s`, if it gets there. -/

/-- **an explicit address equal to the natural offset, end to end**: for every case `c`, if `c'` is `c` with
    `#[address(A)]` added to a field (the `k`-th field statement, no address written) of the type at `p`,
    and in every state the resolution of `c` can visit (`Visited c`) in which the type is still unresolved
    the placement loop, when it gets to that field, is at offset `A`, then the two cases have the same run,
    the same O2 and the same O3 -/
theorem explicit_address_e2e (c c' : Case) (p : Path) (d : G.Item) (td : G.TypeDef) (spre spost : List G.Stmt)
    (st : G.Stmt) (fvis : G.Vis) (name : String) (ty : G.Ty) (A : Nat)
    (hd : d.inner = .type td) (hs : td.stmts = spre ++ st :: spost) (hf : st.field = .field fvis name ty)
    (hna : NoAddrAttr st) (h : ReplacedDef c c' p d (addrRewrite d td spre spost st A))
    (hoff : ∀ s, Visited c s → ∀ i, s.reg.get p = some i → i.state = .unres d →
      ∀ a, naturalOffset s p d.vis td (spre.filter C01.isFieldStmt).length = some a → a = A) :
    c'.o2 = c.o2 ∧ c'.o3 = c.o3 :=
  obs_of_run (explicit_address_run c c' p d td spre spost st fvis name ty A hd hs hf hna h hoff)

/-- the same at the level of one attempt: in a state in which the natural offset of the field, if
    determined, is `A`, `type_definition::build` gives the same answer and the same new state -/
theorem explicit_address_build (s : State) (path : Path) (vis : Vis) (td : G.TypeDef) (spre spost : List G.Stmt)
    (st : G.Stmt) (fvis : G.Vis) (name : String) (ty : G.Ty) (A : Nat)
    (hs : td.stmts = spre ++ st :: spost) (hf : st.field = .field fvis name ty) (hna : NoAddrAttr st)
    (hoff : ∀ a, naturalOffset s path vis td (spre.filter C01.isFieldStmt).length = some a → a = A) :
    buildType s path vis { td with stmts := spre ++ withAddr st A :: spost } = buildType s path vis td :=
  buildType_addr s path vis td spre spost st fvis name ty A hs hf hna hoff

/-- `NoAddrAttr`, syntactically -/
theorem noAddrAttr_of_no_address_attribute (st : G.Stmt) (h : ∀ a ∈ st.attrs, ∀ args, a ≠ .fn "address" args) :
    NoAddrAttr st :=
  noAddrAttr_of_attrs st h

/-! ## non-vacuity: the enum rewrite on a concrete case

`C09.Example.case` (pointer width 8, modules `a` and `b`, accepted after three rounds) contains
`pub enum Kind: u32 { X = 0, Y }`.  The rewritten case spells the second case `Y = 1`. -/
namespace Example
open C09.Example

/-- `pub enum Kind: u32 { X = 0, Y }`, the first definition of module `a` -/
def kindDef : G.EnumDef :=
  { ty := .ident "u32",
    stmts := [{ name := "X", expr := some (.int 0), attrs := [] }, { name := "Y", expr := none, attrs := [] }],
    attrs := [] }

def kind : G.Item := { vis := .pub, name := "Kind", inner := .enum kindDef }

def caseX : G.EnumStmt := { name := "X", expr := some (.int 0), attrs := [] }
def caseY : G.EnumStmt := { name := "Y", expr := none, attrs := [] }

/-- `pub enum Kind: u32 { X = 0, Y = 1 }` -/
def kind' : G.Item := enumRewrite kind kindDef [caseX] [] caseY 1

/-- the rewritten definition, written out -/
def kindDef' : G.EnumDef :=
  { ty := .ident "u32",
    stmts := [{ name := "X", expr := some (.int 0), attrs := [] }, { name := "Y", expr := some (.int 1), attrs := [] }],
    attrs := [] }

example : kind'.inner = .enum kindDef' := rfl

example : kind' ≠ kind := by decide

/-- the case with `Y` rewritten to `Y = 1` -/
def case' : Case :=
  { case with modules := case.modules.set 0 (.ast ["a"] "a.pyxis" { modA with defs := modA.defs.set 0 kind' }) }

theorem replaced : ReplacedDef case case' ["a", "Kind"] kind kind' :=
  ⟨0, 0, ["a"], "a.pyxis", modA, rfl, rfl, rfl, rfl⟩

theorem implicit_one : implicitValue [caseX] = some 1 := by
  decide

/-- the two descriptions give the same registry observation and the same files … -/
theorem same_output : case'.o2 = case.o2 ∧ case'.o3 = case.o3 :=
  implicit_enum_value_e2e case case' ["a", "Kind"] kind kindDef _ [] caseY 1 rfl rfl rfl implicit_one replaced

/-- … and both are accepted (the original one by `C09.Example.run_ok`) -/
theorem both_accepted : C09.isOkB case.run = true ∧ C09.isOkB case'.run = true := by
  refine ⟨run_ok, ?_⟩
  have h := rewrite_congruence_run case case' ["a", "Kind"] kind kind' replaced
    (implicit_enum_value_equiv kind kindDef _ [] caseY 1 rfl rfl rfl implicit_one)
  obtain ⟨s, hs⟩ := (C09.isOkB_iff _).mp run_ok
  rw [h, hs]
  rfl

end Example

end PyxisVerif.C20
