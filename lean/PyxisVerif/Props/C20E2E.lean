import PyxisVerif.Lemmas.C20E2E
import PyxisVerif.Props.C09Case
/-!
# C20, end to end – descriptions that differ only in redundant information give the same output

`Props/C20.lean` shows, rewrite by rewrite, that the redundant spelling is a no-op for the inner function
it touches (`place`, `resolve`, `slotStep`, `enumStmtStep`).  Here the statements are about whole cases:
the complete build (`Case.run`: `SemanticState::new`, `add_module` for every module, the resolution loop,
the extern values) of the rewritten description is the build of the original one, hence the registry
observation O2 and the emitted files O3 are equal.

The definitions are in `Lemmas/C20E2E.lean`:

* `ReplacedDef c c' p d d'` – case `c'` is case `c` with the definition `d` at some position of some AST
  module (at module path `path`) replaced by `d'`; `p = path ++ [d.name]` is the path of the item;
* `BuildEquiv d d'` – same name, same visibility, same kind, and `type_definition::build` /
  `enum_definition::build` give the same answer (including the new state: the generated vftable item)
  for the two definitions in *every* state and at every path;
* `swapS p d d' s` – the state `s` with the definition `d` stored in the unresolved entry under `p`
  replaced by `d'` (nothing else changes; a state in which `p` is resolved is not changed at all);
* `mapO f o` – the outcome `o` with `f` applied to the final state of an accepted build.

Contents: the general congruence (`rewrite_congruence`, and two conditional forms); the rewrites
(a) implicit enum value and (d) natural vftable index – unconditional, via `BuildEquiv`; (b) natural
size – for accepted cases, side condition on the final registry; (c) explicit address – side condition on
every visited state, with a kernel-checked witness (`explicit_address_final_state_refuted`) that the
final state alone is not enough; (e) reordering the definitions of a module; concrete examples.

The core is a simulation: `add_module` puts the two cases into states related by `swapS`; every attempt
keeps the relation (every other item reads only *resolved* information of the replaced item, which is the
same on both sides; while it is unresolved both sides see "unresolved"); the loop tests, the
extern-value pass, `Obs.outcomeS` and `Emit.files` do not look at stored definitions.  Error messages
never quote a definition, so error outcomes are equal too.
-/
namespace PyxisVerif.C20

/-! ## the general congruence -/

/-- **congruence**: replacing a definition by one that builds to the same thing gives the same run, up to
    the definition stored in the (unresolved) registry entry, which no observation shows … -/
theorem rewrite_congruence_run (c c' : Case) (p : Path) (d d' : G.Item) (h : ReplacedDef c c' p d d')
    (he : BuildEquiv d d') : c'.run = mapO (swapS p d d') c.run :=
  rewrite_congruence_lem c c' p d d' h he

/-- … hence the same resolved registry (O2) and the same emitted files (O3) -/
theorem rewrite_congruence (c c' : Case) (p : Path) (d d' : G.Item) (h : ReplacedDef c c' p d d')
    (he : BuildEquiv d d') : c'.o2 = c.o2 ∧ c'.o3 = c.o3 :=
  obs_of_run (rewrite_congruence_lem c c' p d d' h he)

/-- the congruence for definitions that are only equivalent in the states the run can be in: `I` is any
    invariant that holds after `add_module` and is kept by every attempt (of any item); it is enough that
    the two definitions give the same attempt at `p` in the states of `I` in which `p` still holds `d` -/
theorem rewrite_congruence_on (c c' : Case) (p : Path) (d d' : G.Item) (h : ReplacedDef c c' p d d')
    (hname : d'.name = d.name) (hvis : d'.vis = d.vis) (hk : isTypeDef d' = isTypeDef d)
    (I : State → Prop) (hI0 : ∀ s0, c.initialState = .ok s0 → I s0)
    (hI : ∀ s q, I s → I (attemptItem s q).1)
    (hE : ∀ s, I s → ∀ i, s.reg.get p = some i → i.state = .unres d → attemptDef s p d' = attemptDef s p d) :
    c'.o2 = c.o2 ∧ c'.o3 = c.o3 :=
  obs_of_run (run_replaced_on c c' p d d' h hname hvis hk I hI0 hI hE)

/-- the congruence along an accepted run: it is enough that the attempt on `d'` repeats every *retry* of
    the attempt on `d` and repeats a *success* whose value has a property `K` that the final value of the
    item has (a failed attempt of `d` cannot occur in an accepted run) -/
theorem rewrite_congruence_accepted (c c' : Case) (p : Path) (d d' : G.Item) (h : ReplacedDef c c' p d d')
    (hname : d'.name = d.name) (hvis : d'.vis = d.vis) (hk : isTypeDef d' = isTypeDef d)
    (K : Resolved → Prop)
    (hretry : ∀ s s1, attemptDef s p d = (s1, .defer) → attemptDef s p d' = (s1, .defer))
    (hok : ∀ s s1 r, attemptDef s p d = (s1, .ok r) → K r → attemptDef s p d' = (s1, .ok r))
    (sf : State) (hrun : c.run = .ok sf)
    (hK : ∀ i r, sf.reg.get p = some i → i.state = .res r → K r) :
    c'.o2 = c.o2 ∧ c'.o3 = c.o3 :=
  obs_of_run (run_replaced_ok c c' p d d' h hname hvis hk K (fun s => ⟨hretry s, hok s⟩) sf hrun hK)

/-! ## (a) writing the value an enum case would get implicitly

`implicitValue pre` is the value the case after the cases `pre` gets when none is written: one more than
its predecessor (written or not), `0` for the first case, nothing after `isize::MAX`.  It depends on the
preceding cases only. -/

/-- **an enum value equal to the implicit one, end to end**: for every case `c`, if `c'` is `c` with the
    case `st` (no value written) of the enum `d` rewritten to `st = v`, `v` the implicit value, then the
    two cases have the same run (up to the stored definition), the same O2 and the same O3 -/
theorem implicit_enum_value_e2e (c c' : Case) (p : Path) (d : G.Item) (ed : G.EnumDef)
    (pre post : List G.EnumStmt) (st : G.EnumStmt) (v : Int)
    (hd : d.inner = .enum ed) (hs : ed.stmts = pre ++ st :: post) (he : st.expr = none)
    (hv : implicitValue pre = some v)
    (h : ReplacedDef c c' p d (enumRewrite d ed pre post st v)) :
    c'.o2 = c.o2 ∧ c'.o3 = c.o3 :=
  rewrite_congruence c c' p d _ h (enumRewrite_equiv d ed pre post st v hd hs he hv)

theorem implicit_enum_value_equiv (d : G.Item) (ed : G.EnumDef) (pre post : List G.EnumStmt) (st : G.EnumStmt)
    (v : Int) (hd : d.inner = .enum ed) (hs : ed.stmts = pre ++ st :: post) (he : st.expr = none)
    (hv : implicitValue pre = some v) : BuildEquiv d (enumRewrite d ed pre post st v) :=
  enumRewrite_equiv d ed pre post st v hd hs he hv

/-! ## (d) giving a virtual function the index it already has

`slotsAfter 0 fpre` is the slot the function after the functions `fpre` of a vftable block takes: it
depends on the `#[index]` attributes of `fpre` only. -/

/-- **a natural index, end to end**: for every case `c`, if `c'` is `c` with the virtual function `f` (no
    index written) of the vftable block of the type `d` rewritten to `#[index(k)] f`, `k` the slot it takes
    anyway, then the two cases have the same O2 and the same O3 -/
theorem natural_index_e2e (c c' : Case) (p : Path) (d : G.Item) (td : G.TypeDef) (spre spost : List G.Stmt)
    (attrs : List G.Attr) (fpre fpost : List G.Func) (f : G.Func)
    (hd : d.inner = .type td) (hs : td.stmts = spre ++ ⟨.vftable (fpre ++ f :: fpost), attrs⟩ :: spost)
    (hf : C04.declIndex f = none)
    (h : ReplacedDef c c' p d (indexRewrite d td spre spost attrs fpre fpost f)) :
    c'.o2 = c.o2 ∧ c'.o3 = c.o3 :=
  rewrite_congruence c c' p d _ h (indexRewrite_equiv d td spre spost attrs fpre fpost f hd hs hf)

theorem natural_index_equiv (d : G.Item) (td : G.TypeDef) (spre spost : List G.Stmt) (attrs : List G.Attr)
    (fpre fpost : List G.Func) (f : G.Func) (hd : d.inner = .type td)
    (hs : td.stmts = spre ++ ⟨.vftable (fpre ++ f :: fpost), attrs⟩ :: spost) (hf : C04.declIndex f = none) :
    BuildEquiv d (indexRewrite d td spre spost attrs fpre fpost f) :=
  indexRewrite_equiv d td spre spost attrs fpre fpost f hd hs hf

/-! ## (b) adding `#[size(N)]` equal to the natural size

The two definitions are *not* `BuildEquiv`: in a state in which the layout of the type comes out
differently (or fails after the placement) the declared size makes a difference.  Along an accepted run
it does not: a retry of the type stays a retry (the declared size is looked at after the last point
where the build can ask to be retried), a failure cannot occur, and the one successful attempt gives the
value found in the final registry, whose size is `N`. -/

/-- **a natural size, end to end**: for every accepted case `c` in which the type at `p` (without a
    `#[size]` attribute) resolves to size `N`, the case `c'` with `#[size(N)]` added to that type is accepted
    too and has the same O2 and the same O3 -/
theorem natural_size_e2e (c c' : Case) (p : Path) (d : G.Item) (td : G.TypeDef) (N : Nat)
    (hd : d.inner = .type td) (hns : NoSizeAttr td)
    (h : ReplacedDef c c' p d (sizeRewrite d td N))
    (sf : State) (hrun : c.run = .ok sf)
    (hsz : ∃ i r, sf.reg.get p = some i ∧ i.state = .res r ∧ r.size = N) :
    c'.o2 = c.o2 ∧ c'.o3 = c.o3 :=
  obs_of_run (natural_size_run c c' p d td N hd hns h sf hrun hsz)

/-- … in fact the same run, up to the definition stored in the registry entry while it is unresolved -/
theorem natural_size_e2e_run (c c' : Case) (p : Path) (d : G.Item) (td : G.TypeDef) (N : Nat)
    (hd : d.inner = .type td) (hns : NoSizeAttr td)
    (h : ReplacedDef c c' p d (sizeRewrite d td N))
    (sf : State) (hrun : c.run = .ok sf)
    (hsz : ∃ i r, sf.reg.get p = some i ∧ i.state = .res r ∧ r.size = N) :
    c'.run = mapO (swapS p d (sizeRewrite d td N)) c.run :=
  natural_size_run c c' p d td N hd hns h sf hrun hsz

/-- `NoSizeAttr`, syntactically -/
theorem noSizeAttr_of_no_size_attribute (td : G.TypeDef) (h : ∀ a ∈ td.attrs, ∀ args, a ≠ .fn "size" args) :
    NoSizeAttr td :=
  noSizeAttr_of_attrs td h

/-! ## (c) writing the address a field would get anyway

Again not `BuildEquiv`, and here the side condition cannot be read off the final registry alone: an
attempt of the type that has to be *retried* (a later field is not resolved yet) already runs the
placement loop over the fields before the rewritten one, and with the address written an offset
different from `A` *in that state* is an error ("attempted to insert padding, but overlapped with
existing region") or inserts padding.  The offset in an earlier state can differ from the final one,
because name lookup is not stable while generated vftable items are still being registered (a field type
`FooVftable` can resolve to `b::FooVftable` in round 1 and to the generated `a::FooVftable` in round 2):
`explicit_address_final_state_refuted` at the end of this file is a kernel-checked witness.
So the side condition is about every state the run can visit: `naturalOffset s p vis td k` is the offset at
which the placement loop arrives at the `k`-th pending field in state `s`, if it gets there. -/

/-- **an explicit address equal to the natural offset, end to end**: for every case `c`, if `c'` is `c` with
    `#[address(A)]` added to a field (the `k`-th field statement, no address written) of the type at `p`,
    and in every state the resolution of `c` can visit (`Visited c`) in which the type is still unresolved
    the placement loop, when it gets to that field, is at offset `A`, then the two cases have the same run,
    the same O2 and the same O3 -/
theorem explicit_address_e2e (c c' : Case) (p : Path) (d : G.Item) (td : G.TypeDef) (spre spost : List G.Stmt)
    (st : G.Stmt) (fvis : G.Vis) (name : String) (ty : G.Ty) (A : Nat)
    (hd : d.inner = .type td) (hs : td.stmts = spre ++ st :: spost) (hf : st.field = .field fvis name ty)
    (hna : NoAddrAttr st) (h : ReplacedDef c c' p d (addrRewrite d td spre spost st A))
    (hoff : ∀ s, Visited c s → ∀ i, s.reg.get p = some i → i.state = .unres d →
      ∀ a, naturalOffset s p d.vis td (spre.filter C01.isFieldStmt).length = some a → a = A) :
    c'.o2 = c.o2 ∧ c'.o3 = c.o3 :=
  obs_of_run (explicit_address_run c c' p d td spre spost st fvis name ty A hd hs hf hna h hoff)

/-- the same at the level of one attempt: in a state in which the natural offset of the field, if
    determined, is `A`, `type_definition::build` gives the same answer and the same new state -/
theorem explicit_address_build (s : State) (path : Path) (vis : Vis) (td : G.TypeDef) (spre spost : List G.Stmt)
    (st : G.Stmt) (fvis : G.Vis) (name : String) (ty : G.Ty) (A : Nat)
    (hs : td.stmts = spre ++ st :: spost) (hf : st.field = .field fvis name ty) (hna : NoAddrAttr st)
    (hoff : ∀ a, naturalOffset s path vis td (spre.filter C01.isFieldStmt).length = some a → a = A) :
    buildType s path vis { td with stmts := spre ++ withAddr st A :: spost } = buildType s path vis td :=
  buildType_addr s path vis td spre spost st fvis name ty A hs hf hna hoff

/-- `NoAddrAttr`, syntactically -/
theorem noAddrAttr_of_no_address_attribute (st : G.Stmt) (h : ∀ a ∈ st.attrs, ∀ args, a ≠ .fn "address" args) :
    NoAddrAttr st :=
  noAddrAttr_of_attrs st h

/-! ## (e) reordering the definitions of a module

`ReorderedDefs c c'` – case `c'` is case `c` with the `defs` list of one AST module permuted.  The two
initial states differ in the order of the registry entries and of the modules' definition paths
(`PermS`); every attempt keeps that relation (lookups are by key, the worklist of a round is sorted,
`Lemmas/C20.lean: unresolved_order_lem`), and the backend lists a module's items sorted by path
(`reorder_definitions`), so the files are equal.  `add_module` itself is order independent because the
only way the definitions loop can fail is the one message "item is defined more than once". -/

/-- **reordering the definitions of a module, end to end**: the two cases have the same outcome – the same
    failure, or two accepted states that differ only in the order of registry entries and definition paths
    (`PermS`) – hence the same O2 and the same O3 -/
theorem reorder_definitions_e2e (c c' : Case) (h : ReorderedDefs c c') : c'.o2 = c.o2 ∧ c'.o3 = c.o3 :=
  ⟨reorder_definitions_o2 c c' h, reorder_definitions_o3 c c' h⟩

theorem reorder_definitions_run (c c' : Case) (h : ReorderedDefs c c') : RelO PermS c.run c'.run :=
  run_reordered c c' h

/-! ## non-vacuity: the enum rewrite on a concrete case

`C09.Example.case` (pointer width 8, modules `a` and `b`, accepted after three rounds) contains
`pub enum Kind: u32 { X = 0, Y }`.  The rewritten case spells the second case `Y = 1`. -/
namespace Example
open C09.Example

/-- `pub enum Kind: u32 { X = 0, Y }`, the first definition of module `a` -/
def kindDef : G.EnumDef :=
  { ty := .ident "u32",
    stmts := [{ name := "X", expr := some (.int 0), attrs := [] }, { name := "Y", expr := none, attrs := [] }],
    attrs := [] }

def kind : G.Item := { vis := .pub, name := "Kind", inner := .enum kindDef }

def caseX : G.EnumStmt := { name := "X", expr := some (.int 0), attrs := [] }
def caseY : G.EnumStmt := { name := "Y", expr := none, attrs := [] }

/-- `pub enum Kind: u32 { X = 0, Y = 1 }` -/
def kind' : G.Item := enumRewrite kind kindDef [caseX] [] caseY 1

/-- the rewritten definition, written out -/
def kindDef' : G.EnumDef :=
  { ty := .ident "u32",
    stmts := [{ name := "X", expr := some (.int 0), attrs := [] }, { name := "Y", expr := some (.int 1), attrs := [] }],
    attrs := [] }

example : kind'.inner = .enum kindDef' := rfl

example : kind' ≠ kind := by decide

/-- the case with `Y` rewritten to `Y = 1` -/
def case' : Case :=
  { case with modules := case.modules.set 0 (.ast ["a"] "a.pyxis" { modA with defs := modA.defs.set 0 kind' }) }

theorem replaced : ReplacedDef case case' ["a", "Kind"] kind kind' :=
  ⟨0, 0, ["a"], "a.pyxis", modA, rfl, rfl, rfl, rfl⟩

theorem implicit_one : implicitValue [caseX] = some 1 := by
  decide

/-- the two descriptions give the same registry observation and the same files … -/
theorem same_output : case'.o2 = case.o2 ∧ case'.o3 = case.o3 :=
  implicit_enum_value_e2e case case' ["a", "Kind"] kind kindDef _ [] caseY 1 rfl rfl rfl implicit_one replaced

/-- … and both are accepted (the original one by `C09.Example.run_ok`) -/
theorem both_accepted : C09.isOkB case.run = true ∧ C09.isOkB case'.run = true := by
  refine ⟨run_ok, ?_⟩
  have h := rewrite_congruence_run case case' ["a", "Kind"] kind kind' replaced
    (implicit_enum_value_equiv kind kindDef _ [] caseY 1 rfl rfl rfl implicit_one)
  obtain ⟨s, hs⟩ := (C09.isOkB_iff _).mp run_ok
  rw [h, hs]
  rfl

/-! the size rewrite on the same case: `pub type B { pub a: A, pub n: u64 }` resolves to 24 bytes (it needs
`A` = 16 and `Kind` = 4 from the other module, and three rounds); `#[size(24)]` on it changes nothing -/

/-- the side condition of `natural_size_e2e`, in checkable form -/
theorem size_side_condition (r : Registry) (p : Path) (N : Nat)
    (h : (r.get p).bind (fun i => i.resolved?.map (·.size)) = some N) :
    ∃ i res, r.get p = some i ∧ i.state = .res res ∧ res.size = N := by
  cases hg : r.get p with
  | none => rw [hg] at h; cases h
  | some i =>
    rw [hg] at h
    simp only [Option.bind_some, ItemDef.resolved?] at h
    cases hs : i.state with
    | unres d => rw [hs] at h; cases h
    | res res =>
      rw [hs] at h
      simp only [Option.map_some, Option.some.injEq] at h
      exact ⟨i, res, rfl, hs, h⟩

def typeB : G.TypeDef :=
  { stmts := [{ field := .field .pub "a" (.ident "A"), attrs := [] },
              { field := .field .pub "n" (.ident "u64"), attrs := [] }],
    attrs := [] }

def itemB : G.Item := { vis := .pub, name := "B", inner := .type typeB }

/-- `#[size(24)] pub type B { .. }` -/
def itemB' : G.Item := sizeRewrite itemB typeB 24

def caseSized : Case :=
  { case with modules := case.modules.set 1 (.ast ["b"] "b.pyxis" { modB with defs := modB.defs.set 0 itemB' }) }

theorem replacedB : ReplacedDef case caseSized ["b", "B"] itemB itemB' :=
  ⟨1, 0, ["b"], "b.pyxis", modB, rfl, rfl, rfl, rfl⟩

/-- the modules after the extern-value pass -/
def msFin : List (Path × Mod) :=
  match Res.mapM' (xvalPass s3.reg) s3.modules with | .ok ms => ms | _ => []

theorem xvals_ok : Res.mapM' (xvalPass s3.reg) s3.modules = .ok msFin := by
  have h : (Res.mapM' (xvalPass s3.reg) s3.modules).isOk = true := by decide +kernel
  unfold msFin
  cases hx : Res.mapM' (xvalPass s3.reg) s3.modules with
  | ok ms => rfl
  | defer => rw [hx] at h; cases h
  | err m => rw [hx] at h; cases h
  | panic m => rw [hx] at h; cases h

/-- the final state of the accepted build -/
def sFin : State := { s3 with modules := msFin }

theorem run_eq : case.run = .ok sFin := by
  unfold Case.run
  rw [init]
  simp only []
  rw [build_eq, (by decide +kernel : (s0.reg.types.filter fun e => !e.2.isResolved).length = 3), loop]
  unfold buildFinish
  simp only [xvals_ok]
  rfl

theorem same_output_sized : caseSized.o2 = case.o2 ∧ caseSized.o3 = case.o3 :=
  natural_size_e2e case caseSized ["b", "B"] itemB typeB 24 rfl
    (noSizeAttr_of_attrs typeB (fun a ha => by cases ha)) replacedB sFin run_eq
    (size_side_condition sFin.reg ["b", "B"] 24 (by decide +kernel))

/-! the definitions of module `a` in the other order (`A` before `Kind`) -/

def caseRev : Case :=
  { case with modules := case.modules.set 0 (.ast ["a"] "a.pyxis" { modA with defs := modA.defs.reverse }) }

theorem reordered : ReorderedDefs case caseRev :=
  ⟨0, ["a"], "a.pyxis", modA, modA.defs.reverse, rfl, List.reverse_perm _, rfl⟩

example : caseRev.o2 = case.o2 ∧ caseRev.o3 = case.o3 := reorder_definitions_e2e case caseRev reordered

end Example

/-! ## (c) the side condition cannot be weakened to the final state: a kernel-checked witness

Four modules, pointer width 8:

```text
// d.pyxis                 // a.pyxis                          // b.pyxis
pub type Late { pub v: u32 }   pub type Foo { vftable { pub fn f(&self); } }   pub type FooVftable { pub x: u64, pub y: u64 }

// c.pyxis
use b::FooVftable; use a::FooVftable; use d::Late;
pub type T { pub x: FooVftable, pub y: u32, pub z: Late }
```

with the priority `b::FooVftable, c::T, a::Foo, d::Late`.  In round 1 `T` is attempted when the generated
`a::FooVftable` does not exist yet: `x: FooVftable` is `b::FooVftable` (16 bytes), `y` would be at offset 16,
and `z: Late` is not resolved, so `T` is retried.  `a::Foo` then registers `a::FooVftable` (8 bytes), which the
second `use` makes the meaning of `FooVftable` in `c`; in round 2 `T` resolves with `y` at offset 8.  The case is
accepted, and in its final state the natural offset of `y` is 8.  With `#[address(8)] pub y: u32` the first
attempt of `T` fails instead of being retried ("attempted to insert padding, but overlapped with existing
region"): the rewritten case is rejected.  So "the field is at `A` in the accepted build" does not make
`#[address(A)]` redundant; `explicit_address_e2e` asks for the offset in every visited state. -/
namespace Witness

def modD : G.Module :=
  { defs := [{ vis := .pub, name := "Late",
               inner := .type { stmts := [{ field := .field .pub "v" (.ident "u32"), attrs := [] }], attrs := [] } }] }

def fnF : G.Func := { vis := .pub, name := "f", attrs := [], args := [.constSelf], ret := none }

def modA : G.Module :=
  { defs := [{ vis := .pub, name := "Foo",
               inner := .type { stmts := [{ field := .vftable [fnF], attrs := [] }], attrs := [] } }] }

def stX : G.Stmt := { field := .field .pub "x" (.ident "FooVftable"), attrs := [] }
def stY : G.Stmt := { field := .field .pub "y" (.ident "u32"), attrs := [] }
def stZ : G.Stmt := { field := .field .pub "z" (.ident "Late"), attrs := [] }

def tdT : G.TypeDef := { stmts := [stX, stY, stZ], attrs := [] }

def itemT : G.Item := { vis := .pub, name := "T", inner := .type tdT }

def modC : G.Module :=
  { uses := [["b", "FooVftable"], ["a", "FooVftable"], ["d", "Late"]], defs := [itemT] }

def modB : G.Module :=
  { defs := [{ vis := .pub, name := "FooVftable",
               inner := .type { stmts := [{ field := .field .pub "x" (.ident "u64"), attrs := [] },
                                          { field := .field .pub "y" (.ident "u64"), attrs := [] }], attrs := [] } }] }

def case : Case :=
  { id := "c20-address", ps := 8, prio := [["b", "FooVftable"], ["c", "T"], ["a", "Foo"], ["d", "Late"]],
    modules := [.ast ["d"] "d.pyxis" modD, .ast ["a"] "a.pyxis" modA, .ast ["c"] "c.pyxis" modC,
                .ast ["b"] "b.pyxis" modB], extras := [] }

/-- `T` with `#[address(8)]` on `y` -/
def itemT' : G.Item := addrRewrite itemT tdT [stX] [stZ] stY 8

def case' : Case :=
  { case with modules := case.modules.set 2 (.ast ["c"] "c.pyxis" { modC with defs := modC.defs.set 0 itemT' }) }

theorem replaced : ReplacedDef case case' ["c", "T"] itemT itemT' :=
  ⟨2, 0, ["c"], "c.pyxis", modC, rfl, rfl, rfl, rfl⟩

theorem noAddr : NoAddrAttr stY := noAddrAttr_of_attrs stY (fun a ha => by cases ha)

/-! ### the original case is accepted -/

def s0 : State := C12.stateOf case.initialState
def round1 : List Path := [["b", "FooVftable"], ["c", "T"], ["a", "Foo"], ["d", "Late"]]
def s1 : State := (runRound s0 round1).1
def s2 : State := (runRound s1 [["c", "T"]]).1

theorem init : case.initialState = .ok s0 := C12.eq_ok_stateOf _ (by decide +kernel)

theorem u0 : s0.reg.unresolved case.prio = round1 :=
  C09.unresolved_of_sorted _ _ _ (by decide +kernel) (by decide +kernel)
theorem u1 : s1.reg.unresolved case.prio = [["c", "T"]] :=
  C09.unresolved_of_sorted _ _ _ (by decide +kernel) (by decide +kernel)
theorem u2 : s2.reg.unresolved case.prio = [] :=
  C09.unresolved_of_sorted _ _ _ (by decide +kernel) (by decide +kernel)

theorem r0 : runRound s0 round1 = (s1, .ok ()) := by
  have : (runRound s0 round1).2 = .ok () := by decide +kernel
  rw [← this]; rfl
theorem r1 : runRound s1 [["c", "T"]] = (s2, .ok ()) := by
  have : (runRound s1 [["c", "T"]]).2 = .ok () := by decide +kernel
  rw [← this]; rfl

theorem loop : resolveLoop case.prio 10 s0 = .ok s2 := by
  rw [C09.resolveLoop_step _ 9 s0 s1 _ u0 rfl r0 (by rw [u1]; decide +kernel),
      C09.resolveLoop_step _ 8 s1 s2 _ u1 rfl r1 (by rw [u2]; decide +kernel),
      C09.resolveLoop_done _ 7 s2 u2]

/-- the modules after the extern-value pass -/
def msFin : List (Path × Mod) :=
  match Res.mapM' (xvalPass s2.reg) s2.modules with | .ok ms => ms | _ => []

theorem xvals_ok : Res.mapM' (xvalPass s2.reg) s2.modules = .ok msFin := by
  have h : (Res.mapM' (xvalPass s2.reg) s2.modules).isOk = true := by decide +kernel
  unfold msFin
  cases hx : Res.mapM' (xvalPass s2.reg) s2.modules with
  | ok ms => rfl
  | defer => rw [hx] at h; cases h
  | err m => rw [hx] at h; cases h
  | panic m => rw [hx] at h; cases h

/-- the final state of the accepted build -/
def sFin : State := { s2 with modules := msFin }

theorem run_ok : case.run = .ok sFin := by
  unfold Case.run
  rw [init]
  simp only []
  rw [build_eq, (by decide +kernel : (s0.reg.types.filter fun e => !e.2.isResolved).length = 4), loop]
  unfold buildFinish
  simp only [xvals_ok]
  rfl

/-- in the final state the placement loop reaches `y` (pending field 1) at offset 8 … -/
theorem final_offset : naturalOffset sFin ["c", "T"] itemT.vis tdT ([stX].filter C01.isFieldStmt).length = some 8 := by
  decide +kernel

/-- … but in the state in which `T` is first attempted (after `b::FooVftable`), at offset 16 -/
theorem first_offset : naturalOffset (attemptItem s0 ["b", "FooVftable"]).1 ["c", "T"] itemT.vis tdT
    ([stX].filter C01.isFieldStmt).length = some 16 := by
  decide +kernel

/-! ### the rewritten case is rejected -/

def s0' : State := C12.stateOf case'.initialState

theorem init' : case'.initialState = .ok s0' := C12.eq_ok_stateOf _ (by decide +kernel)

theorem u0' : s0'.reg.unresolved case'.prio = round1 :=
  C09.unresolved_of_sorted _ _ _ (by decide +kernel) (by decide +kernel)

theorem r0' : (runRound s0' round1).2 = .err "attempted to insert padding, but overlapped with existing region" := by
  decide +kernel

theorem run_err : case'.run = .err "attempted to insert padding, but overlapped with existing region" := by
  unfold Case.run
  rw [init']
  simp only []
  rw [build_eq]
  have hl : ∀ n, resolveLoop case'.prio (n + 1) s0'
      = .err "attempted to insert padding, but overlapped with existing region" := by
    intro n
    unfold resolveLoop
    simp only [u0']
    have hr := r0'
    cases hx : runRound s0' round1 with
    | mk t res =>
      rw [hx] at hr
      simp only [] at hr
      subst hr
      rfl
  rw [show 2 * (s0'.reg.types.filter fun e => !e.2.isResolved).length + 2
        = (2 * (s0'.reg.types.filter fun e => !e.2.isResolved).length + 1) + 1 from rfl, hl]
  rfl

/-- the two cases do not have the same output: one is accepted, the other is rejected -/
theorem outputs_differ : case'.o3 ≠ case.o3 := by
  rw [o3_eq, o3_eq, run_ok, run_err]
  intro h
  simp [o3Of, Sexp.mk] at h

end Witness

/-- **refuted**: the statement of `explicit_address_e2e` with the side condition weakened to "the case is
    accepted and in its final state the field is at offset `A`" is false -/
theorem explicit_address_final_state_refuted :
    ¬ (∀ (c c' : Case) (p : Path) (d : G.Item) (td : G.TypeDef) (spre spost : List G.Stmt) (st : G.Stmt)
        (fvis : G.Vis) (name : String) (ty : G.Ty) (A : Nat) (sf : State),
        d.inner = .type td → td.stmts = spre ++ st :: spost → st.field = .field fvis name ty → NoAddrAttr st →
        ReplacedDef c c' p d (addrRewrite d td spre spost st A) → c.run = .ok sf →
        naturalOffset sf p d.vis td (spre.filter C01.isFieldStmt).length = some A →
        c'.o3 = c.o3) := by
  intro h
  exact Witness.outputs_differ
    (h Witness.case Witness.case' ["c", "T"] Witness.itemT Witness.tdT [Witness.stX] [Witness.stZ] Witness.stY
      .pub "y" (.ident "u32") 8 Witness.sFin rfl rfl rfl Witness.noAddr Witness.replaced Witness.run_ok
      Witness.final_offset)

end PyxisVerif.C20
