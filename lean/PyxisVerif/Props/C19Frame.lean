import PyxisVerif.Lemmas.C19Frame
/-!
# C19, end to end, for descriptions without vftable blocks: the frame theorem

"A module's emitted file depends only on that module and on what it reaches through its `use`s; adding an
unrelated module to the input set leaves the file byte-identical (when both input sets are accepted)."

`Props/C19.lean` has the local facts (a lookup inspects its candidate paths only, sizes are read at the by-value
dependencies only, a file is printed from the module's own definition paths).  Here they are composed with the
schedule independence of the vftable-free fragment (`Lemmas/Mono.lean`, `Props/C09Case.lean`) into the statement
about whole cases: `c.withModule (.ast path file m)` is `c` with one more AST module at the end; when both cases are
accepted, every module of `c` is printed identically by both, the file list of the bigger case is the file list of
`c` plus the file of the new module, and the resolved registries agree on every item of `c`.

## What "unrelated" has to mean (found in the lookup code)

The new module contributes registry entries `path ++ [x]` (its definitions and extern types) and nothing else.  A
lookup of `name` made for a module with scope `own path :: uses` inspects exactly (`C09.candidates`) the scope
members themselves (a member that is a registry key counts as a *type* import, otherwise as a *module*), the
root-level path `[name]`, and `u ++ [name]` for the scope members `u`.  One of these is a new entry exactly when

* a `use` of an old module is `path` (`use path;` – then `path ++ [name]` is inspected) or a child of `path`
  (`use path::T;` – then `path ++ ["T"]` itself is inspected);
* **the path of an old module is a child of `path`**: the module `a::b` has its own path in scope; a new module
  `a` that defines a type `b` turns the scope member `a::b` from a module into a type, and every name of the module
  `a::b` that used to resolve to `a::b::name` no longer does.  This is the additional condition;
* `path` is the root `[]`: root-level names `[name]` are candidates of every lookup (and of `padding_type`, which
  looks up `u8` with an empty scope).

A `use` or a module path that extends `path` by two or more segments is harmless (no new entry is that deep), and
so is a `path` that extends an old *type* path.  `UnrelatedTight` is exactly the condition above; `Unrelated` is the
simpler over-approximation by prefixes asked for in the property text (`path` is a prefix of no old module path and
of no old `use`), which implies it whenever `c` has a module.  The new module itself is not restricted: it may `use`
old modules and embed old types (the example at the end does).
-/
namespace PyxisVerif.C19
open C09 Mono

/-- the case with one more module appended -/
def _root_.PyxisVerif.Case.withModule (c : Case) (me : ModEnt) : Case := { c with modules := c.modules ++ [me] }

/-- `path` is unrelated to the modules of `c` (all of which must be AST modules): it is not a prefix of the path of
    one of them – so it is none of these paths, none of them is a child of `path` (a new type `path::x` would turn
    the module `path::x`, which is in its own scope, into a type), and `path` is not the root when `c` has a
    module – and no `use` of any of them has it as a prefix (neither `use path;` nor `use path::T;`), so that no
    lookup made on behalf of an old module can go through it -/
def Unrelated (c : Case) (path : Path) : Prop :=
  ∀ me ∈ c.modules, match me with
    | .ast mp _ m => ¬ path <+: mp ∧ ∀ u ∈ m.uses, ¬ path <+: u
    | .text .. => False

/-- the exact condition: `path` is not the root, and no module path and no `use` of `c` is `path` or a child of
    `path` (`Near path q`: `q = path ∨ ∃ x, q = path ++ [x]`) -/
def UnrelatedTight (c : Case) (path : Path) : Prop := path ≠ [] ∧ UnrelatedMods path c.modules

theorem prefix_of_near {path q : Path} (h : Near path q) : path <+: q := by
  rcases h with rfl | ⟨x, rfl⟩
  · exact List.prefix_refl _
  · exact List.prefix_append _ _

/-- the prefix condition implies the exact one (for a case with at least one module) -/
theorem Unrelated.tight {c : Case} {path : Path} (h : Unrelated c path) (hne : c.modules ≠ []) :
    UnrelatedTight c path := by
  refine ⟨?_, ?_⟩
  · intro e
    subst e
    cases hm : c.modules with
    | nil => exact hne hm
    | cons me l =>
      have := h me (by rw [hm]; exact List.mem_cons_self)
      cases me with
      | ast mp f m => exact this.1 List.nil_prefix
      | text f t => exact this
  · intro me hme
    have := h me hme
    cases me with
    | ast mp f m => exact ⟨fun hn => this.1 (prefix_of_near hn), fun u hu hn => this.2 u hu (prefix_of_near hn)⟩
    | text f t => exact this

/-- the file the backend writes for the module `key` of a built state (`none`: no such module) -/
def fileOf (s : State) (key : Path) : Option Sexp := (s.getModule key).map (Emit.moduleFile s key)

/-! ## the initial state of the bigger case -/

theorem foldlM_append_one {α β} (f : β → α → Res β) (b : β) (l : List α) (a : α) :
    Res.foldlM f b (l ++ [a]) = (match Res.foldlM f b l with
      | .ok b' => f b' a
      | .defer => .defer
      | .err m => .err m
      | .panic s => .panic s) := by
  induction l generalizing b with
  | nil =>
    simp only [List.nil_append, Res.foldlM]
    cases f b a <;> rfl
  | cons x l ih =>
    simp only [List.cons_append, Res.foldlM]
    cases f b x with
    | ok b1 => exact ih b1
    | defer => rfl
    | err m => rfl
    | panic s => rfl

/-- appending a module to a case is `add_module` on the initial state of the case -/
theorem initialState_withModule (c : Case) (path : Path) (file : String) (m : G.Module) :
    (c.withModule (.ast path file m)).initialState = (match c.initialState with
      | .ok s => s.addModule m path
      | .defer => .defer
      | .err e => .err e
      | .panic e => .panic e) := by
  unfold Case.initialState Case.withModule
  simp only []
  rw [foldlM_append_one]
  cases Res.foldlM _ (State.new c.ps) c.modules <;> rfl

theorem caseBounded_of_withModule {c : Case} {me : ModEnt} (h : C12.CaseBounded (c.withModule me)) :
    C12.CaseBounded c :=
  fun path file m hm => h path file m (List.mem_append_left _ hm)

theorem caseNoVft_of_withModule {c : Case} {me : ModEnt} (h : CaseNoVft (c.withModule me)) : CaseNoVft c :=
  fun me' hme => h me' (List.mem_append_left _ hme)

/-- what an accepted pair of runs consists of -/
theorem runs_inv (c : Case) (path : Path) (file : String) (m : G.Module) (s s' : State) (h : c.run = .ok s)
    (h' : (c.withModule (.ast path file m)).run = .ok s') :
    ∃ s0 t0, c.initialState = .ok s0 ∧ (c.withModule (.ast path file m)).initialState = .ok t0 ∧
      s0.addModule m path = .ok t0 ∧ s0.build c.prio = .ok s ∧ t0.build c.prio = .ok s' := by
  unfold Case.run at h h'
  cases hi : c.initialState with
  | ok s0 =>
    rw [hi] at h
    simp only [] at h
    have e := initialState_withModule c path file m
    rw [hi] at e
    simp only [] at e
    cases hi' : (c.withModule (.ast path file m)).initialState with
    | ok t0 =>
      rw [hi'] at h' e
      simp only [] at h'
      exact ⟨s0, t0, rfl, rfl, e.symm, h, h'⟩
    | defer => rw [hi'] at h'; cases h'
    | err x => rw [hi'] at h'; cases h'
    | panic x => rw [hi'] at h'; cases h'
  | defer => rw [hi] at h; cases h
  | err x => rw [hi] at h; cases h
  | panic x => rw [hi] at h; cases h

/-! ## the frame theorem -/

/-- **frame, registry and modules** (exact condition): when both input sets are accepted,

* the resolved registries agree on every path that is not directly under `path` – in particular on every item of
  `c` – and the bigger one has additional entries directly under `path` only (`RegExt`);
* the module list of the bigger final state is that of the smaller one plus the new module;
* every module of the smaller final state is printed identically from the bigger final state. -/
theorem added_module_core (c : Case) (path : Path) (file : String) (m : G.Module)
    (hps : c.ps = 4 ∨ c.ps = 8)
    (hb : C12.CaseBounded (c.withModule (.ast path file m))) (hv : CaseNoVft (c.withModule (.ast path file m)))
    (hu : UnrelatedTight c path)
    (s s' : State) (h : c.run = .ok s) (h' : (c.withModule (.ast path file m)).run = .ok s') :
    RegExt path s.reg s'.reg ∧ (∃ M', s'.modules = (path, M') :: s.modules) ∧ FrameInv path s ∧
    (∀ e ∈ s.modules, Emit.moduleFile s' e.1 e.2 = Emit.moduleFile s e.1 e.2) := by
  obtain ⟨s0, t0, hi, hi', hadd, hbs, hbt⟩ := runs_inv c path file m s s' h h'
  have hbc := caseBounded_of_withModule hb
  have hvc := caseNoVft_of_withModule hv
  have hoks : C12.StateOkB s0 := (C12.initialState_shape c hps hbc).2 s0 hi
  have hokt : C12.StateOkB t0 := (C12.initialState_shape (c.withModule (.ast path file m)) hps hb).2 t0 hi'
  have hvs := noVftS_of_noVft (initialState_clean c hvc s0 hi).noVft
  have hvt := noVftS_of_noVft (initialState_clean (c.withModule (.ast path file m)) hv t0 hi').noVft
  have hf := initialState_frameInv hu.1 c hu.2 s0 hi
  exact frame_states hu.1 (addModule_stExt s0 t0 m hf hadd) hf hoks hokt hvs hvt
    (initialState_flat c s0 hi) (initialState_flat _ t0 hi') c.prio c.prio s s' hbs hbt

/-- **frame, per module** (exact condition): the file of every module path other than `path` is the same in both
    final states; for the modules of `c` there is such a file -/
theorem added_module_frame_tight (c : Case) (path : Path) (file : String) (m : G.Module)
    (hps : c.ps = 4 ∨ c.ps = 8)
    (hb : C12.CaseBounded (c.withModule (.ast path file m))) (hv : CaseNoVft (c.withModule (.ast path file m)))
    (hu : UnrelatedTight c path)
    (s s' : State) (h : c.run = .ok s) (h' : (c.withModule (.ast path file m)).run = .ok s') :
    (∀ key, key ≠ path → fileOf s' key = fileOf s key) ∧
    (∀ mp f0 m0, ModEnt.ast mp f0 m0 ∈ c.modules → mp ≠ path ∧ (fileOf s mp).isSome = true) := by
  obtain ⟨_, ⟨M', hM'⟩, _, hfile⟩ := added_module_core c path file m hps hb hv hu s s' h h'
  refine ⟨?_, ?_⟩
  · intro key hk
    have : (key == path) = false := by simpa using hk
    have hl' : List.lookup key s'.modules = List.lookup key s.modules := by
      rw [hM', List.lookup_cons, this]
    unfold fileOf State.getModule
    rw [hl']
    cases hl : List.lookup key s.modules with
    | none => simp only [Option.map_none]
    | some mod =>
      simp only [Option.map_some, Option.some.injEq]
      exact hfile (key, mod) (C14.mem_of_lookup _ _ _ hl)
  · intro mp f0 m0 hm
    obtain ⟨s0, t0, hi, _, _, hbs, _⟩ := runs_inv c path file m s s' h h'
    have hbc := caseBounded_of_withModule hb
    have hvc := caseNoVft_of_withModule hv
    have hoks : C12.StateOkB s0 := (C12.initialState_shape c hps hbc).2 s0 hi
    have hvs := noVftS_of_noVft (initialState_clean c hvc s0 hi).noVft
    refine ⟨fun e => (hu.2 _ hm).1 (.inl e), ?_⟩
    unfold fileOf
    rw [Option.isSome_map, build_getModule s0 hoks hvs c.prio s hbs mp]
    exact initialState_getModule c s0 hi mp f0 m0 hm

/-- **frame**: when both input sets are accepted, every old module's emitted file is the same (and there is one) -/
theorem added_module_frame (c : Case) (path : Path) (file : String) (m : G.Module)
    (hps : c.ps = 4 ∨ c.ps = 8)
    (hb : C12.CaseBounded (c.withModule (.ast path file m))) (hv : CaseNoVft (c.withModule (.ast path file m)))
    (hu : Unrelated c path)
    (s s' : State) (h : c.run = .ok s) (h' : (c.withModule (.ast path file m)).run = .ok s') :
    ∀ me ∈ c.modules, ∀ mp f0 m0, me = ModEnt.ast mp f0 m0 →
      fileOf s' mp = fileOf s mp ∧ (fileOf s mp).isSome = true := by
  intro me hme mp f0 m0 e
  subst e
  have hut := hu.tight (List.ne_nil_of_mem hme)
  obtain ⟨h1, h2⟩ := added_module_frame_tight c path file m hps hb hv hut s s' h h'
  obtain ⟨hne, hsome⟩ := h2 mp f0 m0 hme
  exact ⟨h1 mp hne, hsome⟩

/-- **frame, file lists** (exact condition): the files of the bigger case are the files of `c` plus the file of the
    new module (as lists: up to the position at which the new file is sorted in) -/
theorem added_module_files_tight (c : Case) (path : Path) (file : String) (m : G.Module)
    (hps : c.ps = 4 ∨ c.ps = 8)
    (hb : C12.CaseBounded (c.withModule (.ast path file m))) (hv : CaseNoVft (c.withModule (.ast path file m)))
    (hu : UnrelatedTight c path)
    (s s' : State) (h : c.run = .ok s) (h' : (c.withModule (.ast path file m)).run = .ok s') :
    ∃ M', s'.getModule path = some M' ∧
      (Emit.files s').Perm (Emit.moduleFile s' path M' :: Emit.files s) := by
  obtain ⟨_, ⟨M', hM'⟩, _, hfile⟩ := added_module_core c path file m hps hb hv hu s s' h h'
  refine ⟨M', by simp [State.getModule, hM'], ?_⟩
  unfold Emit.files Emit.sortBy
  have hnp : (!(path.isEmpty)) = true := by
    cases path with
    | nil => exact absurd rfl hu.1
    | cons a l => rfl
  have e1 : (s'.modules.filter fun e => !e.1.isEmpty) = (path, M') :: (s.modules.filter fun e => !e.1.isEmpty) := by
    rw [hM', List.filter_cons, if_pos hnp]
  have e2 : (s.modules.filter fun e => !e.1.isEmpty).map (fun e => Emit.moduleFile s' e.1 e.2)
      = (s.modules.filter fun e => !e.1.isEmpty).map (fun e => Emit.moduleFile s e.1 e.2) :=
    List.map_congr_left (fun e he => hfile e (List.mem_filter.mp he).1)
  simp only [e1]
  refine ((List.mergeSort_perm _ _).map _).trans ?_
  rw [List.map_cons, e2]
  exact List.Perm.cons _ ((List.mergeSort_perm _ _).map _).symm

/-- **frame, file lists**: every file of `c` is a file of the bigger case, every file of the bigger case is a file of
    `c` or the file of the new module -/
theorem added_module_files (c : Case) (path : Path) (file : String) (m : G.Module)
    (hps : c.ps = 4 ∨ c.ps = 8)
    (hb : C12.CaseBounded (c.withModule (.ast path file m))) (hv : CaseNoVft (c.withModule (.ast path file m)))
    (hu : Unrelated c path) (hne : c.modules ≠ [])
    (s s' : State) (h : c.run = .ok s) (h' : (c.withModule (.ast path file m)).run = .ok s') :
    (∀ f ∈ Emit.files s, f ∈ Emit.files s') ∧
    (∀ f ∈ Emit.files s', f ∈ Emit.files s ∨ some f = fileOf s' path) ∧
    (Emit.files s').length = (Emit.files s).length + 1 := by
  obtain ⟨M', hM', hp⟩ := added_module_files_tight c path file m hps hb hv (hu.tight hne) s s' h h'
  refine ⟨fun f hf => hp.symm.subset (List.mem_cons_of_mem _ hf), ?_, ?_⟩
  · intro f hf
    rcases List.mem_cons.mp (hp.subset hf) with e | e
    · right; rw [e]; unfold fileOf; rw [hM']; rfl
    · exact .inl e
  · rw [hp.length_eq, List.length_cons]

/-- … and so for the observation O3: both are file lists, the bigger one is the smaller one plus one file -/
theorem added_module_o3 (c : Case) (path : Path) (file : String) (m : G.Module)
    (hps : c.ps = 4 ∨ c.ps = 8)
    (hb : C12.CaseBounded (c.withModule (.ast path file m))) (hv : CaseNoVft (c.withModule (.ast path file m)))
    (hu : Unrelated c path) (hne : c.modules ≠ [])
    (s s' : State) (h : c.run = .ok s) (h' : (c.withModule (.ast path file m)).run = .ok s') :
    ∃ fs fs' f, c.o3 = Sexp.mk "files" fs ∧ (c.withModule (.ast path file m)).o3 = Sexp.mk "files" fs' ∧
      fs'.Perm (f :: fs) := by
  obtain ⟨M', _, hp⟩ := added_module_files_tight c path file m hps hb hv (hu.tight hne) s s' h h'
  refine ⟨Emit.files s, Emit.files s', _, ?_, ?_, hp⟩
  · unfold Case.o3; rw [h]
  · unfold Case.o3; rw [h']

/-- … and for the resolved registry (O2's items): every item of the smaller final registry is in the bigger one,
    unchanged -/
theorem added_module_registry (c : Case) (path : Path) (file : String) (m : G.Module)
    (hps : c.ps = 4 ∨ c.ps = 8)
    (hb : C12.CaseBounded (c.withModule (.ast path file m))) (hv : CaseNoVft (c.withModule (.ast path file m)))
    (hu : Unrelated c path) (hne : c.modules ≠ [])
    (s s' : State) (h : c.run = .ok s) (h' : (c.withModule (.ast path file m)).run = .ok s') :
    (∀ q i, s.reg.get q = some i → s'.reg.get q = some i) ∧
    (∀ q, s'.reg.contains q = true → s.reg.contains q = true ∨ ∃ x, q = path ++ [x]) := by
  obtain ⟨hr, _, _, _⟩ := added_module_core c path file m hps hb hv (hu.tight hne) s s' h h'
  exact ⟨fun q i hi => hr.get_ext hi, hr.new⟩


/-! ## non-vacuity: a concrete pair of cases that satisfies every hypothesis, both accepted

The smaller case is the one of `C09.Example` (pointer width 8, modules `a` and `b` whose types reference each other
across modules), the added module is

```text
// z.pyxis
use a::A;
pub type Z { pub a: A, pub n: u64 }
```

It *does* depend on the old modules (it embeds `a::A` by value, which in turn needs `a::Kind`); nothing of `a` or
`b` mentions `z`.  The priority is `[z::Z, b::B, a::A]`, the worst one: the build of the bigger case takes three
rounds (`Kind`; `A`; `Z` and `B`) and a fourth to see that nothing is left.  As in `C09.Example` the resolution
loop is stepped through round by round (`List.mergeSort` does not reduce in the kernel). -/
namespace Example

def modZ : G.Module :=
  { uses := [["a", "A"]],
    defs := [
      { vis := .pub, name := "Z",
        inner := .type { stmts := [{ field := .field .pub "a" (.ident "A"), attrs := [] },
                                   { field := .field .pub "n" (.ident "u64"), attrs := [] }],
                         attrs := [] } }] }

/-- the case of `C09.Example`, with a priority list that also names the item of the module to be added -/
def small : Case := { C09.Example.case with prio := [["z", "Z"], ["b", "B"], ["a", "A"]] }

def big : Case := small.withModule (.ast ["z"] "z.pyxis" modZ)

/-! ### the hypotheses of the theorems -/

theorem modZ_bounded : C12.ModuleBounded modZ := by
  refine ⟨?_, ?_⟩
  · intro d hd
    simp only [modZ, List.mem_cons, List.not_mem_nil, or_false] at hd
    subst hd
    intro n args z ha; cases ha
  · intro xt hx; cases hx

theorem modZ_noVft : ModNoVft modZ := by
  intro d hd
  simp only [modZ, List.mem_cons, List.not_mem_nil, or_false] at hd
  subst hd
  intro st hst
  simp only [List.mem_cons, List.not_mem_nil, or_false] at hst
  rcases hst with rfl | rfl <;> trivial

theorem big_bounded : C12.CaseBounded big := by
  intro path file m hm
  simp only [big, small, Case.withModule, C09.Example.case, List.cons_append, List.nil_append, List.mem_cons,
    List.not_mem_nil, or_false, ModEnt.ast.injEq] at hm
  rcases hm with ⟨_, _, rfl⟩ | ⟨_, _, rfl⟩ | ⟨_, _, rfl⟩
  · exact C09.Example.modA_bounded
  · exact C09.Example.modB_bounded
  · exact modZ_bounded

theorem big_noVft : CaseNoVft big := by
  intro me hme
  simp only [big, small, Case.withModule, C09.Example.case, List.cons_append, List.nil_append, List.mem_cons,
    List.not_mem_nil, or_false] at hme
  rcases hme with rfl | rfl | rfl
  · exact C09.Example.modA_noVft
  · exact C09.Example.modB_noVft
  · exact modZ_noVft

theorem not_prefix_of_head {a b : String} (h : a ≠ b) (l l' : List String) : ¬ (a :: l) <+: (b :: l') := by
  rintro ⟨t, ht⟩
  simp only [List.cons_append, List.cons.injEq] at ht
  exact h ht.1

theorem unrelated : Unrelated small ["z"] := by
  intro me hme
  simp only [small, C09.Example.case, List.mem_cons, List.not_mem_nil, or_false] at hme
  rcases hme with rfl | rfl
  · refine ⟨not_prefix_of_head (by decide) _ _, ?_⟩
    intro u hu
    simp only [C09.Example.modA, List.mem_cons, List.not_mem_nil, or_false] at hu
    subst hu
    exact not_prefix_of_head (by decide) _ _
  · refine ⟨not_prefix_of_head (by decide) _ _, ?_⟩
    intro u hu
    simp only [C09.Example.modB, List.mem_cons, List.not_mem_nil, or_false] at hu
    subst hu
    exact not_prefix_of_head (by decide) _ _

/-! ### both runs are accepted -/

/-- the smaller case is accepted (`C09.Example`, under another priority) -/
theorem small_ok : isOkB small.run = true := (C09.Example.any_prio _).1

/-- the state after `add_module` of the three modules … -/
def t0 : State := C12.stateOf big.initialState
/-- … after round 1 (`Z`, `B` and `A` deferred, `Kind` resolved) … -/
def t1 : State := (runRound t0 [["z", "Z"], ["b", "B"], ["a", "A"], ["a", "Kind"]]).1
/-- … after round 2 (`Z` and `B` deferred, `A` resolved) … -/
def t2 : State := (runRound t1 [["z", "Z"], ["b", "B"], ["a", "A"]]).1
/-- … and after round 3 (`Z` and `B` resolved) -/
def t3 : State := (runRound t2 [["z", "Z"], ["b", "B"]]).1

theorem init : big.initialState = .ok t0 := C12.eq_ok_stateOf _ (by decide +kernel)

theorem u0 : t0.reg.unresolved big.prio = [["z", "Z"], ["b", "B"], ["a", "A"], ["a", "Kind"]] :=
  unresolved_of_sorted _ _ _ (by decide +kernel) (by decide +kernel)
theorem u1 : t1.reg.unresolved big.prio = [["z", "Z"], ["b", "B"], ["a", "A"]] :=
  unresolved_of_sorted _ _ _ (by decide +kernel) (by decide +kernel)
theorem u2 : t2.reg.unresolved big.prio = [["z", "Z"], ["b", "B"]] :=
  unresolved_of_sorted _ _ _ (by decide +kernel) (by decide +kernel)
theorem u3 : t3.reg.unresolved big.prio = [] :=
  unresolved_of_sorted _ _ _ (by decide +kernel) (by decide +kernel)

theorem r0 : runRound t0 [["z", "Z"], ["b", "B"], ["a", "A"], ["a", "Kind"]] = (t1, .ok ()) := by
  have : (runRound t0 [["z", "Z"], ["b", "B"], ["a", "A"], ["a", "Kind"]]).2 = .ok () := by decide +kernel
  rw [← this]; rfl
theorem r1 : runRound t1 [["z", "Z"], ["b", "B"], ["a", "A"]] = (t2, .ok ()) := by
  have : (runRound t1 [["z", "Z"], ["b", "B"], ["a", "A"]]).2 = .ok () := by decide +kernel
  rw [← this]; rfl
theorem r2 : runRound t2 [["z", "Z"], ["b", "B"]] = (t3, .ok ()) := by
  have : (runRound t2 [["z", "Z"], ["b", "B"]]).2 = .ok () := by decide +kernel
  rw [← this]; rfl

theorem loop : resolveLoop big.prio 10 t0 = .ok t3 := by
  rw [resolveLoop_step _ 9 t0 t1 _ u0 rfl r0 (by rw [u1]; decide +kernel),
      resolveLoop_step _ 8 t1 t2 _ u1 rfl r1 (by rw [u2]; decide +kernel),
      resolveLoop_step _ 7 t2 t3 _ u2 rfl r2 (by rw [u3]; decide +kernel),
      resolveLoop_done _ 6 t3 u3]

/-- the bigger case is accepted -/
theorem big_ok : isOkB big.run = true := by
  unfold Case.run
  rw [init]
  simp only []
  unfold State.build
  simp only []
  rw [(by decide +kernel : (t0.reg.types.filter fun e => !e.2.isResolved).length = 4)]
  rw [loop]
  decide +kernel

/-- the new item is resolved in the bigger final registry, with size 24: it needs `a::A` (16) from an old module -/
example : (t3.reg.get ["z", "Z"]).bind (fun i => i.resolved?.map (·.size)) = some 24 := by decide +kernel

/-- the theorems apply: the files of `a` and `b` exist and are the same in both final states, the bigger case emits
    exactly one file more, and every item of the smaller final registry is in the bigger one unchanged -/
theorem frame_applies :
    ∃ s s', small.run = .ok s ∧ big.run = .ok s' ∧
      (fileOf s' ["a"] = fileOf s ["a"] ∧ (fileOf s ["a"]).isSome = true) ∧
      (fileOf s' ["b"] = fileOf s ["b"] ∧ (fileOf s ["b"]).isSome = true) ∧
      (∀ f ∈ Emit.files s, f ∈ Emit.files s') ∧ (Emit.files s').length = (Emit.files s).length + 1 ∧
      (∀ q i, s.reg.get q = some i → s'.reg.get q = some i) := by
  obtain ⟨s, hs⟩ := (isOkB_iff _).mp small_ok
  obtain ⟨s', hs'⟩ := (isOkB_iff _).mp big_ok
  have hne : small.modules ≠ [] := by simp [small, C09.Example.case]
  have hf := added_module_frame small ["z"] "z.pyxis" modZ (Or.inr rfl) big_bounded big_noVft unrelated s s' hs hs'
  have hl := added_module_files small ["z"] "z.pyxis" modZ (Or.inr rfl) big_bounded big_noVft unrelated hne s s' hs hs'
  have hr := added_module_registry small ["z"] "z.pyxis" modZ (Or.inr rfl) big_bounded big_noVft unrelated hne s s' hs hs'
  refine ⟨s, s', hs, hs', ?_, ?_, hl.1, hl.2.2, hr.1⟩
  · exact hf _ (by simp [small, C09.Example.case]) ["a"] "a.pyxis" C09.Example.modA rfl
  · exact hf _ (by simp [small, C09.Example.case]) ["b"] "b.pyxis" C09.Example.modB rfl

end Example


/-! ## the additional condition is needed: a kernel-checked witness

`UnrelatedWeak` is the condition without the clause on module paths: `path` is not the path of an old module, and
no `use` of an old module has it as a prefix.  Under it the frame property is FALSE.  The old case has the one
module `a::b`:

```text
// a/b.pyxis
pub type b { pub x: u32 }
pub type U { pub t: b }
```

and the added module `a` defines a type of the name of that module:

```text
// a.pyxis
pub type b { pub x: u64, pub y: u64 }
```

Alone, the field `t` of `a::b::U` is looked up as `b` in the scope `[a::b]`, where `a::b` is a module: it binds to
`a::b::b` (4 bytes).  With the module `a`, the scope member `a::b` is a registry key, hence a *type* import of the
name `b`: the same field binds to the new `a::b` (16 bytes).  Both cases are accepted, the module `a::b` has no
`use` at all and its path is not `a`, yet its item `a::b::U` – and so its file – changes.  The statement refuted
is the registry part of the frame property (`added_module_registry`), which the kernel can evaluate
(`Emit.moduleFile` sorts with `List.mergeSort`, which does not reduce in the kernel). -/
namespace Refute

/-- the condition without the clause on module paths -/
def UnrelatedWeak (c : Case) (path : Path) : Prop :=
  ∀ me ∈ c.modules, match me with
    | .ast mp _ m => mp ≠ path ∧ ∀ u ∈ m.uses, ¬ path <+: u
    | .text .. => False

def modAB : G.Module :=
  { defs := [
      { vis := .pub, name := "b",
        inner := .type { stmts := [{ field := .field .pub "x" (.ident "u32"), attrs := [] }], attrs := [] } },
      { vis := .pub, name := "U",
        inner := .type { stmts := [{ field := .field .pub "t" (.ident "b"), attrs := [] }], attrs := [] } }] }

def modA : G.Module :=
  { defs := [
      { vis := .pub, name := "b",
        inner := .type { stmts := [{ field := .field .pub "x" (.ident "u64"), attrs := [] },
                                   { field := .field .pub "y" (.ident "u64"), attrs := [] }], attrs := [] } }] }

def small : Case :=
  { id := "c19-weak", ps := 8, prio := [], modules := [.ast ["a", "b"] "a/b.pyxis" modAB], extras := [] }

def big : Case := small.withModule (.ast ["a"] "a.pyxis" modA)

theorem big_bounded : C12.CaseBounded big := by
  intro path file m hm
  simp only [big, small, Case.withModule, List.cons_append, List.nil_append, List.mem_cons,
    List.not_mem_nil, or_false, ModEnt.ast.injEq] at hm
  rcases hm with ⟨_, _, rfl⟩ | ⟨_, _, rfl⟩
  · refine ⟨?_, fun xt hx => by cases hx⟩
    intro d hd
    simp only [modAB, List.mem_cons, List.not_mem_nil, or_false] at hd
    rcases hd with rfl | rfl <;> (intro n args z ha; cases ha)
  · refine ⟨?_, fun xt hx => by cases hx⟩
    intro d hd
    simp only [modA, List.mem_cons, List.not_mem_nil, or_false] at hd
    subst hd
    intro n args z ha; cases ha

theorem big_noVft : CaseNoVft big := by
  intro me hme
  simp only [big, small, Case.withModule, List.cons_append, List.nil_append, List.mem_cons,
    List.not_mem_nil, or_false] at hme
  rcases hme with rfl | rfl
  · intro d hd
    simp only [modAB, List.mem_cons, List.not_mem_nil, or_false] at hd
    rcases hd with rfl | rfl
    · intro st hst
      simp only [List.mem_cons, List.not_mem_nil, or_false] at hst
      subst hst; trivial
    · intro st hst
      simp only [List.mem_cons, List.not_mem_nil, or_false] at hst
      subst hst; trivial
  · intro d hd
    simp only [modA, List.mem_cons, List.not_mem_nil, or_false] at hd
    subst hd
    intro st hst
    simp only [List.mem_cons, List.not_mem_nil, or_false] at hst
    rcases hst with rfl | rfl <;> trivial

theorem unrelatedWeak : UnrelatedWeak small ["a"] := by
  intro me hme
  simp only [small, List.mem_cons, List.not_mem_nil, or_false] at hme
  subst hme
  exact ⟨by decide, fun u hu => by cases hu⟩

/-! the smaller case: two rounds (`U` deferred, `b` resolved; `U` resolved) -/

def s0 : State := C12.stateOf small.initialState
def s1 : State := (runRound s0 [["a", "b", "U"], ["a", "b", "b"]]).1
def s2 : State := (runRound s1 [["a", "b", "U"]]).1

theorem sInit : small.initialState = .ok s0 := C12.eq_ok_stateOf _ (by decide +kernel)
theorem su0 : s0.reg.unresolved small.prio = [["a", "b", "U"], ["a", "b", "b"]] :=
  unresolved_of_sorted _ _ _ (by decide +kernel) (by decide +kernel)
theorem su1 : s1.reg.unresolved small.prio = [["a", "b", "U"]] :=
  unresolved_of_sorted _ _ _ (by decide +kernel) (by decide +kernel)
theorem su2 : s2.reg.unresolved small.prio = [] :=
  unresolved_of_sorted _ _ _ (by decide +kernel) (by decide +kernel)
theorem sr0 : runRound s0 [["a", "b", "U"], ["a", "b", "b"]] = (s1, .ok ()) := by
  have : (runRound s0 [["a", "b", "U"], ["a", "b", "b"]]).2 = .ok () := by decide +kernel
  rw [← this]; rfl
theorem sr1 : runRound s1 [["a", "b", "U"]] = (s2, .ok ()) := by
  have : (runRound s1 [["a", "b", "U"]]).2 = .ok () := by decide +kernel
  rw [← this]; rfl
theorem sLoop : resolveLoop small.prio 6 s0 = .ok s2 := by
  rw [resolveLoop_step _ 5 s0 s1 _ su0 rfl sr0 (by rw [su1]; decide +kernel),
      resolveLoop_step _ 4 s1 s2 _ su1 rfl sr1 (by rw [su2]; decide +kernel),
      resolveLoop_done _ 3 s2 su2]

theorem small_build : s0.build small.prio = (match Res.mapM' (fun (e : Path × Mod) =>
        match resolveXVals s2.reg e.2 with
        | .ok m => Res.ok (e.1, m)
        | x => x.cast) s2.modules with
    | .ok ms => .ok { s2 with modules := ms }
    | .err m => .err m
    | .panic m => .panic m
    | .defer => .err "unreachable") := by
  unfold State.build
  simp only []
  rw [(by decide +kernel : (s0.reg.types.filter fun e => !e.2.isResolved).length = 2)]
  rw [sLoop]
  rfl

theorem small_ok : isOkB small.run = true := by
  unfold Case.run
  rw [sInit]
  simp only []
  rw [small_build]
  decide +kernel

/-! the bigger case: one round (`a::b`, then `U` – which binds `b` to the type `a::b` –, then `a::b::b`) -/

def t0 : State := C12.stateOf big.initialState
def t1 : State := (runRound t0 [["a", "b"], ["a", "b", "U"], ["a", "b", "b"]]).1

theorem tInit : big.initialState = .ok t0 := C12.eq_ok_stateOf _ (by decide +kernel)
theorem tu0 : t0.reg.unresolved big.prio = [["a", "b"], ["a", "b", "U"], ["a", "b", "b"]] :=
  unresolved_of_sorted _ _ _ (by decide +kernel) (by decide +kernel)
theorem tu1 : t1.reg.unresolved big.prio = [] :=
  unresolved_of_sorted _ _ _ (by decide +kernel) (by decide +kernel)
theorem tr0 : runRound t0 [["a", "b"], ["a", "b", "U"], ["a", "b", "b"]] = (t1, .ok ()) := by
  have : (runRound t0 [["a", "b"], ["a", "b", "U"], ["a", "b", "b"]]).2 = .ok () := by decide +kernel
  rw [← this]; rfl
theorem tLoop : resolveLoop big.prio 8 t0 = .ok t1 := by
  rw [resolveLoop_step _ 7 t0 t1 _ tu0 rfl tr0 (by rw [tu1]; decide +kernel),
      resolveLoop_done _ 6 t1 tu1]

theorem big_build : t0.build big.prio = (match Res.mapM' (fun (e : Path × Mod) =>
        match resolveXVals t1.reg e.2 with
        | .ok m => Res.ok (e.1, m)
        | x => x.cast) t1.modules with
    | .ok ms => .ok { t1 with modules := ms }
    | .err m => .err m
    | .panic m => .panic m
    | .defer => .err "unreachable") := by
  unfold State.build
  simp only []
  rw [(by decide +kernel : (t0.reg.types.filter fun e => !e.2.isResolved).length = 3)]
  rw [tLoop]
  rfl

theorem big_ok : isOkB big.run = true := by
  unfold Case.run
  rw [tInit]
  simp only []
  rw [big_build]
  decide +kernel

theorem small_reg (s : State) (h : small.run = .ok s) : s.reg = s2.reg := by
  unfold Case.run at h
  rw [sInit] at h
  simp only [] at h
  rw [small_build] at h
  split at h
  · cases h; rfl
  · cases h
  · cases h
  · cases h

theorem big_reg (s : State) (h : big.run = .ok s) : s.reg = t1.reg := by
  unfold Case.run at h
  rw [tInit] at h
  simp only [] at h
  rw [big_build] at h
  split at h
  · cases h; rfl
  · cases h
  · cases h
  · cases h

/-- the entry of `a::b::U` in the smaller final registry -/
def entryU : ItemDef := match s2.reg.get ["a", "b", "U"] with | some i => i | none => default

/-- alone, `a::b::U` is 4 bytes; with the module `a` it is 16 bytes -/
example : (s2.reg.get ["a", "b", "U"]).bind (fun i => i.resolved?.map (·.size)) = some 4 ∧
    (t1.reg.get ["a", "b", "U"]).bind (fun i => i.resolved?.map (·.size)) = some 16 := by decide +kernel

/-- **REFUTED**: the frame property under the condition without the clause on module paths -/
theorem added_module_registry_weak_refuted :
    ¬ ∀ (c : Case) (path : Path) (file : String) (m : G.Module), (c.ps = 4 ∨ c.ps = 8) →
      C12.CaseBounded (c.withModule (.ast path file m)) → CaseNoVft (c.withModule (.ast path file m)) →
      UnrelatedWeak c path →
      ∀ s s', c.run = .ok s → (c.withModule (.ast path file m)).run = .ok s' →
        ∀ q i, s.reg.get q = some i → s'.reg.get q = some i := by
  intro H
  obtain ⟨s, hs⟩ := (isOkB_iff _).mp small_ok
  obtain ⟨s', hs'⟩ := (isOkB_iff _).mp big_ok
  have h1 : s.reg.get ["a", "b", "U"] = some entryU := by
    rw [small_reg s hs]; decide +kernel
  have h2 := H small ["a"] "a.pyxis" modA (Or.inr rfl) big_bounded big_noVft unrelatedWeak s s' hs hs' _ _ h1
  rw [big_reg s' hs'] at h2
  exact absurd h2 (by decide +kernel)

end Refute

end PyxisVerif.C19
