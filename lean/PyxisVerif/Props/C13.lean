import PyxisVerif.Spec.C13
import PyxisVerif.Lemmas.C13
/-!
# C13 – the emitted files form a Rust crate that type-checks (preconditions guaranteed by acceptance)
-/
namespace PyxisVerif.C13
open Gen

/-- E0124: the named fields of an accepted type are pairwise distinct -/
theorem field_names_distinct (reg : Registry) (scope : List Path) (stmts : List (Nat × G.Stmt)) (sa : StmtAcc)
    (h : Res.foldlM (stmtStep reg scope) {} stmts = .ok sa) :
    (sa.pending.filterMap (·.2.name)).Nodup := by
  sorry

/-- E0424: every virtual function of an accepted type has a receiver -/
theorem vfuncs_have_receiver (reg : Registry) (scope : List Path) (acc acc' : StmtAcc) (idx : Nat) (st : G.Stmt)
    (fns : List G.Func) (hf : st.field = .vftable fns) (h : stmtStep reg scope acc (idx, st) = .ok acc') :
    ∀ f ∈ fns, hasReceiver f = true := by
  sorry

/-- base fields are named (the accessor and the forwarders refer to them by name) -/
theorem base_fields_named (reg : Registry) (scope : List Path) (stmts : List (Nat × G.Stmt)) (sa : StmtAcc)
    (h : Res.foldlM (stmtStep reg scope) {} stmts = .ok sa) :
    ∀ p ∈ sa.pending, p.2.isBase = true → p.2.name.isSome = true := by
  sorry

/-- E0084, E0081, E0428: an accepted enum has at least one case, and its cases have pairwise distinct
    names and pairwise distinct values -/
theorem enum_cases_distinct (s : State) (p : Path) (d : G.EnumDef) (r : Resolved) (h : buildEnum s p d = .ok r) :
    ∃ ed, r.inner = .enum ed ∧ ed.fields ≠ [] ∧ (ed.fields.map (·.1)).Nodup ∧ (ed.fields.map (·.2)).Nodup := by
  sorry

/-- E0589: the alignment written into `repr(C, align(N))` is a power of two -/
theorem align_is_pow2 {β} (ps : Nat) (align? : Option Nat) (rs : List (Layout.Placed β)) (size a : Nat)
    (h : Layout.alignCheck ps false align? rs size = .ok a) : ∃ k, a = 2 ^ k := by
  sorry

/-- E0204: whenever `Copy` is derived, `Clone` is derived too -/
theorem copy_implies_clone (attrs : List G.Attr) (h : "Copy" ∈ C17.specDerives attrs) : "Clone" ∈ C17.specDerives attrs := by
  sorry

/-- E0277: in an accepted `defaultable` type no field is a pointer or function pointer, and every field
    type that is already resolved is itself defaultable -/
theorem defaultable_fields (reg : Registry) (regions : List Region) (h : checkDefaultable reg regions = .ok ()) :
    ∀ r ∈ regions, ∃ p item, defaultablePath r.ty = some p ∧ reg.get p = some item ∧
      ∀ res, item.state = .res res → res.inner.defaultable = true := by
  sorry

/-- E0412 / E0433: every item path mentioned by a resolved type expression is an existing definition,
    so the fully qualified path pyxis prints for it resolves -/
theorem printed_paths_exist (reg : Registry) (scope : List Path) (g : G.Ty) (t : DTy)
    (h : reg.resolveTy scope g = .ok t) : ∀ p ∈ rawPaths t, reg.contains p = true := by
  sorry

end PyxisVerif.C13
