import PyxisVerif.Spec.C13
import PyxisVerif.Lemmas.C13
/-!
# C13 – the emitted files form a Rust crate that type-checks (preconditions guaranteed by acceptance)
-/
namespace PyxisVerif.C13
open Gen

/-- E0124: the named fields of an accepted type are pairwise distinct -/
theorem field_names_distinct (reg : Registry) (scope : List Path) (stmts : List (Nat × G.Stmt)) (sa : StmtAcc)
    (h : Res.foldlM (stmtStep reg scope) {} stmts = .ok sa) :
    (sa.pending.filterMap (·.2.name)).Nodup := by
  exact (pendingOk_loop reg scope stmts sa h).1

/-- E0424: every virtual function of an accepted type has a receiver -/
theorem vfuncs_have_receiver (reg : Registry) (scope : List Path) (acc acc' : StmtAcc) (idx : Nat) (st : G.Stmt)
    (fns : List G.Func) (hf : st.field = .vftable fns) (h : stmtStep reg scope acc (idx, st) = .ok acc') :
    ∀ f ∈ fns, hasReceiver f = true := by
  intro f hfm
  unfold stmtStep at h
  simp only [hf] at h
  split at h
  · cases h
  · split at h
    · cases h
    · rename_i hany
      have hfalse := List.any_eq_false.mp (Bool.eq_false_iff.mpr hany) f hfm
      simp only [Bool.not_eq_true, Bool.not_eq_false'] at hfalse
      exact hfalse

/-- base fields are named (the accessor and the forwarders refer to them by name) -/
theorem base_fields_named (reg : Registry) (scope : List Path) (stmts : List (Nat × G.Stmt)) (sa : StmtAcc)
    (h : Res.foldlM (stmtStep reg scope) {} stmts = .ok sa) :
    ∀ p ∈ sa.pending, p.2.isBase = true → p.2.name.isSome = true := by
  exact (pendingOk_loop reg scope stmts sa h).2

/-- E0084, E0081, E0428: an accepted enum has at least one case, and its cases have pairwise distinct
    names and pairwise distinct values -/
theorem enum_cases_distinct (s : State) (p : Path) (d : G.EnumDef) (r : Resolved) (h : buildEnum s p d = .ok r) :
    ∃ ed, r.inner = .enum ed ∧ ed.fields ≠ [] ∧ (ed.fields.map (·.1)).Nodup ∧ (ed.fields.map (·.2)).Nodup := by
  obtain ⟨range, acc, ed, hne, hacc, hinner, hfields⟩ := buildEnum_cases s p d r h
  have hinv : CasesOk acc :=
    foldlM_inv (enumStmtStep range) CasesOk (casesOk_step range) d.stmts {} acc
      ⟨List.nodup_nil, List.nodup_nil⟩ hacc
  have hlen := enum_fields_length range d.stmts {} acc hacc
  refine ⟨ed, hinner, ?_, ?_, ?_⟩
  · intro he
    rw [hfields] at he
    rw [he] at hlen
    cases hs : d.stmts with
    | nil => simp [hs] at hne
    | cons a as => simp [hs] at hlen
  · rw [hfields]; exact hinv.1
  · rw [hfields]; exact hinv.2

/-- E0589: the alignment written into `repr(C, align(N))` is a power of two -/
theorem align_is_pow2 {β} (ps : Nat) (align? : Option Nat) (rs : List (Layout.Placed β)) (size a : Nat)
    (h : Layout.alignCheck ps false align? rs size = .ok a) : ∃ k, a = 2 ^ k := by
  unfold Layout.alignCheck at h
  simp only [Bool.false_eq_true, if_false] at h
  split at h
  · cases h
  · rename_i hp
    have hp2 : Layout.isPow2 (Layout.requestedAlign ps align? rs) = true := by
      simpa using hp
    split at h
    · split at h
      · cases h
      · split at h
        · split at h
          · cases h
          · split at h
            · cases h
            · cases h
              unfold Layout.isPow2 at hp2
              simp only [Bool.and_eq_true, bne_iff_ne, ne_eq, beq_iff_eq] at hp2
              exact ⟨_, hp2.2.symm⟩
        all_goals cases h
    all_goals cases h

/-- E0204: whenever `Copy` is derived, `Clone` is derived too -/
theorem copy_implies_clone (attrs : List G.Attr) (h : "Copy" ∈ C17.specDerives attrs) : "Clone" ∈ C17.specDerives attrs := by
  unfold C17.specDerives at h ⊢
  cases hc : C17.hasIdent attrs "copyable" <;> cases hl : C17.hasIdent attrs "cloneable" <;>
    cases hd : C17.hasIdent attrs "defaultable" <;> simp [hc, hl, hd] at h ⊢

/-- E0277: in an accepted `defaultable` type no field is a pointer or function pointer, and every field
    type that is already resolved is itself defaultable -/
theorem defaultable_fields (reg : Registry) (regions : List Region) (h : checkDefaultable reg regions = .ok ()) :
    ∀ r ∈ regions, ∃ p item, defaultablePath r.ty = some p ∧ reg.get p = some item ∧
      ∀ res, item.state = .res res → res.inner.defaultable = true := by
  intro r hr
  unfold checkDefaultable at h
  have hstep := foldlM_unit_ok _ regions h r hr
  split at hstep
  · cases hstep
  · rename_i p hp
    split at hstep
    · cases hstep
    · rename_i item hitem
      refine ⟨p, item, hp, hitem, ?_⟩
      intro res hres
      have hres' : item.resolved? = some res := by simp [ItemDef.resolved?, hres]
      rw [hres'] at hstep
      simp only at hstep
      split at hstep
      · cases hstep
      · rename_i hd
        simpa using hd

/-- E0412 / E0433: every item path mentioned by a resolved type expression is an existing definition,
    so the fully qualified path pyxis prints for it resolves -/
theorem printed_paths_exist (reg : Registry) (scope : List Path) (g : G.Ty) (t : DTy)
    (h : reg.resolveTy scope g = .ok t) : ∀ p ∈ rawPaths t, reg.contains p = true := by
  exact resolveTy_paths reg scope g t h

end PyxisVerif.C13
