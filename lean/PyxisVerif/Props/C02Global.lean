import PyxisVerif.Lemmas.C02Global
/-!
# C02, registry-wide – the compiler's *recursive* layout of every emitted item is the resolved one

`Props/C02.lean` proves, item by item, "IF the layouts of the field types handed to the compiler are
the ones recorded in the registry, THEN the compiled size and alignment of this item are the resolved
ones".  The compiler does not read pyxis's registry: it computes the layout of a field's type from
the emitted definition of that type.  This file closes the gap with the registry-wide induction.

Definitions (in `Lemmas/C02Global.lean`, specification part):

* `Lay reg n s a` – the modelled compiler's recursive layout judgement over a registry, for an item
  (`Compiled reg p s a`), a type expression (`TyCompiled`), or a field type (`RTyCompiled`): primitives
  from the compiler's table `primLayout`, `void` as `c_void` (1, 1), extern types as declared, enums
  as their `repr` primitive, structs by `RustSem.structSize` / `structAlign` over the layouts obtained
  *recursively* for the types of the emitted fields (the regions of the resolved definition: source
  fields, `[u8; n]` padding, vftable pointer, function pointers of generated vftable structs),
  pointers and function pointers pointer-sized, arrays `n * s`.
* `RegSound s` – every resolved item of the registry has `Compiled s.reg p r.size r.align`, except
  `void` and items that embed `void` by value (`EmbedsVoid`); plus two auxiliary invariants
  (`prims`: the predefined names still denote the predefined types; `unres`: unresolved entries are
  definitions).

## The exclusion (by-value `void`)

The unrestricted statement `RegSoundAll` ("… for every resolved item but `void` itself") is FALSE:
pyxis resolves `void` with size 0 and emits it as `::std::ffi::c_void`, which has size 1, so
`type S { x: void }` is resolved with size 0 while the emitted struct has size 1
(`sound_unrestricted_refuted`).  The exclusion is kept minimal and explicit: `EmbedsVoid reg p` holds
only for `void` and for structs reaching `void` through by-value fields and arrays (never through a
pointer); `case_sound_partial` states the unrestricted conclusion under the hypothesis
`NoVoidByValue` (no region of a resolved type has `void` as its by-value core).
-/
namespace PyxisVerif.C02
open Layout Gen

/-- `SemanticState::new` (any pointer width; 4 and 8 are the configured ones): every predefined type
    has the compiler's layout, `void` being the one exclusion (`init_sound`) -/
theorem new_sound (ps : Nat) (_h : ps = 4 ∨ ps = 8) : RegSound (State.new ps) :=
  new_sound_lem ps

/-- `add_module` preserves it: definitions enter unresolved, extern types enter with the size and
    alignment they declare (which the property assumes) -/
theorem addModule_sound (s s' : State) (m : G.Module) (path : Path) (hs : RegSound s)
    (h : s.addModule m path = .ok s') : RegSound s' :=
  addModule_sound_lem s s' m path hs h

/-- one resolution attempt preserves it: a newly resolved struct's fields have types whose recorded
    layouts are the compiled ones by the induction hypothesis (`regions_sound`), `struct_sound` closes
    the struct; a newly resolved enum has its base primitive's layout (`enum_sound`, its `hreg` coming
    from the invariant); a generated vftable struct is `slots * ps` bytes (`vftable_sound`) -/
theorem attempt_sound (s : State) (p : Path) (hs : C12.StateOkB s) (h : RegSound s) :
    RegSound (attemptItem s p).1 :=
  attemptItem_sound s p (ps_pos_of_ok hs.ok) h

/-- the whole build preserves it -/
theorem build_sound (s : State) (prio : List Path) (hs : C12.StateOkB s) (h : RegSound s)
    (s' : State) (hb : s.build prio = .ok s') : RegSound s' :=
  build_sound_lem s prio hs h s' hb

/-- **C02, registry-wide, for every accepted case**: pointer width 4 or 8, any modules (with `isize`
    literals, as the parser produces), any priority – in the final registry every resolved item that
    does not embed `void` by value has, for the compiler working recursively from the emitted
    definitions, exactly the size and alignment pyxis resolved -/
theorem case_sound (c : Case) (hps : c.ps = 4 ∨ c.ps = 8) (hb : C12.CaseBounded c) (s : State)
    (h : c.run = .ok s) : RegSound s :=
  case_sound_lem c hps hb s h

/- REFUTED (`sound_unrestricted_refuted` below): the statement without the exclusion,

theorem case_sound_all (c : Case) (hps : c.ps = 4 ∨ c.ps = 8) (hb : C12.CaseBounded c) (s : State)
    (h : c.run = .ok s) : RegSoundAll s
-/

/-- without `void` by value nothing but `void` itself is excluded -/
theorem sound_voidfree (s : State) (hs : RegSound s) (hv : NoVoidByValue s.reg) : RegSoundAll s :=
  voidfree_lem s hs hv

/-- the unrestricted conclusion under the explicit hypothesis "no by-value `void` field" -/
theorem case_sound_partial (c : Case) (hps : c.ps = 4 ∨ c.ps = 8) (hb : C12.CaseBounded c) (s : State)
    (h : c.run = .ok s) (hv : NoVoidByValue s.reg) :
    ∀ p i r, s.reg.get p = some i → i.state = .res r → p ≠ ["void"] → Compiled s.reg p r.size r.align :=
  voidfree_lem s (case_sound c hps hb s h) hv

/-- the judgement is functional: the modelled compiler gives a node at most one layout … -/
theorem compiled_unique (reg : Registry) (n : Node) (s a s' a' : Nat) (h1 : Lay reg n s a) (h2 : Lay reg n s' a') :
    s = s' ∧ a = a' :=
  Lay.unique h1 h2

/-- … so under `RegSound`, whatever size and alignment the compiler computes for a resolved item that does
    not embed `void` by value, they are the resolved ones -/
theorem compiled_eq_resolved (s : State) (hs : RegSound s) (p : Path) (i : ItemDef) (r : Resolved)
    (hg : s.reg.get p = some i) (hr : i.state = .res r) (hnv : ¬ EmbedsVoid s.reg p)
    (sz al : Nat) (h : Compiled s.reg p sz al) : sz = r.size ∧ al = r.align := by
  rcases hs.items p i r hg hr with h' | h'
  · exact Lay.unique h h'
  · exact absurd h' hnv

/-- the exclusion is exactly "reaches `void` by value": if `NoVoidByValue` holds, an excluded item is `void` -/
theorem embedsVoid_only_void (reg : Registry) (hv : NoVoidByValue reg) (p : Path) (h : EmbedsVoid reg p) :
    p = ["void"] :=
  tainted_core reg hv h

/-- pointers never propagate the exclusion -/
theorem pointer_not_tainted (reg : Registry) (t : DTy) : ¬ Tainted reg (.ty (.cptr t)) ∧ ¬ Tainted reg (.ty (.mptr t)) := by
  constructor
  · intro h
    generalize hn : Node.ty (.cptr t) = n at h
    cases h <;> cases hn
  · intro h
    generalize hn : Node.ty (.mptr t) = n at h
    cases h <;> cases hn

/-! ## non-vacuity: a concrete accepted case

Pointer width 8, one module `m` with an extern type, an enum, a struct embedded by value and in an
array, a type with a vftable (so a generated vftable struct) and a pointer to `void`:

```text
#[size(8), align(8)] extern type Handle;
pub type Q { pub p: P, pub ps: [P; 3], pub v: *const void, pub h: Handle, pub w: V }   // 64 bytes
pub type V { vftable { pub fn f(&self); }, pub n: u64 }                    // 16 bytes, generates VVftable
pub type P { pub x: u32, pub k: Kind, pub pad: u16 }                       // 8 bytes
pub enum Kind: u16 { X = 0, Y }
```

The resolution loop is stepped through by hand (`List.mergeSort` does not reduce in the kernel), every
evaluation is `decide +kernel`. -/
namespace Example
open C09

def modM : G.Module :=
  { xtypes := [("Handle", [.fn "size" [.int 8], .fn "align" [.int 8]])],
    defs := [
      { vis := .pub, name := "Q",
        inner := .type { stmts := [{ field := .field .pub "p" (.ident "P"), attrs := [] },
                                   { field := .field .pub "ps" (.arr (.ident "P") 3), attrs := [] },
                                   { field := .field .pub "v" (.cptr (.ident "void")), attrs := [] },
                                   { field := .field .pub "h" (.ident "Handle"), attrs := [] },
                                   { field := .field .pub "w" (.ident "V"), attrs := [] }],
                         attrs := [] } },
      { vis := .pub, name := "V",
        inner := .type { stmts := [{ field := .vftable [{ vis := .pub, name := "f", attrs := [],
                                                          args := [.constSelf], ret := none }], attrs := [] },
                                   { field := .field .pub "n" (.ident "u64"), attrs := [] }],
                         attrs := [] } },
      { vis := .pub, name := "P",
        inner := .type { stmts := [{ field := .field .pub "x" (.ident "u32"), attrs := [] },
                                   { field := .field .pub "k" (.ident "Kind"), attrs := [] },
                                   { field := .field .pub "pad" (.ident "u16"), attrs := [] }],
                         attrs := [] } },
      { vis := .pub, name := "Kind",
        inner := .enum { ty := .ident "u16",
                         stmts := [{ name := "X", expr := some (.int 0), attrs := [] },
                                   { name := "Y", expr := none, attrs := [] }],
                         attrs := [] } }] }

def prio : List Path := [["m", "Kind"], ["m", "P"], ["m", "V"], ["m", "Q"]]

def case : Case :=
  { id := "c02-global", ps := 8, prio := prio, modules := [.ast ["m"] "m.pyxis" modM], extras := [] }

theorem modM_bounded : C12.ModuleBounded modM := by
  refine ⟨?_, ?_⟩
  · intro d hd
    simp only [modM, List.mem_cons, List.not_mem_nil, or_false] at hd
    rcases hd with rfl | rfl | rfl | rfl
    · intro n args z ha; cases ha
    · intro n args z ha; cases ha
    · intro n args z ha; cases ha
    · trivial
  · intro xt hx
    simp only [modM, List.mem_cons, List.not_mem_nil, or_false] at hx
    subst hx
    intro n args z ha hz
    simp only [List.mem_cons, List.not_mem_nil, or_false, G.Attr.fn.injEq] at ha
    rcases ha with ⟨_, rfl⟩ | ⟨_, rfl⟩ <;>
    · simp only [List.mem_cons, List.not_mem_nil, or_false, G.Expr.int.injEq] at hz
      subst hz
      decide

theorem case_bounded : C12.CaseBounded case := by
  intro path file m hm
  simp only [case, List.mem_cons, List.not_mem_nil, or_false, ModEnt.ast.injEq] at hm
  obtain ⟨_, _, rfl⟩ := hm
  exact modM_bounded

/-- the state after `add_module` … -/
def s0 : State := C12.stateOf case.initialState
/-- … and after the one round that resolves everything (and registers `VVftable`) -/
def s1 : State := (runRound s0 prio).1

theorem init : case.initialState = .ok s0 := C12.eq_ok_stateOf _ (by decide +kernel)

theorem u0 : s0.reg.unresolved case.prio = prio :=
  unresolved_of_sorted _ _ _ (by decide +kernel) (by decide +kernel)
theorem u1 : s1.reg.unresolved case.prio = [] :=
  unresolved_of_sorted _ _ _ (by decide +kernel) (by decide +kernel)

theorem r0 : runRound s0 prio = (s1, .ok ()) := by
  have : (runRound s0 prio).2 = .ok () := by decide +kernel
  rw [← this]; rfl

theorem loop : resolveLoop case.prio 10 s0 = .ok s1 := by
  rw [resolveLoop_step _ 9 s0 s1 _ u0 rfl r0 (by rw [u1]; decide +kernel),
      resolveLoop_done _ 8 s1 u1]

theorem nItems : (s0.reg.types.filter fun e => !e.2.isResolved).length = 4 := by decide +kernel

/-- the case is accepted -/
theorem run_ok : isOkB case.run = true := by
  unfold Case.run
  rw [init]
  simp only []
  unfold State.build
  simp only []
  rw [nItems, loop]
  decide +kernel

/-- the registry of the accepted state is the one computed above -/
theorem run_reg (s : State) (h : case.run = .ok s) : s.reg = s1.reg := by
  unfold Case.run at h
  rw [init] at h
  simp only [] at h
  obtain ⟨s', hl, ms, _, rfl⟩ := build_ok_inv s0 case.prio s h
  rw [nItems, loop] at hl
  cases hl
  rfl

/-- **the theorem applies**: the case is accepted and its final state is registry-wide sound -/
theorem sound : ∃ s, case.run = .ok s ∧ RegSound s := by
  obtain ⟨s, hs⟩ := (isOkB_iff _).mp run_ok
  exact ⟨s, hs, case_sound case (Or.inr rfl) case_bounded s hs⟩

/-- no type of the case has a by-value `void` (the `*const void` of `Q` is a pointer) … -/
theorem noVoid : NoVoidByValue s1.reg := noVoidB_sound _ (by decide +kernel)

/-- … so every item of the final registry but `void` has its compiled layout equal to the resolved one -/
theorem sound_all : ∃ s, case.run = .ok s ∧ RegSoundAll s := by
  obtain ⟨s, hs, h⟩ := sound
  refine ⟨s, hs, sound_voidfree s h ?_⟩
  rw [run_reg s hs]
  exact noVoid

/-- what pyxis resolved for an item of the final registry -/
def recorded (reg : Registry) (p : Path) : Option (Nat × Nat) :=
  (reg.get p).bind fun i => i.resolved?.map fun r => (r.size, r.align)

theorem compiled_of_recorded (s : State) (h : RegSoundAll s) (p : Path) (sz al : Nat) (hne : p ≠ ["void"])
    (hr : recorded s.reg p = some (sz, al)) : Compiled s.reg p sz al := by
  unfold recorded at hr
  cases hg : s.reg.get p with
  | none => simp [hg] at hr
  | some i =>
    simp only [hg, Option.bind_some] at hr
    cases hres : i.resolved? with
    | none => simp [hres] at hr
    | some r =>
      simp only [hres, Option.map_some, Option.some.injEq, Prod.mk.injEq] at hr
      have := h p i r hg (resolved?_eq hres) hne
      rw [hr.1, hr.2] at this
      exact this

/-- concretely: for the compiler, computing recursively from the emitted definitions, `Q` (which embeds `P`
    by value, an array of three `P`, a pointer to `void`, the extern `Handle` and `V` with its vftable
    pointer) has size 64 and alignment 8, `P` 8 / 8, `V` 16 / 8, the generated `VVftable` 8 / 8, and the
    enum `Kind` 2 / 2 – the sizes and alignments pyxis resolved -/
theorem concrete :
    Compiled s1.reg ["m", "Q"] 64 8 ∧ Compiled s1.reg ["m", "P"] 8 8 ∧ Compiled s1.reg ["m", "V"] 16 8 ∧
    Compiled s1.reg ["m", "VVftable"] 8 8 ∧ Compiled s1.reg ["m", "Kind"] 2 2 ∧ Compiled s1.reg ["m", "Handle"] 8 8 := by
  obtain ⟨s, hs, h⟩ := sound_all
  have e := run_reg s hs
  have hc := compiled_of_recorded s h
  rw [e] at hc
  exact ⟨hc _ _ _ (by decide) (by decide +kernel), hc _ _ _ (by decide) (by decide +kernel),
    hc _ _ _ (by decide) (by decide +kernel), hc _ _ _ (by decide) (by decide +kernel),
    hc _ _ _ (by decide) (by decide +kernel), hc _ _ _ (by decide) (by decide +kernel)⟩

example : ∃ s, case.run = .ok s ∧ RegSound s := sound

end Example

/-! ## the counterexample to the unrestricted statement

`type S { pub x: void }` (pointer width 8): accepted; pyxis records size 0 and alignment 1 for `S`;
the emitted `#[repr(C, align(1))] struct S { pub x: ::std::ffi::c_void }` has size 1. -/
namespace Counter
open C09

def modS : G.Module :=
  { defs := [{ vis := .pub, name := "S",
               inner := .type { stmts := [{ field := .field .pub "x" (.ident "void"), attrs := [] }],
                                attrs := [] } }] }

def case : Case :=
  { id := "c02-void", ps := 8, prio := [], modules := [.ast ["m"] "m.pyxis" modS], extras := [] }

theorem case_bounded : C12.CaseBounded case := by
  intro path file m hm
  simp only [case, List.mem_cons, List.not_mem_nil, or_false, ModEnt.ast.injEq] at hm
  obtain ⟨_, _, rfl⟩ := hm
  refine ⟨?_, fun xt hx => by cases hx⟩
  intro d hd
  simp only [modS, List.mem_cons, List.not_mem_nil, or_false] at hd
  subst hd
  intro n args z ha; cases ha

def s0 : State := C12.stateOf case.initialState
def s1 : State := (runRound s0 [["m", "S"]]).1

theorem init : case.initialState = .ok s0 := C12.eq_ok_stateOf _ (by decide +kernel)

theorem u0 : s0.reg.unresolved case.prio = [["m", "S"]] :=
  unresolved_of_sorted _ _ _ (by decide +kernel) (by decide +kernel)
theorem u1 : s1.reg.unresolved case.prio = [] :=
  unresolved_of_sorted _ _ _ (by decide +kernel) (by decide +kernel)

theorem r0 : runRound s0 [["m", "S"]] = (s1, .ok ()) := by
  have : (runRound s0 [["m", "S"]]).2 = .ok () := by decide +kernel
  rw [← this]; rfl

theorem loop : resolveLoop case.prio 4 s0 = .ok s1 := by
  rw [resolveLoop_step _ 3 s0 s1 _ u0 rfl r0 (by rw [u1]; decide +kernel),
      resolveLoop_done _ 2 s1 u1]

theorem nItems : (s0.reg.types.filter fun e => !e.2.isResolved).length = 1 := by decide +kernel

theorem run_ok : isOkB case.run = true := by
  unfold Case.run
  rw [init]
  simp only []
  unfold State.build
  simp only []
  rw [nItems, loop]
  decide +kernel

theorem run_reg (s : State) (h : case.run = .ok s) : s.reg = s1.reg := by
  unfold Case.run at h
  rw [init] at h
  simp only [] at h
  obtain ⟨s', hl, ms, _, rfl⟩ := build_ok_inv s0 case.prio s h
  rw [nItems, loop] at hl
  cases hl
  rfl

/-- the resolved `S` -/
def resS : Resolved :=
  { size := 0, align := 1,
    inner := .type { regions := [{ vis := .pub, name := some "x", doc := none, ty := .data (.raw ["void"]), isBase := false }] } }

def itemS : ItemDef := { vis := .pub, path := ["m", "S"], state := .res resS, cat := .defined }

theorem getS : s1.reg.get ["m", "S"] = some itemS := by decide +kernel

theorem getVoid : s1.reg.get ["void"] = some (predefItem ("void", 0)) := by decide +kernel

/-- for the compiler `S` is not 0 bytes long -/
theorem not_compiled (a : Nat) : ¬ Compiled s1.reg ["m", "S"] 0 a := by
  intro h
  obtain ⟨flds, hlen, hf, hs, _⟩ := Lay.struct_inv (td := { regions := [{ vis := .pub, name := some "x", doc := none, ty := .data (.raw ["void"]), isBase := false }] }) h getS rfl rfl rfl
  match flds, hlen with
  | [f], _ =>
    have h0 := hf 0 (by simp) (by simp)
    simp only [List.getElem_cons_zero] at h0
    have hv := (Lay.void_inv (Lay.raw_inv (Lay.data_inv h0)) getVoid rfl).1
    have := structSize_single_pos false (some resS.align) f hv
    simp only [Bool.false_eq_true, if_false] at hs
    omega

end Counter

/-- **REFUTED**: the registry-wide statement without the by-value-`void` exclusion.  Witness: `Counter.case`;
    it satisfies every hypothesis and is accepted, its final registry records size 0 for `m::S`, and the
    modelled compiler – like rustc – gives the emitted struct at least one byte. -/
theorem sound_unrestricted_refuted :
    ¬ ∀ (c : Case), (c.ps = 4 ∨ c.ps = 8) → C12.CaseBounded c → ∀ s, c.run = .ok s → RegSoundAll s := by
  intro h
  obtain ⟨s, hs⟩ := (C09.isOkB_iff _).mp Counter.run_ok
  have hall := h Counter.case (Or.inr rfl) Counter.case_bounded s hs
  have hg : s.reg.get ["m", "S"] = some Counter.itemS := by rw [Counter.run_reg s hs]; exact Counter.getS
  have := hall ["m", "S"] Counter.itemS Counter.resS hg rfl (by decide)
  rw [Counter.run_reg s hs] at this
  exact Counter.not_compiled _ this

/-- the exclusion does apply to the witness: `m::S` embeds `void` by value -/
theorem counter_embeds_void : EmbedsVoid Counter.s1.reg ["m", "S"] :=
  Tainted.struct _ _ _ _ _ Counter.getS rfl rfl (List.mem_singleton.mpr rfl)
    (Tainted.data _ (Tainted.raw _ Tainted.void))

end PyxisVerif.C02
