import PyxisVerif.Lemmas.Parser
/-!
# C18 – parsing is the inverse of printing

Property theorems only; helper lemmas live in `Lemmas/Parser.lean`.

`Parse.parseStr` is the model of `parser::parse_str` (`Model/Lexer.lean`: the `proc_macro2`
fallback lexer and `syn`'s literal decoding; `Model/Parser.lean`: `src/parser/mod.rs` node for
node); `Print.printModule` / `Print.printText` write a module as tokens / as text.
-/
namespace PyxisVerif.C18
open Lex (K Tok Pos)

/-- **Well-formed modules**: the modules "of the language", i.e. the abstract modules that some
    concrete text denotes.  `WF m` is `wfB m = true` (`Lemmas/Parser.lean`), decidable.  Required:

* every identifier is a plain ASCII identifier (`[A-Za-z_][A-Za-z0-9_]*`) that is not one of
  `syn`'s strict or reserved keywords; names read by pyxis's own `Ident::parse` (attribute,
  function, field, enum-variant, definition, impl, extern-value and backend names) may also be
  `_`; names read through `peek(syn::Ident)` (type names, path segments, extern-type names,
  argument names, identifier expressions) may not;
* contextual words are excluded exactly where the grammar reads them differently: a type may not
  be named `unknown` (it would start `unknown<N>`), a *private* field may not be named `vftable`
  (it would start a vftable block; `pub vftable: T` is a field and is allowed); `backend`, `use`,
  `prologue`, … need no exclusion at the positions where names occur;
* type names are single identifiers: a name such as `Shared<Ptr>` that `parse_type_ident`
  glues together from several tokens is not in the fragment (it is a token *sequence*, not an
  identifier; the executable printer still writes it and the parser reads it back);
* array lengths and `unknown` sizes are `< 2^64` (`usize`), integer expressions are within
  `[-2^63, 2^63)` (`isize`);
* backend prologue / epilogue texts are already trimmed (`str::trim`, Unicode `White_Space`),
  because the parser trims them;
* doc comments are ordinary `.assign "doc" (.str s)` attributes; strings are arbitrary.

Not required: any relation between the parts (duplicate names, missing types, … are all
well-formed *syntax*). -/
def WF (m : G.Module) : Prop := wfB m = true

instance (m : G.Module) : Decidable (WF m) := inferInstanceAs (Decidable (wfB m = true))

/-- a module that exercises every node of the grammar -/
def exampleModule : G.Module :=
  { attrs := [.assign "doc" (.str " module doc")]
    uses := [["game", "math", "Vec3"]]
    xtypes := [("Handle", [.fn "size" [.int 8]])]
    xvals := [{ vis := .pub, name := "g_world", ty := .mptr (.ident "World"),
                attrs := [.fn "address" [.int 0x1234]] }]
    defs := [
      { vis := .pub, name := "World", inner := .type {
          attrs := [.fn "size" [.int 0x40], .ident "copyable"],
          stmts := [
            { field := .vftable [{ vis := .pub, name := "update",
                                   attrs := [.assign "doc" (.str " tick \"now\"\n")],
                                   args := [.mutSelf, .named "dt" (.ident "f32")],
                                   ret := some (.cptr (.ident "u8")) }],
              attrs := [] },
            { field := .field .priv "_" (.unk 4), attrs := [] },
            { field := .field .pub "cells" (.arr (.arr (.ident "u8") 4) 2),
              attrs := [.fn "address" [.int 0x10]] }] } },
      { vis := .priv, name := "Mode", inner := .enum {
          ty := .ident "u32", attrs := [],
          stmts := [{ name := "A", expr := some (.int (-5)), attrs := [] },
                    { name := "B", expr := none, attrs := [.ident "default"] }] } }]
    impls := [{ name := "World", attrs := [], fns := [
      { vis := .pub, name := "get", attrs := [.fn "address" [.int 0x500]], args := [.constSelf],
        ret := none }] }]
    backends := [{ name := "rust", prologue := some "use std::ffi;", epilogue := none }] }

example : WF exampleModule := by decide

/-- **C18, token level.**  The tokens written for a well-formed module parse back to exactly
    that module – whichever positions the tokens carry, and whether or not the `,`/`;`
    terminated lists are written with their trailing separator. -/
theorem parse_print_tokens_any (tr : Bool) (m : G.Module) (h : WF m) (ts : List Tok)
    (hts : ts.map (·.k) = Print.printK tr m) : Parse.parseModule ts = .ok m := by
  simp only [Parse.parseModule, hts, parseK_printK tr m h]

/-- **C18, token level** (deliverable form) -/
theorem parse_print_tokens (m : G.Module) (h : WF m) :
    Parse.parseModule (Print.printModule m) = .ok m :=
  parse_print_tokens_any true m h _ (by simp [Print.printModule, Function.comp_def])

example : Parse.parseModule (Print.printModule exampleModule) = .ok exampleModule :=
  parse_print_tokens exampleModule (by decide)

end PyxisVerif.C18
