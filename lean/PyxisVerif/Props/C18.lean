import PyxisVerif.Lemmas.Parser
import PyxisVerif.Lemmas.Lexer
import PyxisVerif.Lemmas.LexRender
import PyxisVerif.Lemmas.LexTrivia
/-!
# C18 – parsing is the inverse of printing

Property theorems only; helper lemmas live in `Lemmas/Parser.lean` (token level) and
`Lemmas/Lexer.lean`, `Lemmas/LexRender.lean`, `Lemmas/LexTrivia.lean` (character level).

`Parse.parseStr` is the model of `parser::parse_str` (`Model/Lexer.lean`: the `proc_macro2`
fallback lexer and `syn`'s literal decoding; `Model/Parser.lean`: `src/parser/mod.rs` node for
node); `Print.printModule` / `Print.printText` write a module as tokens / as text.
-/
namespace PyxisVerif.C18
open Lex (K Tok Pos)
open Print (Base)

/-- **Well-formed modules**: the modules "of the language", i.e. the abstract modules that some
    concrete text denotes.  `WF m` is `wfB m = true` (`Lemmas/Parser.lean`), decidable.  Required:

* every identifier is a plain ASCII identifier (`[A-Za-z_][A-Za-z0-9_]*`) that is not one of
  `syn`'s strict or reserved keywords; names read by pyxis's own `Ident::parse` (attribute,
  function, field, enum-variant, definition, impl, extern-value and backend names) may also be
  `_`; names read through `peek(syn::Ident)` (type names, path segments, extern-type names,
  argument names, identifier expressions) may not;
* contextual words are excluded exactly where the grammar reads them differently: a type may not
  be named `unknown` (it would start `unknown<N>`), a *private* field may not be named `vftable`
  (it would start a vftable block; `pub vftable: T` is a field and is allowed); `backend`, `use`,
  `prologue`, … need no exclusion at the positions where names occur;
* type names are single identifiers: a name such as `Shared<Ptr>` that `parse_type_ident`
  glues together from several tokens is not in the fragment (it is a token *sequence*, not an
  identifier; the executable printer still writes it and the parser reads it back);
* array lengths and `unknown` sizes are `< 2^64` (`usize`), integer expressions are within
  `[-2^63, 2^63)` (`isize`);
* backend prologue / epilogue texts are already trimmed (`str::trim`, Unicode `White_Space`),
  because the parser trims them;
* doc comments are ordinary `.assign "doc" (.str s)` attributes; strings are arbitrary.

Not required: any relation between the parts (duplicate names, missing types, … are all
well-formed *syntax*). -/
def WF (m : G.Module) : Prop := wfB m = true

instance (m : G.Module) : Decidable (WF m) := inferInstanceAs (Decidable (wfB m = true))

/-- a module that exercises every node of the grammar -/
def exampleModule : G.Module :=
  { attrs := [.assign "doc" (.str " module doc")]
    uses := [["game", "math", "Vec3"]]
    xtypes := [("Handle", [.fn "size" [.int 8]])]
    xvals := [{ vis := .pub, name := "g_world", ty := .mptr (.ident "World"),
                attrs := [.fn "address" [.int 0x1234]] }]
    defs := [
      { vis := .pub, name := "World", inner := .type {
          attrs := [.fn "size" [.int 0x40], .ident "copyable"],
          stmts := [
            { field := .vftable [{ vis := .pub, name := "update",
                                   attrs := [.assign "doc" (.str " tick \"now\"\n")],
                                   args := [.mutSelf, .named "dt" (.ident "f32")],
                                   ret := some (.cptr (.ident "u8")) }],
              attrs := [] },
            { field := .field .priv "_" (.unk 4), attrs := [] },
            { field := .field .pub "cells" (.arr (.arr (.ident "u8") 4) 2),
              attrs := [.fn "address" [.int 0x10]] }] } },
      { vis := .priv, name := "Mode", inner := .enum {
          ty := .ident "u32", attrs := [],
          stmts := [{ name := "A", expr := some (.int (-5)), attrs := [] },
                    { name := "B", expr := none, attrs := [.ident "default"] }] } },
      -- a type without statements: written `type Opaque;` / `type Opaque { }`
      { vis := .priv, name := "Opaque", inner := .type {
          attrs := [.fn "size" [.int 4]], stmts := [] } }]
    impls := [{ name := "World", attrs := [], fns := [
      { vis := .pub, name := "get", attrs := [.fn "address" [.int 0x500]], args := [.constSelf],
        ret := none }] }]
    backends := [{ name := "rust", prologue := some "use std::ffi;", epilogue := none }] }

example : WF exampleModule := by decide

/-- **C18, token level.**  The tokens written for a well-formed module parse back to exactly
    that module – whichever positions the tokens carry, and whichever optional spelling is
    written (`tr`): the `,`/`;` terminated lists with or without their trailing separator, a type
    definition without statements as `type T;` or as `type T { }`. -/
theorem parse_print_tokens_any (tr : Bool) (m : G.Module) (h : WF m) (ts : List Tok)
    (hts : ts.map (·.k) = Print.printK tr m) : Parse.parseModule ts = .ok m := by
  simp only [Parse.parseModule, hts, parseK_printK tr m h]

/-- **C18, token level** (deliverable form) -/
theorem parse_print_tokens (m : G.Module) (h : WF m) :
    Parse.parseModule (Print.printModule m) = .ok m :=
  parse_print_tokens_any true m h _ (by simp [Print.printModule, Function.comp_def])

example : Parse.parseModule (Print.printModule exampleModule) = .ok exampleModule :=
  parse_print_tokens exampleModule (by decide)

/-- **C18, the body-less spelling `type Name;`.**  A type definition without statements has a
    second spelling, `type Name;` (`parse_type_definition` peeks `Token![;]` before it looks for
    the braces).  `Print.printK true` writes it (`Print.pTypeBody`), `Print.printK false` writes
    `type Name { }`, so `parse_print_tokens_any` covers both; this is the `;` spelling made
    explicit: the tokens `#[a₁] … #[aₙ] [pub] type Name ;` of a well-formed item parse to exactly
    that item – its attributes and its visibility included, no statements. -/
theorem parse_type_semi (i : G.Item) (d : G.TypeDef) (hi : i.inner = .type d) (hd : d.stmts = [])
    (h : WF { defs := [i] }) (ts : List Tok)
    (hts : ts.map (·.k) = Print.pAttrs false true d.attrs ++ Print.pVis i.vis ++
      [.ident "type", .ident i.name, .punct ';' false]) :
    Parse.parseModule ts = .ok { defs := [i] } := by
  apply parse_print_tokens_any true _ h ts
  obtain ⟨vis, name, inner⟩ := i
  obtain ⟨stmts, attrs⟩ := d
  subst hi hd
  simpa [Print.printK, Print.pItemDef, Print.pTypeBody, Print.pAttrs] using hts

/-- `#[size(8)] #[doc = " opaque"] pub type Handle;` -/
def semiItem : G.Item :=
  { vis := .pub, name := "Handle",
    inner := .type { stmts := [], attrs := [.fn "size" [.int 8], .assign "doc" (.str " opaque")] } }

example : Parse.parseModule
    ([.punct '#' false, .op .bracket, .ident "size", .op .paren, .int 8, .punct ',' false, .cl .paren,
      .cl .bracket, .punct '#' false, .op .bracket, .ident "doc", .punct '=' false, .str " opaque",
      .cl .bracket, .ident "pub", .ident "type", .ident "Handle", .punct ';' false].map
        fun k => ⟨k, (0, 0)⟩) = .ok { defs := [semiItem] } :=
  parse_type_semi semiItem _ rfl rfl (by decide) _ (by decide)

/-- the printer does write this spelling, and the other one without the optional spellings -/
example : Print.printK true { defs := [semiItem] } =
    [.punct '#' false, .op .bracket, .ident "size", .op .paren, .int 8, .punct ',' false, .cl .paren,
      .cl .bracket, .punct '#' false, .op .bracket, .ident "doc", .punct '=' false, .str " opaque",
      .cl .bracket, .ident "pub", .ident "type", .ident "Handle", .punct ';' false] := by decide

example : Print.printK false { defs := [semiItem] } =
    [.punct '#' false, .op .bracket, .ident "size", .op .paren, .int 8, .cl .paren,
      .cl .bracket, .punct '#' false, .op .bracket, .ident "doc", .punct '=' false, .str " opaque",
      .cl .bracket, .ident "pub", .ident "type", .ident "Handle", .op .brace, .cl .brace] := by decide

example : Parse.parseStr "#[size(8)] /// opaque\npub type Handle;" = .ok { defs := [semiItem] } := by rfl

/-! ## character level: lexing the printed text gives the printed tokens back -/

/-- **C18, character level (canonical trivia).**  The text written for a well-formed module –
    every token spelled canonically (decimal integers, cooked strings with escapes, doc
    comments as `#[doc = "…"]`), one blank after every token except between the two characters
    of `::` and `->` – lexes to exactly the printed tokens (up to positions).
    This is `lex_render` for one choice of trivia; the general statement is `lex_render`
    below. -/
theorem lex_render_partial (tr : Bool) (m : G.Module) (h : WF m) :
    ∃ ts, Lex.lex (String.ofList (Print.renderCanon (Print.printK tr m))) = .ok ts ∧
      ts.map (·.k) = Print.printK tr m := by
  simp only [Lex.lex, String.toList_ofList]
  exact lexL_render _ (chk_printK tr m h)

/-- **C18.**  Parsing is the inverse of printing: the text written for a well-formed module
    parses back to exactly that module. -/
theorem parse_print (m : G.Module) (h : WF m) : Parse.parseStr (Print.printText m) = .ok m := by
  obtain ⟨ts, h1, h2⟩ := lex_render_partial true m h
  simp only [Parse.parseStr, Print.printText, h1]
  exact parse_print_tokens_any true m h ts h2

/-- the same without trailing separators in the `,`/`;` lists -/
theorem parse_print_no_trailing (m : G.Module) (h : WF m) :
    Parse.parseStr (String.ofList (Print.renderCanon (Print.printK false m))) = .ok m := by
  obtain ⟨ts, h1, h2⟩ := lex_render_partial false m h
  simp only [Parse.parseStr, h1]
  exact parse_print_tokens_any false m h ts h2

example : Parse.parseStr (Print.printText exampleModule) = .ok exampleModule :=
  parse_print exampleModule (by decide)

/-- … in particular the text `… type Handle ;` -/
example : Parse.parseStr (Print.printText { defs := [semiItem] }) = .ok { defs := [semiItem] } :=
  parse_print _ (by decide)

/-- **C18, character level.**  For *every* lay-out `τ` – any mixture of white space, `//`
    comments and nested `/* */` comments in any gap, any base / `_` separators / letter case for
    any integer, `///` / `/** */` / `//!` / `/*! */` for any doc attribute – the text
    `Print.render ts τ` of the tokens `ts` of a well-formed module lexes back to exactly these
    tokens (up to positions).

    `τ` is unrestricted because `render` itself refuses to write what would read differently
    (`Model/Printer.lean`): an ill-formed comment piece becomes a blank; a blank is inserted
    where two tokens would glue together (word next to word, punctuation next to punctuation –
    which would change its `Spacing` –, identifier next to punctuation – `r#`); nothing is
    put after the first character of `::` and `->`; a doc text that cannot be a comment
    (`///` text with a line break or a leading `/`, block text with an unbalanced `*/`, …)
    stays an attribute; and `(` `/*ERROR*/` `)` gets a blank, because `proc_macro2` reads
    `(/*ERROR*/)` as a single literal (the model reproduces this), so "any comment may stand in
    any gap" is false for the real lexer. -/
theorem lex_render (tr : Bool) (m : G.Module) (h : WF m) (ts : List Tok)
    (hts : ts.map (·.k) = Print.printK tr m) (τ : Print.Trivia) :
    ∃ ts', Lex.lex (Print.render ts τ) = .ok ts' ∧ ts'.map (·.k) = ts.map (·.k) := by
  simp only [Lex.lex, Print.render, String.toList_ofList, hts]
  have := lexL_renderT τ (Print.printK tr m) (chk_printK tr m h)
  rw [show ts.length = (Print.printK tr m).length by rw [← hts, List.length_map]]
  exact this

/-- **C18.**  Parsing is the inverse of printing, whatever the lay-out. -/
theorem parse_render (m : G.Module) (h : WF m) (τ : Print.Trivia) :
    Parse.parseStr (Print.render (Print.printModule m) τ) = .ok m := by
  have hk : (Print.printModule m).map (·.k) = Print.printK true m := by
    simp [Print.printModule, Function.comp_def]
  obtain ⟨ts', h1, h2⟩ := lex_render true m h (Print.printModule m) hk τ
  simp only [Parse.parseStr, h1]
  exact parse_print_tokens_any true m h ts' (h2.trans hk)

example : Parse.parseStr (Print.render (Print.printModule exampleModule) (Print.Trivia.ofSeed 42))
    = .ok exampleModule :=
  parse_render exampleModule (by decide) _

/-! ## integers keep their value, however they are spelled

`Spelling b cs` (`Lemmas/Lexer.lean`): `cs` consists of digits of base `b` (either case for hex
letters) and `_` separators, has at least one digit, and a decimal number starts with a digit.
`digitsVal r 0 cs` is the positional value of the digits, `_` skipped.  `b.pre` is the base
prefix (nothing, `0x`, `0o`, `0b`). -/

/-- **C18, numbers.**  Any spelling of a number, in any base, with any `_` separators, is read
    as one integer token whose value is the positional value of its digits. -/
theorem int_value (b : Base) (cs : List Char) (h : Spelling b cs) :
    Lex.lex (String.ofList (b.pre ++ cs)) = .ok [⟨.int (digitsVal b.radix 0 cs), (1, 0)⟩] := by
  simp only [Lex.lex, String.toList_ofList]
  exact lexL_int b cs h

/-- the same inside a longer text: whatever follows, as long as it cannot continue the number
    (no identifier character, which would be more digits or a suffix, and no `.`) -/
theorem int_value_in_context (b : Base) (cs : List Char) (h : Spelling b cs) (tail : List Char)
    (ht : IntTail tail) :
    Lex.lexLeaf (b.pre ++ cs ++ tail) = some (.int (digitsVal b.radix 0 cs), tail) :=
  lexLeaf_int b cs h tail ht

/-- the canonical digits of `n` in any base are a spelling of `n` … -/
theorem int_value_canonical (b : Base) (n : Nat) :
    Spelling b (numChars b.radix n) ∧ digitsVal b.radix 0 (numChars b.radix n) = n :=
  ⟨numChars_spelling b n, digitsVal_numChars b.radix n (by cases b <;> simp [Base.radix])
    (by cases b <;> simp [Base.radix])⟩

/-- … and `_` separators, wherever they stand, do not change the value -/
theorem int_value_separators (r : Nat) (cs : List Char) :
    digitsVal r 0 (cs.filter (fun c => !decide (c = '_'))) = digitsVal r 0 cs :=
  digitsVal_filter r 0 cs

/-- two spellings of the same number, in whatever bases, are the same token -/
theorem int_value_same (b₁ b₂ : Base) (cs₁ cs₂ : List Char) (h₁ : Spelling b₁ cs₁)
    (h₂ : Spelling b₂ cs₂) (hv : digitsVal b₁.radix 0 cs₁ = digitsVal b₂.radix 0 cs₂) :
    Lex.lex (String.ofList (b₁.pre ++ cs₁)) = Lex.lex (String.ofList (b₂.pre ++ cs₂)) := by
  rw [int_value b₁ cs₁ h₁, int_value b₂ cs₂ h₂, hv]

example : Lex.lex "0x_1_F" = .ok [⟨.int 31, (1, 0)⟩] :=
  int_value .hex ['_', '1', '_', 'F'] (spelling_of_B _ _ (by decide))

example : Lex.lex "1_000" = Lex.lex "0b11_1110_1000" :=
  int_value_same .dec .bin ['1', '_', '0', '0', '0']
    ['1', '1', '_', '1', '1', '1', '0', '_', '1', '0', '0', '0']
    (spelling_of_B _ _ (by decide)) (spelling_of_B _ _ (by decide)) (by decide)

/-! ## rejected text is rejected with a position inside the text -/

/-- **C18, errors.**  Whenever the parser rejects a text, the reported line lies inside the text:
    between 1 and the number of line breaks + 1 (so at most "number of lines + 1"). -/
theorem parse_error_has_position (s : String) (l c : Nat) (h : Parse.parseStr s = .error (l, c)) :
    1 ≤ l ∧ l ≤ s.toList.count '\n' + 1 :=
  parseStr_error_ok s (l, c) h

example : Parse.parseStr "type A {\n  x: u8,\n  y: ,\n}" = .error (3, 5) := by rfl

end PyxisVerif.C18
