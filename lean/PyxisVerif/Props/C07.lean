import PyxisVerif.Spec.C07
import PyxisVerif.Lemmas.C07
/-!
# C07 – base members are re-exposed on derived types and act on the base sub-object

Shape part: which forwarding methods and conversions a derived type gets and what they say.  That a
forwarding method *run* lands on the sub-object at the base's offset is a consequence of Rust's
field-projection semantics for `self.<field>.<fn>(..)` and of C01 (the field is at its offset); it
is observed on the implementation by executing the emitted code (thorough tier), not proved here.
-/
namespace PyxisVerif.C07
open Gen

/-- **injection of one base**: the functions added for a base field are exactly `specInject` -/
theorem addFunctions_spec (base : String) (acc : InjAcc) (fs : List SFunc) :
    (addFunctions base acc fs).fns = acc.fns ++ specInject base acc.used fs
    ∧ (addFunctions base acc fs).used = usedAfter base acc.used fs :=
  addFunctions_spec_lem base acc fs

/-- every public function of the base is re-exposed, once, under its own name or `<field>_<name>`,
    with its receiver, parameters, return type and convention unchanged, forwarding to the original -/
theorem every_public_reexposed (base : String) (used : List String) (fs : List SFunc) (f : SFunc)
    (hf : f ∈ fs) (hp : f.vis = .pub) (hi : f.isInternal = false) :
    ∃ g ∈ specInject base used fs, g.body = .field base f.name ∧ (g.name = f.name ∨ g.name = renamed base f.name)
      ∧ g.args = f.args ∧ g.ret = f.ret ∧ g.cc = f.cc ∧ g.vis = .pub :=
  every_public_reexposed_lem base used fs f hf hp hi

/-- private functions of a base are not re-exposed, and neither are its internal (`_`-prefixed) ones, for which the
    base has no wrapper to forward to -/
theorem private_not_reexposed (base : String) (used : List String) (fs : List SFunc) :
    ∀ g ∈ specInject base used fs, ∃ f ∈ fs, f.vis = .pub ∧ f.isInternal = false ∧ g.body = .field base f.name :=
  private_not_reexposed_lem base used fs

/-- **all bases, in order; vftable functions of every base but the first**: the injection loop adds, for
    the `i`-th base region whose type is resolved, that type's associated functions (which by the same
    theorem already contain what it inherited itself) and, for `i > 0`, its vftable's functions -/
theorem injectBases_step (reg : Registry) (acc : InjAcc) (i : Nat) (r : Region) (name : String) (td : TypeDefn)
    (h : regionNameAndTypeDef reg r = .ok (some (name, td))) :
    Res.foldlM (fun (acc : InjAcc) (ib : Nat × Region) =>
        match regionNameAndTypeDef reg ib.2 with
        | .ok none => .ok acc
        | .ok (some (baseName, td)) =>
          let acc1 := addFunctions baseName acc td.fns
          .ok (if ib.1 > 0 then
                match td.vft with
                | some v => addFunctions baseName acc1 v.fns
                | none => acc1
              else acc1)
        | e => e.cast) acc [(i, r)]
      = .ok (let acc1 := addFunctions name acc td.fns
             if i > 0 then (match td.vft with | some v => addFunctions name acc1 v.fns | none => acc1) else acc1) :=
  injectBases_step_lem reg acc i r name td h

/-- the emitted forwarding method calls `self.<field>.<original name>(..)` with the receiver dropped
    and the remaining arguments in declared order -/
theorem forwarder_shape (f : SFunc) (fld fn : String) (h : f.body = .field fld fn) :
    ∃ hd, Emit.methodS f = Sexp.mk "method" (hd ++
      [Sexp.mk "call-field" [.str fld, .str fn, Sexp.mk "args" ((f.args.filter (!·.isSelf)).map Emit.callArgS)]]) :=
  forwarder_shape_lem f fld fn h

/-- **conversions**: for each base in the hierarchy, in hierarchy order: one AsRef and one AsMut along
    its field path if its type occurs once, a marker constant (and no conversion) if it occurs more
    than once; followed by the conversion of the type to itself -/
theorem conversions_emitted (reg : Registry) (path : Path) (size align : Nat) (vis : Vis) (td : TypeDefn) :
    let name := path.getLast?.getD ""
    let hier := Emit.dfsHierarchy reg (reg.types.length + 1) td []
    ∃ pre, Emit.typeItems reg path size align vis td = pre ++
      (hier.flatMap fun (fp, ty) =>
        if occurrences hier ty > 1 then
          [Sexp.mk "conflict" [.str ("_CONFLICTING_" ++ Emit.upper (unraw name) ++ "_" ++ "_".intercalate (fp.map fun s => Emit.upper (unraw s)))]]
        else
          [Sexp.mk "asref" [.str name, .str (Emit.rtyStr ty), Sexp.mk "fp" (fp.map .str)],
           Sexp.mk "asmut" [.str name, .str (Emit.rtyStr ty), Sexp.mk "fp" (fp.map .str)]]) ++
      [Sexp.mk "asref" [.str name, .str name, Sexp.mk "fp" []], Sexp.mk "asmut" [.str name, .str name, Sexp.mk "fp" []]] :=
  conversions_emitted_lem reg path size align vis td

/-- **the hierarchy lists every direct base, and below each of them its own hierarchy** (so every
    transitive base, with the field path that leads to it) -/
theorem dfs_unfold (reg : Registry) (fuel : Nat) (td : TypeDefn) (fields : List String) :
    Emit.dfsHierarchy reg (fuel + 1) td fields =
      (td.regions.filter (·.isBase)).flatMap fun r =>
        match regionNameAndTypeDef reg r with
        | .ok (some (name, btd)) => (fields ++ [name], r.ty) :: Emit.dfsHierarchy reg fuel btd (fields ++ [name])
        | _ => [] :=
  dfs_unfold_lem reg fuel td fields

end PyxisVerif.C07
