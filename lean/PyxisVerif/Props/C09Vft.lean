import PyxisVerif.Lemmas.MonoVft
import PyxisVerif.Lemmas.C20E2E
import PyxisVerif.Props.C09Case
/-!
# C09, end to end, for descriptions WITH vftable blocks, when nothing mentions a generated name

`Props/C09Novft.lean` / `Props/C09Case.lean` prove that the result of `SemanticState::build` does not depend on the
resolution priority for descriptions without `vftable` blocks.  With `vftable` blocks the attempt on a type `T`
registers the generated item `<T>Vftable` during the run (`vftable::build`, on the first attempt on which `T`'s field
names resolve and its first `#[base]` field has a known size), the key set of the registry grows, name lookup is not
monotone in the key set, and the unrestricted statement is false (three known counterexamples, each of which MENTIONS
a generated name: `*const BVftable` in a signature or field, `use a::FooVftable;`, a module path that coincides with a
generated path).

Here the statement is proved under `NoGenRefs` (`Lemmas/MonoVft.lean`): no generated path is a registry key, a module
path or a `use`, and no identifier of a type expression is the last segment of a generated path.  Then the generated
items are write-only during resolution, and any two priorities give the same verdict.

## What "the same verdict" is (`sameVerdictV`), and why it is not `sameVerdict`

`sameVerdict` (of `Props/C09Novft.lean`) asks, on success, for EQUAL module lists and distinguishes an error from a
panic.  With `vftable` blocks both are false, under `NoGenRefs` too (`build_schedule_independent_nogenref_refuted`,
kernel-checked witnesses below):

* `add_item` PREPENDS the generated path to the `defPaths` of its module, so two types with a vftable block in one
  module leave their generated paths in attempt order (`defPaths_order_witness`).  The module lists agree up to a
  permutation of each module's `defPaths` (`ModsEqv`); every consumer sorts them (`Emit.moduleFile`, `Obs.resolvedS`),
  which is why O2 and O3 are equal (`case_o2_…`, `case_o3_…` below) (`Witness1`);
* the modelled allocation limit (`makePadding` with more than `paddingLoopBound` slots, a `panic` outcome) and an
  ordinary error can both be there in one description, and which one is met first depends on the order
  (`Witness2`).  `sameVerdictV` identifies the two kinds of failure.  When no vftable block asks for more than
  `paddingLoopBound` = 4 194 304 slots (`Small` / `CaseSmall`, syntactic) no build panics at all
  (`build_np_small`) and the failure kinds agree too: `…_nogenref_small` below, with `sameVerdictM`, which is
  `sameVerdict` except that the module lists are compared up to the order of the definition paths.

The termination test of the loop (`to_resolve == unresolved ∧ item count unchanged`) needs no separate argument: a
round that only registers generated items continues from the same abstract registry with less fuel, and
`C10.resolveLoop_ne_fuel` bounds the rounds.
-/
namespace PyxisVerif.C09
open Mono Work C19

theorem sameVerdictV_refl (x : BuildOutcome) (hm : ∀ s, x = .ok s → ModsEqv s.modules s.modules) :
    sameVerdictV x x := by
  cases x with
  | ok s1 => exact ⟨fun _ => rfl, hm s1 rfl, rfl, List.Perm.refl _⟩
  | nonterm l => exact List.Perm.refl l
  | err m => trivial
  | panic m => trivial
  | fuel => trivial

/-- **the output is a function of the input set, not of the resolution order** (with `vftable` blocks, nothing
    mentioning a generated name): from any state that satisfies the registry invariant (with `isize` literals, as the
    parser produces them), any two priorities give the same verdict -/
theorem build_schedule_independent_nogenref (s : State) (p1 p2 : List Path) (hs : C12.StateOkB s)
    (hg : NoGenRefs s) : sameVerdictV (s.build p1) (s.build p2) := by
  have cx : Ctx s := ⟨hs, hg⟩
  have ha := loops_agreeV cx p1 p2
    (2 * (s.reg.types.filter fun e => !e.2.isResolved).length + 2)
    (2 * (s.reg.types.filter fun e => !e.2.isResolved).length + 2)
  have f1 := C10.resolveLoop_ne_fuel p1 (2 * (s.reg.types.filter fun e => !e.2.isResolved).length + 2) s
    hs.ok.reg.keys (by have := C10.mu_le s.reg; omega)
  have f2 := C10.resolveLoop_ne_fuel p2 (2 * (s.reg.types.filter fun e => !e.2.isResolved).length + 2) s
    hs.ok.reg.keys (by have := C10.mu_le s.reg; omega)
  rw [build_eq, build_eq]
  generalize resolveLoop p1 (2 * (s.reg.types.filter fun e => !e.2.isResolved).length + 2) s = o1 at ha f1 ⊢
  generalize resolveLoop p2 (2 * (s.reg.types.filter fun e => !e.2.isResolved).length + 2) s = o2 at ha f2 ⊢
  cases o1 with
  | ok s1 =>
    cases o2 with
    | ok s2 =>
      obtain ⟨R, r1, r2, t, n1, n2⟩ := ha
      exact finish_agree r1 r2 t n1 n2
    | nonterm l2 => exact False.elim ha
    | err m2 => exact False.elim ha
    | panic m2 => exact False.elim ha
    | fuel => exact absurd rfl f2
  | nonterm l1 =>
    cases o2 with
    | ok s2 => exact False.elim ha
    | nonterm l2 => exact ha
    | err m2 => exact False.elim ha
    | panic m2 => exact False.elim ha
    | fuel => exact absurd rfl f2
  | err m1 =>
    cases o2 with
    | ok s2 => exact False.elim ha
    | nonterm l2 => exact False.elim ha
    | err m2 => trivial
    | panic m2 => trivial
    | fuel => exact absurd rfl f2
  | panic m1 =>
    cases o2 with
    | ok s2 => exact False.elim ha
    | nonterm l2 => exact False.elim ha
    | err m2 => trivial
    | panic m2 => trivial
    | fuel => exact absurd rfl f2
  | fuel => exact absurd rfl f1

/-- on success: the two final registries have the same entries, and the module lists are equal up to the order of
    the definition paths of each module (`add_item` prepends a generated path to the `defPaths` of its module, so
    they are listed in attempt order; the emitted files sort them) -/
theorem build_ok_unique_nogenref (s : State) (p1 p2 : List Path) (hs : C12.StateOkB s) (hg : NoGenRefs s)
    (s1 s2 : State) (h1 : s.build p1 = .ok s1) (h2 : s.build p2 = .ok s2) :
    (∀ q, s1.reg.get q = s2.reg.get q) ∧ ModsEqv s1.modules s2.modules ∧
      s1.reg.ps = s2.reg.ps ∧ s1.reg.types.Perm s2.reg.types := by
  have h := build_schedule_independent_nogenref s p1 p2 hs hg
  rw [h1, h2] at h
  exact h

/-- `sameVerdict` with the module lists compared up to the order of the definition paths (and the registries' entry
    lists up to a permutation): the kind of failure is the same -/
def sameVerdictM : BuildOutcome → BuildOutcome → Prop
  | .ok s1, .ok s2 => (∀ p, s1.reg.get p = s2.reg.get p) ∧ ModsEqv s1.modules s2.modules ∧
      s1.reg.ps = s2.reg.ps ∧ s1.reg.types.Perm s2.reg.types
  | .nonterm f1, .nonterm f2 => f1.Perm f2
  | .err _, .err _ => True
  | .panic _, .panic _ => True
  | .fuel, .fuel => True
  | _, _ => False

theorem sameVerdictM_of_V {o1 o2 : BuildOutcome} (h : sameVerdictV o1 o2) (h1 : ∀ m, o1 ≠ .panic m)
    (h2 : ∀ m, o2 ≠ .panic m) : sameVerdictM o1 o2 := by
  cases o1 <;> cases o2 <;> first | exact h | exact absurd rfl (h1 _) | exact absurd rfl (h2 _)

/-- … and when no vftable block of an unresolved definition asks for more than `paddingLoopBound` slots no build
    panics, so the two runs fail in the same way if they fail -/
theorem build_schedule_independent_nogenref_small (s : State) (p1 p2 : List Path) (hs : C12.StateOkB s)
    (hg : NoGenRefs s) (hsm : Small s) : sameVerdictM (s.build p1) (s.build p2) :=
  sameVerdictM_of_V (build_schedule_independent_nogenref s p1 p2 hs hg) (build_np_small s p1 hs hsm)
    (build_np_small s p2 hs hsm)

/-! ## whole cases -/

/-- whole case: the verdict does not depend on the priority list.  `CaseNoGenRefs c` (`Lemmas/MonoVft.lean`) is
    syntactic, on the modules of the case: no generated path `<path>::<T>Vftable` (for a type `T` with a vftable block
    written in the module `path`) is the path of an item of the case, the path of a module or a `use`, and no
    identifier of a type expression (field types, enum bases, signatures of vftable and `impl` functions) is
    `<T>Vftable`; the types of extern values are not restricted (they are resolved after the loop) -/
theorem case_schedule_independent_nogenref (c : Case) (prio' : List Path) (hps : c.ps = 4 ∨ c.ps = 8)
    (hb : C12.CaseBounded c) (hg : CaseNoGenRefs c) :
    sameVerdictV c.run ({ c with prio := prio' } : Case).run := by
  unfold Case.run
  rw [initialState_prio c prio']
  cases hi : c.initialState with
  | ok s =>
    exact build_schedule_independent_nogenref s c.prio prio' ((C12.initialState_shape c hps hb).2 s hi)
      (initial_noGenRefs c hps hb hg s hi)
  | defer => trivial
  | err m => trivial
  | panic m => trivial

/-- whole case, no vftable block asking for more than `paddingLoopBound` slots: the same kind of verdict -/
theorem case_schedule_independent_nogenref_small (c : Case) (prio' : List Path) (hps : c.ps = 4 ∨ c.ps = 8)
    (hb : C12.CaseBounded c) (hg : CaseNoGenRefs c) (hsm : CaseSmall c) :
    sameVerdictM c.run ({ c with prio := prio' } : Case).run := by
  unfold Case.run
  rw [initialState_prio c prio']
  cases hi : c.initialState with
  | ok s =>
    exact build_schedule_independent_nogenref_small s c.prio prio' ((C12.initialState_shape c hps hb).2 s hi)
      (initial_noGenRefs c hps hb hg s hi) (initial_small c hps hb hsm s hi)
  | defer => trivial
  | err m => trivial
  | panic m => trivial

theorem modsEqv_canon {l1 l2 : List (Path × Mod)} (h : ModsEqv l1 l2) : l2.map C20.canonE = l1.map C20.canonE := by
  induction l1 generalizing l2 with
  | nil =>
    cases l2 with
    | nil => rfl
    | cons b l2 => exact h.elim
  | cons a l1 ih =>
    cases l2 with
    | nil => exact h.elim
    | cons b l2 =>
      obtain ⟨hk, ⟨dp, hm, hp⟩, ht⟩ := h
      simp only [List.map_cons, ih ht, List.cons.injEq, and_true]
      unfold C20.canonE
      rw [hm, ← hk]
      simp only [C20.canonM, C20.sortPaths_perm a.2.defPaths dp hp]

/-- two accepted final states with the same verdict differ in order only: the order of the registry's entry list,
    and the order of the definition paths of each module -/
theorem permS_of_sameVerdictV {s1 s2 : State} (h : sameVerdictV (.ok s1) (.ok s2)) : C20.PermS s1 s2 :=
  ⟨h.2.2.1.symm, fun q => (h.1 q).symm, h.2.2.2.symm, modsEqv_canon h.2.1⟩

/-- whole case: when the case is accepted it is accepted under every priority list, and the two final states differ
    in order only (`C20.PermS`: the same entries, the same modules up to the order of their definition paths) -/
theorem case_output_schedule_independent_nogenref (c : Case) (prio' : List Path) (hps : c.ps = 4 ∨ c.ps = 8)
    (hb : C12.CaseBounded c) (hg : CaseNoGenRefs c) (s : State) (h : c.run = .ok s) :
    ∃ s', ({ c with prio := prio' } : Case).run = .ok s' ∧ C20.PermS s s' := by
  have hv := case_schedule_independent_nogenref c prio' hps hb hg
  rw [h] at hv
  cases h2 : ({ c with prio := prio' } : Case).run with
  | ok s2 => rw [h2] at hv; exact ⟨s2, rfl, permS_of_sameVerdictV hv⟩
  | nonterm l => rw [h2] at hv; exact hv.elim
  | err m => rw [h2] at hv; exact hv.elim
  | panic m => rw [h2] at hv; exact hv.elim
  | fuel => rw [h2] at hv; exact hv.elim

/-- … in particular the emitted files (O3) are the same: the backend sorts the definition paths of a module -/
theorem case_o3_schedule_independent_nogenref (c : Case) (prio' : List Path) (hps : c.ps = 4 ∨ c.ps = 8)
    (hb : C12.CaseBounded c) (hg : CaseNoGenRefs c) (s : State) (h : c.run = .ok s) :
    ({ c with prio := prio' } : Case).o3 = c.o3 := by
  obtain ⟨s', h2, hp⟩ := case_output_schedule_independent_nogenref c prio' hps hb hg s h
  unfold Case.o3
  rw [h2, h]
  simp only [C20.files_perm hp (C20.WK.run c s h)]

/-- … and so is the resolved registry (O2): the observation sorts the items -/
theorem case_o2_schedule_independent_nogenref (c : Case) (prio' : List Path) (hps : c.ps = 4 ∨ c.ps = 8)
    (hb : C12.CaseBounded c) (hg : CaseNoGenRefs c) (s : State) (h : c.run = .ok s) :
    ({ c with prio := prio' } : Case).o2 = c.o2 := by
  obtain ⟨s', h2, hp⟩ := case_output_schedule_independent_nogenref c prio' hps hb hg s h
  unfold Case.o2
  rw [h2, h]
  exact C20.resolvedS_perm hp (C20.WK.run c s h)

/-! ## stepping the resolution loop by hand (as in `Lemmas/C09Case.lean`), for the examples below -/

theorem unresolved_of_perm (r : Registry) (prio : List Path) (l' l : List Path) (h : C10.ulist r = l')
    (hp : l'.Perm l) (hs : l.Pairwise (fun a b => prioLe prio a b = true)) : r.unresolved prio = l := by
  rw [C10.unresolved_eq, h, C20.mergeSort_perm_eq (prioLe prio) (C20.prioLe_trans prio) (C20.prioLe_total prio) l' l hp
    (fun a b _ _ h1 h2 => C20.prioLe_antisymm prio a b h1 h2)]
  exact List.mergeSort_of_pairwise hs

theorem resolveLoop_fail_err (prio : List Path) (n : Nat) (s : State) (l : List Path) (m : String)
    (hu : s.reg.unresolved prio = l) (hne : l.isEmpty = false) (hr : (runRound s l).2 = .err m) :
    resolveLoop prio (n + 1) s = .err m := by
  conv => lhs; unfold resolveLoop
  simp only [hu, hne]
  generalize runRound s l = rr at hr
  obtain ⟨s1, res⟩ := rr
  simp only [] at hr
  subst hr
  rfl

theorem resolveLoop_fail_panic (prio : List Path) (n : Nat) (s : State) (l : List Path) (m : String)
    (hu : s.reg.unresolved prio = l) (hne : l.isEmpty = false) (hr : (runRound s l).2 = .panic m) :
    resolveLoop prio (n + 1) s = .panic m := by
  conv => lhs; unfold resolveLoop
  simp only [hu, hne]
  generalize runRound s l = rr at hr
  obtain ⟨s1, res⟩ := rr
  simp only [] at hr
  subst hr
  rfl

/-! ## the statements with `sameVerdict` are FALSE, under `NoGenRefs` too

`sameVerdict` (of `Props/C09Novft.lean`) asks, on success, for equal module lists, and distinguishes an error from a
panic.  Two kernel-checked witnesses, both satisfying every hypothesis of the theorems above. -/

/-- the definition paths of the module `m` of an accepted outcome -/
def dpOf : BuildOutcome → Option (List Path)
  | .ok s => (s.getModule ["m"]).map (·.defPaths)
  | _ => none

theorem sameVerdict_dpOf {o1 o2 : BuildOutcome} (h : sameVerdict o1 o2) : dpOf o1 = dpOf o2 := by
  cases o1 <;> cases o2 <;> first | rfl | exact h.elim | skip
  next s1 s2 =>
    have e : s1.modules = s2.modules := h.2
    simp only [dpOf, State.getModule, e]

/-! **witness 1: the order of the definition paths.**  Pointer width 8, one module

```text
// m.pyxis
pub type A { vftable { pub fn f(&self); } }
pub type B { vftable { pub fn g(&self); } }
```

Both types are resolved in the first round under every priority; each attempt registers the generated item of its type,
and `add_item` PREPENDS its path to the `defPaths` of the module `m`.  With priority `[B, A]` the final `defPaths` are
`[AVftable, BVftable, B, A]`, with `[A, B]` they are `[BVftable, AVftable, B, A]`. -/
namespace Witness1

def modM : G.Module :=
  { defs := [
      { vis := .pub, name := "A",
        inner := .type { stmts := [{ field := .vftable [
                                       { vis := .pub, name := "f", attrs := [], args := [.constSelf], ret := none }],
                                     attrs := [] }],
                         attrs := [] } },
      { vis := .pub, name := "B",
        inner := .type { stmts := [{ field := .vftable [
                                       { vis := .pub, name := "g", attrs := [], args := [.constSelf], ret := none }],
                                     attrs := [] }],
                         attrs := [] } }] }

def case : Case :=
  { id := "c09-vft-w1", ps := 8, prio := [["m", "B"], ["m", "A"]], modules := [.ast ["m"] "m.pyxis" modM], extras := [] }

def prio' : List Path := [["m", "A"], ["m", "B"]]

theorem bounded : C12.CaseBounded case := by
  intro path file m hm
  simp only [case, List.mem_cons, List.not_mem_nil, or_false, ModEnt.ast.injEq] at hm
  obtain ⟨_, _, rfl⟩ := hm
  refine ⟨?_, ?_⟩
  · intro d hd
    simp only [modM, List.mem_cons, List.not_mem_nil, or_false] at hd
    rcases hd with rfl | rfl <;> (intro n args z ha; cases ha)
  · intro xt hx; cases hx

theorem noGenRefs : CaseNoGenRefs case := by decide +kernel

def s0 : State := C12.stateOf case.initialState
def t1 : State := (runRound s0 [["m", "B"], ["m", "A"]]).1
def t2 : State := (runRound s0 [["m", "A"], ["m", "B"]]).1

theorem init : case.initialState = .ok s0 := C12.eq_ok_stateOf _ (by decide +kernel)
theorem nItems : (s0.reg.types.filter fun e => !e.2.isResolved).length = 2 := by decide +kernel

theorem u0 : s0.reg.unresolved case.prio = [["m", "B"], ["m", "A"]] :=
  unresolved_of_sorted _ _ _ (by decide +kernel) (by decide +kernel)
theorem u0' : s0.reg.unresolved prio' = [["m", "A"], ["m", "B"]] :=
  unresolved_of_perm _ _ [["m", "B"], ["m", "A"]] _ (by decide +kernel) (List.Perm.swap _ _ _) (by decide +kernel)
theorem u1 : t1.reg.unresolved case.prio = [] :=
  unresolved_of_sorted _ _ _ (by decide +kernel) (by decide +kernel)
theorem u1' : t2.reg.unresolved prio' = [] :=
  unresolved_of_sorted _ _ _ (by decide +kernel) (by decide +kernel)

theorem r0 : runRound s0 [["m", "B"], ["m", "A"]] = (t1, .ok ()) := by
  have : (runRound s0 [["m", "B"], ["m", "A"]]).2 = .ok () := by decide +kernel
  rw [← this]; rfl
theorem r0' : runRound s0 [["m", "A"], ["m", "B"]] = (t2, .ok ()) := by
  have : (runRound s0 [["m", "A"], ["m", "B"]]).2 = .ok () := by decide +kernel
  rw [← this]; rfl

theorem run1 : case.run = finish t1 := by
  unfold Case.run
  rw [init]
  simp only []
  rw [build_eq, nItems,
    resolveLoop_step _ 5 s0 t1 _ u0 rfl r0 (by rw [u1]; decide +kernel), resolveLoop_done _ 4 t1 u1]

theorem run2 : ({ case with prio := prio' } : Case).run = finish t2 := by
  unfold Case.run
  rw [initialState_prio case prio', init]
  simp only []
  rw [build_eq, nItems,
    resolveLoop_step _ 5 s0 t2 _ u0' rfl r0' (by rw [u1']; decide +kernel), resolveLoop_done _ 4 t2 u1']

/-- both runs are accepted, with different definition paths for the module `m` -/
theorem dp1 : dpOf case.run = some [["m", "AVftable"], ["m", "BVftable"], ["m", "B"], ["m", "A"]] := by
  rw [run1]; decide +kernel
theorem dp2 : dpOf ({ case with prio := prio' } : Case).run
    = some [["m", "BVftable"], ["m", "AVftable"], ["m", "B"], ["m", "A"]] := by
  rw [run2]; decide +kernel

end Witness1

/-! **witness 2: an error or the modelled allocation limit, whichever comes first.**  Pointer width 8, one module

```text
// m.pyxis
pub type A { pub x: u32, pub x: u32 }                       // error: two fields of that name
pub type B { vftable { #[index(5000000)] pub fn g(&self); } }  // 5 000 000 > 4 194 304 slots: the modelled allocation limit
```

With priority `[B, A]` the first round ends in `panic "make_padding_functions: unbounded padding loop"`, with `[A, B]` in
`err "type has more than one field of that name"`. -/
namespace Witness2

def modM : G.Module :=
  { defs := [
      { vis := .pub, name := "A",
        inner := .type { stmts := [{ field := .field .pub "x" (.ident "u32"), attrs := [] },
                                   { field := .field .pub "x" (.ident "u32"), attrs := [] }],
                         attrs := [] } },
      { vis := .pub, name := "B",
        inner := .type { stmts := [{ field := .vftable [
                                       { vis := .pub, name := "g", attrs := [.fn "index" [.int 5000000]],
                                         args := [.constSelf], ret := none }],
                                     attrs := [] }],
                         attrs := [] } }] }

def case : Case :=
  { id := "c09-vft-w2", ps := 8, prio := [["m", "B"], ["m", "A"]], modules := [.ast ["m"] "m.pyxis" modM], extras := [] }

def prio' : List Path := [["m", "A"], ["m", "B"]]

theorem bounded : C12.CaseBounded case := by
  intro path file m hm
  simp only [case, List.mem_cons, List.not_mem_nil, or_false, ModEnt.ast.injEq] at hm
  obtain ⟨_, _, rfl⟩ := hm
  refine ⟨?_, ?_⟩
  · intro d hd
    simp only [modM, List.mem_cons, List.not_mem_nil, or_false] at hd
    rcases hd with rfl | rfl <;> (intro n args z ha; cases ha)
  · intro xt hx; cases hx

theorem noGenRefs : CaseNoGenRefs case := by decide +kernel

def s0 : State := C12.stateOf case.initialState

theorem init : case.initialState = .ok s0 := C12.eq_ok_stateOf _ (by decide +kernel)
theorem nItems : (s0.reg.types.filter fun e => !e.2.isResolved).length = 2 := by decide +kernel

theorem u0 : s0.reg.unresolved case.prio = [["m", "B"], ["m", "A"]] :=
  unresolved_of_sorted _ _ _ (by decide +kernel) (by decide +kernel)
theorem u0' : s0.reg.unresolved prio' = [["m", "A"], ["m", "B"]] :=
  unresolved_of_perm _ _ [["m", "B"], ["m", "A"]] _ (by decide +kernel) (List.Perm.swap _ _ _) (by decide +kernel)

theorem run1 : case.run = .panic C12.allocSite := by
  unfold Case.run
  rw [init]
  simp only []
  unfold State.build
  simp only []
  rw [nItems, resolveLoop_fail_panic _ 5 s0 _ C12.allocSite u0 rfl (by decide +kernel)]

theorem run2 : ({ case with prio := prio' } : Case).run = .err "type has more than one field of that name" := by
  unfold Case.run
  rw [initialState_prio case prio', init]
  simp only []
  unfold State.build
  simp only []
  rw [nItems, resolveLoop_fail_err _ 5 s0 _ "type has more than one field of that name" u0' rfl (by decide +kernel)]

end Witness2

/-- REFUTED: `case_schedule_independent_nogenref` with `sameVerdict` in place of `sameVerdictV`.  Witness 1: both runs are
    accepted and the module lists differ in the order of the definition paths. -/
theorem case_schedule_independent_nogenref_refuted :
    ¬ ∀ (c : Case) (prio' : List Path), (c.ps = 4 ∨ c.ps = 8) → C12.CaseBounded c → CaseNoGenRefs c →
      sameVerdict c.run ({ c with prio := prio' } : Case).run := by
  intro H
  have h := sameVerdict_dpOf (H Witness1.case Witness1.prio' (Or.inr rfl) Witness1.bounded Witness1.noGenRefs)
  rw [Witness1.dp1, Witness1.dp2] at h
  exact absurd h (by decide)

/-- REFUTED, second reason: an error under one priority, the modelled allocation limit under the other (witness 2) -/
theorem case_schedule_independent_nogenref_refuted_panic :
    ¬ ∀ (c : Case) (prio' : List Path), (c.ps = 4 ∨ c.ps = 8) → C12.CaseBounded c → CaseNoGenRefs c →
      sameVerdict c.run ({ c with prio := prio' } : Case).run := by
  intro H
  have h := H Witness2.case Witness2.prio' (Or.inr rfl) Witness2.bounded Witness2.noGenRefs
  rw [Witness2.run1, Witness2.run2] at h
  exact h

/-- REFUTED: the state-level statement with `sameVerdict` (the initial state of witness 1 satisfies `C12.StateOkB` and
    `NoGenRefs`) -/
theorem build_schedule_independent_nogenref_refuted :
    ¬ ∀ (s : State) (p1 p2 : List Path), C12.StateOkB s → NoGenRefs s → sameVerdict (s.build p1) (s.build p2) := by
  intro H
  have hok : C12.StateOkB Witness1.s0 :=
    (C12.initialState_shape Witness1.case (Or.inr rfl) Witness1.bounded).2 _ Witness1.init
  have hng : NoGenRefs Witness1.s0 :=
    initial_noGenRefs Witness1.case (Or.inr rfl) Witness1.bounded Witness1.noGenRefs _ Witness1.init
  have h := sameVerdict_dpOf (H Witness1.s0 Witness1.case.prio Witness1.prio' hok hng)
  have e1 : Witness1.s0.build Witness1.case.prio = Witness1.case.run := by
    unfold Case.run; rw [Witness1.init]
  have e2 : Witness1.s0.build Witness1.prio' = ({ Witness1.case with prio := Witness1.prio' } : Case).run := by
    unfold Case.run; rw [initialState_prio Witness1.case Witness1.prio', Witness1.init]
  rw [e1, e2, Witness1.dp1, Witness1.dp2] at h
  exact absurd h (by decide)

/-- … and the theorems proved above apply to the witnesses: the emitted files and the resolved-registry observation of
    witness 1 are the same under both priorities although the module lists are not -/
example : ({ Witness1.case with prio := Witness1.prio' } : Case).o3 = Witness1.case.o3 ∧
    ({ Witness1.case with prio := Witness1.prio' } : Case).o2 = Witness1.case.o2 := by
  have hok : isOkB Witness1.case.run = true := by rw [Witness1.run1]; decide +kernel
  obtain ⟨s, hs⟩ := (isOkB_iff _).mp hok
  exact ⟨case_o3_schedule_independent_nogenref _ _ (Or.inr rfl) Witness1.bounded Witness1.noGenRefs s hs,
    case_o2_schedule_independent_nogenref _ _ (Or.inr rfl) Witness1.bounded Witness1.noGenRefs s hs⟩

/-! ## non-vacuity: a concrete case that satisfies every hypothesis and is accepted

Pointer width 8, one module with a base that has a vftable block, a derived type with its own block extending it, and
a third type with a pointer to the derived type:

```text
// m.pyxis
pub type B { vftable { pub fn v(&self, x: u32); }  pub n: u64 }
pub type D { vftable { pub fn v(&self, x: u32); pub fn w(&mut self) -> u32; }  #[base] pub b: B,  pub z: u64 }
pub type P { pub d: *const D, pub k: u32, pub k2: u32 }
#[address(0x2000)] pub extern d_table: *const DVftable;
```

(the extern value MENTIONS a generated name: extern values are resolved after the loop, in the final registry, and are
not restricted by `CaseNoGenRefs`) with the priority `[P, D, B]`, the worst one: in round 1 `P` is resolved at once (a pointer does not wait for its
pointee), `D` has to wait for the size of its base `B` (and does not get as far as `vftable::build`), `B` registers
`m::BVftable` and is resolved; in round 2 `D` registers `m::DVftable`, finds the table of `B` to be a prefix of its own
and is resolved (size 24: the 16 bytes of `B`, which start with `B`'s vftable pointer, and `z`); a third round sees
that nothing is left.  The generated paths are `m::BVftable` and `m::DVftable`; nothing mentions them
(`CaseNoGenRefs`, decided by the kernel).  As in `Props/C09Case.lean` the loop is stepped through round by round. -/
namespace VftExample

def modM : G.Module :=
  { defs := [
      { vis := .pub, name := "B",
        inner := .type { stmts := [{ field := .vftable [
                                       { vis := .pub, name := "v", attrs := [],
                                         args := [.constSelf, .named "x" (.ident "u32")], ret := none }],
                                     attrs := [] },
                                   { field := .field .pub "n" (.ident "u64"), attrs := [] }],
                         attrs := [] } },
      { vis := .pub, name := "D",
        inner := .type { stmts := [{ field := .vftable [
                                       { vis := .pub, name := "v", attrs := [],
                                         args := [.constSelf, .named "x" (.ident "u32")], ret := none },
                                       { vis := .pub, name := "w", attrs := [], args := [.mutSelf],
                                         ret := some (.ident "u32") }],
                                     attrs := [] },
                                   { field := .field .pub "b" (.ident "B"), attrs := [.ident "base"] },
                                   { field := .field .pub "z" (.ident "u64"), attrs := [] }],
                         attrs := [] } },
      { vis := .pub, name := "P",
        inner := .type { stmts := [{ field := .field .pub "d" (.cptr (.ident "D")), attrs := [] },
                                   { field := .field .pub "k" (.ident "u32"), attrs := [] },
                                   { field := .field .pub "k2" (.ident "u32"), attrs := [] }],
                         attrs := [] } }],
    xvals := [{ vis := .pub, name := "d_table", ty := .cptr (.ident "DVftable"),
                attrs := [.fn "address" [.int 0x2000]] }] }

def prio : List Path := [["m", "P"], ["m", "D"], ["m", "B"]]

def case : Case :=
  { id := "c09-vft", ps := 8, prio := prio, modules := [.ast ["m"] "m.pyxis" modM], extras := [] }

/-! ### the hypotheses of the theorems -/

theorem bounded : C12.CaseBounded case := by
  intro path file m hm
  simp only [case, List.mem_cons, List.not_mem_nil, or_false, ModEnt.ast.injEq] at hm
  obtain ⟨_, _, rfl⟩ := hm
  refine ⟨?_, ?_⟩
  · intro d hd
    simp only [modM, List.mem_cons, List.not_mem_nil, or_false] at hd
    rcases hd with rfl | rfl | rfl <;> (intro n args z ha; cases ha)
  · intro xt hx; cases hx

/-- the generated paths of the case … -/
example : caseGenPaths case = [["m", "BVftable"], ["m", "DVftable"]] := by decide +kernel

/-- … and nothing mentions them -/
theorem noGenRefs : CaseNoGenRefs case := by decide +kernel

/-- no `#[index]` / `#[size]` at all -/
theorem small : CaseSmall case := by
  intro path file m hm d hd
  simp only [case, List.mem_cons, List.not_mem_nil, or_false, ModEnt.ast.injEq] at hm
  obtain ⟨_, _, rfl⟩ := hm
  have nil : ∀ name, AttrSmall name [] := fun _ args z ha => by cases ha
  simp only [modM, List.mem_cons, List.not_mem_nil, or_false] at hd
  rcases hd with rfl | rfl | rfl
  · intro st hst
    simp only [List.mem_cons, List.not_mem_nil, or_false] at hst
    rcases hst with rfl | rfl
    · refine ⟨nil _, fun f hf => ?_⟩
      simp only [List.mem_cons, List.not_mem_nil, or_false] at hf
      subst hf
      exact nil _
    · trivial
  · intro st hst
    simp only [List.mem_cons, List.not_mem_nil, or_false] at hst
    rcases hst with rfl | rfl | rfl
    · refine ⟨nil _, fun f hf => ?_⟩
      simp only [List.mem_cons, List.not_mem_nil, or_false] at hf
      rcases hf with rfl | rfl <;> exact nil _
    · trivial
    · trivial
  · intro st hst
    simp only [List.mem_cons, List.not_mem_nil, or_false] at hst
    rcases hst with rfl | rfl | rfl <;> trivial

example : case.ps = 4 ∨ case.ps = 8 := Or.inr rfl

/-! ### the run is accepted -/

/-- the state after `add_module` … -/
def s0 : State := C12.stateOf case.initialState
/-- … after round 1 (`P` resolved, `D` deferred, `B` resolved and `m::BVftable` registered) … -/
def s1 : State := (runRound s0 [["m", "P"], ["m", "D"], ["m", "B"]]).1
/-- … and after round 2 (`D` resolved and `m::DVftable` registered) -/
def s2 : State := (runRound s1 [["m", "D"]]).1

theorem init : case.initialState = .ok s0 := C12.eq_ok_stateOf _ (by decide +kernel)
theorem nItems : (s0.reg.types.filter fun e => !e.2.isResolved).length = 3 := by decide +kernel

/-- the condition on the initial state holds (by the theorem, and decided directly) -/
example : NoGenRefs s0 := initial_noGenRefs case (Or.inr rfl) bounded noGenRefs s0 init
example : genPaths s0 = [["m", "DVftable"], ["m", "BVftable"]] := by decide +kernel

theorem u0 : s0.reg.unresolved case.prio = [["m", "P"], ["m", "D"], ["m", "B"]] :=
  unresolved_of_sorted _ _ _ (by decide +kernel) (by decide +kernel)
theorem u1 : s1.reg.unresolved case.prio = [["m", "D"]] :=
  unresolved_of_sorted _ _ _ (by decide +kernel) (by decide +kernel)
theorem u2 : s2.reg.unresolved case.prio = [] :=
  unresolved_of_sorted _ _ _ (by decide +kernel) (by decide +kernel)

theorem r0 : runRound s0 [["m", "P"], ["m", "D"], ["m", "B"]] = (s1, .ok ()) := by
  have : (runRound s0 [["m", "P"], ["m", "D"], ["m", "B"]]).2 = .ok () := by decide +kernel
  rw [← this]; rfl
theorem r1 : runRound s1 [["m", "D"]] = (s2, .ok ()) := by
  have : (runRound s1 [["m", "D"]]).2 = .ok () := by decide +kernel
  rw [← this]; rfl

theorem loop : resolveLoop case.prio 8 s0 = .ok s2 := by
  rw [resolveLoop_step _ 7 s0 s1 _ u0 rfl r0 (by rw [u1]; decide +kernel),
      resolveLoop_step _ 6 s1 s2 _ u1 rfl r1 (by rw [u2]; decide +kernel),
      resolveLoop_done _ 5 s2 u2]

theorem run_eq : case.run = finish s2 := by
  unfold Case.run
  rw [init]
  simp only []
  rw [build_eq, nItems, loop]

/-- the case is accepted -/
theorem run_ok : isOkB case.run = true := by
  rw [run_eq]
  decide +kernel

/-- the extern value got the generated type -/
example : (match finish s2 with
    | .ok s => (s.getModule ["m"]).map (fun m => m.xvals.map (·.ty))
    | _ => none) = some [some (.cptr (.raw ["m", "DVftable"]))] := by decide +kernel

/-- both generated items are registered in the final registry; `D` has size 24, which needs `B` (16) -/
example : s2.reg.contains ["m", "BVftable"] = true ∧ s2.reg.contains ["m", "DVftable"] = true := by decide +kernel
example : (s2.reg.get ["m", "D"]).bind (fun i => i.resolved?.map (·.size)) = some 24 := by decide +kernel
example : (s2.reg.get ["m", "P"]).bind (fun i => i.resolved?.map (·.size)) = some 16 := by decide +kernel
/-- the generated paths were prepended to the definition paths of `m` in attempt order -/
example : (s2.getModule ["m"]).map (·.defPaths)
    = some [["m", "DVftable"], ["m", "BVftable"], ["m", "P"], ["m", "D"], ["m", "B"]] := by decide +kernel

/-- the theorems apply to it: every priority list gives an accepted state that differs in order only, the same
    registry observation and the same files -/
theorem any_prio (prio' : List Path) :
    isOkB ({ case with prio := prio' } : Case).run = true ∧
    sameVerdictM case.run ({ case with prio := prio' } : Case).run ∧
    ({ case with prio := prio' } : Case).o2 = case.o2 ∧
    ({ case with prio := prio' } : Case).o3 = case.o3 := by
  obtain ⟨s, hs⟩ := (isOkB_iff _).mp run_ok
  refine ⟨?_, case_schedule_independent_nogenref_small case prio' (Or.inr rfl) bounded noGenRefs small, ?_, ?_⟩
  · obtain ⟨s', hs', _⟩ := case_output_schedule_independent_nogenref case prio' (Or.inr rfl) bounded noGenRefs s hs
    rw [hs']; rfl
  · exact case_o2_schedule_independent_nogenref case prio' (Or.inr rfl) bounded noGenRefs s hs
  · exact case_o3_schedule_independent_nogenref case prio' (Or.inr rfl) bounded noGenRefs s hs

end VftExample

end PyxisVerif.C09
