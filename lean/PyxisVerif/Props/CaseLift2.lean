import PyxisVerif.Lemmas.CaseLift2
/-!
# Per-item theorems, lifted to every accepted case – part 2 (C03, C04, C05, C07, C11, C13, C14)

`Props/CaseLift.lean` lifts C01, C06, C08, C15, C16, C17; this file lifts the per-item theorems of the remaining
properties in the same way: hypotheses `c.ps = 4 ∨ c.ps = 8`, `C12.CaseBounded c` (`isize` literals, what the parser
produces), `c.run = .ok s`; conclusions about every entry of the final registry `s.reg` / every emitted file
(`Emit.files s`).  Naming: `PyxisVerif.Cxx.case_<per-item name>`.

As in part 1, a resolved struct of the final registry is either a generated `<T>Vftable` struct (first disjunct of most
statements) or the result of an accepted build of a definition **written in a module of the case** (`CaseLift.Declared`),
in a state whose registry the final registry extends (`C02.Ext`); whatever the per-item theorem reads from the registry
is re-read in the *final* registry where that is possible, and otherwise in a registry `s0.reg` / `s1.reg` with
`C02.Ext … s.reg` (name lookup is not monotone: a later registration can change what a name binds to).

Two statements need the paths of the modules of the case to be pairwise distinct (`DistinctModulePaths`,
`(astPaths c.modules).Nodup`): "every function written in a function block is present" (C05) and "every item is
emitted in the file of its module" (C14).  Without it they are **false** – `add_module` replaces a stored module of the
same path – and the refuting case is `CaseLift2.Dup.case` (`C05.case_declared_functions_present_refuted`,
`C14.case_every_item_in_its_file_refuted`, at the end of the file).
-/


namespace PyxisVerif.C03
open Gen Layout CaseLift CaseLift2

/-- **C03 for every accepted case (the verdict).**  Every emitted struct `p` of the final registry is a generated vftable
    struct or was built from a definition `item` written in the case; then, with `sa.pending` its declared fields (each
    from a field statement of the definition with that statement's `#[address]` and resolved type, `FieldOf`), `vptr` its
    own vftable pointer if it has one, and `t` the C03 description read off them **in the final registry**
    (`specType`: per field the written address and the size / alignment / array-ness of its type as the final registry
    records them; `size` / `align` / `packed` of the definition), C03's `verdict` for `t` at the pointer width of the
    case is *accepted with the size and alignment of the emitted struct* -/
theorem case_verdict (c : Case) (hps : c.ps = 4 ∨ c.ps = 8) (hb : C12.CaseBounded c) (s : State)
    (h : c.run = .ok s) (p : Path) (i : ItemDef) (r : Resolved) (td : TypeDefn)
    (hg : s.reg.get p = some i) (hs : i.state = .res r) (hin : r.inner = .type td) (hc : i.cat = .defined) :
    (∃ (reg0 : Registry) (owner : Path) (vis : Vis) (fns : List SFunc),
      buildVftableItem reg0 owner vis fns = some i ∧ i.path = p) ∨
    ∃ (item : G.Item) (d : G.TypeDef) (s0 : State) (module : Mod) (ta : TypeAttrs) (sa : StmtAcc) (vptr : Option Region),
      Declared c p item ∧ item.inner = .type d ∧ s0.moduleFor p = some module ∧ C02.Ext s0.reg s.reg ∧
      Res.foldlM typeAttrStep {} d.attrs = .ok ta ∧
      Res.foldlM (stmtStep s0.reg module.scope) {} (d.stmts.zipIdx.map fun q => (q.2, q.1)) = .ok sa ∧
      (∀ q ∈ sa.pending, ∃ st ∈ d.stmts, FieldOf s0.reg module.scope st q) ∧
      (vptr = none ∨ ∃ vpath, vftablePath p = some vpath ∧ vptr = some (C06.ownPointer vpath)) ∧
      (∀ q ∈ sa.pending, ∃ n a, q.2.ty.size s.reg = .ok (some n) ∧ q.2.ty.align s.reg = some a ∧
        specField s.reg q = { addr := q.1, size := n, align := a, isArray := q.2.ty.isArray }) ∧
      verdict c.ps (specType s.reg vptr.isSome sa.pending ta) = .ok (r.size, r.align) := by
  rcases case_layout_master c hps hb s h p i r td hg hs hin hc with hv |
    ⟨item, d, s0, module, ta, sa, vptr, placed, hD, hd, hmod, he, hta, hsa, hfo, hvp, hres, hal, _, _⟩
  · exact Or.inl hv
  · refine Or.inr ⟨item, d, s0, module, ta, sa, vptr, hD, hd, hmod, he, hta, hsa, hfo, hvp, ?_, ?_⟩
    · intro q hq
      obtain ⟨n, hn⟩ := (resolve_sizes _ _ _ _ _ hres).2 (toPField s.reg q.1 q.2) (List.mem_map.mpr ⟨q, hq, rfl⟩)
      obtain ⟨a, ha, hspec⟩ := specField_known s.reg q n hn
      exact ⟨n, a, hn, ha, hspec⟩
    · rw [← case_ps c s h]
      refine verdict_of_layout s.reg vptr ?_ sa.pending ta placed r.size r.align hres hal
      rcases hvp with h1 | ⟨vpath, _, h1⟩
      · exact Or.inl h1
      · exact Or.inr ⟨vpath, h1⟩

/-- **`accepts_iff_realisable`, for every accepted case**: the description of every emitted struct built from a
    definition written in the case – read off in the final registry, `case_verdict` – is accepted by C03's `verdict`, and
    so, when it is in C03's domain, it is realisable (the executable oracle `realisableB` says so too) -/
theorem case_accepts_iff_realisable (c : Case) (hps : c.ps = 4 ∨ c.ps = 8) (hb : C12.CaseBounded c) (s : State)
    (h : c.run = .ok s) (p : Path) (i : ItemDef) (r : Resolved) (td : TypeDefn)
    (hg : s.reg.get p = some i) (hs : i.state = .res r) (hin : r.inner = .type td) (hc : i.cat = .defined) :
    (∃ (reg0 : Registry) (owner : Path) (vis : Vis) (fns : List SFunc),
      buildVftableItem reg0 owner vis fns = some i ∧ i.path = p) ∨
    ∃ (item : G.Item) (d : G.TypeDef) (s0 : State) (module : Mod) (ta : TypeAttrs) (sa : StmtAcc) (vptr : Option Region),
      Declared c p item ∧ item.inner = .type d ∧ s0.moduleFor p = some module ∧ C02.Ext s0.reg s.reg ∧
      Res.foldlM typeAttrStep {} d.attrs = .ok ta ∧
      Res.foldlM (stmtStep s0.reg module.scope) {} (d.stmts.zipIdx.map fun q => (q.2, q.1)) = .ok sa ∧
      (vptr = none ∨ ∃ vpath, vftablePath p = some vpath ∧ vptr = some (C06.ownPointer vpath)) ∧
      (verdict c.ps (specType s.reg vptr.isSome sa.pending ta)).isOk = true ∧
      (InDomain c.ps (specType s.reg vptr.isSome sa.pending ta) →
        Realisable c.ps (specType s.reg vptr.isSome sa.pending ta) ∧
        realisableB c.ps (specType s.reg vptr.isSome sa.pending ta) = true) := by
  rcases case_verdict c hps hb s h p i r td hg hs hin hc with hv |
    ⟨item, d, s0, module, ta, sa, vptr, hD, hd, hmod, he, hta, hsa, _, hvp, _, hver⟩
  · exact Or.inl hv
  · refine Or.inr ⟨item, d, s0, module, ta, sa, vptr, hD, hd, hmod, he, hta, hsa, hvp, by rw [hver]; rfl, ?_⟩
    intro hdom
    have hr := (accepts_iff_realisable _ _ hdom).mp (by rw [hver]; rfl)
    exact ⟨hr, (realisableB_iff _ _).mpr hr⟩

/-- **`accepted_size_align`, for every accepted case**: every emitted struct built from a definition written in the case
    has the size the spec computes for its description (`totalSize`: the declared size, else where the last field ends)
    and the spec's effective alignment (1 when packed), whenever the description – read off in the final registry – is in
    C03's domain -/
theorem case_accepted_size_align (c : Case) (hps : c.ps = 4 ∨ c.ps = 8) (hb : C12.CaseBounded c) (s : State)
    (h : c.run = .ok s) (p : Path) (i : ItemDef) (r : Resolved) (td : TypeDefn)
    (hg : s.reg.get p = some i) (hs : i.state = .res r) (hin : r.inner = .type td) (hc : i.cat = .defined) :
    (∃ (reg0 : Registry) (owner : Path) (vis : Vis) (fns : List SFunc),
      buildVftableItem reg0 owner vis fns = some i ∧ i.path = p) ∨
    ∃ (item : G.Item) (d : G.TypeDef) (s0 : State) (module : Mod) (ta : TypeAttrs) (sa : StmtAcc) (vptr : Option Region),
      Declared c p item ∧ item.inner = .type d ∧ s0.moduleFor p = some module ∧ C02.Ext s0.reg s.reg ∧
      Res.foldlM typeAttrStep {} d.attrs = .ok ta ∧
      Res.foldlM (stmtStep s0.reg module.scope) {} (d.stmts.zipIdx.map fun q => (q.2, q.1)) = .ok sa ∧
      (vptr = none ∨ ∃ vpath, vftablePath p = some vpath ∧ vptr = some (C06.ownPointer vpath)) ∧
      (InDomain c.ps (specType s.reg vptr.isSome sa.pending ta) →
        r.size = totalSize c.ps (specType s.reg vptr.isSome sa.pending ta) ∧
        r.align = (if ta.packed then 1 else effAlign c.ps (specType s.reg vptr.isSome sa.pending ta))) := by
  rcases case_verdict c hps hb s h p i r td hg hs hin hc with hv |
    ⟨item, d, s0, module, ta, sa, vptr, hD, hd, hmod, he, hta, hsa, _, hvp, _, hver⟩
  · exact Or.inl hv
  · refine Or.inr ⟨item, d, s0, module, ta, sa, vptr, hD, hd, hmod, he, hta, hsa, hvp, ?_⟩
    intro hdom
    exact accepted_size_align _ _ hdom r.size r.align hver

end PyxisVerif.C03

/-! ## C04 -/
namespace PyxisVerif.C04
open Gen Layout CaseLift CaseLift2

/-- **`slots`, for every accepted case.**  Every emitted struct `p` of the final registry is a generated vftable struct
    (no table) or was built from a definition written in the case; if that definition starts with a vftable block `gfns`,
    the block converts to a table `out` in which function `k` sits in slot `pos[k]` – the slot the description says
    (`specPositions`: its written index, else predecessor + 1, else 0) –, every other slot holds the placeholder named
    after its own position, and `out` has the declared length (`specLength`: the block's `#[size]`, else exactly the slots
    needed); `out` is the table of the type in the final registry whenever it has one, and it has one (with accessor
    return type `*const <T>Vftable`) when the type has a parent path -/
theorem case_slots (c : Case) (hps : c.ps = 4 ∨ c.ps = 8) (hb : C12.CaseBounded c) (s : State)
    (h : c.run = .ok s) (p : Path) (i : ItemDef) (r : Resolved) (td : TypeDefn)
    (hg : s.reg.get p = some i) (hs : i.state = .res r) (hin : r.inner = .type td) (hc : i.cat = .defined) :
    ((∃ (reg0 : Registry) (owner : Path) (vis : Vis) (fns : List SFunc),
        buildVftableItem reg0 owner vis fns = some i ∧ i.path = p) ∧ td.vft = none) ∨
    ∃ (item : G.Item) (d : G.TypeDef) (s0 : State) (module : Mod),
      Declared c p item ∧ item.inner = .type d ∧ s0.moduleFor p = some module ∧ C02.Ext s0.reg s.reg ∧
      ∀ st gfns, d.stmts[0]? = some st → st.field = .vftable gfns →
        ∃ size out pos built len,
          vftableSizeAttr st.attrs = .ok size ∧
          (∀ v, td.vft = some v → v.fns = out) ∧
          (∀ vpath, vftablePath p = some vpath → ∃ v, td.vft = some v ∧ v.fns = out ∧ v.ty = .cptr (.raw vpath)) ∧
          specPositions 0 (gfns.map declIndex) = some pos ∧
          Res.mapM' (buildFunction s0.reg module.scope true) gfns = .ok built ∧
          pos.length = built.length ∧
          specLength size pos = some len ∧ out.length = len ∧
          (∀ pb ∈ pos.zip built, out[pb.1]? = some pb.2) ∧
          (∀ j, j < out.length → j ∉ pos → out[j]? = some (placeholderFn j)) := by
  rcases case_vftable_master c hps hb s h p i r td hg hs hin hc with ⟨hv, _, hnone⟩ |
    ⟨item, d, s0, module, hD, hd, hmod, he, _, hblock⟩
  · exact Or.inl ⟨hv, hnone⟩
  · refine Or.inr ⟨item, d, s0, module, hD, hd, hmod, he, ?_⟩
    intro st gfns hst hf
    obtain ⟨size, out, hsize, hconv, hout, hgen⟩ := hblock st gfns hst hf
    obtain ⟨pos, built, len, k1, k2, k3, k4, k5, k6, k7⟩ := slots s0.reg module.scope size gfns out hconv
    exact ⟨size, out, pos, built, len, hsize, hout, fun vpath hvp => (hgen vpath hvp).1, k1, k2, k3, k4, k5, k6, k7⟩

/-- **`placeholder_shape`, for every accepted case**: in the table of every emitted struct whose definition starts with
    a vftable block, every slot the description gives to no function of the block holds a function that is private, takes
    `&mut self`, returns nothing, is thiscall and is named `_vfunc_<slot>` -/
theorem case_placeholder_shape (c : Case) (hps : c.ps = 4 ∨ c.ps = 8) (hb : C12.CaseBounded c) (s : State)
    (h : c.run = .ok s) (p : Path) (i : ItemDef) (r : Resolved) (td : TypeDefn)
    (hg : s.reg.get p = some i) (hs : i.state = .res r) (hin : r.inner = .type td) (hc : i.cat = .defined)
    (v : Vft) (hv : td.vft = some v) :
    ∃ (item : G.Item) (d : G.TypeDef),
      Declared c p item ∧ item.inner = .type d ∧
      ∀ st gfns, d.stmts[0]? = some st → st.field = .vftable gfns →
        ∃ pos, specPositions 0 (gfns.map declIndex) = some pos ∧
          ∀ j, j < v.fns.length → j ∉ pos →
            v.fns[j]? = some { vis := .priv, name := "_vfunc_" ++ toString j, doc := none,
                               body := .vft ("_vfunc_" ++ toString j), args := [.mutSelf], ret := none, cc := .Thiscall } := by
  rcases case_slots c hps hb s h p i r td hg hs hin hc with ⟨_, hnone⟩ | ⟨item, d, s0, module, hD, hd, _, _, hblock⟩
  · rw [hnone] at hv; cases hv
  · refine ⟨item, d, hD, hd, ?_⟩
    intro st gfns hst hf
    obtain ⟨size, out, pos, built, len, _, hout, _, hpos, _, _, _, _, _, hph⟩ := hblock st gfns hst hf
    refine ⟨pos, hpos, ?_⟩
    intro j hj hnot
    rw [hout v hv] at hj ⊢
    rw [hph j hj hnot, placeholder_shape]

/-- **`vftable_item` and `slot_offset`, for every accepted case.**  For every emitted struct `T` (at `p`, with a parent
    path) of the final registry whose definition starts with a vftable block, the final registry holds under
    `<T>Vftable` a defined, resolved item with the visibility declared for `T`, of size `slots * pointer size` and
    pointer alignment, with one region per slot of `T`'s table, in slot order, named after the function in that slot,
    each pointer-sized and pointer-aligned **in the final registry**; and the modelled compiler puts field `k` of that
    struct at byte `k * ps` -/
theorem case_vftable_item (c : Case) (hps : c.ps = 4 ∨ c.ps = 8) (hb : C12.CaseBounded c) (s : State)
    (h : c.run = .ok s) (p : Path) (i : ItemDef) (r : Resolved) (td : TypeDefn)
    (hg : s.reg.get p = some i) (hs : i.state = .res r) (hin : r.inner = .type td) (hc : i.cat = .defined) :
    ((∃ (reg0 : Registry) (owner : Path) (vis : Vis) (fns : List SFunc),
        buildVftableItem reg0 owner vis fns = some i ∧ i.path = p) ∧ td.vft = none) ∨
    ∃ (item : G.Item) (d : G.TypeDef),
      Declared c p item ∧ item.inner = .type d ∧
      ∀ st gfns vpath, d.stmts[0]? = some st → st.field = .vftable gfns → vftablePath p = some vpath →
        ∃ (v : Vft) (vi : ItemDef) (vtd : TypeDefn),
          td.vft = some v ∧ v.ty = .cptr (.raw vpath) ∧
          s.reg.get vpath = some vi ∧ vi.path = vpath ∧ vi.vis = item.vis ∧ vi.cat = .defined ∧
          vi.state = .res { size := v.fns.length * s.reg.ps, align := s.reg.ps, inner := .type vtd } ∧
          vtd.regions = v.fns.map (functionToRegion p) ∧
          (∀ rg ∈ vtd.regions, rg.ty.size s.reg = .ok (some s.reg.ps) ∧ rg.ty.align s.reg = some s.reg.ps) ∧
          (∀ (k : Nat) (f : SFunc), v.fns[k]? = some f → ∃ rg : Region, vtd.regions[k]? = some rg ∧ rg.name = some f.name) ∧
          Exec.fieldOffsets s.reg vtd = some ((List.range v.fns.length).map (· * s.reg.ps)) ∧
          RustSem.offsets false 0 (List.replicate v.fns.length ⟨s.reg.ps, s.reg.ps⟩) =
            (List.range v.fns.length).map (· * s.reg.ps) := by
  rcases case_vftable_master c hps hb s h p i r td hg hs hin hc with ⟨hv, _, hnone⟩ |
    ⟨item, d, s0, module, hD, hd, hmod, he, _, hblock⟩
  · exact Or.inl ⟨hv, hnone⟩
  · refine Or.inr ⟨item, d, hD, hd, ?_⟩
    intro st gfns vpath hst hf hvp
    obtain ⟨size, out, hsize, hconv, hout, hgen⟩ := hblock st gfns hst hf
    obtain ⟨⟨v, hv, hvf, hvty⟩, vi, hitem, hpath, hget⟩ := hgen vpath hvp
    subst hvf
    obtain ⟨vtd, hstate, hregions, _⟩ := vftable_item s0.reg p item.vis v.fns vi hitem
    obtain ⟨htd, hvis, hcat, _, _⟩ := vftable_item_td s0.reg p item.vis v.fns vi _ vtd hitem hstate rfl
    have hpos : 0 < s.reg.ps := (Exec.case_inv c hps hb s h).2.2
    have hoff := slot_offset s.reg.ps v.fns.length hpos
    refine ⟨v, vi, vtd, hv, hvty, hget, hpath, hvis, hcat, by rw [hstate, he.ps], hregions, ?_, ?_, ?_, hoff⟩
    · intro rg hrg
      rw [hregions] at hrg
      obtain ⟨f, _, rfl⟩ := List.mem_map.mp hrg
      exact ⟨rfl, rfl⟩
    · intro k f hk
      refine ⟨functionToRegion p f, ?_, rfl⟩
      rw [hregions]
      simp only [List.getElem?_map, hk, Option.map_some]
    · unfold Exec.fieldOffsets
      rw [hregions, Exec.fldsOf_vftable, htd]
      simp only [Option.map_some]
      rw [hoff]

/-- **`wrapper_shape`, for every accepted case**: every slot of the table of an emitted struct whose definition starts
    with a vftable block holds the function built from a function `gf` of the block – and then its wrapper reads the slot
    *by the name of `gf`'s own field* and forwards the receiver followed by the arguments in declared order – or that
    slot's placeholder; the `impl` item emitted for the struct lists the wrappers of all slot functions whose name does
    not start with `_` (the placeholders, named `_vfunc_<slot>`, are filtered) -/
theorem case_wrapper_shape (c : Case) (hps : c.ps = 4 ∨ c.ps = 8) (hb : C12.CaseBounded c) (s : State)
    (h : c.run = .ok s) (p : Path) (i : ItemDef) (r : Resolved) (td : TypeDefn)
    (hg : s.reg.get p = some i) (hs : i.state = .res r) (hin : r.inner = .type td) (hc : i.cat = .defined)
    (v : Vft) (hv : td.vft = some v) :
    (∃ (item : G.Item) (d : G.TypeDef),
      Declared c p item ∧ item.inner = .type d ∧
      ∀ st gfns, d.stmts[0]? = some st → st.field = .vftable gfns →
        ∀ (k : Nat) (f : SFunc), v.fns[k]? = some f →
          (∃ gf ∈ gfns, f.name = gf.name ∧ f.body = .vft gf.name ∧
            ∃ hd, Emit.methodS f = Sexp.mk "method" (hd ++
              [Sexp.mk "call-slot" [.str gf.name, Sexp.mk "args" (f.args.map Emit.callArgS)]])) ∨
          f = placeholderFn k) ∧
    ∃ acc, Sexp.mk "impl" (.str (i.path.getLast?.getD "") :: acc ::
      ((td.fns.filter (!·.isInternal)).map Emit.methodS ++ (v.fns.filter (!·.isInternal)).map Emit.methodS))
      ∈ Emit.itemItems s.reg i := by
  refine ⟨?_, ?_⟩
  · rcases case_fns_master c hps hb s h p i r td hg hs hin hc with ⟨_, _, hnone⟩ |
      ⟨item, d, s0, s1, module, hD, hd, hmod, he01, he, hfns, hblock⟩
    · rw [hnone] at hv; cases hv
    · refine ⟨item, d, hD, hd, ?_⟩
      intro st gfns hst hf k f hk
      obtain ⟨size, out, _, hconv, hout, _, hslots⟩ := hblock st gfns hst hf
      rw [hout v hv] at hk
      rcases hslots k f hk with ⟨gf, hgf, hbf⟩ | hph
      · obtain ⟨hbody, hname⟩ := vfunc_body s0.reg module.scope gf f hbf
        exact Or.inl ⟨gf, hgf, hname, hbody, wrapper_shape f gf.name hbody⟩
      · exact Or.inr hph
  · rw [itemItems_type s.reg i r td hc hs hin]
    unfold Emit.typeItems
    simp only [List.mem_append, List.mem_singleton, hv]
    exact ⟨_, Or.inl (Or.inl (Or.inr rfl))⟩

end PyxisVerif.C04

/-! ## C05 -/
namespace PyxisVerif.C05
open Gen Layout CaseLift CaseLift2

/-- **`impl_functions_all_present` and `impl_blocks_merged`, for every accepted case.**  Every emitted struct `p` of the
    final registry is a generated vftable struct (no functions) or was built from a definition `item` written in the case
    under module path `path`; the module stored for `path` when the type was built is the root module without function
    blocks, or `add_module` of a module `m` **written in the case under `path`**, and then the type's merged function
    block is *all* functions of *all* `impl` blocks of `m` that name the type, in source order (`declaredImplFns`), the
    name scope is `path :: m.uses`; every function of the merged block is built, in source order, after the functions
    inherited from bases (forwarders), and these are all the struct's functions.

    (`m` is the module whose `add_module` was the last one for `path`; when two modules of the case have the same
    path it need not be the module that defines `item` – see `case_declared_functions_present`.) -/
theorem case_impl_functions_all_present (c : Case) (hps : c.ps = 4 ∨ c.ps = 8) (hb : C12.CaseBounded c) (s : State)
    (h : c.run = .ok s) (p : Path) (i : ItemDef) (r : Resolved) (td : TypeDefn)
    (hg : s.reg.get p = some i) (hs : i.state = .res r) (hin : r.inner = .type td) (hc : i.cat = .defined) :
    ((∃ (reg0 : Registry) (owner : Path) (vis : Vis) (fns : List SFunc),
        buildVftableItem reg0 owner vis fns = some i ∧ i.path = p) ∧ td.fns = []) ∨
    ∃ (item : G.Item) (d : G.TypeDef) (s1 : State) (module : Mod) (path : Path) (inherited built : List SFunc),
      Declared c p item ∧ item.inner = .type d ∧ p = path ++ [item.name] ∧
      C02.Ext s1.reg s.reg ∧ s1.moduleFor p = some module ∧
      ((path = [] ∧ module.impls = [] ∧ built = []) ∨
        ∃ file m, ModEnt.ast path file m ∈ c.modules ∧ module.scope = path :: m.uses ∧
          ((module.implFor p).map (·.fns)).getD [] = declaredImplFns m item.name ∧
          Res.mapM' (buildFunction s1.reg (path :: m.uses) false) (declaredImplFns m item.name) = .ok built) ∧
      ((module.implFor p).map (·.fns)).getD [] =
        ((module.impls.filter (fun e => e.1 == p)).map (·.2)).flatMap (·.fns) ∧
      td.fns = inherited ++ built ∧
      (∀ g ∈ inherited, ∃ b fn, g.body = .field b fn) := by
  rcases case_impl_master c hps hb s h p i r td hg hs hin hc with hv |
    ⟨item, d, s1, module, path, inherited, built, hD, hd, hi, hp, he, hmod, hsrc, hbuilt, hfns, hinh⟩
  · exact Or.inl hv
  · refine Or.inr ⟨item, d, s1, module, path, inherited, built, hD, hd, hp, he, hmod, ?_, impl_blocks_merged module p, hfns, hinh⟩
    rcases hsrc with ⟨hp0, himp⟩ | ⟨file, m, hm, hscope, hmerged⟩
    · refine Or.inl ⟨hp0, himp, ?_⟩
      rw [implFor_none_of_nil module p himp] at hbuilt
      simp only [Option.map_none, Option.getD_none, Res.mapM', Res.ok.injEq] at hbuilt
      exact hbuilt.symm
    · exact Or.inr ⟨file, m, hm, hscope, hmerged, by rw [← hscope, ← hmerged]; exact hbuilt⟩

/-- **`built_shape`, for every accepted case**: every associated function of every emitted struct of the final registry
    is an inherited forwarder (`self.<base field>.<fn>(..)`), or is built from a function `gf` written in a function
    block for this type in the case, and then has the declared (non-negative) address, the declared parameters in
    declared order with their types resolved, the declared return type resolved – in the scope `path :: m.uses` of the
    module `m` written in the case under the type's module path, in a registry `s1.reg` that the final registry extends –
    and the declared name and visibility -/
theorem case_built_shape (c : Case) (hps : c.ps = 4 ∨ c.ps = 8) (hb : C12.CaseBounded c) (s : State)
    (h : c.run = .ok s) (p : Path) (i : ItemDef) (r : Resolved) (td : TypeDefn)
    (hg : s.reg.get p = some i) (hs : i.state = .res r) (hin : r.inner = .type td) (hc : i.cat = .defined) :
    ∀ f ∈ td.fns,
      (∃ b fn, f.body = .field b fn) ∨
      ∃ (gf : G.Func) (s1 : State) (path : Path) (file : String) (m : G.Module),
        DeclaredFn c p gf ∧ ModEnt.ast path file m ∈ c.modules ∧ (∃ name, p = path ++ [name]) ∧ C02.Ext s1.reg s.reg ∧
        buildFunction s1.reg (path :: m.uses) false gf = .ok f ∧
        (∃ a : Int, declAddress gf = some a ∧ 0 ≤ a ∧ f.body = .addr a.toNat) ∧
        specArgs s1.reg (path :: m.uses) gf.args = some f.args ∧
        (match gf.ret with
         | none => f.ret = none
         | some t => ∃ t', s1.reg.resolveTy (path :: m.uses) t = .ok t' ∧ f.ret = some t') ∧
        f.name = gf.name ∧ f.vis = gf.vis := by
  intro f hf
  rcases case_impl_functions_all_present c hps hb s h p i r td hg hs hin hc with ⟨_, hnil⟩ |
    ⟨item, d, s1, module, path, inherited, built, hD, hd, hp, he, hmod, hsrc, _, hfns, hinh⟩
  · rw [hnil] at hf; cases hf
  · rw [hfns] at hf
    rcases List.mem_append.mp hf with h1 | h1
    · exact Or.inl (hinh f h1)
    · right
      rcases hsrc with ⟨_, _, hnil⟩ | ⟨file, m, hm, hscope, hmerged, hbuilt⟩
      · rw [hnil] at h1; cases h1
      · obtain ⟨gf, hgf, hbf⟩ := mapM'_mem _ _ _ hbuilt f h1
        obtain ⟨k1, k2, k3, k4, k5⟩ := built_shape s1.reg (path :: m.uses) gf f hbf
        refine ⟨gf, s1, path, file, m, ?_, hm, ⟨item.name, hp⟩, he, hbf, k1, k2, k3, k4, k5⟩
        rw [hp]
        exact declaredFn_of_mem c path file m hm item.name gf hgf

/-- **every declared function is present, for every accepted case whose module paths are distinct.**  If no two
    modules of the case are written under the same path (otherwise `add_module` replaces the stored module and the
    function blocks of the earlier one are lost – the statement is false without this hypothesis), then for every
    emitted struct `p` of a non-root module, built from a definition written in the case, **every** function `gf` written
    in a function block for `p` anywhere in the case is built into an associated function `sf` of the struct in the final
    registry, with the declared name, visibility, (non-negative) address, parameters and return type; the wrapper
    printed for `sf` is the transmute-and-call of exactly that address, and it is listed in the `impl` item emitted for the
    struct unless the declared name starts with `_` (such functions are filtered by the backend: `sf.isInternal`) -/
theorem case_declared_functions_present (c : Case) (hps : c.ps = 4 ∨ c.ps = 8) (hb : C12.CaseBounded c) (s : State)
    (h : c.run = .ok s) (hdist : DistinctModulePaths c) (p : Path) (i : ItemDef) (r : Resolved) (td : TypeDefn)
    (hg : s.reg.get p = some i) (hs : i.state = .res r) (hin : r.inner = .type td) (hc : i.cat = .defined)
    (hroot : 2 ≤ p.length) :
    ((∃ (reg0 : Registry) (owner : Path) (vis : Vis) (fns : List SFunc),
        buildVftableItem reg0 owner vis fns = some i ∧ i.path = p) ∧ td.fns = []) ∨
    ∃ (item : G.Item) (d : G.TypeDef) (s1 : State) (path : Path) (file : String) (m : G.Module),
      Declared c p item ∧ item.inner = .type d ∧ ModEnt.ast path file m ∈ c.modules ∧ p = path ++ [item.name] ∧
      C02.Ext s1.reg s.reg ∧
      ∃ acc methods, Sexp.mk "impl" (.str (p.getLast?.getD "") :: acc :: methods) ∈ Emit.itemItems s.reg i ∧
      ∀ gf, DeclaredFn c p gf →
        ∃ (sf : SFunc) (a : Int),
          sf ∈ td.fns ∧ buildFunction s1.reg (path :: m.uses) false gf = .ok sf ∧
          declAddress gf = some a ∧ 0 ≤ a ∧ sf.body = .addr a.toNat ∧
          specArgs s1.reg (path :: m.uses) gf.args = some sf.args ∧
          (match gf.ret with
           | none => sf.ret = none
           | some t => ∃ t', s1.reg.resolveTy (path :: m.uses) t = .ok t' ∧ sf.ret = some t') ∧
          sf.name = gf.name ∧ sf.vis = gf.vis ∧
          Emit.methodS sf = Sexp.mk "method" [Emit.docsS sf.doc, Emit.visS sf.vis, .str sf.name,
            Sexp.mk "params" (sf.args.map Emit.paramS), Emit.optTyS sf.ret,
            Sexp.mk "call-addr" [.int a.toNat, .str sf.cc.asStr, Sexp.mk "sig" (sf.args.map Emit.sigArgS),
              Emit.optTyS sf.ret, Sexp.mk "args" (sf.args.map Emit.callArgS)]] ∧
          sf.isInternal = gf.name.startsWith "_" ∧
          (gf.name.startsWith "_" = false → Emit.methodS sf ∈ methods) := by
  rcases case_impl_functions_all_present c hps hb s h p i r td hg hs hin hc with hv |
    ⟨item, d, s1, module, path, inherited, built, hD, hd, hp, he, hmod, hsrc, _, hfns, hinh⟩
  · exact Or.inl hv
  · right
    have hpne : path ≠ [] := by
      intro e
      rw [hp, e] at hroot
      simp at hroot
    rcases hsrc with ⟨hp0, _⟩ | ⟨file, m, hm, hscope, hmerged, hbuilt⟩
    · exact absurd hp0 hpne
    · refine ⟨item, d, s1, path, file, m, hD, hd, hm, hp, he, ?_⟩
      have hi : i.path = p := by
        rcases case_attrs_master c hps hb s h p i r td hg hs hin hc with ⟨_, _, _, _, _, hpp, _⟩ | ⟨_, _, _, _, _, hi, _⟩
        · exact hpp
        · rw [hi]; rfl
      refine ⟨Sexp.ofOpt (fun (v : Vft) => Sexp.mk "vftacc" [.str (Emit.tyStr v.ty), Sexp.ofOpt .str v.baseField]) td.vft,
        (td.fns.filter (!·.isInternal)).map Emit.methodS ++
          (match td.vft with | some v => (v.fns.filter (!·.isInternal)).map Emit.methodS | none => []), ?_, ?_⟩
      · rw [itemItems_type s.reg i r td hc hs hin, hi]
        unfold Emit.typeItems
        simp only [List.mem_append, List.mem_singleton]
        exact Or.inl (Or.inl (Or.inr rfl))
      · intro gf hgf
        rw [hp] at hgf
        have hmem := mem_of_declaredFn c hdist path file m hm item.name gf hgf
        obtain ⟨sf, hsf, hbf⟩ := mapM'_mem_fwd _ _ _ hbuilt gf hmem
        obtain ⟨⟨a, ha, h0, hbody⟩, k2, k3, k4, k5⟩ := built_shape s1.reg (path :: m.uses) gf sf hbf
        have hint : sf.isInternal = gf.name.startsWith "_" := by unfold SFunc.isInternal; rw [k4]
        refine ⟨sf, a, by rw [hfns]; exact List.mem_append_right _ hsf, hbf, ha, h0, hbody, k2, k3, k4, k5,
          wrapper_shape sf a.toNat hbody, hint, ?_⟩
        intro hni
        apply List.mem_append_left
        apply List.mem_map_of_mem
        rw [List.mem_filter]
        refine ⟨by rw [hfns]; exact List.mem_append_right _ hsf, ?_⟩
        rw [hint, hni]
        rfl

/-- **`wrapper_shape`, for every accepted case**: the `impl` item emitted for every struct of the final registry lists
    the wrappers of all its associated functions whose name does not start with `_` (the others are filtered), and the
    wrapper of an address-bound function is the transmute of *that* address to a function pointer whose parameters are
    the receiver pointer (iff declared) followed by the declared parameters in order, called with the receiver followed
    by the arguments in order -/
theorem case_wrapper_shape (c : Case) (s : State) (_h : c.run = .ok s) (p : Path) (i : ItemDef) (r : Resolved)
    (td : TypeDefn) (_hg : s.reg.get p = some i) (hs : i.state = .res r) (hin : r.inner = .type td)
    (hc : i.cat = .defined) :
    ∃ acc methods, Sexp.mk "impl" (.str (i.path.getLast?.getD "") :: acc :: methods) ∈ Emit.itemItems s.reg i ∧
      ∀ f ∈ td.fns,
        (f.isInternal = false → Emit.methodS f ∈ methods) ∧
        ∀ a, f.body = .addr a →
          Emit.methodS f = Sexp.mk "method" [Emit.docsS f.doc, Emit.visS f.vis, .str f.name,
            Sexp.mk "params" (f.args.map Emit.paramS), Emit.optTyS f.ret,
            Sexp.mk "call-addr" [.int a, .str f.cc.asStr, Sexp.mk "sig" (f.args.map Emit.sigArgS), Emit.optTyS f.ret,
              Sexp.mk "args" (f.args.map Emit.callArgS)]] := by
  refine ⟨Sexp.ofOpt (fun (v : Vft) => Sexp.mk "vftacc" [.str (Emit.tyStr v.ty), Sexp.ofOpt .str v.baseField]) td.vft,
    (td.fns.filter (!·.isInternal)).map Emit.methodS ++
      (match td.vft with | some v => (v.fns.filter (!·.isInternal)).map Emit.methodS | none => []), ?_, ?_⟩
  · rw [itemItems_type s.reg i r td hc hs hin]
    unfold Emit.typeItems
    simp only [List.mem_append, List.mem_singleton]
    exact Or.inl (Or.inl (Or.inr rfl))
  · intro f hf
    refine ⟨?_, fun a ha => wrapper_shape f a ha⟩
    intro hni
    apply List.mem_append_left
    apply List.mem_map_of_mem
    rw [List.mem_filter]
    exact ⟨hf, by rw [hni]; rfl⟩

end PyxisVerif.C05

/-! ## C07 -/
namespace PyxisVerif.C07
open Gen Layout CaseLift CaseLift2

/-- **`addFunctions_spec`, for every accepted case.**  Every emitted struct `p` of the final registry is a generated
    vftable struct (no functions, no `#[base]` field) or was built from a definition written in the case; then every
    `#[base]` field of the emitted struct is a named field whose type is a resolved struct **in the final registry**, and
    the struct's functions are exactly: for each `#[base]` field in field order, `specInject` of the functions of its
    type as found in the final registry (and, for every base but the first, of its type's vftable) – `specBases`,
    starting from the names of the type's own vftable functions – followed by its own `impl` functions (each
    address-bound), in source order -/
theorem case_addFunctions_spec (c : Case) (hps : c.ps = 4 ∨ c.ps = 8) (hb : C12.CaseBounded c) (s : State)
    (h : c.run = .ok s) (p : Path) (i : ItemDef) (r : Resolved) (td : TypeDefn)
    (hg : s.reg.get p = some i) (hs : i.state = .res r) (hin : r.inner = .type td) (hc : i.cat = .defined) :
    ((∃ (reg0 : Registry) (owner : Path) (vis : Vis) (fns : List SFunc),
        buildVftableItem reg0 owner vis fns = some i ∧ i.path = p) ∧ td.fns = [] ∧ ∀ rg ∈ td.regions, rg.isBase = false) ∨
    ∃ (item : G.Item) (d : G.TypeDef) (own : List SFunc),
      Declared c p item ∧ item.inner = .type d ∧
      (∀ rg ∈ td.regions, rg.isBase = true → ∃ b bp btd, rg.name = some b ∧ rg.ty = .data (.raw bp) ∧
        Exec.typeDefn? s.reg bp = some btd ∧ regionNameAndTypeDef s.reg rg = .ok (some (b, btd))) ∧
      td.fns = specBases s.reg ((td.regions.filter (·.isBase)).zipIdx.map fun q => (q.2, q.1))
          (match td.vft with | some v => v.fns.map (·.name) | none => []) ++ own ∧
      (∀ f ∈ own, ∃ gf, DeclaredFn c p gf ∧ f.name = gf.name ∧ ∃ a : Int, C05.declAddress gf = some a ∧ 0 ≤ a ∧
        f.body = .addr a.toNat) ∧
      (∀ g ∈ specBases s.reg ((td.regions.filter (·.isBase)).zipIdx.map fun q => (q.2, q.1))
          (match td.vft with | some v => v.fns.map (·.name) | none => []), ∃ b fn, g.body = .field b fn) := by
  rcases case_fns_exact c hps hb s h p i r td hg hs hin hc with hv |
    ⟨item, d, s1, module, built, hD, hd, he, hmod, hbases, hbuilt, hfns⟩
  · exact Or.inl hv
  · refine Or.inr ⟨item, d, built, hD, hd, hbases, hfns, ?_, ?_⟩
    · intro f hf
      rcases C05.case_built_shape c hps hb s h p i r td hg hs hin hc f (by rw [hfns]; exact List.mem_append_right _ hf) with
        ⟨b, fn, hbody⟩ | ⟨gf, _, _, _, _, hgf, _, _, _, _, ha, _, _, hname, _⟩
      · exfalso
        obtain ⟨gf, _, hbf⟩ := mapM'_mem _ _ _ hbuilt f hf
        obtain ⟨⟨a, _, _, hb'⟩, _⟩ := C05.built_shape s1.reg module.scope gf f hbf
        rw [hb'] at hbody
        cases hbody
      · exact ⟨gf, hgf, hname, ha⟩
    · intro g hg'
      obtain ⟨ib, _, b, btd, used, _, hor⟩ := specBases_mem _ _ _ g hg'
      rcases hor with h1 | ⟨_, v, _, h1⟩
      · obtain ⟨f, _, _, _, hbody⟩ := private_not_reexposed b used btd.fns g h1
        exact ⟨b, f.name, hbody⟩
      · obtain ⟨f, _, _, _, hbody⟩ := private_not_reexposed b used v.fns g h1
        exact ⟨b, f.name, hbody⟩

/-- **`every_public_reexposed`, for every accepted case**: for every `#[base]` field `b` of every emitted struct of the
    final registry – a named field of a type `bp` that is a resolved struct in the final registry – every public,
    non-internal function `f` of `bp` **as found in the final registry** is re-exposed on the struct under its own name or
    `<b>_<name>`, with its receiver, parameters, return type and convention unchanged, forwarding to the original on the
    base field; and so is every such function of `bp`'s vftable when `b` is not the first `#[base]` field -/
theorem case_every_public_reexposed (c : Case) (hps : c.ps = 4 ∨ c.ps = 8) (hb : C12.CaseBounded c) (s : State)
    (h : c.run = .ok s) (p : Path) (i : ItemDef) (r : Resolved) (td : TypeDefn)
    (hg : s.reg.get p = some i) (hs : i.state = .res r) (hin : r.inner = .type td) (hc : i.cat = .defined)
    (k : Nat) (rg : Region) (hk : (td.regions.filter (·.isBase))[k]? = some rg) :
    ∃ (b : String) (bp : Path) (btd : TypeDefn),
      rg.name = some b ∧ rg.ty = .data (.raw bp) ∧ Exec.typeDefn? s.reg bp = some btd ∧
      (∀ f ∈ btd.fns, f.vis = .pub → f.isInternal = false →
        ∃ g ∈ td.fns, g.body = .field b f.name ∧ (g.name = f.name ∨ g.name = renamed b f.name) ∧
          g.args = f.args ∧ g.ret = f.ret ∧ g.cc = f.cc ∧ g.vis = .pub) ∧
      (0 < k → ∀ v, btd.vft = some v → ∀ f ∈ v.fns, f.vis = .pub → f.isInternal = false →
        ∃ g ∈ td.fns, g.body = .field b f.name ∧ (g.name = f.name ∨ g.name = renamed b f.name) ∧
          g.args = f.args ∧ g.ret = f.ret ∧ g.cc = f.cc ∧ g.vis = .pub) := by
  have hmem : rg ∈ td.regions.filter (·.isBase) := List.mem_of_getElem? hk
  obtain ⟨hrg, hbase⟩ := List.mem_filter.mp hmem
  rcases case_fns_exact c hps hb s h p i r td hg hs hin hc with ⟨_, _, hnb⟩ |
    ⟨item, d, s1, module, built, hD, hd, he, hmod, hbases, hbuilt, hfns⟩
  · rw [hnb rg hrg] at hbase; cases hbase
  · obtain ⟨b, bp, btd, hname, hty, htd, hr⟩ := hbases rg hrg hbase
    have hib : (k, rg) ∈ ((td.regions.filter (·.isBase)).zipIdx.map fun q => (q.2, q.1)) := by
      refine List.mem_map.mpr ⟨(rg, k), ?_, rfl⟩
      rw [List.mem_zipIdx_iff_getElem?]
      exact hk
    obtain ⟨⟨u1, h1⟩, h2⟩ := specBases_contains s.reg _
      (match td.vft with | some v => v.fns.map (·.name) | none => []) (k, rg) hib b btd hr
    refine ⟨b, bp, btd, hname, hty, htd, ?_, ?_⟩
    · intro f hf hpub hint
      obtain ⟨g, hg', rest⟩ := every_public_reexposed b u1 btd.fns f hf hpub hint
      exact ⟨g, by rw [hfns]; exact List.mem_append_left _ (h1 g hg'), rest⟩
    · intro hpos v hv f hf hpub hint
      obtain ⟨u2, h3⟩ := h2 hpos v hv
      obtain ⟨g, hg', rest⟩ := every_public_reexposed b u2 v.fns f hf hpub hint
      exact ⟨g, by rw [hfns]; exact List.mem_append_left _ (h3 g hg'), rest⟩

/-- **`private_not_reexposed`, for every accepted case**: every associated function of every emitted struct of the
    final registry that forwards to a base field forwards to a **public, non-internal** function of the type of one of
    the struct's `#[base]` fields as found in the final registry (or of that type's vftable, for a base that is not the
    first); and every other associated function is one of the struct's own address-bound `impl` functions -/
theorem case_private_not_reexposed (c : Case) (hps : c.ps = 4 ∨ c.ps = 8) (hb : C12.CaseBounded c) (s : State)
    (h : c.run = .ok s) (p : Path) (i : ItemDef) (r : Resolved) (td : TypeDefn)
    (hg : s.reg.get p = some i) (hs : i.state = .res r) (hin : r.inner = .type td) (hc : i.cat = .defined) :
    ∀ g ∈ td.fns,
      (∃ a, g.body = .addr a) ∨
      ∃ (k : Nat) (rg : Region) (b : String) (bp : Path) (btd : TypeDefn) (f : SFunc),
        (td.regions.filter (·.isBase))[k]? = some rg ∧ rg.name = some b ∧ rg.ty = .data (.raw bp) ∧
        Exec.typeDefn? s.reg bp = some btd ∧
        (f ∈ btd.fns ∨ (0 < k ∧ ∃ v, btd.vft = some v ∧ f ∈ v.fns)) ∧
        f.vis = .pub ∧ f.isInternal = false ∧ g.body = .field b f.name := by
  intro g hgm
  rcases case_fns_exact c hps hb s h p i r td hg hs hin hc with ⟨_, hnil, _⟩ |
    ⟨item, d, s1, module, built, hD, hd, he, hmod, hbases, hbuilt, hfns⟩
  · rw [hnil] at hgm; cases hgm
  · rw [hfns] at hgm
    rcases List.mem_append.mp hgm with h1 | h1
    · right
      obtain ⟨ib, hib, b, btd, used, hr, hor⟩ := specBases_mem _ _ _ g h1
      obtain ⟨q, hq, rfl⟩ := List.mem_map.mp hib
      have hk : (td.regions.filter (·.isBase))[q.2]? = some q.1 := by
        have := List.mem_zipIdx_iff_getElem?.mp hq
        simpa using this
      obtain ⟨bp, hname, hty, htd⟩ := Exec.regionNameAndTypeDef_inv s.reg q.1 b btd hr
      rcases hor with h2 | ⟨hpos, v, hv, h2⟩
      · obtain ⟨f, hf, hpub, hint, hbody⟩ := private_not_reexposed b used btd.fns g h2
        exact ⟨q.2, q.1, b, bp, btd, f, hk, hname, hty, htd, Or.inl hf, hpub, hint, hbody⟩
      · obtain ⟨f, hf, hpub, hint, hbody⟩ := private_not_reexposed b used v.fns g h2
        exact ⟨q.2, q.1, b, bp, btd, f, hk, hname, hty, htd, Or.inr ⟨hpos, v, hv, hf⟩, hpub, hint, hbody⟩
    · left
      obtain ⟨gf, _, hbf⟩ := mapM'_mem _ _ _ hbuilt g h1
      obtain ⟨⟨a, _, _, hb'⟩, _⟩ := C05.built_shape s1.reg module.scope gf g hbf
      exact ⟨_, hb'⟩

/-- **`conversions_emitted`, for every accepted case**: the items emitted for every struct of the final registry end
    with, for each base in the hierarchy **computed in the final registry** (in hierarchy order): one AsRef and one AsMut
    along its field path if its type occurs once in the hierarchy, a marker constant (and no conversion) if it occurs
    more than once; followed by the conversion of the type to itself.  The hierarchy lists every `#[base]` field of the
    struct (each is a resolved struct in the final registry) with the one-element field path, followed by that base's own
    hierarchy -/
theorem case_conversions_emitted (c : Case) (hps : c.ps = 4 ∨ c.ps = 8) (hb : C12.CaseBounded c) (s : State)
    (h : c.run = .ok s) (p : Path) (i : ItemDef) (r : Resolved) (td : TypeDefn)
    (hg : s.reg.get p = some i) (hs : i.state = .res r) (hin : r.inner = .type td) (hc : i.cat = .defined) :
    let name := i.path.getLast?.getD ""
    let hier := Emit.dfsHierarchy s.reg (s.reg.types.length + 1) td []
    (∃ pre, Emit.itemItems s.reg i = pre ++
      (hier.flatMap fun (fp, ty) =>
        if occurrences hier ty > 1 then
          [Sexp.mk "conflict" [.str ("_CONFLICTING_" ++ Emit.upper (unraw name) ++ "_" ++ "_".intercalate (fp.map fun s => Emit.upper (unraw s)))]]
        else
          [Sexp.mk "asref" [.str name, .str (Emit.rtyStr ty), Sexp.mk "fp" (fp.map .str)],
           Sexp.mk "asmut" [.str name, .str (Emit.rtyStr ty), Sexp.mk "fp" (fp.map .str)]]) ++
      [Sexp.mk "asref" [.str name, .str name, Sexp.mk "fp" []], Sexp.mk "asmut" [.str name, .str name, Sexp.mk "fp" []]]) ∧
    (∀ rg ∈ td.regions, rg.isBase = true → ∃ b bp btd, rg.name = some b ∧ rg.ty = .data (.raw bp) ∧
      Exec.typeDefn? s.reg bp = some btd ∧ ([b], rg.ty) ∈ hier ∧
      ∀ e ∈ Emit.dfsHierarchy s.reg s.reg.types.length btd [b], e ∈ hier) := by
  intro name hier
  refine ⟨?_, ?_⟩
  · rw [itemItems_type s.reg i r td hc hs hin]
    exact conversions_emitted s.reg i.path r.size r.align i.vis td
  · intro rg hrg hbase
    rcases case_fns_exact c hps hb s h p i r td hg hs hin hc with ⟨_, _, hnb⟩ |
      ⟨item, d, s1, module, built, hD, hd, he, hmod, hbases, hbuilt, hfns⟩
    · rw [hnb rg hrg] at hbase; cases hbase
    · obtain ⟨b, bp, btd, hname, hty, htd, hr⟩ := hbases rg hrg hbase
      have hsub : ∀ e ∈ ([b], rg.ty) :: Emit.dfsHierarchy s.reg s.reg.types.length btd [b], e ∈ hier := by
        intro e he'
        show e ∈ Emit.dfsHierarchy s.reg (s.reg.types.length + 1) td []
        rw [dfs_unfold, List.mem_flatMap]
        refine ⟨rg, List.mem_filter.mpr ⟨hrg, hbase⟩, ?_⟩
        rw [hr]
        exact he'
      exact ⟨b, bp, btd, hname, hty, htd, hsub _ List.mem_cons_self, fun e he' => hsub e (List.mem_cons_of_mem _ he')⟩

end PyxisVerif.C07

/-! ## C11 -/
namespace PyxisVerif.C11
open Gen Layout CaseLift CaseLift2

/-- **`lookup_sites` and `emitted_reference` for the fields of every emitted struct of every accepted case.**  Every
    emitted struct `p` of the final registry is a generated vftable struct or was built from a definition written in the
    case under module path `path`; then every field of the emitted struct is generated (private, undocumented: padding,
    the vftable pointer) or is a named field statement `name: ty` of the definition, and its type is `ty` resolved
    (`resolve_grammar_type`) with the scope "own module path, then the `use` entries of the module written in the case
    under that path" (`UsesOf`), in a registry `s0.reg` that the final registry extends; a bare name goes through the one
    lookup rule (`resolveString` with that scope); every definition the binding mentions exists in the final registry;
    and the type string of the emitted field is `tyStr` of that binding – for a named definition its fully qualified crate
    path.  The struct item emitted lists one `fld` per region with that type string. -/
theorem case_lookup_sites_fields (c : Case) (hps : c.ps = 4 ∨ c.ps = 8) (hb : C12.CaseBounded c) (s : State)
    (h : c.run = .ok s) (p : Path) (i : ItemDef) (r : Resolved) (td : TypeDefn)
    (hg : s.reg.get p = some i) (hs : i.state = .res r) (hin : r.inner = .type td) (hc : i.cat = .defined) :
    (∃ (reg0 : Registry) (owner : Path) (vis : Vis) (fns : List SFunc),
        buildVftableItem reg0 owner vis fns = some i ∧ i.path = p ∧ i.vis = vis ∧
        td = { regions := fns.map (functionToRegion owner) }) ∨
    ∃ (item : G.Item) (d : G.TypeDef) (s0 : State) (path : Path) (uses : List Path),
      Declared c p item ∧ item.inner = .type d ∧ p = path ++ [item.name] ∧ C02.Ext s0.reg s.reg ∧ UsesOf c path uses ∧
      (∃ hd tl, Emit.itemItems s.reg i = Sexp.mk "struct" (hd ++ td.regions.map fun rg =>
          Sexp.mk "fld" [Emit.docsS rg.doc, Emit.visS rg.vis, .str (rg.name.getD ""), .str (Emit.rtyStr rg.ty)]) :: tl) ∧
      ∀ rg ∈ td.regions, (rg.vis = .priv ∧ rg.doc = none) ∨
        ∃ st ∈ d.stmts, ∃ (vis : Vis) (name : String) (ty : G.Ty) (t : DTy),
          st.field = .field vis name ty ∧ rg.name = some name ∧
          s0.reg.resolveTy (path :: uses) ty = .ok t ∧ rg.ty = .data t ∧
          (∀ nm, ty = .ident nm → s0.reg.resolveString (path :: uses) nm = some t) ∧
          (∀ q ∈ C13.rawPaths t, s.reg.contains q = true) ∧
          Emit.rtyStr rg.ty = Emit.tyStr t ∧
          (∀ q, t = .raw q → Emit.rtyStr rg.ty =
            if q = ["void"] then "::std::ffi::c_void"
            else if q.length > 1 then "crate::" ++ "::".intercalate q else "::".intercalate q) := by
  rcases case_field_types_master c hps hb s h p i r td hg hs hin hc with hv |
    ⟨item, d, s0, path, uses, hD, hd, hp, he, huses, hall⟩
  · exact Or.inl hv
  · refine Or.inr ⟨item, d, s0, path, uses, hD, hd, hp, he, huses, ?_, ?_⟩
    · obtain ⟨derives, repr, tl, hem⟩ := C17.docs_on_struct_and_fields s.reg i.path r.size r.align i.vis td
      rw [itemItems_type s.reg i r td hc hs hin, hem]
      exact ⟨_, tl, rfl⟩
    · intro rg hrg
      rcases hall rg hrg with hgen | ⟨st, hst, vis, name, ty, t, hf, hname, hrt, hty⟩
      · exact Or.inl hgen
      · refine Or.inr ⟨st, hst, vis, name, ty, t, hf, hname, hrt, hty, ?_, ?_, by rw [hty]; rfl, ?_⟩
        · intro nm hnm
          subst hnm
          exact resolveTy_ident s0.reg (path :: uses) nm t hrt
        · intro q hq
          exact contains_ext he q (C13.printed_paths_exist s0.reg (path :: uses) ty t hrt q hq)
        · intro q hq
          rw [hty, hq]
          exact emitted_reference q

/-- **`lookup_sites` for the parameter and return types of every function of every emitted struct.**  Every
    associated function of an emitted struct of the final registry is an inherited forwarder, or is built from a function
    `gf` written in a function block for the type in the case, and then its parameters are the declared ones and every
    named parameter's type, and the return type, is the written type resolved with the scope "own module path, then the
    `use` entries of the module written under that path", in a registry `s1.reg` that the final registry extends
    (`FnTypes`); if the definition starts with a vftable block the same holds for every non-placeholder slot of the
    type's table.  The emitted wrapper lists the parameters as `name: tyStr(binding)` and the return type as
    `tyStr(binding)`. -/
theorem case_lookup_sites_functions (c : Case) (hps : c.ps = 4 ∨ c.ps = 8) (hb : C12.CaseBounded c) (s : State)
    (h : c.run = .ok s) (p : Path) (i : ItemDef) (r : Resolved) (td : TypeDefn)
    (hg : s.reg.get p = some i) (hs : i.state = .res r) (hin : r.inner = .type td) (hc : i.cat = .defined) :
    (∀ f ∈ td.fns,
      ((∃ b fn, f.body = .field b fn) ∨
       ∃ (gf : G.Func) (s1 : State) (path : Path) (uses : List Path),
        DeclaredFn c p gf ∧ (∃ name, p = path ++ [name]) ∧ C02.Ext s1.reg s.reg ∧ UsesOf c path uses ∧
        f.name = gf.name ∧ FnTypes s1.reg (path :: uses) gf f) ∧
      ∃ body, Emit.methodS f = Sexp.mk "method" [Emit.docsS f.doc, Emit.visS f.vis, .str f.name,
        Sexp.mk "params" (f.args.map Emit.paramS), Emit.optTyS f.ret, body]) ∧
    (∀ v, td.vft = some v →
      ∃ (item : G.Item) (d : G.TypeDef) (s0 : State) (path : Path) (uses : List Path),
        Declared c p item ∧ item.inner = .type d ∧ p = path ++ [item.name] ∧ C02.Ext s0.reg s.reg ∧ UsesOf c path uses ∧
        ∀ st gfns, d.stmts[0]? = some st → st.field = .vftable gfns →
          ∀ (k : Nat) (f : SFunc), v.fns[k]? = some f →
            (∃ gf ∈ gfns, f.name = gf.name ∧ FnTypes s0.reg (path :: uses) gf f) ∨ f = placeholderFn k) ∧
    (∀ n t, Emit.paramS (.field n t) = Sexp.mk "arg" [.str n, .str (Emit.tyStr t)]) ∧
    (∀ t, Emit.optTyS (some t) = Sexp.ofOpt (fun t => .str (Emit.tyStr t)) (some t)) := by
  refine ⟨?_, ?_, fun _ _ => rfl, fun _ => rfl⟩
  · intro f hf
    refine ⟨?_, _, rfl⟩
    rcases C05.case_built_shape c hps hb s h p i r td hg hs hin hc f hf with hfw |
      ⟨gf, s1, path, file, m, hgf, hm, hp, he, hbf, _, _, _, hname, _⟩
    · exact Or.inl hfw
    · exact Or.inr ⟨gf, s1, path, m.uses, hgf, hp, he, Or.inr ⟨file, m, hm, rfl⟩, hname,
        fnTypes_of_built s1.reg (path :: m.uses) false gf f hbf⟩
  · intro v hv
    obtain ⟨item, d, s0, path, uses, hD, hd, hp, he, huses, hall⟩ :=
      case_vfunc_types_master c hps hb s h p i r td hg hs hin hc v hv
    refine ⟨item, d, s0, path, uses, hD, hd, hp, he, huses, ?_⟩
    intro st gfns hst hf k f hk
    rcases hall st gfns hst hf k f hk with ⟨gf, hgf, hbf⟩ | hph
    · exact Or.inl ⟨gf, hgf, (C04.vfunc_body s0.reg (path :: uses) gf f hbf).2,
        fnTypes_of_built s0.reg (path :: uses) true gf f hbf⟩
    · exact Or.inr hph

/-- **`lookup_sites` for the base type of every enum**: the base of every resolved enum of the final registry is the
    written base type resolved with the scope "own module path, then the `use` entries of the module written under that
    path", in a registry the final one extends; the emitted item carries `repr(tyStr(binding))` -/
theorem case_lookup_sites_enum (c : Case) (hps : c.ps = 4 ∨ c.ps = 8) (hb : C12.CaseBounded c) (s : State)
    (h : c.run = .ok s) (p : Path) (i : ItemDef) (r : Resolved) (ed : EnumDefn)
    (hg : s.reg.get p = some i) (hs : i.state = .res r) (hin : r.inner = .enum ed) :
    ∃ (item : G.Item) (d : G.EnumDef) (s0 : State) (path : Path) (uses : List Path),
      Declared c p item ∧ item.inner = .enum d ∧ p = path ++ [item.name] ∧ C02.Ext s0.reg s.reg ∧ UsesOf c path uses ∧
      s0.reg.resolveTy (path :: uses) d.ty = .ok ed.ty ∧
      (∀ q ∈ C13.rawPaths ed.ty, s.reg.contains q = true) ∧
      ∃ docs derives rest tl, Emit.itemItems s.reg i =
        Sexp.mk "enum" (docs :: derives :: Sexp.mk "repr" [.str (Emit.tyStr ed.ty)] :: rest) :: tl := by
  obtain ⟨s0, item, d, _, _, hQ, hD, _, hd, hbe, he, hi⟩ := case_enum_origin2 c hps hb s h p i r ed hg hs hin
  obtain ⟨module, ty, _, _, _, ed', hmod, hres, _, _, _, _, _, _, hin', hty', _⟩ := buildEnum_full s0 p d r hbe
  rw [hin] at hin'
  cases hin'
  have hD' := hD
  obtain ⟨path, file0, m0, hm0, hitem0, hp⟩ := hD'
  subst hp
  obtain ⟨uses, hscope, huses⟩ := scope_src c s0 hQ path item.name module hmod
  rw [hscope, ← hty'] at hres
  refine ⟨item, d, s0, path, uses, hD, hd, rfl, he, huses, hres, ?_, ?_⟩
  · intro q hq
    exact contains_ext he q (C13.printed_paths_exist s0.reg (path :: uses) d.ty ed.ty hres q hq)
  · obtain ⟨docs, derives, tl, hem⟩ := C08.emitted (path ++ [item.name]) r.size item.vis ed
    rw [itemItems_enum s.reg i r ed (by rw [hi]; rfl) hs hin, hi]
    exact ⟨docs, derives, _, tl, hem⟩

/-- **`lookup_sites` for extern values**: the type of every extern value of every module of the final state is the
    type written on an extern value of the case under the module's path, resolved – in the final registry – with the
    scope "own module path, then the `use` entries of the module written under that path"; the emitted accessor returns
    `tyStr(binding)` -/
theorem case_lookup_sites_xvals (c : Case) (hps : c.ps = 4 ∨ c.ps = 8) (hb : C12.CaseBounded c) (s : State)
    (h : c.run = .ok s) :
    ∀ e ∈ s.modules, ∀ x ∈ e.2.xvals, ∃ (gx : G.XVal) (uses : List Path) (t : DTy),
      DeclaredX c e.1 gx ∧ UsesOf c e.1 uses ∧ s.reg.resolveTy (e.1 :: uses) gx.ty = .ok t ∧ x.ty = some t ∧
      (∀ q ∈ C13.rawPaths t, s.reg.contains q = true) ∧
      Emit.xvalItem x = Sexp.mk "xaccessor" [Emit.visS x.vis, .str ("get_" ++ unraw x.name), .str (Emit.tyStr t), .int x.addr] := by
  intro e he x hx
  obtain ⟨gx, hgx, ⟨a, _, _, _, _, _, hgty⟩, t, ht, hty⟩ := case_xvals c s h e he x hx
  obtain ⟨hscope, huses⟩ := case_modules_src c hps hb s h e he
  rw [hscope, hgty] at ht
  exact ⟨gx, e.2.uses, t, hgx, huses, ht, hty, C13.printed_paths_exist s.reg _ gx.ty t ht,
    C15.extern_accessor_emitted x t hty⟩

/-- **`layout_uses_binding`, for every accepted case**: the layout core, run in the final registry on the declared
    fields of an emitted struct, accepts them with the struct's size (`case_layout_master`), and the size and alignment it
    is handed for a field whose type is a named definition `bq` are exactly those recorded for `bq` in the final
    registry -/
theorem case_layout_uses_binding (c : Case) (hps : c.ps = 4 ∨ c.ps = 8) (hb : C12.CaseBounded c) (s : State)
    (h : c.run = .ok s) (p : Path) (i : ItemDef) (r : Resolved) (td : TypeDefn)
    (hg : s.reg.get p = some i) (hs : i.state = .res r) (hin : r.inner = .type td) (hc : i.cat = .defined) :
    (∃ (reg0 : Registry) (owner : Path) (vis : Vis) (fns : List SFunc),
      buildVftableItem reg0 owner vis fns = some i ∧ i.path = p) ∨
    ∃ (item : G.Item) (d : G.TypeDef) (ta : TypeAttrs) (pending : List (Option Nat × Region)) (vptr : Option Region)
      (placed : List (Placed Region)),
      Declared c p item ∧ item.inner = .type d ∧
      resolve (vptr.map (toPField s.reg none)) (pending.map fun q => toPField s.reg q.1 q.2) ta.targetSize
        = .ok (placed, r.size) ∧
      ∀ q ∈ pending, ∀ bq, q.2.ty = .data (.raw bq) →
        DTy.size s.reg (.raw bq) = .ok ((s.reg.get bq).bind fun i => i.resolved?.map (·.size)) ∧
        DTy.align s.reg (.raw bq) = ((s.reg.get bq).bind fun i => i.resolved?.map (·.align)) ∧
        ∃ bi br, s.reg.get bq = some bi ∧ bi.state = .res br ∧
          (toPField s.reg q.1 q.2).size = .ok (some br.size) ∧ (toPField s.reg q.1 q.2).align = some br.align := by
  rcases case_layout_master c hps hb s h p i r td hg hs hin hc with hv |
    ⟨item, d, s0, module, ta, sa, vptr, placed, hD, hd, _, _, _, _, _, _, hres, _⟩
  · exact Or.inl hv
  · refine Or.inr ⟨item, d, ta, sa.pending, vptr, placed, hD, hd, hres, ?_⟩
    intro q hq bq hty
    obtain ⟨n, hn⟩ := (resolve_sizes _ _ _ _ _ hres).2 (toPField s.reg q.1 q.2) (List.mem_map.mpr ⟨q, hq, rfl⟩)
    refine ⟨(layout_uses_binding s.reg bq).1, (layout_uses_binding s.reg bq).2, ?_⟩
    have hn' : q.2.ty.size s.reg = .ok (some n) := hn
    rw [hty] at hn'
    simp only [RTy.size, DTy.size, Res.ok.injEq] at hn'
    cases hgq : s.reg.get bq with
    | none => rw [hgq] at hn'; cases hn'
    | some bi =>
      rw [hgq] at hn'
      simp only [Option.bind_some, Option.map_eq_some_iff] at hn'
      obtain ⟨br, hbr, rfl⟩ := hn'
      refine ⟨bi, br, rfl, C02.resolved?_eq hbr, ?_, ?_⟩
      · show q.2.ty.size s.reg = _
        rw [hty]
        simp only [RTy.size, DTy.size, hgq, Option.bind_some, hbr, Option.map_some]
      · show q.2.ty.align s.reg = _
        rw [hty]
        simp only [RTy.align, DTy.align, hgq, Option.bind_some, hbr, Option.map_some]

end PyxisVerif.C11

/-! ## C13 -/
namespace PyxisVerif.C13
open Gen Layout CaseLift CaseLift2

/-- **`field_names_distinct` (E0124) and `base_fields_named`, for every accepted case.**  Every emitted struct of the
    final registry is a generated vftable struct or was built from a definition written in the case, and then the named
    fields the definition declares (the statement loop's pending fields) are pairwise distinct, every `#[base]` field
    among them is named, and every field of the emitted struct is generated (private, undocumented: padding, the
    vftable pointer) or one of these named declared fields; every `#[base]` field of the emitted struct is named -/
theorem case_field_names_distinct (c : Case) (hps : c.ps = 4 ∨ c.ps = 8) (hb : C12.CaseBounded c) (s : State)
    (h : c.run = .ok s) (p : Path) (i : ItemDef) (r : Resolved) (td : TypeDefn)
    (hg : s.reg.get p = some i) (hs : i.state = .res r) (hin : r.inner = .type td) (hc : i.cat = .defined) :
    (∃ (reg0 : Registry) (owner : Path) (vis : Vis) (fns : List SFunc),
        buildVftableItem reg0 owner vis fns = some i ∧ i.path = p ∧ i.vis = vis ∧
        td = { regions := fns.map (functionToRegion owner) }) ∨
    ∃ (item : G.Item) (d : G.TypeDef) (s0 : State) (module : Mod) (sa : StmtAcc),
      Declared c p item ∧ item.inner = .type d ∧ s0.moduleFor p = some module ∧ C02.Ext s0.reg s.reg ∧
      Res.foldlM (stmtStep s0.reg module.scope) {} (d.stmts.zipIdx.map fun q => (q.2, q.1)) = .ok sa ∧
      (sa.pending.filterMap (·.2.name)).Nodup ∧
      (∀ q ∈ sa.pending, q.2.isBase = true → q.2.name.isSome = true) ∧
      (∀ rg ∈ td.regions, (rg.vis = .priv ∧ rg.doc = none) ∨ (rg.name.isSome ∧ rg ∈ sa.pending.map (·.2))) ∧
      (∀ rg ∈ td.regions, rg.isBase = true → rg.name.isSome = true) := by
  rcases case_stmts_master c hps hb s h p i r td hg hs hin hc with hv |
    ⟨item, d, s0, s1, module, sa, hD, hd, hmod, he01, he, hsa, hregs, _, _⟩
  · exact Or.inl hv
  · refine Or.inr ⟨item, d, s0, module, sa, hD, hd, hmod, he01.trans he, hsa,
      field_names_distinct s0.reg module.scope _ sa hsa, base_fields_named s0.reg module.scope _ sa hsa, hregs, ?_⟩
    intro rg hrg hbase
    rcases case_fns_exact c hps hb s h p i r td hg hs hin hc with ⟨_, _, hnb⟩ | ⟨_, _, _, _, _, _, _, _, _, hbases, _⟩
    · rw [hnb rg hrg] at hbase; cases hbase
    · obtain ⟨b, _, _, hname, _⟩ := hbases rg hrg hbase
      rw [hname]; rfl

/-- **`base_fields_named`, for every accepted case** (the accessor and the forwarders refer to base fields by name):
    every `#[base]` field of every emitted struct of the final registry is a named field whose type is a resolved struct
    in the final registry -/
theorem case_base_fields_named (c : Case) (hps : c.ps = 4 ∨ c.ps = 8) (hb : C12.CaseBounded c) (s : State)
    (h : c.run = .ok s) (p : Path) (i : ItemDef) (r : Resolved) (td : TypeDefn)
    (hg : s.reg.get p = some i) (hs : i.state = .res r) (hin : r.inner = .type td) (hc : i.cat = .defined) :
    ∀ rg ∈ td.regions, rg.isBase = true →
      ∃ b bp btd, rg.name = some b ∧ rg.ty = .data (.raw bp) ∧ Exec.typeDefn? s.reg bp = some btd := by
  intro rg hrg hbase
  rcases case_fns_exact c hps hb s h p i r td hg hs hin hc with ⟨_, _, hnb⟩ | ⟨_, _, _, _, _, _, _, _, _, hbases, _⟩
  · rw [hnb rg hrg] at hbase; cases hbase
  · obtain ⟨b, bp, btd, h1, h2, h3, _⟩ := hbases rg hrg hbase
    exact ⟨b, bp, btd, h1, h2, h3⟩

/-- **`enum_cases_distinct` (E0084, E0081, E0428), for every accepted case**: every resolved enum of the final registry
    has at least one case, and its cases have pairwise distinct names and pairwise distinct values -/
theorem case_enum_cases_distinct (c : Case) (hps : c.ps = 4 ∨ c.ps = 8) (hb : C12.CaseBounded c) (s : State)
    (h : c.run = .ok s) (p : Path) (i : ItemDef) (r : Resolved) (ed : EnumDefn)
    (hg : s.reg.get p = some i) (hs : i.state = .res r) (hin : r.inner = .enum ed) :
    ed.fields ≠ [] ∧ (ed.fields.map (·.1)).Nodup ∧ (ed.fields.map (·.2)).Nodup := by
  obtain ⟨s0, item, d, _, _, _, _, _, _, hbe, _, _⟩ := case_enum_origin c hps hb s h p i r ed hg hs hin
  obtain ⟨ed', hin', h1, h2, h3⟩ := enum_cases_distinct s0 p d r hbe
  rw [hin] at hin'
  cases hin'
  exact ⟨h1, h2, h3⟩

/-- **`align_is_pow2` (E0589), for every accepted case**: the alignment of every resolved item of the final registry –
    in particular the `N` written into `repr(C, align(N))` of every emitted struct that is not packed – is a power of
    two -/
theorem case_align_is_pow2 (c : Case) (hps : c.ps = 4 ∨ c.ps = 8) (hb : C12.CaseBounded c) (s : State)
    (h : c.run = .ok s) (p : Path) (i : ItemDef) (r : Resolved) (hg : s.reg.get p = some i) (hs : i.state = .res r) :
    (∃ k, r.align = 2 ^ k) ∧
    ∀ td, r.inner = .type td → i.cat = .defined →
      ∃ docs derives rest tl, Emit.itemItems s.reg i =
        Sexp.mk "struct" (docs :: derives ::
          Sexp.mk "repr" (if td.packed then [.str "C", .str "packed"]
            else [.str "C", .str ("align(" ++ toString r.align ++ ")")]) :: rest) :: tl := by
  refine ⟨?_, ?_⟩
  · obtain ⟨s1, ms, hJ, _, rfl⟩ := case_J c hps hb s h
    have := (hJ.1.ok.reg.aligns p i r hg hs).1
    unfold Layout.isPow2 at this
    simp only [Bool.and_eq_true, bne_iff_ne, ne_eq, beq_iff_eq] at this
    exact ⟨_, this.2.symm⟩
  · intro td hin hc
    rw [itemItems_type s.reg i r td hc hs hin]
    exact C17.packed_no_align s.reg i.path r.size r.align i.vis td

/-- … and for a struct built from a definition that is not `#[packed]` this is the per-item theorem applied to the
    alignment block run, in the final registry, on the struct's placed fields -/
theorem case_align_is_pow2_block (c : Case) (hps : c.ps = 4 ∨ c.ps = 8) (hb : C12.CaseBounded c) (s : State)
    (h : c.run = .ok s) (p : Path) (i : ItemDef) (r : Resolved) (td : TypeDefn)
    (hg : s.reg.get p = some i) (hs : i.state = .res r) (hin : r.inner = .type td) (hc : i.cat = .defined) :
    (∃ (reg0 : Registry) (owner : Path) (vis : Vis) (fns : List SFunc),
      buildVftableItem reg0 owner vis fns = some i ∧ i.path = p) ∨
    ∃ (item : G.Item) (d : G.TypeDef) (ta : TypeAttrs) (placed : List (Placed Region)),
      Declared c p item ∧ item.inner = .type d ∧ Res.foldlM typeAttrStep {} d.attrs = .ok ta ∧
      td.packed = ta.packed ∧ alignCheck s.reg.ps ta.packed ta.align placed r.size = .ok r.align ∧
      (td.packed = false → ∃ k, r.align = 2 ^ k) := by
  rcases case_layout_master c hps hb s h p i r td hg hs hin hc with hv |
    ⟨item, d, s0, module, ta, sa, vptr, placed, hD, hd, _, _, hta, _, _, _, _, hal, _, hpk⟩
  · exact Or.inl hv
  · refine Or.inr ⟨item, d, ta, placed, hD, hd, hta, hpk, hal, ?_⟩
    intro hnp
    rw [hpk] at hnp
    rw [hnp] at hal
    exact align_is_pow2 s.reg.ps ta.align placed r.size r.align hal

/-- **`copy_implies_clone` (E0204), for every accepted case**: whenever the struct item emitted for a struct of the
    final registry derives `Copy`, it derives `Clone` too -/
theorem case_copy_implies_clone (c : Case) (hps : c.ps = 4 ∨ c.ps = 8) (hb : C12.CaseBounded c) (s : State)
    (h : c.run = .ok s) (p : Path) (i : ItemDef) (r : Resolved) (td : TypeDefn)
    (hg : s.reg.get p = some i) (hs : i.state = .res r) (hin : r.inner = .type td) (hc : i.cat = .defined) :
    ("Copy" ∈ Emit.derivesOf td.copyable td.cloneable td.defaultable →
      "Clone" ∈ Emit.derivesOf td.copyable td.cloneable td.defaultable) ∧
    ∃ docs rest tl, Emit.itemItems s.reg i =
      Sexp.mk "struct" (docs ::
        Sexp.mk "derives" ((Emit.derivesOf td.copyable td.cloneable td.defaultable).map .str) :: rest) :: tl := by
  refine ⟨?_, ?_⟩
  · rcases C17.case_type_flags c hps hb s h p i r td hg hs hin hc with ⟨_, hnil, _⟩ | ⟨item, d, _, _, hder, _⟩
    · rw [hnil]; intro hx; cases hx
    · rw [hder]; exact copy_implies_clone d.attrs
  · obtain ⟨tl, htl⟩ := C17.typeItems_head s.reg i.path r.size r.align i.vis td
    rw [itemItems_type s.reg i r td hc hs hin, htl]
    exact ⟨_, _, tl, rfl⟩

/-- … and the same for every resolved enum (after the five fixed derives) -/
theorem case_enum_copy_implies_clone (c : Case) (hps : c.ps = 4 ∨ c.ps = 8) (hb : C12.CaseBounded c) (s : State)
    (h : c.run = .ok s) (p : Path) (i : ItemDef) (r : Resolved) (ed : EnumDefn)
    (hg : s.reg.get p = some i) (hs : i.state = .res r) (hin : r.inner = .enum ed) :
    ∃ (item : G.Item) (d : G.EnumDef), Declared c p item ∧ item.inner = .enum d ∧
      ("Copy" ∈ C17.specDerives d.attrs → "Clone" ∈ C17.specDerives d.attrs) ∧
      ∃ rest tl, Emit.itemItems s.reg i =
        Sexp.mk "enum" (Emit.docsS ed.doc ::
          Sexp.mk "derives" ((["PartialEq", "Eq", "PartialOrd", "Ord", "Debug"] ++ C17.specDerives d.attrs).map .str) ::
          rest) :: tl := by
  obtain ⟨item, d, hD, hd, _, _, hem⟩ := C17.case_enum_flags c hps hb s h p i r ed hg hs hin
  exact ⟨item, d, hD, hd, copy_implies_clone d.attrs, hem⟩

/-- **`defaultable_fields` (E0277), for every accepted case**: in every `defaultable` struct of the final registry no
    field is a pointer or function pointer, and the type every field is made of (the element type of an array) is, in
    the **final** registry, a resolved item that is itself defaultable -/
theorem case_defaultable_fields (c : Case) (hps : c.ps = 4 ∨ c.ps = 8) (hb : C12.CaseBounded c) (s : State)
    (h : c.run = .ok s) (p : Path) (i : ItemDef) (r : Resolved) (td : TypeDefn)
    (hg : s.reg.get p = some i) (hs : i.state = .res r) (hin : r.inner = .type td) (hc : i.cat = .defined)
    (hdef : td.defaultable = true) :
    ∀ rg ∈ td.regions, ∃ q item res, defaultablePath rg.ty = some q ∧ s.reg.get q = some item ∧
      item.state = .res res ∧ res.inner.defaultable = true := by
  rcases case_stmts_master c hps hb s h p i r td hg hs hin hc with ⟨_, _, _, _, _, _, _, htd⟩ |
    ⟨item, d, s0, s1, module, sa, hD, hd, hmod, he01, he, hsa, hregs, hck, hflds⟩
  · rw [htd] at hdef; cases hdef
  · intro rg hrg
    obtain ⟨q, item', hq, hget, hres⟩ := defaultable_fields s1.reg td.regions (hck hdef) rg hrg
    obtain ⟨f, hf⟩ := hflds rg hrg
    have hresd : ∃ it res, s1.reg.get q = some it ∧ it.state = .res res := by
      unfold Exec.fldOf at hf
      simp only [Option.map_eq_some_iff] at hf
      obtain ⟨x, hx, _⟩ := hf
      cases hty : rg.ty with
      | data t =>
        rw [hty] at hx hq
        exact tyLayout_defaultablePath s1.reg t x q hx hq
      | fn cc args ret => rw [hty] at hq; cases hq
    obtain ⟨it, res, hg1, hst⟩ := hresd
    rw [hget] at hg1
    cases hg1
    exact ⟨q, item', res, hq, he.res hget hst, hst, hres res hst⟩

/-- **`vfuncs_have_receiver` (E0424), for every accepted case**: every virtual function written in the vftable block of
    the definition of an emitted struct of the final registry has a `&self` / `&mut self` parameter -/
theorem case_vfuncs_have_receiver (c : Case) (hps : c.ps = 4 ∨ c.ps = 8) (hb : C12.CaseBounded c) (s : State)
    (h : c.run = .ok s) (p : Path) (i : ItemDef) (r : Resolved) (td : TypeDefn)
    (hg : s.reg.get p = some i) (hs : i.state = .res r) (hin : r.inner = .type td) (hc : i.cat = .defined) :
    (∃ (reg0 : Registry) (owner : Path) (vis : Vis) (fns : List SFunc),
        buildVftableItem reg0 owner vis fns = some i ∧ i.path = p ∧ i.vis = vis ∧
        td = { regions := fns.map (functionToRegion owner) }) ∨
    ∃ (item : G.Item) (d : G.TypeDef),
      Declared c p item ∧ item.inner = .type d ∧
      ∀ st gfns, d.stmts[0]? = some st → st.field = .vftable gfns → ∀ f ∈ gfns, hasReceiver f = true := by
  rcases case_stmts_master c hps hb s h p i r td hg hs hin hc with hv |
    ⟨item, d, s0, s1, module, sa, hD, hd, hmod, he01, he, hsa, _⟩
  · exact Or.inl hv
  · refine Or.inr ⟨item, d, hD, hd, ?_⟩
    intro st gfns hst hf f hfm
    cases hstmts : d.stmts with
    | nil => rw [hstmts] at hst; simp at hst
    | cons st0 rest =>
      rw [hstmts] at hst hsa
      simp only [List.getElem?_cons_zero, Option.some.injEq] at hst
      subst hst
      simp only [List.zipIdx_cons, List.map_cons] at hsa
      unfold Res.foldlM at hsa
      split at hsa
      · next acc1 h1 => exact vfuncs_have_receiver s0.reg module.scope {} acc1 0 st0 gfns hf h1 f hfm
      all_goals cases hsa

end PyxisVerif.C13

/-! ## C14 -/
namespace PyxisVerif.C14
open Gen Layout CaseLift CaseLift2

/-- **`files_per_module` and `file_name`, for every accepted case: one file per (non-root) module of the case, named
    after the module path.**  The keys of the stored modules of the final state are pairwise distinct; there is one file
    per stored non-root module; every emitted file is the file of a stored module whose path is the path of a module
    **written in the case**, and is named `<path>.rs` (`specFile`); conversely every non-root module path of the case has
    exactly one stored module, whose file is emitted -/
theorem case_files_per_module (c : Case) (hps : c.ps = 4 ∨ c.ps = 8) (hb : C12.CaseBounded c) (s : State)
    (h : c.run = .ok s) :
    (s.modules.map (·.1)).Nodup ∧
    (Emit.files s).length = (s.modules.filter fun e => !e.1.isEmpty).length ∧
    (∀ f ∈ Emit.files s, ∃ e ∈ s.modules, e.1 ≠ [] ∧ (∃ file m, ModEnt.ast e.1 file m ∈ c.modules) ∧
      f = Emit.moduleFile s e.1 e.2 ∧ ∃ body, f = Sexp.mk "file" [.str (specFile e.1), body]) ∧
    (∀ path file m, ModEnt.ast path file m ∈ c.modules → path ≠ [] →
      ∃ md, (path, md) ∈ s.modules ∧ (∀ md', (path, md') ∈ s.modules → md' = md) ∧
        Emit.moduleFile s path md ∈ Emit.files s) := by
  have hinv := case_modInv c s h
  refine ⟨hinv.keys, (files_per_module s).1, ?_, ?_⟩
  · intro f hf
    obtain ⟨e, he, hne, rfl⟩ := (files_per_module s).2 f hf
    refine ⟨e, he, hne, ?_, rfl, file_name s e.1 e.2⟩
    rcases (case_modules_src c hps hb s h e he).2 with ⟨h0, _⟩ | ⟨file, m, hm, _⟩
    · exact absurd h0 hne
    · exact ⟨file, m, hm⟩
  · intro path file m hm hne
    obtain ⟨md, hmd⟩ := case_modules_present c s h path file m hm
    refine ⟨md, hmd, ?_, moduleFile_mem_files s (path, md) hmd hne⟩
    intro md' hmd'
    have h1 := lookup_of_mem_nodup s.modules hinv.keys path md hmd
    have h2 := lookup_of_mem_nodup s.modules hinv.keys path md' hmd'
    rw [h1] at h2
    cases h2; rfl

/-- **`only_defined_emitted`, for every accepted case: a file contains only items of defined category of its module.**
    Every item of every emitted file is a backend block, the accessor of an extern value of the module, or one of the
    items printed for an entry `i` of the final registry that is listed in the module's definition paths under its own
    path `q`, is a child of the module's path, is of *defined* category and is resolved; and entries of any other
    category (built-in, extern) print nothing -/
theorem case_only_defined_emitted (c : Case) (hps : c.ps = 4 ∨ c.ps = 8) (hb : C12.CaseBounded c) (s : State)
    (h : c.run = .ok s) :
    (∀ f ∈ Emit.files s, ∀ x ∈ fileItems f,
      ∃ e ∈ s.modules, e.1 ≠ [] ∧ f = Emit.moduleFile s e.1 e.2 ∧
        (Sexp.head? x = some "opaque-block" ∨
         (∃ q ∈ e.2.defPaths, ∃ i, s.reg.get q = some i ∧ i.path = q ∧ Path.parent? q = some e.1 ∧
            i.cat = .defined ∧ (∃ r, i.state = .res r) ∧ x ∈ Emit.itemItems s.reg i) ∨
         (∃ xv ∈ e.2.xvals, x = Emit.xvalItem xv))) ∧
    (∀ p i, s.reg.get p = some i → i.cat ≠ .defined → Emit.itemItems s.reg i = []) := by
  have hinv := case_modInv c s h
  obtain ⟨s1, ms, hJ, _, hs⟩ := case_J c hps hb s h
  have hwk : ∀ p i, s.reg.get p = some i → i.path = p := by
    subst hs
    exact hJ.1.ok.reg.wellKeyed
  refine ⟨?_, fun p i _ hc => only_defined_emitted s.reg i hc⟩
  intro f hf x hx
  obtain ⟨e, he, hne, hfe, hcases⟩ := files_items s f hf x hx
  refine ⟨e, he, hne, hfe, ?_⟩
  rcases hcases with hb' | ⟨q, hq, i, hg, hxi⟩ | hxv
  · exact Or.inl hb'
  · obtain ⟨hc, hr⟩ := itemItems_inv s.reg i x hxi
    exact Or.inr (Or.inl ⟨q, hq, i, hg, hwk q i hg, hinv.parent e he q hq, hc, hr, hxi⟩)
  · exact Or.inr (Or.inr hxv)

/-- **`defPaths_nodup`, for every accepted case: each definition is listed – and so emitted – once.**  In the final
    state the definition paths of every stored module are pairwise distinct, each is an entry of the final registry, and
    the entries the module's file is printed from are pairwise distinct -/
theorem case_defPaths_nodup (c : Case) (hps : c.ps = 4 ∨ c.ps = 8) (hb : C12.CaseBounded c) (s : State)
    (h : c.run = .ok s) :
    ∀ e ∈ s.modules, e.2.defPaths.Nodup ∧ (∀ q ∈ e.2.defPaths, ∃ i, s.reg.get q = some i ∧ i.path = q) ∧
      (e.2.defPaths.filterMap s.reg.get).Nodup := by
  have hinv := case_modInv c s h
  obtain ⟨s1, ms, hJ, _, hs⟩ := case_J c hps hb s h
  have hwk : ∀ p i, s.reg.get p = some i → i.path = p := by
    subst hs
    exact hJ.1.ok.reg.wellKeyed
  intro e he
  refine ⟨hinv.nodup e he, ?_, ?_⟩
  · intro q hq
    have := hinv.listed e he q hq
    unfold Registry.contains at this
    cases hg : s.reg.get q with
    | none => rw [hg] at this; cases this
    | some i => exact ⟨i, rfl, hwk q i hg⟩
  · have hn : List.Pairwise (· ≠ ·) e.2.defPaths := hinv.nodup e he
    show List.Pairwise (· ≠ ·) (e.2.defPaths.filterMap s.reg.get)
    refine List.Pairwise.filterMap s.reg.get ?_ hn
    intro a a' hne b hb1 b' hb2 hbb
    apply hne
    subst hbb
    rw [← hwk a b hb1, ← hwk a' b hb2]

/-- **every item of a non-root module is emitted in the file of its module**, for every accepted case whose module
    paths are pairwise distinct (without this hypothesis the statement is false: `add_module` replaces a stored module of
    the same path, whose definition paths start empty again).  Every entry `i` of the final registry registered under
    `q = par ++ [name]` with `par` a non-root module path is listed in the definition paths of the one module stored
    under `par`, whose file `<par>.rs` is emitted and contains every item printed for `i` -/
theorem case_every_item_in_its_file (c : Case) (hnd : (astPaths c.modules).Nodup) (s : State) (h : c.run = .ok s)
    (q : Path) (i : ItemDef) (par : Path) (hg : s.reg.get q = some i) (hp : Path.parent? q = some par) (hne : par ≠ []) :
    ∃ md, (par, md) ∈ s.modules ∧ (∀ md', (par, md') ∈ s.modules → md' = md) ∧ q ∈ md.defPaths ∧
      Emit.moduleFile s par md ∈ Emit.files s ∧
      (∃ body, Emit.moduleFile s par md = Sexp.mk "file" [.str (specFile par), body]) ∧
      ∀ x ∈ Emit.itemItems s.reg i, x ∈ fileItems (Emit.moduleFile s par md) := by
  have hinv := case_modInv c s h
  obtain ⟨md, hmd, hq⟩ := case_listed c hnd s h q i par hg hp hne
  refine ⟨md, hmd, ?_, hq, moduleFile_mem_files s (par, md) hmd hne, file_name s par md,
    itemItems_in_file s par md q i hq hg⟩
  intro md' hmd'
  have h1 := lookup_of_mem_nodup s.modules hinv.keys par md hmd
  have h2 := lookup_of_mem_nodup s.modules hinv.keys par md' hmd'
  rw [h1] at h2
  cases h2; rfl

end PyxisVerif.C14

/-! ## C05, continued: the wrapper is in the module's file -/
namespace PyxisVerif.C05
open Gen Layout CaseLift CaseLift2

/-- **the wrapper of every declared function is emitted in the file of the type's module**, for every accepted case
    whose module paths are pairwise distinct: for every emitted struct `p = path ++ [name]` of a non-root module built
    from a definition written in the case, the file `<path>.rs` of the one module stored under `path` is emitted and
    contains the struct's `impl` item, which lists the wrapper of every function written in a function block for `p` in
    the case – the transmute-and-call of the declared address – except those whose name starts with `_`, which the
    backend filters -/
theorem case_wrapper_in_file (c : Case) (hps : c.ps = 4 ∨ c.ps = 8) (hb : C12.CaseBounded c) (s : State)
    (h : c.run = .ok s) (hnd : (astPaths c.modules).Nodup) (p : Path) (i : ItemDef) (r : Resolved) (td : TypeDefn)
    (hg : s.reg.get p = some i) (hs : i.state = .res r) (hin : r.inner = .type td) (hc : i.cat = .defined)
    (hroot : 2 ≤ p.length) :
    ((∃ (reg0 : Registry) (owner : Path) (vis : Vis) (fns : List SFunc),
        buildVftableItem reg0 owner vis fns = some i ∧ i.path = p) ∧ td.fns = []) ∨
    ∃ (item : G.Item) (path : Path) (md : Mod) (acc : Sexp) (methods : List Sexp),
      Declared c p item ∧ p = path ++ [item.name] ∧ (path, md) ∈ s.modules ∧
      Emit.moduleFile s path md ∈ Emit.files s ∧
      (∃ body, Emit.moduleFile s path md = Sexp.mk "file" [.str (C14.specFile path), body]) ∧
      Sexp.mk "impl" (.str (p.getLast?.getD "") :: acc :: methods) ∈ fileItems (Emit.moduleFile s path md) ∧
      ∀ gf, DeclaredFn c p gf →
        ∃ (sf : SFunc) (a : Int), sf ∈ td.fns ∧ sf.name = gf.name ∧ declAddress gf = some a ∧ 0 ≤ a ∧
          sf.body = .addr a.toNat ∧
          Emit.methodS sf = Sexp.mk "method" [Emit.docsS sf.doc, Emit.visS sf.vis, .str sf.name,
            Sexp.mk "params" (sf.args.map Emit.paramS), Emit.optTyS sf.ret,
            Sexp.mk "call-addr" [.int a.toNat, .str sf.cc.asStr, Sexp.mk "sig" (sf.args.map Emit.sigArgS),
              Emit.optTyS sf.ret, Sexp.mk "args" (sf.args.map Emit.callArgS)]] ∧
          sf.isInternal = gf.name.startsWith "_" ∧
          (gf.name.startsWith "_" = false → Emit.methodS sf ∈ methods) := by
  rcases case_declared_functions_present c hps hb s h (distinctModulePaths_of_nodup c hnd) p i r td hg hs hin hc hroot with
    hv | ⟨item, d, s1, path, file, m, hD, hd, hm, hp, he, acc, methods, himpl, hall⟩
  · exact Or.inl hv
  · right
    have hpne : path ≠ [] := by
      intro e
      rw [hp, e] at hroot
      simp at hroot
    obtain ⟨md, hmd, _, hq, hfile, hname, hitems⟩ := C14.case_every_item_in_its_file c hnd s h p i path hg
      (by rw [hp]; exact parent_append path item.name) hpne
    refine ⟨item, path, md, acc, methods, hD, hp, hmd, hfile, hname, hitems _ himpl, ?_⟩
    intro gf hgf
    obtain ⟨sf, a, k1, _, k3, k4, k5, _, _, k8, _, k10, k11, k12⟩ := hall gf hgf
    exact ⟨sf, a, k1, k8, k3, k4, k5, k10, k11, k12⟩

end PyxisVerif.C05

/-! ## non-vacuity: the lifted theorems on a concrete accepted case

`Exec.Example.case` (`Props/Exec.lean`: module `m` with `B` – a vftable block `v`, `#[index(2)] w` and a field – with
`impl B { #[address(0x1000)] pub fn a(..) }`, and `D` with `#[base] b: B`) is accepted (`run_ok`) and bounded
(`case_bounded`).  Each example obtains the final state from acceptance alone and gets its conclusion *from the lifted
theorem*; evaluation (`decide +kernel`) is only used to look entries up in the final registry and to identify the
declared definition among the case's modules. -/
namespace PyxisVerif.CaseLift2.Example
open Gen CaseLift CaseLift2

/-- the first `#[base]` field of `m::D` -/
def baseD : Region := ((Exec.Example.tdD.regions.filter (fun r => r.isBase))[0]?).getD default
def itemB : ItemDef := (Exec.Example.s1.reg.get ["m", "B"]).getD default
def resB : Resolved := itemB.resolved?.getD default

/-- **`C04.case_slots`** on `Exec.Example.case`: `m::B` of the final registry has a table; by the theorem it is the
    conversion of the vftable block of the definition written in the case, whose functions sit in the slots the
    description says – `v` in slot 0, `w` (written `#[index(2)]`) in slot 2 –, slot 1 holds the placeholder `_vfunc_1`,
    and the table has exactly the three slots needed -/
example : ∃ (s : State) (v : Vft), Exec.Example.case.run = .ok s ∧ Exec.Example.tdB.vft = some v ∧
    v.fns.length = 3 ∧ v.fns[1]? = some (placeholderFn 1) ∧
    (∃ f, v.fns[0]? = some f ∧ f.name = "v") ∧ (∃ f, v.fns[2]? = some f ∧ f.name = "w") := by
  obtain ⟨s, hs⟩ := (C09.isOkB_iff _).mp Exec.Example.run_ok
  have hreg := Exec.Example.run_reg s hs
  have hget : s.reg.get ["m", "B"] = some itemB := by rw [hreg]; decide +kernel
  have hst : itemB.state = .res resB := by decide +kernel
  have hin : resB.inner = .type Exec.Example.tdB := by decide +kernel
  have hv : Exec.Example.tdB.vft = some ((Exec.Example.tdB.vft).getD default) := by decide +kernel
  refine ⟨s, _, hs, hv, ?_⟩
  rcases C04.case_slots Exec.Example.case (Or.inr rfl) Exec.Example.case_bounded s hs ["m", "B"] itemB resB
    Exec.Example.tdB hget hst hin (by decide +kernel) with ⟨_, hnone⟩ | ⟨item, d, s0, module, hD, hd, hmod, he, hblock⟩
  · rw [hnone] at hv; cases hv
  · -- the declared definition registered under `m::B` is the second definition of module `m`
    obtain ⟨path, file, m, hm, hmem, hp⟩ := hD
    simp only [Exec.Example.case, List.mem_cons, List.not_mem_nil, or_false, ModEnt.ast.injEq] at hm
    obtain ⟨rfl, rfl, rfl⟩ := hm
    have hname : item.name = "B" := by
      simp only [List.cons_append, List.nil_append, List.cons.injEq, and_true, true_and] at hp
      exact hp.symm
    simp only [Exec.Example.modM, List.mem_cons, List.not_mem_nil, or_false] at hmem
    rcases hmem with rfl | rfl
    · exact absurd hname (by decide)
    · simp only [G.Inner.type.injEq] at hd
      subst hd
      obtain ⟨size, out, pos, built, len, hsize, hout, _, hpos, hbuilt, hlen, hspec, holen, hz, hph⟩ :=
        hblock _ [Exec.Example.gfV, Exec.Example.gfW] rfl rfl
      have hvo := hout _ hv
      have hsz : size = none := by
        have : vftableSizeAttr ([] : List G.Attr) = .ok none := rfl
        rw [this] at hsize; cases hsize; rfl
      subst hsz
      have hp2 : C04.specPositions 0 ([Exec.Example.gfV, Exec.Example.gfW].map C04.declIndex) = some [0, 2] := by decide
      rw [hp2] at hpos
      cases hpos
      have hl3 : len = 3 := by
        have : C04.specLength none [0, 2] = some 3 := by decide
        rw [this] at hspec; cases hspec; rfl
      subst hl3
      rw [hvo]
      refine ⟨holen, hph 1 (by rw [holen]; decide) (by decide), ?_, ?_⟩
      · -- slot 0 holds the function built from `v`
        obtain ⟨hl, hpt⟩ := C15.mapM'_ok _ _ built hbuilt
        have hb0 := hpt 0 (by decide) (by rw [← hlen]; decide)
        refine ⟨built[0]'(by rw [← hlen]; decide), ?_, (C04.vfunc_body _ _ _ _ hb0).2⟩
        apply hz (0, built[0]'(by rw [← hlen]; decide))
        rw [List.mem_iff_getElem?]
        refine ⟨0, ?_⟩
        rw [List.getElem?_zip_eq_some]
        exact ⟨rfl, List.getElem?_eq_getElem _⟩
      · -- slot 2 holds the function built from `w`
        obtain ⟨hl, hpt⟩ := C15.mapM'_ok _ _ built hbuilt
        have hb1 := hpt 1 (by decide) (by rw [← hlen]; decide)
        refine ⟨built[1]'(by rw [← hlen]; decide), ?_, (C04.vfunc_body _ _ _ _ hb1).2⟩
        apply hz (2, built[1]'(by rw [← hlen]; decide))
        rw [List.mem_iff_getElem?]
        refine ⟨1, ?_⟩
        rw [List.getElem?_zip_eq_some]
        exact ⟨rfl, List.getElem?_eq_getElem _⟩

/-- **`C07.case_every_public_reexposed`** on `Exec.Example.case`: the first `#[base]` field of `m::D` in the final
    registry is `b`; by the theorem its type is a resolved struct of the final registry – `m::B`, the only base – every
    public function of which is re-exposed on `D`: so `D` has a function forwarding to `B::a` on field `b`, with `a`'s
    parameters -/
example : ∃ (s : State) (g f : SFunc), Exec.Example.case.run = .ok s ∧ g ∈ Exec.Example.tdD.fns ∧
    f ∈ Exec.Example.tdB.fns ∧ f.name = "a" ∧ g.body = .field "b" "a" ∧ g.args = f.args ∧ g.ret = f.ret ∧ g.cc = f.cc := by
  obtain ⟨s, hs⟩ := (C09.isOkB_iff _).mp Exec.Example.run_ok
  have hreg := Exec.Example.run_reg s hs
  have hget : s.reg.get ["m", "D"] = some Exec.Example.itemD := by rw [hreg]; decide +kernel
  have hst : Exec.Example.itemD.state = .res Exec.Example.resD := by decide +kernel
  have hin : Exec.Example.resD.inner = .type Exec.Example.tdD := by decide +kernel
  have hk : (Exec.Example.tdD.regions.filter (·.isBase))[0]? = some baseD := by decide +kernel
  obtain ⟨b, bp, btd, hname, hty, hbtd, hall, _⟩ :=
    C07.case_every_public_reexposed Exec.Example.case (Or.inr rfl) Exec.Example.case_bounded s hs ["m", "D"]
      Exec.Example.itemD Exec.Example.resD Exec.Example.tdD hget hst hin (by decide +kernel) 0 baseD hk
  have hb : baseD.name = some "b" := by decide +kernel
  have ht : baseD.ty = .data (.raw ["m", "B"]) := by decide +kernel
  rw [hb] at hname; cases hname
  rw [ht] at hty; cases hty
  rw [hreg, Exec.Example.hB] at hbtd; cases hbtd
  have hf : ∃ f ∈ Exec.Example.tdB.fns, f.name = "a" ∧ f.vis = .pub ∧ f.isInternal = false :=
    ⟨Exec.Example.tdB.fns.headD default, by decide +kernel, by decide +kernel, by decide +kernel, by decide +kernel⟩
  obtain ⟨f, hfm, hfn, hpub, hint⟩ := hf
  obtain ⟨g, hg, hbody, _, hargs, hret, hcc, _⟩ := hall f hfm hpub hint
  exact ⟨s, g, f, hs, hg, hfm, hfn, by rw [hbody, hfn], hargs, hret, hcc⟩

/-- **`C14.case_files_per_module`** on `Exec.Example.case`: by the theorem, the module `m` written in the case has exactly
    one stored module in the final state, and its file `m.rs` is emitted -/
example : ∃ (s : State) (md : Mod) (body : Sexp), Exec.Example.case.run = .ok s ∧ (["m"], md) ∈ s.modules ∧
    Emit.moduleFile s ["m"] md ∈ Emit.files s ∧ Emit.moduleFile s ["m"] md = Sexp.mk "file" [.str "m.rs", body] := by
  obtain ⟨s, hs⟩ := (C09.isOkB_iff _).mp Exec.Example.run_ok
  obtain ⟨_, _, _, hall⟩ := C14.case_files_per_module Exec.Example.case (Or.inr rfl) Exec.Example.case_bounded s hs
  obtain ⟨md, hmd, _, hfile⟩ := hall ["m"] "m.pyxis" Exec.Example.modM (by simp [Exec.Example.case]) (by decide)
  obtain ⟨body, hbody⟩ := C14.file_name s ["m"] md
  exact ⟨s, md, body, hs, hmd, hfile, by rw [hbody]; rfl⟩

end PyxisVerif.CaseLift2.Example

/-! ## why the hypothesis on module paths is needed: a refuting case

Two modules written under the same path `m`: the first defines `T` and a function block `impl T { f }`, the second is
empty.  `add_module` of the second *replaces* the stored module `m` (no function blocks, no definition paths) while the
registry keeps `m::T`; the case is accepted, `T` is resolved **without** `f`, and `m::T` is listed in no module, so it
is emitted in no file.  Hence `C05.case_declared_functions_present` and `C14.case_every_item_in_its_file` are false
without their hypothesis on the module paths (`DistinctModulePaths` / `(astPaths c.modules).Nodup`). -/
namespace PyxisVerif.CaseLift2.Dup
open Gen CaseLift CaseLift2 C09 C02

def gfF : G.Func := { vis := .pub, name := "f", attrs := [.fn "address" [.int 0x10]], args := [.constSelf], ret := none }

def m1 : G.Module :=
  { defs := [{ vis := .pub, name := "T",
               inner := .type { stmts := [{ field := .field .pub "x" (.ident "u32"), attrs := [] }], attrs := [] } }],
    impls := [{ name := "T", attrs := [], fns := [gfF] }] }

def m2 : G.Module := {}

def prio : List Path := [["m", "T"]]

def case : Case :=
  { id := "dup", ps := 8, prio := prio, modules := [.ast ["m"] "m.pyxis" m1, .ast ["m"] "m2.pyxis" m2], extras := [] }

def s0 : State := C12.stateOf case.initialState
def s1 : State := (runRound s0 prio).1

theorem init : case.initialState = .ok s0 := C12.eq_ok_stateOf _ (by decide +kernel)

theorem u0 : s0.reg.unresolved case.prio = prio :=
  unresolved_of_sorted _ _ _ (by decide +kernel) (by decide +kernel)
theorem u1 : s1.reg.unresolved case.prio = [] :=
  unresolved_of_sorted _ _ _ (by decide +kernel) (by decide +kernel)

theorem r0 : runRound s0 prio = (s1, .ok ()) := by
  have : (runRound s0 prio).2 = .ok () := by decide +kernel
  rw [← this]; rfl

theorem loop : resolveLoop case.prio 4 s0 = .ok s1 := by
  rw [resolveLoop_step _ 3 s0 s1 _ u0 rfl r0 (by rw [u1]; decide +kernel),
      resolveLoop_done _ 2 s1 u1]

theorem nItems : (s0.reg.types.filter fun e => !e.2.isResolved).length = 1 := by decide +kernel

theorem run_ok : isOkB case.run = true := by
  unfold Case.run
  rw [init]
  simp only []
  unfold State.build
  simp only []
  rw [nItems, loop]
  decide +kernel

/-- the final state: the registry and the definition paths of the stored modules are those after the one round -/
theorem run_final (s : State) (h : case.run = .ok s) :
    s.reg = s1.reg ∧ s.modules.map (fun e => (e.1, e.2.defPaths)) = s1.modules.map (fun e => (e.1, e.2.defPaths)) := by
  unfold Case.run at h
  rw [init] at h
  simp only [] at h
  obtain ⟨s', hl, ms, hms, rfl⟩ := build_ok_inv s0 case.prio s h
  rw [nItems, loop] at hl
  cases hl
  exact ⟨rfl, (final_modules s1.reg s1.modules ms hms).2⟩

theorem case_bounded : C12.CaseBounded case := by
  intro path file m hm
  simp only [case, List.mem_cons, List.not_mem_nil, or_false, ModEnt.ast.injEq] at hm
  rcases hm with ⟨_, _, rfl⟩ | ⟨_, _, rfl⟩
  · refine ⟨?_, fun xt hx => by cases hx⟩
    intro d hd
    simp only [m1, List.mem_cons, List.not_mem_nil, or_false] at hd
    subst hd
    intro n args z ha
    cases ha
  · exact ⟨(fun d hd => by cases hd), (fun xt hx => by cases hx)⟩

def itemT : ItemDef := (s1.reg.get ["m", "T"]).getD default
def resT : Resolved := itemT.resolved?.getD default
def tdT : TypeDefn := (Exec.typeDefn? s1.reg ["m", "T"]).getD {}

/-- the case is accepted, bounded, at pointer width 8; `m::T` is an emitted struct of the final registry, built from a
    definition written in the case, and `f` is written in a function block for `m::T` in the case – but `T` has no
    function at all -/
theorem facts : ∃ s, case.run = .ok s ∧ s.reg.get ["m", "T"] = some itemT ∧ itemT.state = .res resT ∧
    resT.inner = .type tdT ∧ itemT.cat = .defined ∧ (∃ item, Declared case ["m", "T"] item) ∧
    DeclaredFn case ["m", "T"] gfF ∧ tdT.fns = [] ∧
    Path.parent? ["m", "T"] = some ["m"] ∧ ∀ md, (["m"], md) ∈ s.modules → ["m", "T"] ∉ md.defPaths := by
  obtain ⟨s, hs⟩ := (isOkB_iff _).mp run_ok
  obtain ⟨hreg, hmods⟩ := run_final s hs
  refine ⟨s, hs, by rw [hreg]; decide +kernel, by decide +kernel, by decide +kernel, by decide +kernel, ?_, ?_,
    by decide +kernel, by decide +kernel, ?_⟩
  · exact ⟨_, ["m"], "m.pyxis", m1, by simp [case], List.mem_cons_self, rfl⟩
  · exact ⟨["m"], { name := "T", attrs := [], fns := [gfF] }, ⟨"m.pyxis", m1, by simp [case], List.mem_cons_self⟩, rfl,
      List.mem_cons_self⟩
  · intro md hmd hq
    obtain ⟨e, he, hfe⟩ := mem_of_map_eq _ _ _ hmods (["m"], md) hmd
    simp only [Prod.mk.injEq] at hfe
    have hall : ∀ e ∈ s1.modules, ["m", "T"] ∉ e.2.defPaths := by decide +kernel
    exact hall e he (by rw [← hfe.2]; exact hq)

end PyxisVerif.CaseLift2.Dup

namespace PyxisVerif.C05
open Gen CaseLift CaseLift2

/-- **`case_declared_functions_present` without the hypothesis on module paths is refuted**: an accepted case (pointer
    width 8, `isize` literals) with an emitted struct `p` of a non-root module built from a definition written in the
    case, and a function `gf` written in a function block for `p` in the case, that no function of the struct in the final
    registry is built from -/
theorem case_declared_functions_present_refuted :
    ∃ (c : Case) (s : State) (p : Path) (i : ItemDef) (r : Resolved) (td : TypeDefn) (gf : G.Func),
      (c.ps = 4 ∨ c.ps = 8) ∧ C12.CaseBounded c ∧ c.run = .ok s ∧
      s.reg.get p = some i ∧ i.state = .res r ∧ r.inner = .type td ∧ i.cat = .defined ∧ 2 ≤ p.length ∧
      (∃ item, Declared c p item) ∧ DeclaredFn c p gf ∧ ¬ ∃ sf ∈ td.fns, sf.name = gf.name := by
  obtain ⟨s, hs, hg, hst, hin, hc, hD, hF, hnil, _⟩ := Dup.facts
  refine ⟨Dup.case, s, ["m", "T"], Dup.itemT, Dup.resT, Dup.tdT, Dup.gfF, Or.inr rfl, Dup.case_bounded, hs, hg, hst, hin,
    hc, by decide, hD, hF, ?_⟩
  rintro ⟨sf, hsf, _⟩
  rw [hnil] at hsf
  cases hsf

end PyxisVerif.C05

namespace PyxisVerif.C14
open Gen CaseLift CaseLift2

/-- **`case_every_item_in_its_file` without the hypothesis on module paths is refuted**: an accepted case with a
    resolved, defined entry of the final registry under a non-root module path that is listed in no stored module (so it
    is printed in no file) -/
theorem case_every_item_in_its_file_refuted :
    ∃ (c : Case) (s : State) (q : Path) (i : ItemDef) (r : Resolved) (par : Path),
      (c.ps = 4 ∨ c.ps = 8) ∧ C12.CaseBounded c ∧ c.run = .ok s ∧
      s.reg.get q = some i ∧ i.state = .res r ∧ i.cat = .defined ∧ Path.parent? q = some par ∧ par ≠ [] ∧
      ¬ ∃ md, (par, md) ∈ s.modules ∧ q ∈ md.defPaths := by
  obtain ⟨s, hs, hg, hst, _, hc, _, _, _, hpar, hno⟩ := CaseLift2.Dup.facts
  refine ⟨CaseLift2.Dup.case, s, ["m", "T"], CaseLift2.Dup.itemT, CaseLift2.Dup.resT, ["m"], Or.inr rfl,
    CaseLift2.Dup.case_bounded, hs, hg, hst, hc, hpar, by decide, ?_⟩
  rintro ⟨md, hmd, hq⟩
  exact hno md hmd hq

end PyxisVerif.C14
