import PyxisVerif.Spec.C09
import PyxisVerif.Spec.C12
import PyxisVerif.Lemmas.C12
import PyxisVerif.Lemmas.Worklist
import PyxisVerif.Lemmas.Mono
/-!
# C09, end to end, for descriptions without vftable blocks

For states in which no type declares a `vftable` block (so that no item is ever generated during
resolution and the key set of the registry is fixed), the whole `SemanticState::build` is independent
of the resolution priority: any two priorities give the same verdict, and on success the same
registry and modules.  This instantiates the abstract worklist development
(`Lemmas/Worklist.lean`) with pyxis's concrete attempt: the instantiation obligation is `Mono` –
once an attempt on an item answers "resolved to r" or "error" it gives the same answer after any
further resolution – proved here function by function for `type_definition::build` and
`enum_definition::build`.

The fragment WITH vftable blocks is not covered by this theorem (generated `<T>Vftable` items make
the key set grow during the run); it is decided on the implementation by exhaustive enumeration of
priorities (see the C09 check).
-/
namespace PyxisVerif.C09

/-- no unresolved type definition of the registry has a `vftable` block -/
def NoVft (s : State) : Prop :=
  ∀ p i d, s.reg.get p = some i → i.state = .unres d →
    match d.inner with
    | .type td => ∀ st ∈ td.stmts, (match st.field with | .vftable _ => False | .field .. => True)
    | .enum _ => True

/-- … and no resolved type has one either (no base can supply a vftable) -/
def NoVftResolved (s : State) : Prop :=
  ∀ p i r td, s.reg.get p = some i → i.state = .res r → r.inner = .type td → td.vft = none

/-- the verdict of a build, up to what may legitimately depend on the order: *which* error is reported
    first, and the order in which the unresolved items are listed -/
def sameVerdict : BuildOutcome → BuildOutcome → Prop
  | .ok s1, .ok s2 => (∀ p, s1.reg.get p = s2.reg.get p) ∧ s1.modules = s2.modules
  | .nonterm f1, .nonterm f2 => f1.Perm f2
  | .err _, .err _ => True
  | .panic _, .panic _ => True
  | .fuel, .fuel => True
  | _, _ => False

/-- **the output is a function of the input set, not of the resolution order** (vftable-free fragment):
    from any state that satisfies the registry invariant (with `isize` literals, as the parser produces
    them), any two priorities give the same verdict -/
theorem build_schedule_independent_novft (s : State) (p1 p2 : List Path)
    (hs : C12.StateOkB s) (hv : NoVft s) (hr : NoVftResolved s) :
    sameVerdict (s.build p1) (s.build p2) := by
  have _ := hr
  have hv' : Mono.NoVftS s := by
    intro p i d td hi hst hin st hmem
    have h := hv p i d hi hst
    rw [hin] at h
    have h2 := h st hmem
    unfold C01.isFieldStmt
    cases hf : st.field with
    | vftable fns => rw [hf] at h2; exact h2.elim
    | field v n t => rfl
  have refl : ∀ x, sameVerdict x x := by
    intro x
    cases x with
    | ok s1 => exact ⟨fun _ => rfl, rfl⟩
    | nonterm l => exact List.Perm.refl l
    | err m => trivial
    | panic m => trivial
    | fuel => trivial
  have ha := Mono.loops_agree s hs hv' p1 p2
    (2 * (s.reg.types.filter fun e => !e.2.isResolved).length + 2)
    (2 * (s.reg.types.filter fun e => !e.2.isResolved).length + 2)
  have f1 := C10.resolveLoop_ne_fuel p1 (2 * (s.reg.types.filter fun e => !e.2.isResolved).length + 2) s
    hs.ok.reg.keys (by have := C10.mu_le s.reg; omega)
  have f2 := C10.resolveLoop_ne_fuel p2 (2 * (s.reg.types.filter fun e => !e.2.isResolved).length + 2) s
    hs.ok.reg.keys (by have := C10.mu_le s.reg; omega)
  unfold State.build
  simp only []
  generalize resolveLoop p1 (2 * (s.reg.types.filter fun e => !e.2.isResolved).length + 2) s = o1 at ha f1 ⊢
  generalize resolveLoop p2 (2 * (s.reg.types.filter fun e => !e.2.isResolved).length + 2) s = o2 at ha f2 ⊢
  cases o1 with
  | ok s1 =>
    cases o2 with
    | ok s2 =>
      have e : s1 = s2 := ha
      subst e
      exact refl _
    | nonterm l2 => exact False.elim ha
    | err m2 => exact False.elim ha
    | panic m2 => exact False.elim ha
    | fuel => exact absurd rfl f2
  | nonterm l1 =>
    cases o2 with
    | ok s2 => exact False.elim ha
    | nonterm l2 => exact ha
    | err m2 => exact False.elim ha
    | panic m2 => exact False.elim ha
    | fuel => exact absurd rfl f2
  | err m1 =>
    cases o2 with
    | ok s2 => exact False.elim ha
    | nonterm l2 => exact False.elim ha
    | err m2 => trivial
    | panic m2 => exact False.elim ha
    | fuel => exact absurd rfl f2
  | panic m1 =>
    cases o2 with
    | ok s2 => exact False.elim ha
    | nonterm l2 => exact False.elim ha
    | err m2 => exact False.elim ha
    | panic m2 => exact False.elim ha
    | fuel => exact absurd rfl f2
  | fuel => exact absurd rfl f1

end PyxisVerif.C09
