import PyxisVerif.Lemmas.C09Case
/-!
# C09 for whole cases, for descriptions without vftable blocks

`Props/C09Novft.lean` proves, for a *state* of the vftable-free fragment, that `SemanticState::build`
gives the same verdict under any two resolution priorities.  Here that theorem is lifted to whole
cases (`Case.run`: `SemanticState::new`, `add_module` for every module, `build`): the fragment is
established by `SemanticState::new` (the predefined types are resolved and have no vftable) and kept by
`add_module` (the new unresolved items are the module's definitions, the new resolved items are extern
types without vftable), and the registry invariant `C12.StateOkB` comes from `C12`.

On success the statement is strengthened from "same registry lookups and same modules" to equality of
the final states, hence equality of every observation made on them (`Case.o2`, `Case.o3`).

The definitions `ModNoVft`, `CaseNoVft` are in `Lemmas/C09Case.lean`:

* `ModNoVft m`   – every definition of `m` that is a type has only `.field` statements;
* `CaseNoVft c`  – every module of `c` is an AST module (`ModEnt.ast`) satisfying `ModNoVft`;
  a text module makes it false (`Case.initialState` rejects text modules anyway).
-/
namespace PyxisVerif.C09

/-- strengthened state-level statement: on success the two final states are EQUAL -/
theorem build_ok_unique_novft (s : State) (p1 p2 : List Path) (hs : C12.StateOkB s) (hv : NoVft s)
    (hr : NoVftResolved s) (s1 s2 : State) (h1 : s.build p1 = .ok s1) (h2 : s.build p2 = .ok s2) :
    s1 = s2 := by
  have _ := hr
  obtain ⟨t1, l1, ms1, m1, e1⟩ := build_ok_inv s p1 s1 h1
  obtain ⟨t2, l2, ms2, m2, e2⟩ := build_ok_inv s p2 s2 h2
  have ha := Mono.loops_agree s hs (noVftS_of_noVft hv) p1 p2
    (2 * (s.reg.types.filter fun e => !e.2.isResolved).length + 2)
    (2 * (s.reg.types.filter fun e => !e.2.isResolved).length + 2)
  rw [l1, l2] at ha
  have e : t1 = t2 := ha
  subst e
  rw [m1] at m2
  cases m2
  rw [e1, e2]

/-- whole case: the verdict does not depend on the priority list -/
theorem case_schedule_independent_novft (c : Case) (prio' : List Path) (hps : c.ps = 4 ∨ c.ps = 8)
    (hb : C12.CaseBounded c) (hv : CaseNoVft c) :
    sameVerdict c.run ({ c with prio := prio' } : Case).run := by
  unfold Case.run
  rw [initialState_prio c prio']
  cases hi : c.initialState with
  | ok s =>
    have hcl := initialState_clean c hv s hi
    have hok : C12.StateOkB s := (C12.initialState_shape c hps hb).2 s hi
    exact build_schedule_independent_novft s c.prio prio' hok hcl.noVft hcl.noVftResolved
  | defer => trivial
  | err m => trivial
  | panic m => trivial

/-- whole case: when the case is accepted, the final state – hence the emitted files (observation O3)
    and the resolved registry (O2) – is the same for every priority list -/
theorem case_output_schedule_independent_novft (c : Case) (prio' : List Path) (hps : c.ps = 4 ∨ c.ps = 8)
    (hb : C12.CaseBounded c) (hv : CaseNoVft c) (s : State) (h : c.run = .ok s) :
    ({ c with prio := prio' } : Case).run = .ok s := by
  have hsv := case_schedule_independent_novft c prio' hps hb hv
  unfold Case.run at h hsv ⊢
  rw [initialState_prio c prio'] at hsv ⊢
  cases hi : c.initialState with
  | ok s0 =>
    rw [hi] at h hsv
    simp only [] at h hsv ⊢
    have hcl := initialState_clean c hv s0 hi
    have hok : C12.StateOkB s0 := (C12.initialState_shape c hps hb).2 s0 hi
    rw [h] at hsv
    cases h2 : s0.build prio' with
    | ok s2 =>
      rw [build_ok_unique_novft s0 c.prio prio' hok hcl.noVft hcl.noVftResolved s s2 h h2]
    | nonterm l => rw [h2] at hsv; exact hsv.elim
    | err m => rw [h2] at hsv; exact hsv.elim
    | panic m => rw [h2] at hsv; exact hsv.elim
    | fuel => rw [h2] at hsv; exact hsv.elim
  | defer => rw [hi] at h; cases h
  | err m => rw [hi] at h; cases h
  | panic m => rw [hi] at h; cases h

/-- … in particular the resolved registry (O2) is the same -/
theorem case_o2_schedule_independent_novft (c : Case) (prio' : List Path) (hps : c.ps = 4 ∨ c.ps = 8)
    (hb : C12.CaseBounded c) (hv : CaseNoVft c) (s : State) (h : c.run = .ok s) :
    ({ c with prio := prio' } : Case).o2 = c.o2 := by
  unfold Case.o2
  rw [case_output_schedule_independent_novft c prio' hps hb hv s h, h]

/-- … and so are the emitted files (O3) -/
theorem case_o3_schedule_independent_novft (c : Case) (prio' : List Path) (hps : c.ps = 4 ∨ c.ps = 8)
    (hb : C12.CaseBounded c) (hv : CaseNoVft c) (s : State) (h : c.run = .ok s) :
    ({ c with prio := prio' } : Case).o3 = c.o3 := by
  unfold Case.o3
  rw [case_output_schedule_independent_novft c prio' hps hb hv s h, h]


/-! ## non-vacuity: a concrete case that satisfies every hypothesis and is accepted

Pointer width 8, two AST modules whose types reference each other across modules:

```text
// a.pyxis                                  // b.pyxis
use b::B;                                   use a::A;
pub enum Kind: u32 { X = 0, Y }             pub type B { pub a: A, pub n: u64 }
#[align(8)]
pub type A { pub b: *const B, pub kind: Kind, count: u32 }
```

with the priority `[b::B, a::A]`, the worst one: `B` is attempted first and has to wait for `A`, `A` has to
wait for `Kind`, so the build takes three rounds (`Kind`; `A`; `B`) and a fourth to see that nothing is left.
The hypotheses are proved; that the run is accepted is checked by the kernel, the resolution loop being
stepped through round by round (`List.mergeSort` does not reduce in the kernel; every evaluation is `decide +kernel`). -/
namespace Example

def modA : G.Module :=
  { uses := [["b", "B"]],
    defs := [
      { vis := .pub, name := "Kind",
        inner := .enum { ty := .ident "u32",
                         stmts := [{ name := "X", expr := some (.int 0), attrs := [] },
                                   { name := "Y", expr := none, attrs := [] }],
                         attrs := [] } },
      { vis := .pub, name := "A",
        inner := .type { stmts := [{ field := .field .pub "b" (.cptr (.ident "B")), attrs := [] },
                                   { field := .field .pub "kind" (.ident "Kind"), attrs := [] },
                                   { field := .field .priv "count" (.ident "u32"), attrs := [] }],
                         attrs := [.fn "align" [.int 8]] } }] }

def modB : G.Module :=
  { uses := [["a", "A"]],
    defs := [
      { vis := .pub, name := "B",
        inner := .type { stmts := [{ field := .field .pub "a" (.ident "A"), attrs := [] },
                                   { field := .field .pub "n" (.ident "u64"), attrs := [] }],
                         attrs := [] } }] }

def case : Case :=
  { id := "c09-novft", ps := 8, prio := [["b", "B"], ["a", "A"]],
    modules := [.ast ["a"] "a.pyxis" modA, .ast ["b"] "b.pyxis" modB], extras := [] }

/-! ### the hypotheses of the theorems -/

theorem modA_bounded : C12.ModuleBounded modA := by
  refine ⟨?_, ?_⟩
  · intro d hd
    simp only [modA, List.mem_cons, List.not_mem_nil, or_false] at hd
    rcases hd with rfl | rfl
    · trivial
    · intro n args z ha hz
      simp only [List.mem_cons, List.not_mem_nil, or_false, G.Attr.fn.injEq] at ha
      obtain ⟨_, rfl⟩ := ha
      simp only [List.mem_cons, List.not_mem_nil, or_false, G.Expr.int.injEq] at hz
      subst hz
      decide
  · intro xt hx; cases hx

theorem modB_bounded : C12.ModuleBounded modB := by
  refine ⟨?_, ?_⟩
  · intro d hd
    simp only [modB, List.mem_cons, List.not_mem_nil, or_false] at hd
    subst hd
    intro n args z ha; cases ha
  · intro xt hx; cases hx

theorem modA_noVft : ModNoVft modA := by
  intro d hd
  simp only [modA, List.mem_cons, List.not_mem_nil, or_false] at hd
  rcases hd with rfl | rfl
  · trivial
  · intro st hst
    simp only [List.mem_cons, List.not_mem_nil, or_false] at hst
    rcases hst with rfl | rfl | rfl <;> trivial

theorem modB_noVft : ModNoVft modB := by
  intro d hd
  simp only [modB, List.mem_cons, List.not_mem_nil, or_false] at hd
  subst hd
  intro st hst
  simp only [List.mem_cons, List.not_mem_nil, or_false] at hst
  rcases hst with rfl | rfl <;> trivial

theorem case_hyps : C12.CaseBounded case ∧ CaseNoVft case := by
  refine ⟨?_, ?_⟩
  · intro path file m hm
    simp only [case, List.mem_cons, List.not_mem_nil, or_false, ModEnt.ast.injEq] at hm
    rcases hm with ⟨_, _, rfl⟩ | ⟨_, _, rfl⟩
    · exact modA_bounded
    · exact modB_bounded
  · intro me hme
    simp only [case, List.mem_cons, List.not_mem_nil, or_false] at hme
    rcases hme with rfl | rfl
    · exact modA_noVft
    · exact modB_noVft

example : C12.CaseBounded case ∧ CaseNoVft case := case_hyps

example : case.ps = 4 ∨ case.ps = 8 := Or.inr rfl

/-! ### the run is accepted -/

/-- the state after `add_module` of both modules … -/
def s0 : State := C12.stateOf case.initialState
/-- … after round 1 (`B` and `A` deferred, `Kind` resolved) … -/
def s1 : State := (runRound s0 [["b", "B"], ["a", "A"], ["a", "Kind"]]).1
/-- … after round 2 (`B` deferred, `A` resolved) … -/
def s2 : State := (runRound s1 [["b", "B"], ["a", "A"]]).1
/-- … and after round 3 (`B` resolved) -/
def s3 : State := (runRound s2 [["b", "B"]]).1

theorem init : case.initialState = .ok s0 := C12.eq_ok_stateOf _ (by decide +kernel)

theorem u0 : s0.reg.unresolved case.prio = [["b", "B"], ["a", "A"], ["a", "Kind"]] :=
  unresolved_of_sorted _ _ _ (by decide +kernel) (by decide +kernel)
theorem u1 : s1.reg.unresolved case.prio = [["b", "B"], ["a", "A"]] :=
  unresolved_of_sorted _ _ _ (by decide +kernel) (by decide +kernel)
theorem u2 : s2.reg.unresolved case.prio = [["b", "B"]] :=
  unresolved_of_sorted _ _ _ (by decide +kernel) (by decide +kernel)
theorem u3 : s3.reg.unresolved case.prio = [] :=
  unresolved_of_sorted _ _ _ (by decide +kernel) (by decide +kernel)

theorem r0 : runRound s0 [["b", "B"], ["a", "A"], ["a", "Kind"]] = (s1, .ok ()) := by
  have : (runRound s0 [["b", "B"], ["a", "A"], ["a", "Kind"]]).2 = .ok () := by decide +kernel
  rw [← this]; rfl
theorem r1 : runRound s1 [["b", "B"], ["a", "A"]] = (s2, .ok ()) := by
  have : (runRound s1 [["b", "B"], ["a", "A"]]).2 = .ok () := by decide +kernel
  rw [← this]; rfl
theorem r2 : runRound s2 [["b", "B"]] = (s3, .ok ()) := by
  have : (runRound s2 [["b", "B"]]).2 = .ok () := by decide +kernel
  rw [← this]; rfl

theorem loop : resolveLoop case.prio 8 s0 = .ok s3 := by
  rw [resolveLoop_step _ 7 s0 s1 _ u0 rfl r0 (by rw [u1]; decide +kernel),
      resolveLoop_step _ 6 s1 s2 _ u1 rfl r1 (by rw [u2]; decide +kernel),
      resolveLoop_step _ 5 s2 s3 _ u2 rfl r2 (by rw [u3]; decide +kernel),
      resolveLoop_done _ 4 s3 u3]

/-- the case is accepted -/
theorem run_ok : isOkB case.run = true := by
  unfold Case.run
  rw [init]
  simp only []
  unfold State.build
  simp only []
  rw [(by decide +kernel : (s0.reg.types.filter fun e => !e.2.isResolved).length = 3)]
  rw [loop]
  decide +kernel

example : (match case.run with | .ok _ => true | _ => false) = true := by
  obtain ⟨s, hs⟩ := (isOkB_iff _).mp run_ok
  rw [hs]

/-- all three items are resolved in the final registry: `B` with size 24, which needs `A` (16) and
    `Kind` (4) from the other module -/
example : (s3.reg.get ["b", "B"]).bind (fun i => i.resolved?.map (·.size)) = some 24 := by decide +kernel

/-- the theorems apply to it: every priority list gives the same accepted state, the same registry
    observation and the same files -/
theorem any_prio (prio' : List Path) :
    isOkB ({ case with prio := prio' } : Case).run = true ∧
    ({ case with prio := prio' } : Case).o2 = case.o2 ∧
    ({ case with prio := prio' } : Case).o3 = case.o3 := by
  obtain ⟨s, hs⟩ := (isOkB_iff _).mp run_ok
  refine ⟨?_, ?_, ?_⟩
  · rw [case_output_schedule_independent_novft case prio' (Or.inr rfl) case_hyps.1 case_hyps.2 s hs]
    rfl
  · exact case_o2_schedule_independent_novft case prio' (Or.inr rfl) case_hyps.1 case_hyps.2 s hs
  · exact case_o3_schedule_independent_novft case prio' (Or.inr rfl) case_hyps.1 case_hyps.2 s hs

end Example

end PyxisVerif.C09
