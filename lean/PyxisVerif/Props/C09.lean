import PyxisVerif.Spec.C09
import PyxisVerif.Lemmas.C09
import PyxisVerif.Props.C09Novft
import PyxisVerif.Props.C09Case
import PyxisVerif.Props.C09Vft
import PyxisVerif.Props.C09ModOrder
/-!
# C09 – the output is a deterministic function of the input set

Two layers.  (1) The abstract worklist (`Lemmas/Worklist.lean`, re-exported here): for ANY monotone
`attempt`, any two schedules reach compatible registries, successful results are unique, a hard
error under one schedule excludes success under every other, and a stuck run ends at the registry
of all derivable facts.  (2) The concrete readers through which pyxis's `attempt` looks at the
registry are monotone along `RegLe`, and every place where the Rust iterates a hash container is
followed by a sort that makes the result independent of the container's order.

`schedule_independent_partial` is conditional on `Mono` for the whole concrete `attempt`; that
instantiation is proved here only for the readers (size, alignment, name lookup, field placement),
not for every branch of `type_definition::build`.  The unconditional claim is checked on the
implementation by exhaustive permutation of the resolution priority (the `pyxis_verif` hook).
-/
namespace PyxisVerif.C09
open Work

/-! ## (1) the abstract theorems, for any monotone attempt -/

theorem schedule_independent_partial {K V : Type} [DecidableEq K] (attempt : Reg K V → K → Out V) (R0 R1 R2 : Reg K V)
    (hm : Mono attempt) (r1 : Run attempt R0 R1) (r2 : Run attempt R0 R2) (ks : List K)
    (t1 : ∀ k ∈ ks, (R1 k).isSome) (t2 : ∀ k ∈ ks, (R2 k).isSome) : ∀ k ∈ ks, R1 k = R2 k := by
  exact Run.total_unique hm r1 r2 ks t1 t2

theorem error_is_schedule_independent {K V : Type} [DecidableEq K] (attempt : Reg K V → K → Out V) (R0 R1 R2 : Reg K V) (k : K)
    (hm : Mono attempt) (r1 : Run attempt R0 R1) (hk : R1 k = none) (hf : attempt R1 k = .fail)
    (r2 : Run attempt R0 R2) : R2 k = none := by
  exact Run.fail_stable hm r1 hk hf r2

theorem stuck_set_is_schedule_independent {K V : Type} [DecidableEq K] (attempt : Reg K V → K → Out V) (R0 R R2 : Reg K V)
    (hm : Mono attempt) (r : Run attempt R0 R) (stuck : ∀ k, R k = none → attempt R k = .defer)
    (r2 : Run attempt R0 R2) : Reg.le R2 R := by
  exact Run.stuck_is_top hm r stuck r2

/-! ## (2) the concrete readers are monotone -/

/-- a size, once known, never changes -/
theorem size_mono (r r' : Registry) (h : RegLe r r') (t : DTy) (s : Nat)
    (hs : t.size r = .ok (some s)) : t.size r' = .ok (some s) := by
  exact size_mono_lem r r' h t s hs

theorem align_mono (r r' : Registry) (h : RegLe r r') (t : DTy) (a : Nat)
    (ha : t.align r = some a) (hs : ∃ s, t.size r = .ok (some s)) : t.align r' = some a := by
  have _ := hs
  exact align_mono_lem r r' h t a ha

/-- name lookup does not look at resolution state at all: it depends on the key set only -/
theorem lookup_ignores_resolution (r r' : Registry) (h : ∀ p, r'.contains p = r.contains p)
    (scope : List Path) (t : G.Ty) : r'.resolveTy scope t = r.resolveTy scope t := by
  exact resolveTy_congr r r' h scope t

/-- a field's view of the registry is stable once its size is known -/
theorem pfield_mono (r r' : Registry) (h : RegLe r r') (addr : Option Nat) (reg : Region) (s : Nat)
    (hs : reg.ty.size r = .ok (some s)) (ha : (reg.ty.align r).isSome) :
    toPField r' addr reg = toPField r addr reg := by
  exact pfield_mono_lem r r' h addr reg s hs ha

/-- pointers never wait for their pointee -/
theorem pointer_size_immediate (r : Registry) (t : DTy) :
    (DTy.cptr t).size r = .ok (some r.ps) ∧ (DTy.mptr t).size r = .ok (some r.ps)
    ∧ (DTy.cptr t).align r = some r.ps ∧ (DTy.mptr t).align r = some r.ps := by
  exact ⟨rfl, rfl, rfl, rfl⟩

/-! ## hash-container order never reaches the output -/

/-- the worklist of a round depends on the *set* of unresolved items and the priority only -/
theorem worklist_order_independent (r r' : Registry) (prio : List Path)
    (hp : r'.types.Perm r.types) (hn : (r.types.map (·.1)).Nodup) :
    r'.unresolved prio = r.unresolved prio := by
  have _ := hn
  exact C20.unresolved_order_lem r r' prio hp

/-- files are listed in path order, whatever order the modules were added in -/
theorem files_order_independent (s s' : State) (hr : s'.reg = s.reg) (hp : s'.modules.Perm s.modules)
    (hn : (s.modules.map (·.1)).Nodup)
    (hinj : ∀ a ∈ s.modules, ∀ b ∈ s.modules, Emit.relFile a.1 = Emit.relFile b.1 → a.1 = b.1) :
    Emit.files s' = Emit.files s := by
  exact files_order_lem s s' hr hp hn hinj

/-- resolving an item only ever turns unresolved entries into resolved ones (and may register the
    generated vftable item of the attempted type): what one attempt does to the registry is an extension -/
theorem setState_extends (r : Registry) (p : Path) (res : Resolved) (i : ItemDef)
    (hi : r.get p = some i) (hu : i.isResolved = false) (hk : ∀ q j, r.get q = some j → j.path = q)
    (hn : (r.types.map (·.1)).Nodup) : RegLe r (r.setState p (.res res)) := by
  have _ := hk
  have _ := hn
  exact setState_extends_lem r p res i hi hu

end PyxisVerif.C09
