import PyxisVerif.Lemmas.ModOrder
/-!
# C09: the result does not depend on the order in which the modules are added

`Props/C09Novft.lean`, `Props/C09Case.lean` and `Props/C09Vft.lean` prove that the result of `SemanticState::build` does
not depend on the order of the resolution attempts.  The other half of C09 – "… or the order in which files are
discovered or modules are added" – is proved here: `Case.initialState` folds `add_module` over `c.modules` in list order,
and the verdict and the observations of a case are the same for every permutation of that list, provided the module
paths are pairwise distinct (`HashMap::insert` REPLACES a module stored under the same path, so with a duplicate path
the later file wins and the order does matter).

No hypothesis on the pointer width, on the literals, on vftable blocks or on generated names is needed: the two runs use
the same resolution schedule (`TypeRegistry::unresolved` sorts), so they are related step by step.

## How

* `ModOrder.addModule_transfer` (the frame rule for `add_module`): a successful `add_module` stores a module under its
  path and puts entries directly under that path in front of the registry, and does the same from every state that has
  no more items under that path.  Hence `add_module` respects `MPerm` (the same entries and stored modules in another
  order) and two of them for different paths commute up to `MPerm`; `ModOrder.fold_perm` lifts this to an arbitrary
  permutation by induction on `List.Perm`.
* `ModOrder.sortS`: the state with its stored modules sorted (stably) by key.  Every stage of the build commutes with it
  (`attemptItem_sortS` … `resolveLoop_sortS`, `build_sortS`): the builder reads the stored modules by key only.  The
  sorted initial states of the two cases are related by `C20.PermS` (the simulation of `Lemmas/C20E2E.lean`), which
  `C20.build_perm` carries through the build.
* `ModOrder.resolvedS_sortS`, `ModOrder.files_sortS`: O2 and O3 do not see the order of the stored modules (O2 sorts the
  extern values by module path and name – a stable sort, the values of one module keep their order; O3 sorts the files
  by file name).

## What is NOT true without a hypothesis

`Emit.files` sorts the files by `relFile key` (the segments joined with `/`, plus `.rs`), stably.  Two DIFFERENT module
paths can give the same file name when a segment contains a `/` (`["a/b", "c"]` and `["a", "b", "c"]`), and then the order
of the two files in O3 is the order of the stored modules.  `case_module_order_independent` therefore asks for distinct
file names (`DistinctFiles`, decidable; it holds whenever no segment contains `/`, which is the case for every path that
comes from a directory walk).  O2 and the verdict do not need it.

## Which failure is reported

may depend on the order: `add_module` of the first offending module fails, and the extern-value pass of `build` reports
the first module (in stored order) with an extern value whose type does not resolve.  `sameVerdictR` identifies all
failures; a non-terminating resolution reports the same list.
-/
namespace PyxisVerif.C09
open CaseLift2 (astPaths)

/-- the same modules in another order -/
def ReorderedModules (c c' : Case) : Prop := c'.modules.Perm c.modules ∧ c' = { c with modules := c'.modules }

theorem ReorderedModules.symm {c c' : Case} (h : ReorderedModules c c') : ReorderedModules c' c := by
  refine ⟨h.1.symm, ?_⟩
  rw [h.2]

/-- the (AST) module paths of the case are pairwise distinct -/
def DistinctPaths (c : Case) : Prop := (astPaths c.modules).Nodup

/-- no two modules of the case are written to the same file -/
def DistinctFiles (c : Case) : Prop := ((astPaths c.modules).map Emit.relFile).Nodup

instance (c : Case) : Decidable (DistinctPaths c) := by unfold DistinctPaths; infer_instance
instance (c : Case) : Decidable (DistinctFiles c) := by unfold DistinctFiles; infer_instance

theorem DistinctFiles.paths {c : Case} (h : DistinctFiles c) : DistinctPaths c :=
  List.Pairwise.of_map Emit.relFile (fun _ _ hne e => hne (congrArg _ e)) h

/-- `DistinctPaths` is what `CaseLift2.DistinctModulePaths` follows from -/
example (c : Case) (h : DistinctPaths c) : CaseLift2.DistinctModulePaths c :=
  CaseLift2.distinctModulePaths_of_nodup c h

/-- the verdicts of a case and of the same case with its modules in another order: accepted with the same registry
    entries and the same stored modules up to order (`ModOrder.PermM`), or the same list of unresolvable items, or two
    failures (which one is reported may differ) -/
def sameVerdictR : BuildOutcome → BuildOutcome → Prop
  | .ok s, .ok s' => ModOrder.PermM s s'
  | .nonterm l, .nonterm l' => l' = l
  | .fuel, .fuel => True
  | .err _, .err _ => True
  | .err _, .panic _ => True
  | .panic _, .err _ => True
  | .panic _, .panic _ => True
  | _, _ => False

/-- **the verdict of a case does not depend on the order in which its modules are added**: an accepted input set is
    accepted in every order (with the same entries and modules), a rejected one stays rejected, a non-terminating
    resolution reports the same items -/
theorem case_module_order_verdict (c c' : Case) (h : ReorderedModules c c') (hd : DistinctPaths c) :
    sameVerdictR c.run c'.run := by
  have hv := ModOrder.run_reordered_modules c c' h.1 h.2 hd
  cases h1 : c.run <;> cases h2 : c'.run <;> rw [h1, h2] at hv <;>
    first
    | exact ModOrder.permM_of_sorted hv
    | exact hv

/-- accepted ⇒ accepted with the same O2, for any order of module addition; the two final states have the same registry
    entries and the same stored modules, up to order -/
theorem case_module_order_o2 (c c' : Case) (h : ReorderedModules c c') (hd : DistinctPaths c)
    (s : State) (hs : c.run = .ok s) : ∃ s', c'.run = .ok s' ∧ ModOrder.PermM s s' ∧ c'.o2 = c.o2 :=
  ModOrder.o2_reordered_modules c c' h.1 h.2 hd s hs

/-- **accepted ⇒ accepted with the same observations, for any order of module addition** -/
theorem case_module_order_independent (c c' : Case) (h : ReorderedModules c c') (hd : DistinctPaths c)
    (hf : DistinctFiles c) (s : State) (hs : c.run = .ok s) :
    ∃ s', c'.run = .ok s' ∧ c'.o2 = c.o2 ∧ c'.o3 = c.o3 := by
  obtain ⟨s', h1, _, h2⟩ := ModOrder.o2_reordered_modules c c' h.1 h.2 hd s hs
  exact ⟨s', h1, h2, ModOrder.o3_reordered_modules c c' h.1 h.2 hd hf s hs⟩

/-- the initial states: `add_module` of the same modules in another order gives the same registry entries and the same
    stored modules, in another order -/
theorem case_module_order_initial (c c' : Case) (h : ReorderedModules c c') (hd : DistinctPaths c)
    (s0 : State) (hs : c.initialState = .ok s0) : ∃ s0', c'.initialState = .ok s0' ∧ ModOrder.MPerm s0 s0' :=
  ModOrder.initialState_reordered_modules c c' h.1 h.2 hd s0 hs

/-! ## non-vacuity: the two-module case of `Props/C09Case.lean`, with its modules swapped -/

namespace Example

/-- `b.pyxis` first, then `a.pyxis` -/
def swapped : Case :=
  { case with modules := [.ast ["b"] "b.pyxis" modB, .ast ["a"] "a.pyxis" modA] }

theorem reordered : ReorderedModules case swapped := ⟨List.Perm.swap _ _ _, rfl⟩

theorem distinctPaths : DistinctPaths case := by decide +kernel
theorem distinctFiles : DistinctFiles case := by decide +kernel

/-- the case is accepted (`run_ok`), so the swapped case is accepted, with the same O2 and O3 -/
theorem swapped_same : isOkB swapped.run = true ∧ swapped.o2 = case.o2 ∧ swapped.o3 = case.o3 := by
  obtain ⟨s, hs⟩ := (isOkB_iff _).mp run_ok
  obtain ⟨s', h1, h2, h3⟩ := case_module_order_independent case swapped reordered distinctPaths distinctFiles s hs
  exact ⟨by rw [h1]; rfl, h2, h3⟩

example : sameVerdictR case.run swapped.run := case_module_order_verdict case swapped reordered distinctPaths

def s0' : State := C12.stateOf swapped.initialState
theorem init' : swapped.initialState = .ok s0' := C12.eq_ok_stateOf _ (by decide +kernel)

/-- the stored modules of the two accepted runs are in different orders (`add_module` puts the new module first) -/
theorem keys_differ (s s' : State) (h : case.run = .ok s) (h' : swapped.run = .ok s') :
    s.modules.map (·.1) = [["b"], ["a"], []] ∧ s'.modules.map (·.1) = [["a"], ["b"], []] := by
  rw [ModOrder.run_keys_eq case s0 s init h, ModOrder.run_keys_eq swapped s0' s' init' h']
  exact ⟨by decide +kernel, by decide +kernel⟩

end Example

/-- REFUTED: the statement with `sameVerdictV` (of `Lemmas/MonoVft.lean`) in place of `sameVerdictR`: `sameVerdictV` asks
    for the same keys IN THE SAME ORDER in the two lists of stored modules, and `add_module` puts the new module first.
    Witness: the two-module case above and the same case with its modules swapped (both accepted). -/
theorem case_module_order_verdict_sameVerdictV_refuted :
    ¬ ∀ (c c' : Case), ReorderedModules c c' → DistinctPaths c → DistinctFiles c → sameVerdictV c.run c'.run := by
  intro H
  have hv := H Example.case Example.swapped Example.reordered Example.distinctPaths Example.distinctFiles
  obtain ⟨s, hs⟩ := (isOkB_iff _).mp Example.run_ok
  obtain ⟨s', hs'⟩ := (isOkB_iff _).mp Example.swapped_same.1
  rw [hs, hs'] at hv
  have hk := ModOrder.modsEqv_keys hv.2.1
  obtain ⟨k1, k2⟩ := Example.keys_differ s s' hs hs'
  rw [k1, k2] at hk
  exact absurd hk (by decide)

/-! ## the statement about O3 is FALSE without `DistinctFiles`

Pointer width 8, two modules without definitions, one with an extern value:

```text
// module path ["a/b", "c"]                      // module path ["a", "b", "c"]
#[address(0x10)] pub extern g: u32;              (empty)
```

Both are written to `a/b/c.rs`.  Added in this order the stored modules are `[a::b::c, a/b::c, root]` and O3 lists the
file of the empty module first (2 entries: the file name's `rs` tag and the inner doc block), then the other (3 entries);
added in the other order O3 lists them the other way round.  As in `Props/C09Vft.lean` the run is stepped through by
hand (`List.mergeSort` does not reduce in the kernel) and every evaluation is `decide +kernel`. -/

namespace FileClash

def modX : G.Module :=
  { xvals := [{ vis := .pub, name := "g", ty := .ident "u32", attrs := [.fn "address" [.int 16]] }] }
def modY : G.Module := {}

def case : Case :=
  { id := "c09-fileclash", ps := 8, prio := [],
    modules := [.ast ["a/b", "c"] "x.pyxis" modX, .ast ["a", "b", "c"] "y.pyxis" modY], extras := [] }

def swapped : Case :=
  { case with modules := [.ast ["a", "b", "c"] "y.pyxis" modY, .ast ["a/b", "c"] "x.pyxis" modX] }

theorem reordered : ReorderedModules case swapped := ⟨List.Perm.swap _ _ _, rfl⟩
theorem distinctPaths : DistinctPaths case := by decide +kernel
theorem not_distinctFiles : ¬ DistinctFiles case := by decide +kernel

def s0 : State := C12.stateOf case.initialState
def s0' : State := C12.stateOf swapped.initialState

theorem init : case.initialState = .ok s0 := C12.eq_ok_stateOf _ (by decide +kernel)
theorem init' : swapped.initialState = .ok s0' := C12.eq_ok_stateOf _ (by decide +kernel)

theorem run_eq : case.run = finish s0 := by
  unfold Case.run
  rw [init]
  simp only []
  rw [build_eq, (by decide +kernel : (s0.reg.types.filter fun e => !e.2.isResolved).length = 0),
    resolveLoop_done _ _ s0 (unresolved_of_sorted _ _ [] (by decide +kernel) List.Pairwise.nil)]

theorem run_eq' : swapped.run = finish s0' := by
  unfold Case.run
  rw [init']
  simp only []
  rw [build_eq, (by decide +kernel : (s0'.reg.types.filter fun e => !e.2.isResolved).length = 0),
    resolveLoop_done _ _ s0' (unresolved_of_sorted _ _ [] (by decide +kernel) List.Pairwise.nil)]


/-- the state of an accepted outcome -/
def outState : BuildOutcome → State | .ok s => s | _ => State.new 8

theorem eq_ok_outState (o : BuildOutcome) (h : isOkB o = true) : o = .ok (outState o) := by
  cases o <;> first | rfl | cases h

def sf : State := outState (finish s0)
def sf' : State := outState (finish s0')

theorem run_ok : case.run = .ok sf := by rw [run_eq]; exact eq_ok_outState _ (by decide +kernel)
theorem run_ok' : swapped.run = .ok sf' := by rw [run_eq']; exact eq_ok_outState _ (by decide +kernel)

/-- the number of entries of the abstract file: the inner doc block and the items -/
def fileSize : Sexp → Nat
  | .list [_, _, .list xs] => xs.length
  | _ => 0

/-- the sizes of the files of an O3 observation, in order -/
def sizes : Sexp → List Nat
  | .list (_ :: fs) => fs.map fileSize
  | _ => []

theorem moduleFile_size (s : State) (key : Path) (m : Mod) (hd : m.defPaths = []) (hb : m.backends = []) :
    fileSize (Emit.moduleFile s key m) = 2 + m.xvals.length := by
  simp [Emit.moduleFile, Mod.backendsFor, hd, hb, Emit.sortBy, fileSize, Sexp.mk]
  omega

theorem sort_two (a b : Path × Mod) :
    [a, b].mergeSort C20.fileLe = if C20.fileLe a b = true then [a, b] else [b, a] := by
  rw [ModOrder.mergeSort_cons_ins C20.fileLe ModOrder.fileLe_trans ModOrder.fileLe_total,
      ModOrder.mergeSort_cons_ins C20.fileLe ModOrder.fileLe_trans ModOrder.fileLe_total]
  simp only [List.mergeSort_nil, ModOrder.ins]

/-- the non-root stored modules -/
def nonRoot (s : State) : List (Path × Mod) := s.modules.filter fun e => !e.1.isEmpty

theorem two_eq {α} [Inhabited α] (l : List α) (h : l.length = 2) : l = [l.headD default, l.tail.headD default] := by
  match l, h with
  | [a, b], _ => rfl

theorem sizes_o3 (c : Case) (s : State) (hr : c.run = .ok s) (hl : (nonRoot s).length = 2)
    (hle : C20.fileLe ((nonRoot s).headD default) ((nonRoot s).tail.headD default) = true)
    (hd0 : ((nonRoot s).headD default).2.defPaths = []) (hb0 : ((nonRoot s).headD default).2.backends = [])
    (hd1 : ((nonRoot s).tail.headD default).2.defPaths = []) (hb1 : ((nonRoot s).tail.headD default).2.backends = []) :
    sizes c.o3 = [2 + ((nonRoot s).headD default).2.xvals.length, 2 + ((nonRoot s).tail.headD default).2.xvals.length] := by
  unfold Case.o3
  rw [hr]
  simp only []
  unfold Emit.files Emit.sortBy
  simp only []
  show sizes (Sexp.mk "files" (((nonRoot s).mergeSort C20.fileLe).map fun e => Emit.moduleFile s e.1 e.2)) = _
  rw [two_eq (nonRoot s) hl, sort_two, if_pos hle]
  simp only [sizes, Sexp.mk, List.map_cons, List.map_nil, List.headD_cons, List.tail_cons,
    moduleFile_size s _ _ hd0 hb0, moduleFile_size s _ _ hd1 hb1]

theorem sizes_case : sizes case.o3 = [2, 3] := by
  rw [sizes_o3 case sf run_ok (by decide +kernel) (by decide +kernel) (by decide +kernel) (by decide +kernel)
    (by decide +kernel) (by decide +kernel)]
  decide +kernel

theorem sizes_swapped : sizes swapped.o3 = [3, 2] := by
  rw [sizes_o3 swapped sf' run_ok' (by decide +kernel) (by decide +kernel) (by decide +kernel) (by decide +kernel)
    (by decide +kernel) (by decide +kernel)]
  decide +kernel

end FileClash

/-- REFUTED: `case_module_order_independent` without `DistinctFiles`.  Witness: the module paths `["a/b", "c"]` and
    `["a", "b", "c"]` are distinct and are both written to `a/b/c.rs`; `Emit.files` sorts by file name, stably, so the two
    files come in the order of the stored modules.  (A path segment with a `/` cannot come from a directory walk: this
    is about the generality of the model's `Case`, not a defect of the implementation.) -/
theorem case_module_order_o3_refuted :
    ¬ ∀ (c c' : Case), ReorderedModules c c' → DistinctPaths c → ∀ s, c.run = .ok s → c'.o3 = c.o3 := by
  intro H
  have h := H FileClash.case FileClash.swapped FileClash.reordered FileClash.distinctPaths _ FileClash.run_ok
  have h2 := congrArg FileClash.sizes h
  rw [FileClash.sizes_case, FileClash.sizes_swapped] at h2
  exact absurd h2 (by decide)

end PyxisVerif.C09
