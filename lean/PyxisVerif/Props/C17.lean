import PyxisVerif.Spec.C17
import PyxisVerif.Lemmas.C17
/-!
# C17 – visibility, derives, packing and documentation are carried over faithfully
-/
namespace PyxisVerif.C17
open Gen

/-! ## documentation -/

/-- `Attributes::doc` keeps exactly the written lines: joined with newlines, `none` when there are none -/
theorem doc_join (attrs : List G.Attr) (h : docsAreStrings attrs = true) :
    G.docOf attrs = some (if docStrings attrs = [] then none else some ("\n".intercalate (docStrings attrs))) := by
  rw [docOf_eq]; exact foldl_docStep_start attrs h

theorem doc_not_string_rejected (attrs : List G.Attr) (h : docsAreStrings attrs = false) : G.docOf attrs = none := by
  rw [docOf_eq]; exact foldl_docStep_bad _ attrs h

/-- **line for line, in order**: the doc attributes emitted for an item are the lines written on it
    (each written line is one line: no embedded newline) -/
theorem docs_line_for_line (attrs : List G.Attr) (h : docsAreStrings attrs = true)
    (hn : ∀ d ∈ docStrings attrs, '\n' ∉ d.toList) :
    (G.docOf attrs).map Emit.docLines = some (docStrings attrs) := by
  exact docLines_docOf attrs h hn

/-- where docs land: the struct carries the type's doc, each field its region's doc, each wrapper its
    function's doc, each vftable slot its function's doc; module docs become the inner doc lines -/
theorem docs_on_struct_and_fields (reg : Registry) (path : Path) (size align : Nat) (vis : Vis) (td : TypeDefn) :
    ∃ derives repr tl, Emit.typeItems reg path size align vis td =
      Sexp.mk "struct" ([Emit.docsS td.doc, derives, repr, Emit.visS vis, .str (path.getLast?.getD "")] ++
        td.regions.map fun r => Sexp.mk "fld" [Emit.docsS r.doc, Emit.visS r.vis, .str (r.name.getD ""), .str (Emit.rtyStr r.ty)])
      :: tl := by
  obtain ⟨tl, h⟩ := typeItems_head reg path size align vis td
  exact ⟨_, _, tl, h⟩

theorem docs_on_wrapper (f : SFunc) :
    ∃ tl, Emit.methodS f = Sexp.mk "method" (Emit.docsS f.doc :: Emit.visS f.vis :: .str f.name :: tl) := by
  exact methodS_head f

theorem docs_on_slot (owner : Path) (f : SFunc) :
    (functionToRegion owner f).doc = f.doc ∧ (functionToRegion owner f).vis = f.vis
      ∧ (functionToRegion owner f).name = some f.name := by
  exact ⟨rfl, rfl, rfl⟩

/-- a built function carries the docs written on it, and its declared visibility -/
theorem function_doc_vis (reg : Registry) (scope : List Path) (v : Bool) (f : G.Func) (sf : SFunc)
    (h : buildFunction reg scope v f = .ok sf) : G.docOf f.attrs = some sf.doc ∧ sf.vis = f.vis := by
  exact function_doc_vis_aux reg scope v f sf h

/-- copies inherited by derived types keep docs and visibility (only name and body are rewritten) -/
theorem inherited_copy_keeps_doc (base : String) (acc : InjAcc) (fs : List SFunc) :
    ∀ g ∈ (addFunctions base acc fs).fns, g ∈ acc.fns ∨
      ∃ f ∈ fs, f.vis = .pub ∧ g.doc = f.doc ∧ g.vis = f.vis ∧ g.args = f.args ∧ g.ret = f.ret ∧ g.cc = f.cc
        ∧ g.body = .field base f.name := by
  exact inherited_aux base acc fs

/-! ## visibility of generated members -/

/-- generated padding fields are private and undocumented; named source fields keep visibility and doc -/
theorem padding_private (reg : Registry) (off : Nat) (placed : List (Layout.Placed Region)) (regions : List Region)
    (h : nameRegions reg off placed = .ok regions) :
    ∀ k (hk : k < placed.length) (hk' : k < regions.length),
      (placed[k].src = none → regions[k].vis = .priv ∧ regions[k].doc = none)
      ∧ (∀ r, placed[k].src = some r → r.name.isSome → regions[k] = r)
      ∧ (∀ r, placed[k].src = some r → r.name = none → regions[k].vis = .priv ∧ regions[k].doc = none) := by
  exact nameRegions_spec reg off placed regions h

theorem placeholder_private (j : Nat) : (placeholderFn j).vis = .priv ∧ (placeholderFn j).doc = none := by
  exact ⟨rfl, rfl⟩

/-! ## derives and packing -/

/-- the marker attributes of a type are read as the property says -/
theorem type_flags (attrs : List G.Attr) (ta : TypeAttrs) (h : Res.foldlM typeAttrStep {} attrs = .ok ta) :
    Emit.derivesOf ta.copyable ta.cloneable ta.defaultable = specDerives attrs
    ∧ ta.packed = hasIdent attrs "packed" := by
  exact type_flags_aux attrs ta h

theorem enum_flags (attrs : List G.Attr) (ea : EnumAttrs) (h : Res.foldlM enumAttrStep {} attrs = .ok ea) :
    Emit.derivesOf ea.copyable ea.cloneable ea.defaultable = specDerives attrs := by
  exact enum_flags_aux attrs ea h

/-- packed types are emitted `repr(C, packed)` with no alignment attribute; all others `repr(C, align(N))` -/
theorem packed_no_align (reg : Registry) (path : Path) (size align : Nat) (vis : Vis) (td : TypeDefn) :
    ∃ docs derives rest tl, Emit.typeItems reg path size align vis td =
      Sexp.mk "struct" (docs :: derives ::
        Sexp.mk "repr" (if td.packed then [.str "C", .str "packed"] else [.str "C", .str ("align(" ++ toString align ++ ")")]) :: rest) :: tl := by
  obtain ⟨tl, h⟩ := typeItems_head reg path size align vis td
  exact ⟨_, _, _, tl, h⟩

/-! ## non-vacuity -/
example : docStrings [.assign "doc" (.str " a"), .ident "copyable", .assign "doc" (.str "")] = [" a", ""] := by decide
example : (G.docOf [.assign "doc" (.str " a"), .ident "copyable", .assign "doc" (.str "")]).map Emit.docLines = some [" a", ""] := by decide
example : specDerives [.ident "cloneable", .ident "defaultable"] = ["Clone", "Default"] := by decide

end PyxisVerif.C17
