import PyxisVerif.Spec.C11
import PyxisVerif.Lemmas.C11
/-!
# C11 – type names bind to the definition the scoping rules select
-/
namespace PyxisVerif.C11

/-- **resolve = the precedence rule**, for a module whose own path is not itself the path of a type
    (`_partial`: without that guard the statement is false, see `own_path_is_type_refuted`) -/
theorem resolve_spec_partial (r : Registry) (own : Path) (uses : List Path) (name : String)
    (hown : r.contains own = false) :
    r.resolveString (own :: uses) name = (specBinding r own uses name).map DTy.raw := by
  exact resolve_spec r own uses name hown

/-- the unguarded statement is refuted: module `a::b` in a registry that also has a *type* `a::b`
    (defined by `a.pyxis`) and a local type `a::b::b`: the name `b` binds to the type `a::b`, not to
    the local definition -/
theorem own_path_is_type_refuted :
    ∃ (r : Registry) (own : Path) (uses : List Path) (name : String),
      r.resolveString (own :: uses) name ≠ (specBinding r own uses name).map DTy.raw := by
  exact ⟨cexReg, ["a", "b"], [], "b", cex⟩

/-- every place where a type name is looked up – field types, enum bases, parameters, return types,
    extern values, at any pointer / array nesting – goes through that one rule, with the scope
    "own module path, then the `use` entries in source order" -/
theorem lookup_sites (r : Registry) (scope : List Path) (s : String) :
    r.resolveTy scope (.ident s) = (match r.resolveString scope s with | some t => .ok t | none => .defer)
    ∧ (∀ t, r.resolveTy scope (.cptr t) = (match r.resolveTy scope t with | .ok t => .ok (.cptr t) | e => e))
    ∧ (∀ t, r.resolveTy scope (.mptr t) = (match r.resolveTy scope t with | .ok t => .ok (.mptr t) | e => e))
    ∧ (∀ t n, r.resolveTy scope (.arr t n) = (match r.resolveTy scope t with | .ok t => .ok (.arr t n) | e => e)) := by
  refine ⟨?_, ?_, ?_, ?_⟩ <;> intros <;> rfl

theorem scope_is_own_then_uses (m : Mod) : m.scope = m.path :: m.uses := by
  rfl

/-- the emitted reference is the fully qualified crate path of exactly the selected definition
    (built-ins by their bare name, `void` as `c_void`) -/
theorem emitted_reference (p : Path) :
    Emit.tyStr (.raw p) =
      if p = ["void"] then "::std::ffi::c_void"
      else if p.length > 1 then "crate::" ++ "::".intercalate p else "::".intercalate p := by
  exact tyStr_raw p

/-- the size and alignment used for layout are those recorded for exactly the selected definition -/
theorem layout_uses_binding (r : Registry) (p : Path) :
    DTy.size r (.raw p) = .ok ((r.get p).bind fun i => i.resolved?.map (·.size))
    ∧ DTy.align r (.raw p) = (r.get p).bind fun i => i.resolved?.map (·.align) := by
  exact ⟨rfl, rfl⟩

/-- a selected binding is always an existing definition -/
theorem binding_exists (r : Registry) (own : Path) (uses : List Path) (name : String) (p : Path)
    (h : specBinding r own uses name = some p) : r.contains p = true := by
  exact binding_exists_aux r own uses name p h

/-! ## non-vacuity: `use x::T; use y;` in module `m` that also defines `T`; `y` defines `T` and `U` -/
def exReg : Registry :=
  let mk (p : Path) (size : Nat) : ItemDef := { vis := .pub, path := p, state := .res { size, align := 1, inner := .type {} }, cat := .defined }
  (((({ ps := 4 } : Registry).add (mk ["x", "T"] 1)).add (mk ["m", "T"] 2)).add (mk ["y", "T"] 3)).add (mk ["y", "U"] 4)

example : specBinding exReg ["m"] [["x", "T"], ["y"]] "T" = some ["x", "T"] := by decide
example : specBinding exReg ["m"] [["y"]] "T" = some ["m", "T"] := by decide
example : specBinding exReg ["m"] [["y"]] "U" = some ["y", "U"] := by decide
example : exReg.contains ["m"] = false := by decide

end PyxisVerif.C11
