import PyxisVerif.Lemmas.CaseLift
/-!
# Per-item theorems, lifted to every accepted case

The theorems of `Props/C01.lean`, `C06.lean`, `C08.lean`, `C15.lean`, `C16.lean`, `C17.lean` are statements about one
accepted `type_definition::build` / `enum_definition::build` / `function::build` / attribute loop.  Here they are
restated for **every accepted case**: hypotheses `c.ps = 4 ∨ c.ps = 8`, `C12.CaseBounded c` (`isize` literals, what the
parser produces) and `c.run = .ok s`; conclusions quantified over every entry of the final registry `s.reg` (and, where
the property is about emitted text, over `Emit.itemItems s.reg i` – the items `Emit.files s` is made of,
`case_files_items`).

What makes this possible is the provenance invariant of `Lemmas/CaseLift.lean` (`case_good`, `case_type_origin`,
`case_enum_origin`, `case_xvals`): in the final registry of an accepted case every emitted struct is a generated vftable
struct or the result of an accepted build of a definition **written in a module of the case** (`CaseLift.Declared`),
registered under `module path ++ [name]` with the declared visibility; every resolved enum is the result of an accepted
`enum_definition::build` of such a definition; every extern value of a stored module is the conversion of an extern
value written in the case.  The state `s0` in which an item was built satisfies the invariants of the run
(`C12.StateOkB`, `Exec.Inv`), and the final registry extends the registry after the build (`C02.Ext`), so whatever the
per-item theorem reads from the registry (sizes of field types, the vftable of the first base) reads the same in the
final registry (`pfields_ext`, `baseVftable_ext`).

Naming: `PyxisVerif.Cxx.case_<per-item name>`.
-/
namespace PyxisVerif

/-! ## the emitted files are made of the registry's items -/
namespace CaseLift
open Gen

/-- **every item of every emitted file** of an accepted case is a backend block, an item printed for an entry of the
    final registry (`Emit.itemItems`, which the `case_*` theorems below describe), or the accessor of an extern value
    that is the conversion of one written in the case (with its type resolved in the final registry) -/
theorem case_files_items (c : Case) (s : State) (h : c.run = .ok s) (f : Sexp) (hf : f ∈ Emit.files s)
    (x : Sexp) (hx : x ∈ fileItems f) :
    ∃ e ∈ s.modules, e.1 ≠ [] ∧ f = Emit.moduleFile s e.1 e.2 ∧
      (Sexp.head? x = some "opaque-block" ∨
       (∃ q ∈ e.2.defPaths, ∃ i, s.reg.get q = some i ∧ i.cat = .defined ∧ (∃ r, i.state = .res r) ∧
          x ∈ Emit.itemItems s.reg i) ∨
       (∃ xv ∈ e.2.xvals, x = Emit.xvalItem xv ∧ ∃ gx, DeclaredX c e.1 gx ∧ XvOf gx xv ∧
          ∃ t, s.reg.resolveTy e.2.scope xv.gty = .ok t ∧ xv.ty = some t)) := by
  obtain ⟨e, he, hne, hfe, hcases⟩ := files_items s f hf x hx
  refine ⟨e, he, hne, hfe, ?_⟩
  rcases hcases with hb | ⟨q, hq, i, hg, hxi⟩ | ⟨xv, hxv, rfl⟩
  · exact Or.inl hb
  · obtain ⟨hc, hr⟩ := itemItems_inv s.reg i x hxi
    exact Or.inr (Or.inl ⟨q, hq, i, hg, hc, hr, hxi⟩)
  · obtain ⟨gx, hgx, hof, ht⟩ := case_xvals c s h e he xv hxv
    exact Or.inr (Or.inr ⟨xv, hxv, rfl, gx, hgx, hof, ht⟩)

end CaseLift

/-! ## C01 -/
namespace C01
open Gen Layout CaseLift

/-- **C01 for every accepted case.**  Every emitted struct `p` of the final registry is a generated vftable struct
    (whose slot offsets are C04's) or was built from a definition `item` written in the case, and then – `sa.pending`
    being its declared fields (the statement loop over `d.stmts`, in the state the type was built in; each comes from a
    field statement with that statement's `#[address]`, name and resolved type, `FieldOf`), `vptr` its own
    vftable pointer if it has one, both *read in the final registry* – every named field that the description puts at
    offset `o` (`Exec.declaredOffsets` = the right-hand side of `C01.field_offsets_exact`: the written address, else the
    end of the previous field; the own pointer at 0) is at offset `o` of the emitted struct for the modelled compiler
    (`Exec.fieldOffset`, layouts of the field types as recorded in the final registry), and that is the offset the
    compiler computes when it lays the field types out *recursively* from the emitted definitions (`C02.Lay`).

    `Exec.DistinctFields td` is rustc's demand that no two fields of the emitted struct share a name (E0124). -/
theorem case_field_offsets_exact (c : Case) (hps : c.ps = 4 ∨ c.ps = 8) (hb : C12.CaseBounded c) (s : State)
    (h : c.run = .ok s) (p : Path) (i : ItemDef) (r : Resolved) (td : TypeDefn)
    (hg : s.reg.get p = some i) (hs : i.state = .res r) (hin : r.inner = .type td) (hc : i.cat = .defined) :
    (∃ (reg0 : Registry) (owner : Path) (vis : Vis) (fns : List SFunc),
      buildVftableItem reg0 owner vis fns = some i ∧ i.path = p) ∨
    ∃ (item : G.Item) (d : G.TypeDef) (s0 : State) (module : Mod) (ta : TypeAttrs) (sa : StmtAcc) (vptr : Option Region),
      Declared c p item ∧ item.inner = .type d ∧ s0.moduleFor p = some module ∧ C02.Ext s0.reg s.reg ∧
      Res.foldlM typeAttrStep {} d.attrs = .ok ta ∧
      Res.foldlM (stmtStep s0.reg module.scope) {} (d.stmts.zipIdx.map fun q => (q.2, q.1)) = .ok sa ∧
      (∀ q ∈ sa.pending, ∃ st ∈ d.stmts, FieldOf s0.reg module.scope st q) ∧
      (vptr = none ∨ ∃ vpath, vftablePath p = some vpath ∧ vptr = some (C06.ownPointer vpath)) ∧
      ∀ (o : Nat) (rg : Region) (b : String), rg.name = some b →
        (o, rg) ∈ Exec.declaredOffsets (vptr.map (toPField s.reg none)) (sa.pending.map fun q => toPField s.reg q.1 q.2) →
        Exec.DistinctFields td →
        Exec.fieldOffset s.reg td b = some o ∧ td.regions.find? (fun x => x.name == some b) = some rg ∧
        ∃ k, Exec.fieldIndex td b = some k ∧
          ∀ (flds : List RustSem.Fld), flds.length = td.regions.length →
            (∀ x ∈ td.regions, ¬ C02.Tainted s.reg (.rty x.ty)) →
            (∀ j (h1 : j < td.regions.length) (h2 : j < flds.length),
              C02.Lay s.reg (.rty (td.regions[j]).ty) (flds[j]).size (flds[j]).align) →
            (RustSem.offsets td.packed 0 flds)[k]? = some o := by
  rcases case_type_origin c hps hb s h p i r td hg hs hin hc with hv | ⟨s0, s1, item, d, hok, hinv, _, hD, hget, hd, hbt, he, hi⟩
  · exact Or.inl hv
  · right
    obtain ⟨module, module1, ta, sa, vft, vregion, placed, acc1, acc2, td', hmod, hmod1, hdoc, hta, hsa, hbv, hres, hn, hal,
      hacc1, hacc2, hin', hfns, hvft, _⟩ := buildType_full s0 s1 p item.vis d r hbt
    rw [hin] at hin'
    cases hin'
    have he01 := Exec.buildVftable_ext s0 s1 p item.vis _ _ _ hbv
    have hprims1 : C02.PrimsOk s1.reg := Exec.primsOk_ext he01 hinv.1.prims
    obtain ⟨hpv, hpf⟩ := pfields_ext he vregion sa.pending ta.targetSize placed r.size hres
    refine ⟨item, d, s0, module, ta, sa, vregion, hD, hd, hmod, he01.trans he, hta, hsa, ?_, ?_, ?_⟩
    · intro q hq
      rcases stmts_pending_src s0.reg module.scope _ {} sa hsa q hq with hnil | ⟨e, he', hfo⟩
      · cases hnil
      · obtain ⟨x, hx, rfl⟩ := List.mem_map.mp he'
        exact ⟨x.1, (List.mem_zipIdx hx).2.2 ▸ List.getElem_mem _, hfo⟩
    · rcases buildVftable_cases s0 s1 p item.vis _ sa.vfns vft vregion hbv with
        ⟨_, _, hp, _⟩ | ⟨_, _, hp, _⟩ | ⟨_, _, _, _, hp, _⟩ | ⟨_, vpath, _, hvp, _, hp, _⟩ | ⟨_, _, _, _, _, _, _, _, _, hp, _⟩
      · exact Or.inl hp
      · exact Or.inl hp
      · exact Or.inl hp
      · exact Or.inr ⟨vpath, hvp, hp⟩
      · exact Or.inl hp
    · intro o rg b hbn hmem hdf
      rw [hpv, hpf] at hmem
      obtain ⟨hoff, hfind⟩ := Exec.fieldOffset_declared s1.reg hprims1 vregion sa.pending ta.targetSize ta.align placed
        r.size r.align td hres hal hn hdf o rg b hbn hmem
      have hoff' := Exec.fieldOffset_mono he td b o hoff
      obtain ⟨k, offs, hk, hoffs, hko⟩ := fieldOffset_inv s.reg td b o hoff'
      refine ⟨hoff', hfind, k, hk, ?_⟩
      intro flds hlen hnv hl
      rw [Exec.fieldOffsets_compiled s (C02.case_sound c hps hb s h) td offs hoffs hnv flds hlen hl]
      exact hko

end C01

/-! ## C06

In the four theorems, `fb := (sa.pending.map (·.2)).find? (·.isBase)` is the first `#[base]` field among the declared
fields of the definition, and `baseVftable s.reg fb` reads the vftable of that field's type **in the final registry**
(`.ok (some (name, table))`, or `.ok none` when there is no `#[base]` field or its type has no table;
`Exec.baseVftable_some_inv` unfolds it to `Exec.typeDefn? s.reg … = some btd ∧ btd.vft = some table`). -/
namespace C06
open Gen Layout CaseLift

/-- **own pointer, for every accepted case**: every emitted struct of the final registry whose definition (written in
    the case) starts with a vftable block, and whose first base – as resolved in the final registry – supplies no table,
    has the block's functions (`convertVfuncs`) as its table, reached through no base field, with accessor return type
    `*const <T>Vftable`; its first field is exactly the pointer field `vftable : *const <T>Vftable` (private), which the
    modelled compiler puts at offset 0 -/
theorem case_own_pointer (c : Case) (hps : c.ps = 4 ∨ c.ps = 8) (hb : C12.CaseBounded c) (s : State)
    (h : c.run = .ok s) (p : Path) (i : ItemDef) (r : Resolved) (td : TypeDefn)
    (hg : s.reg.get p = some i) (hs : i.state = .res r) (hin : r.inner = .type td) (hc : i.cat = .defined) :
    (∃ (reg0 : Registry) (owner : Path) (vis : Vis) (fns : List SFunc),
      buildVftableItem reg0 owner vis fns = some i ∧ i.path = p) ∨
    ∃ (item : G.Item) (d : G.TypeDef) (s0 : State) (module : Mod) (sa : StmtAcc),
      Declared c p item ∧ item.inner = .type d ∧ s0.moduleFor p = some module ∧ C02.Ext s0.reg s.reg ∧
      Res.foldlM (stmtStep s0.reg module.scope) {} (d.stmts.zipIdx.map fun q => (q.2, q.1)) = .ok sa ∧
      ∀ (st : G.Stmt) (gfns : List G.Func) (vpath : Path),
        d.stmts[0]? = some st → st.field = .vftable gfns → vftablePath p = some vpath →
        baseVftable s.reg ((sa.pending.map (·.2)).find? (·.isBase)) = .ok none →
        ∃ size out, vftableSizeAttr st.attrs = .ok size ∧ convertVfuncs s0.reg module.scope size gfns = .ok out ∧
          td.vft = some { fns := out, baseField := none, ty := .cptr (.raw vpath) } ∧
          td.regions.head? = some (ownPointer vpath) ∧ Exec.fieldOffset s.reg td vftableFieldName = some 0 := by
  rcases case_vft_master c hps hb s h p i r td hg hs hin hc with hv |
    ⟨item, d, s0, module, ta, sa, vptr, placed, hD, hd, hmod, he, hta, hsa, hres, hn, hblock, hnoblock, hptr, hcases⟩
  · exact Or.inl hv
  · refine Or.inr ⟨item, d, s0, module, sa, hD, hd, hmod, he, hsa, ?_⟩
    intro st gfns vpath hst hf hvp hbase
    obtain ⟨size, out, hsize, hconv, hvfns⟩ := hblock st gfns hst hf
    refine ⟨size, out, hsize, hconv, ?_⟩
    rcases hcases with ⟨h1, _⟩ | ⟨h1, _⟩ | ⟨fns, _, h2, _⟩ | ⟨fns, vpath', h1, h2, _, h4, h5⟩ |
      ⟨fns, vpath', bn, bv, _, _, h3, _⟩
    · rw [hvfns] at h1; cases h1
    · rw [hvfns] at h1; cases h1
    · rw [hvp] at h2; cases h2
    · rw [hvfns] at h1; cases h1
      rw [hvp] at h2; cases h2
      exact ⟨h5, hptr vpath h4⟩
    · rw [hbase] at h3; cases h3

/-- **the pointer is the first field exactly for types with an own pointer, for every accepted case**: the fields of
    every emitted struct are the named placement (read in the final registry) of an optional pointer region `vptr` and
    the declared fields; `vptr` is there iff the type has a vftable that is not reached through a base field; and when it
    is there it is `vftable : *const <T>Vftable`, the first field of the emitted struct, at offset 0 (so before all
    declared fields) -/
theorem case_pointer_first (c : Case) (hps : c.ps = 4 ∨ c.ps = 8) (hb : C12.CaseBounded c) (s : State)
    (h : c.run = .ok s) (p : Path) (i : ItemDef) (r : Resolved) (td : TypeDefn)
    (hg : s.reg.get p = some i) (hs : i.state = .res r) (hin : r.inner = .type td) (hc : i.cat = .defined) :
    (∃ (reg0 : Registry) (owner : Path) (vis : Vis) (fns : List SFunc),
      buildVftableItem reg0 owner vis fns = some i ∧ i.path = p) ∨
    ∃ (item : G.Item) (d : G.TypeDef) (s0 : State) (module : Mod) (ta : TypeAttrs) (sa : StmtAcc) (vptr : Option Region)
      (placed : List (Placed Region)),
      Declared c p item ∧ item.inner = .type d ∧ s0.moduleFor p = some module ∧ C02.Ext s0.reg s.reg ∧
      Res.foldlM typeAttrStep {} d.attrs = .ok ta ∧
      Res.foldlM (stmtStep s0.reg module.scope) {} (d.stmts.zipIdx.map fun q => (q.2, q.1)) = .ok sa ∧
      resolve (vptr.map (toPField s.reg none)) (sa.pending.map fun q => toPField s.reg q.1 q.2) ta.targetSize
        = .ok (placed, r.size) ∧
      nameRegions s.reg 0 placed = .ok td.regions ∧
      ((∃ ptr, vptr = some ptr) ↔ ∃ v, td.vft = some v ∧ v.baseField = none) ∧
      ∀ ptr, vptr = some ptr →
        (∃ vpath, vftablePath p = some vpath ∧ ptr = ownPointer vpath) ∧
        td.regions.head? = some ptr ∧ Exec.fieldOffset s.reg td vftableFieldName = some 0 ∧
        ∃ sz rest, placed = ⟨sz, (toPField s.reg none ptr).align, some ptr⟩ :: rest := by
  rcases case_vft_master c hps hb s h p i r td hg hs hin hc with hv |
    ⟨item, d, s0, module, ta, sa, vptr, placed, hD, hd, hmod, he, hta, hsa, hres, hn, hblock, hnoblock, hptr, hcases⟩
  · exact Or.inl hv
  · refine Or.inr ⟨item, d, s0, module, ta, sa, vptr, placed, hD, hd, hmod, he, hta, hsa, hres, hn, ?_, ?_⟩
    · rcases hcases with ⟨_, h2, h3, _⟩ | ⟨_, h2, bn, bv, _, h4⟩ | ⟨fns, _, _, h3, h4⟩ | ⟨fns, vpath, _, _, _, h4, h5⟩ |
        ⟨fns, vpath, bn, bv, _, _, _, _, _, h6, h7⟩
      · rw [h2, h3]; constructor
        · rintro ⟨_, hx⟩; cases hx
        · rintro ⟨_, hx, _⟩; cases hx
      · rw [h2, h4]; constructor
        · rintro ⟨_, hx⟩; cases hx
        · rintro ⟨v, hx, hy⟩; cases hx; cases hy
      · rw [h3, h4]; constructor
        · rintro ⟨_, hx⟩; cases hx
        · rintro ⟨_, hx, _⟩; cases hx
      · rw [h4, h5]; exact ⟨fun _ => ⟨_, rfl, rfl⟩, fun _ => ⟨_, rfl⟩⟩
      · rw [h6, h7]; constructor
        · rintro ⟨_, hx⟩; cases hx
        · rintro ⟨v, hx, hy⟩; cases hx; cases hy
    · intro ptr hp
      have hown : ∃ vpath, vftablePath p = some vpath ∧ ptr = ownPointer vpath := by
        rcases hcases with ⟨_, h2, _⟩ | ⟨_, h2, _⟩ | ⟨fns, _, _, h3, _⟩ | ⟨fns, vpath, _, h2, _, h4, _⟩ |
          ⟨fns, vpath, bn, bv, _, _, _, _, _, h6, _⟩
        · rw [hp] at h2; cases h2
        · rw [hp] at h2; cases h2
        · rw [hp] at h3; cases h3
        · rw [hp] at h4; cases h4; exact ⟨vpath, h2, rfl⟩
        · rw [hp] at h6; cases h6
      obtain ⟨vpath, hvp, rfl⟩ := hown
      obtain ⟨hhead, hoff⟩ := hptr vpath hp
      refine ⟨⟨vpath, hvp, rfl⟩, hhead, hoff, ?_⟩
      rw [hp] at hres
      obtain ⟨sz, rest, _, hor⟩ := C06.pointer_first _ _ ta.targetSize placed r.size hres
      rcases hor with ⟨_, hisarr⟩ | hpl
      · cases hisarr
      · exact ⟨sz, rest, hpl⟩

/-- **inherited, for every accepted case**: an emitted struct whose definition has no vftable block gets no pointer of
    its own, and its table is the first base's table – as found in the final registry – unchanged (same functions, same
    accessor return type), reached through that base field; without such a base it has no table -/
theorem case_inherited (c : Case) (hps : c.ps = 4 ∨ c.ps = 8) (hb : C12.CaseBounded c) (s : State)
    (h : c.run = .ok s) (p : Path) (i : ItemDef) (r : Resolved) (td : TypeDefn)
    (hg : s.reg.get p = some i) (hs : i.state = .res r) (hin : r.inner = .type td) (hc : i.cat = .defined) :
    (∃ (reg0 : Registry) (owner : Path) (vis : Vis) (fns : List SFunc),
      buildVftableItem reg0 owner vis fns = some i ∧ i.path = p) ∨
    ∃ (item : G.Item) (d : G.TypeDef) (s0 : State) (module : Mod) (ta : TypeAttrs) (sa : StmtAcc) (vptr : Option Region)
      (placed : List (Placed Region)),
      Declared c p item ∧ item.inner = .type d ∧ s0.moduleFor p = some module ∧ C02.Ext s0.reg s.reg ∧
      Res.foldlM typeAttrStep {} d.attrs = .ok ta ∧
      Res.foldlM (stmtStep s0.reg module.scope) {} (d.stmts.zipIdx.map fun q => (q.2, q.1)) = .ok sa ∧
      resolve (vptr.map (toPField s.reg none)) (sa.pending.map fun q => toPField s.reg q.1 q.2) ta.targetSize
        = .ok (placed, r.size) ∧
      nameRegions s.reg 0 placed = .ok td.regions ∧
      ((∀ st, d.stmts[0]? = some st → C01.isFieldStmt st = true) →
        vptr = none ∧
        (match baseVftable s.reg ((sa.pending.map (·.2)).find? (·.isBase)) with
         | .ok (some (bn, bv)) => td.vft = some { fns := bv.fns, baseField := some bn, ty := bv.ty }
         | _ => td.vft = none)) := by
  rcases case_vft_master c hps hb s h p i r td hg hs hin hc with hv |
    ⟨item, d, s0, module, ta, sa, vptr, placed, hD, hd, hmod, he, hta, hsa, hres, hn, hblock, hnoblock, hptr, hcases⟩
  · exact Or.inl hv
  · refine Or.inr ⟨item, d, s0, module, ta, sa, vptr, placed, hD, hd, hmod, he, hta, hsa, hres, hn, ?_⟩
    intro hnb
    have hvf := hnoblock hnb
    rcases hcases with ⟨_, h2, h3, h4⟩ | ⟨_, h2, bn, bv, h3, h4⟩ | ⟨fns, h1, _⟩ | ⟨fns, vpath, h1, _⟩ |
      ⟨fns, vpath, bn, bv, h1, _⟩
    · exact ⟨h2, by rw [h4]; exact h3⟩
    · exact ⟨h2, by rw [h3]; exact h4⟩
    · rw [hvf] at h1; cases h1
    · rw [hvf] at h1; cases h1
    · rw [hvf] at h1; cases h1

/-- **accepted ⇒ prefix, for every accepted case**: every emitted struct of the final registry whose definition starts
    with a vftable block and whose first base – as resolved in the final registry – has a vftable: the base's slots are
    a prefix of the derived table's (same position, name, receiver, parameter types, return type, convention – the same
    function values), the type gets no pointer of its own, and records the base field through which the pointer is
    reached -/
theorem case_accept_implies_prefix (c : Case) (hps : c.ps = 4 ∨ c.ps = 8) (hb : C12.CaseBounded c) (s : State)
    (h : c.run = .ok s) (p : Path) (i : ItemDef) (r : Resolved) (td : TypeDefn)
    (hg : s.reg.get p = some i) (hs : i.state = .res r) (hin : r.inner = .type td) (hc : i.cat = .defined) :
    (∃ (reg0 : Registry) (owner : Path) (vis : Vis) (fns : List SFunc),
      buildVftableItem reg0 owner vis fns = some i ∧ i.path = p) ∨
    ∃ (item : G.Item) (d : G.TypeDef) (s0 : State) (module : Mod) (ta : TypeAttrs) (sa : StmtAcc) (vptr : Option Region)
      (placed : List (Placed Region)),
      Declared c p item ∧ item.inner = .type d ∧ s0.moduleFor p = some module ∧ C02.Ext s0.reg s.reg ∧
      Res.foldlM typeAttrStep {} d.attrs = .ok ta ∧
      Res.foldlM (stmtStep s0.reg module.scope) {} (d.stmts.zipIdx.map fun q => (q.2, q.1)) = .ok sa ∧
      resolve (vptr.map (toPField s.reg none)) (sa.pending.map fun q => toPField s.reg q.1 q.2) ta.targetSize
        = .ok (placed, r.size) ∧
      nameRegions s.reg 0 placed = .ok td.regions ∧
      ∀ (st : G.Stmt) (gfns : List G.Func) (vpath : Path) (bn : String) (bv : Vft),
        d.stmts[0]? = some st → st.field = .vftable gfns → vftablePath p = some vpath →
        baseVftable s.reg ((sa.pending.map (·.2)).find? (·.isBase)) = .ok (some (bn, bv)) →
        ∃ size out, vftableSizeAttr st.attrs = .ok size ∧ convertVfuncs s0.reg module.scope size gfns = .ok out ∧
          bv.fns <+: out ∧ (bv.fns.map slotSig) <+: (out.map slotSig) ∧ vptr = none ∧
          td.vft = some { fns := out, baseField := some bn, ty := .cptr (.raw vpath) } ∧
          ∃ rg bp btd, (sa.pending.map (·.2)).find? (·.isBase) = some rg ∧ rg.name = some bn ∧
            rg.ty = .data (.raw bp) ∧ Exec.typeDefn? s.reg bp = some btd ∧ btd.vft = some bv := by
  rcases case_vft_master c hps hb s h p i r td hg hs hin hc with hv |
    ⟨item, d, s0, module, ta, sa, vptr, placed, hD, hd, hmod, he, hta, hsa, hres, hn, hblock, hnoblock, hptr, hcases⟩
  · exact Or.inl hv
  · refine Or.inr ⟨item, d, s0, module, ta, sa, vptr, placed, hD, hd, hmod, he, hta, hsa, hres, hn, ?_⟩
    intro st gfns vpath bn bv hst hf hvp hbase
    obtain ⟨size, out, hsize, hconv, hvfns⟩ := hblock st gfns hst hf
    refine ⟨size, out, hsize, hconv, ?_⟩
    rcases hcases with ⟨h1, _⟩ | ⟨h1, _⟩ | ⟨fns, _, h2, _⟩ | ⟨fns, vpath', _, _, h3, _⟩ |
      ⟨fns, vpath', bn', bv', h1, h2, h3, h4, h5, h6, h7⟩
    · rw [hvfns] at h1; cases h1
    · rw [hvfns] at h1; cases h1
    · rw [hvp] at h2; cases h2
    · rw [hbase] at h3; cases h3
    · rw [hvfns] at h1; cases h1
      rw [hvp] at h2; cases h2
      rw [hbase] at h3; cases h3
      exact ⟨h4, h5, h6, h7, Exec.baseVftable_some_inv s.reg _ bn bv hbase⟩

end C06

/-! ## C08 -/
namespace C08
open Gen CaseLift

/-- **values, for every accepted case**: every resolved enum of the final registry was built from an enum definition
    written in the case (registered under `module path ++ [name]`), has exactly the discriminants the description says
    (`specValues`: the written literal, else predecessor + 1, else 0), and the enum item emitted for it lists exactly
    these variants with these values, in source order, under the declared visibility and name -/
theorem case_values (c : Case) (hps : c.ps = 4 ∨ c.ps = 8) (hb : C12.CaseBounded c) (s : State)
    (h : c.run = .ok s) (p : Path) (i : ItemDef) (r : Resolved) (ed : EnumDefn)
    (hg : s.reg.get p = some i) (hs : i.state = .res r) (hin : r.inner = .enum ed) :
    ∃ (item : G.Item) (d : G.EnumDef),
      Declared c p item ∧ item.inner = .enum d ∧ i = builtItem p item r ∧
      ed.fields = specValues 0 d.stmts ∧
      ∃ docs derives tl, Emit.itemItems s.reg i =
        Sexp.mk "enum" ([docs, derives, Sexp.mk "repr" [.str (Emit.tyStr ed.ty)], Emit.visS item.vis,
            .str (p.getLast?.getD "")] ++
          (specValues 0 d.stmts).zipIdx.map fun ((n, v), idx) =>
            Sexp.mk "var" [.str n, Sexp.ofOpt .int (some v), Sexp.ofBool (ed.defaultIdx == some idx)]) :: tl := by
  obtain ⟨s0, item, d, _, _, _, hD, _, hd, hbe, _, hi⟩ := case_enum_origin c hps hb s h p i r ed hg hs hin
  obtain ⟨ed', hin', hv⟩ := values s0 p d r hbe
  rw [hin] at hin'
  cases hin'
  refine ⟨item, d, hD, hd, hi, hv, ?_⟩
  obtain ⟨docs, derives, tl, hem⟩ := emitted p r.size item.vis ed
  refine ⟨docs, derives, tl, ?_⟩
  rw [itemItems_enum s.reg i r ed (by rw [hi]; rfl) hs hin, hi, ← hv]
  exact hem

/-- **representation, for every accepted case**: the base of every resolved enum of the final registry is the written
    base type, resolved in the scope of the enum's module, and one of the built-in integer types; the resolved size and
    alignment are that type's *in the final registry*; the emitted item carries `repr(<base>)` -/
theorem case_repr (c : Case) (hps : c.ps = 4 ∨ c.ps = 8) (hb : C12.CaseBounded c) (s : State)
    (h : c.run = .ok s) (p : Path) (i : ItemDef) (r : Resolved) (ed : EnumDefn)
    (hg : s.reg.get p = some i) (hs : i.state = .res r) (hin : r.inner = .enum ed) :
    ∃ (item : G.Item) (d : G.EnumDef) (s0 : State) (module : Mod) (name : String) (signed : Bool) (bits : Nat),
      Declared c p item ∧ item.inner = .enum d ∧ s0.moduleFor p = some module ∧ C02.Ext s0.reg s.reg ∧
      s0.reg.resolveTy module.scope d.ty = .ok ed.ty ∧
      ed.ty = .raw [name] ∧ (name, signed, bits) ∈ intTypes ∧
      DTy.size s.reg ed.ty = .ok (some r.size) ∧ DTy.align s.reg ed.ty = some r.align ∧
      ∃ docs derives rest tl, Emit.itemItems s.reg i =
        Sexp.mk "enum" (docs :: derives :: Sexp.mk "repr" [.str (Emit.tyStr (.raw [name]))] :: Emit.visS item.vis ::
          .str (p.getLast?.getD "") :: rest) :: tl := by
  obtain ⟨s0, item, d, _, _, _, hD, _, hd, hbe, he, hi⟩ := case_enum_origin c hps hb s h p i r ed hg hs hin
  obtain ⟨ed', name, signed, bits, hin', hty, hmem, hsz, hal⟩ := repr s0 p d r hbe
  rw [hin] at hin'
  cases hin'
  obtain ⟨module, ty, _, _, _, ed'', hmod, hres, _, _, _, _, _, _, hin'', hty'', _⟩ := buildEnum_full s0 p d r hbe
  rw [hin] at hin''
  cases hin''
  refine ⟨item, d, s0, module, name, signed, bits, hD, hd, hmod, he, by rw [hty'']; exact hres, hty, hmem,
    dsize_ext he _ _ hsz, dalign_ext he _ _ hal, ?_⟩
  obtain ⟨docs, derives, tl, hem⟩ := emitted p r.size item.vis ed
  refine ⟨docs, derives, ed.fields.zipIdx.map fun ((n, v), idx) =>
    Sexp.mk "var" [.str n, Sexp.ofOpt .int (some v), Sexp.ofBool (ed.defaultIdx == some idx)], tl, ?_⟩
  rw [itemItems_enum s.reg i r ed (by rw [hi]; rfl) hs hin, hi, ← hty]
  exact hem

/-- **default, for every accepted case**: every resolved enum of the final registry is defaultable iff its definition
    is declared so, has a default variant iff it is defaultable, and that variant is the single one whose source
    statement carries the marker -/
theorem case_default_marker (c : Case) (hps : c.ps = 4 ∨ c.ps = 8) (hb : C12.CaseBounded c) (s : State)
    (h : c.run = .ok s) (p : Path) (i : ItemDef) (r : Resolved) (ed : EnumDefn)
    (hg : s.reg.get p = some i) (hs : i.state = .res r) (hin : r.inner = .enum ed) :
    ∃ (item : G.Item) (d : G.EnumDef),
      Declared c p item ∧ item.inner = .enum d ∧ ed.defaultable = isDefaultable d.attrs ∧
      (match ed.defaultIdx with
       | some k => markerIdxs d.stmts = [k] ∧ ed.defaultable = true
       | none => markerIdxs d.stmts = [] ∧ ed.defaultable = false) := by
  obtain ⟨s0, item, d, _, _, _, hD, _, hd, hbe, _, _⟩ := case_enum_origin c hps hb s h p i r ed hg hs hin
  obtain ⟨ed', hin', h1, h2⟩ := default_marker s0 p d r hbe
  rw [hin] at hin'
  cases hin'
  exact ⟨item, d, hD, hd, h1, h2⟩

/-- **values fit the width, for every accepted case**: every value of every resolved enum of the final registry fits
    the width of its base type (so `v as _` loses no bits) and, for a signed base type, fits the type -/
theorem case_values_fit_width (c : Case) (hps : c.ps = 4 ∨ c.ps = 8) (hb : C12.CaseBounded c) (s : State)
    (h : c.run = .ok s) (p : Path) (i : ItemDef) (r : Resolved) (ed : EnumDefn)
    (hg : s.reg.get p = some i) (hs : i.state = .res r) (hin : r.inner = .enum ed) :
    ∃ (name : String) (signed : Bool) (bits : Nat), ed.ty = .raw [name] ∧ (name, signed, bits) ∈ intTypes ∧
      ∀ nv ∈ ed.fields, -(2 ^ (bits - 1)) ≤ nv.2 ∧ nv.2 < 2 ^ bits ∧ (signed = true → Fits signed bits nv.2) := by
  obtain ⟨s0, item, d, _, _, _, _, _, _, hbe, _, _⟩ := case_enum_origin c hps hb s h p i r ed hg hs hin
  obtain ⟨ed', name, signed, bits, hin', h1, h2, h3⟩ := values_fit_width s0 p d r hbe
  rw [hin] at hin'
  cases hin'
  exact ⟨name, signed, bits, h1, h2, h3⟩

/-- … hence (modelled rustc) for every resolved enum of the final registry with a signed base type, and for the
    non-negative values of the others, the compiled discriminant `v as <base>` is the declared value -/
theorem case_discriminant_is_value_partial (c : Case) (hps : c.ps = 4 ∨ c.ps = 8) (hb : C12.CaseBounded c) (s : State)
    (h : c.run = .ok s) (p : Path) (i : ItemDef) (r : Resolved) (ed : EnumDefn)
    (hg : s.reg.get p = some i) (hs : i.state = .res r) (hin : r.inner = .enum ed) :
    ∃ (item : G.Item) (d : G.EnumDef) (name : String) (signed : Bool) (bits : Nat),
      Declared c p item ∧ item.inner = .enum d ∧ ed.ty = .raw [name] ∧ (name, signed, bits) ∈ intTypes ∧
      ∀ nv ∈ specValues 0 d.stmts, (signed = true ∨ 0 ≤ nv.2) → cast signed bits nv.2 = nv.2 := by
  obtain ⟨s0, item, d, _, _, _, hD, _, hd, hbe, _, _⟩ := case_enum_origin c hps hb s h p i r ed hg hs hin
  obtain ⟨ed', name, signed, bits, hin', h1, h2, h3⟩ := discriminant_is_value_partial s0 p d r hbe
  rw [hin] at hin'
  cases hin'
  obtain ⟨ed'', hin'', hv⟩ := values s0 p d r hbe
  rw [hin] at hin''
  cases hin''
  exact ⟨item, d, name, signed, bits, hD, hd, h1, h2, by rw [← hv]; exact h3⟩

end C08

/-! ## C15 -/
namespace C15
open Gen CaseLift

/-- **struct singletons, for every accepted case**: every emitted struct of the final registry is a generated vftable
    struct (no singleton) or was built from a definition written in the case, and then its singleton address is the
    declared (non-negative) number – the last `#[singleton(A)]` of the definition – or it has none -/
theorem case_type_singleton (c : Case) (hps : c.ps = 4 ∨ c.ps = 8) (hb : C12.CaseBounded c) (s : State)
    (h : c.run = .ok s) (p : Path) (i : ItemDef) (r : Resolved) (td : TypeDefn)
    (hg : s.reg.get p = some i) (hs : i.state = .res r) (hin : r.inner = .type td) (hc : i.cat = .defined) :
    ((∃ (reg0 : Registry) (owner : Path) (vis : Vis) (fns : List SFunc),
        buildVftableItem reg0 owner vis fns = some i ∧ i.path = p) ∧ td.singleton = none) ∨
    ∃ (item : G.Item) (d : G.TypeDef),
      Declared c p item ∧ item.inner = .type d ∧ i = builtItem p item r ∧
      (match declInt "singleton" d.attrs with
       | some a => 0 ≤ a ∧ td.singleton = some a.toNat
       | none => td.singleton = none) := by
  rcases case_type_origin c hps hb s h p i r td hg hs hin hc with
    ⟨reg0, owner, vis, fns, hv, hp⟩ | ⟨s0, s1, item, d, _, _, _, hD, _, hd, hbt, _, hi⟩
  · obtain ⟨htd, _⟩ := vftable_item_td reg0 owner vis fns i r td hv hs hin
    exact Or.inl ⟨⟨reg0, owner, vis, fns, hv, hp⟩, by rw [htd]⟩
  · obtain ⟨_, _, ta, _, _, _, _, _, _, td', _, _, _, hta, _, _, _, _, _, _, _, hin', _, _, hsing, _⟩ :=
      buildType_full s0 s1 p item.vis d r hbt
    rw [hin] at hin'
    cases hin'
    refine Or.inr ⟨item, d, hD, hd, hi, ?_⟩
    rw [hsing]
    exact type_singleton d.attrs ta hta

/-- **enum singletons, for every accepted case** -/
theorem case_enum_singleton (c : Case) (hps : c.ps = 4 ∨ c.ps = 8) (hb : C12.CaseBounded c) (s : State)
    (h : c.run = .ok s) (p : Path) (i : ItemDef) (r : Resolved) (ed : EnumDefn)
    (hg : s.reg.get p = some i) (hs : i.state = .res r) (hin : r.inner = .enum ed) :
    ∃ (item : G.Item) (d : G.EnumDef),
      Declared c p item ∧ item.inner = .enum d ∧ i = builtItem p item r ∧
      (match declInt "singleton" d.attrs with
       | some a => 0 ≤ a ∧ ed.singleton = some a.toNat
       | none => ed.singleton = none) := by
  obtain ⟨s0, item, d, _, _, _, hD, _, hd, hbe, _, hi⟩ := case_enum_origin c hps hb s h p i r ed hg hs hin
  obtain ⟨_, _, _, _, ea, ed', _, _, _, _, _, _, hea, _, hin', _, _, hsing, _⟩ := buildEnum_full s0 p d r hbe
  rw [hin] at hin'
  cases hin'
  refine ⟨item, d, hD, hd, hi, ?_⟩
  rw [hsing]
  exact enum_singleton d.attrs ea hea

/-- **struct getters, for every accepted case**: for every emitted struct of the final registry built from a definition
    with `#[singleton(A)]`, the items emitted for it contain the one-indirection getter at exactly the declared address
    `A`, under the type's name and declared visibility -/
theorem case_struct_getter_emitted (c : Case) (hps : c.ps = 4 ∨ c.ps = 8) (hb : C12.CaseBounded c) (s : State)
    (h : c.run = .ok s) (p : Path) (i : ItemDef) (r : Resolved) (td : TypeDefn)
    (hg : s.reg.get p = some i) (hs : i.state = .res r) (hin : r.inner = .type td) (hc : i.cat = .defined)
    (a : Nat) (ha : td.singleton = some a) :
    ∃ (item : G.Item) (d : G.TypeDef),
      Declared c p item ∧ item.inner = .type d ∧ declInt "singleton" d.attrs = some (a : Int) ∧
      Sexp.mk "singleton-struct" [.str (p.getLast?.getD ""), Emit.visS item.vis, .int a] ∈ Emit.itemItems s.reg i := by
  rcases case_type_singleton c hps hb s h p i r td hg hs hin hc with ⟨_, hnone⟩ | ⟨item, d, hD, hd, hi, hm⟩
  · rw [hnone] at ha; cases ha
  · refine ⟨item, d, hD, hd, ?_, ?_⟩
    · split at hm
      · next a' hda =>
        obtain ⟨h0, hsome⟩ := hm
        rw [ha] at hsome
        simp only [Option.some.injEq] at hsome
        rw [hda, hsome, Int.toNat_of_nonneg h0]
      · rw [hm] at ha; cases ha
    · rw [itemItems_type s.reg i r td hc hs hin, hi]
      exact struct_getter_emitted s.reg p r.size r.align item.vis td a ha

/-- **enum getters, for every accepted case** -/
theorem case_enum_getter_emitted (c : Case) (hps : c.ps = 4 ∨ c.ps = 8) (hb : C12.CaseBounded c) (s : State)
    (h : c.run = .ok s) (p : Path) (i : ItemDef) (r : Resolved) (ed : EnumDefn)
    (hg : s.reg.get p = some i) (hs : i.state = .res r) (hin : r.inner = .enum ed)
    (a : Nat) (ha : ed.singleton = some a) :
    ∃ (item : G.Item) (d : G.EnumDef),
      Declared c p item ∧ item.inner = .enum d ∧ declInt "singleton" d.attrs = some (a : Int) ∧
      Sexp.mk "singleton-enum" [.str (p.getLast?.getD ""), Emit.visS item.vis, .int a] ∈ Emit.itemItems s.reg i := by
  obtain ⟨item, d, hD, hd, hi, hm⟩ := case_enum_singleton c hps hb s h p i r ed hg hs hin
  refine ⟨item, d, hD, hd, ?_, ?_⟩
  · split at hm
    · next a' hda =>
      obtain ⟨h0, hsome⟩ := hm
      rw [ha] at hsome
      simp only [Option.some.injEq] at hsome
      rw [hda, hsome, Int.toNat_of_nonneg h0]
    · rw [hm] at ha; cases ha
  · rw [itemItems_enum s.reg i r ed (by rw [hi]; rfl) hs hin, hi]
    exact enum_getter_emitted p r.size item.vis ed a ha

/-- **no singleton, no getter, for every accepted case**: the items emitted for a generated vftable struct, or for a
    struct whose definition carries no `#[singleton]`, contain no singleton getter -/
theorem case_no_singleton_no_getter (c : Case) (hps : c.ps = 4 ∨ c.ps = 8) (hb : C12.CaseBounded c) (s : State)
    (h : c.run = .ok s) (p : Path) (i : ItemDef) (r : Resolved) (td : TypeDefn)
    (hg : s.reg.get p = some i) (hs : i.state = .res r) (hin : r.inner = .type td) (hc : i.cat = .defined) :
    ((∃ (reg0 : Registry) (owner : Path) (vis : Vis) (fns : List SFunc),
        buildVftableItem reg0 owner vis fns = some i ∧ i.path = p) ∧
      ∀ x ∈ Emit.itemItems s.reg i, Sexp.head? x ≠ some "singleton-struct") ∨
    ∃ (item : G.Item) (d : G.TypeDef),
      Declared c p item ∧ item.inner = .type d ∧
      (declInt "singleton" d.attrs = none →
        ∀ x ∈ Emit.itemItems s.reg i, Sexp.head? x ≠ some "singleton-struct") := by
  rcases case_type_singleton c hps hb s h p i r td hg hs hin hc with ⟨hv, hnone⟩ | ⟨item, d, hD, hd, hi, hm⟩
  · refine Or.inl ⟨hv, ?_⟩
    rw [itemItems_type s.reg i r td hc hs hin]
    exact no_singleton_no_getter s.reg i.path r.size r.align i.vis td hnone
  · refine Or.inr ⟨item, d, hD, hd, ?_⟩
    intro hdecl
    rw [hdecl] at hm
    rw [itemItems_type s.reg i r td hc hs hin]
    exact no_singleton_no_getter s.reg i.path r.size r.align i.vis td hm

/-- **extern values, for every accepted case**: every extern value of every module of the final state is the conversion
    of an extern value written in the case under that module's path: the declared non-negative address, the same name,
    visibility and written type; its resolved type is the written type resolved in the module's scope in the final
    registry -/
theorem case_extern_value_address (c : Case) (s : State) (h : c.run = .ok s) :
    ∀ e ∈ s.modules, ∀ x ∈ e.2.xvals, ∃ gx, DeclaredX c e.1 gx ∧
      (∃ a : Int, declInt "address" gx.attrs = some a ∧ 0 ≤ a ∧ x.addr = a.toNat ∧ x.name = gx.name ∧
        x.vis = gx.vis ∧ x.gty = gx.ty) ∧
      ∃ t, s.reg.resolveTy e.2.scope gx.ty = .ok t ∧ x.ty = some t := by
  intro e he x hx
  obtain ⟨gx, hgx, hof, t, ht, hty⟩ := case_xvals c s h e he x hx
  refine ⟨gx, hgx, hof, t, ?_, hty⟩
  obtain ⟨_, _, _, _, _, _, hgty⟩ := hof
  rw [← hgty]; exact ht

/-- **extern accessors, for every accepted case**: the accessor emitted for every extern value of every module of the
    final state is `get_<declared name>`, with the declared visibility, the written type resolved in the final registry,
    and exactly the declared address -/
theorem case_extern_accessor_emitted (c : Case) (s : State) (h : c.run = .ok s) :
    ∀ e ∈ s.modules, ∀ x ∈ e.2.xvals, ∃ gx t, ∃ a : Int, DeclaredX c e.1 gx ∧
      declInt "address" gx.attrs = some a ∧ 0 ≤ a ∧ s.reg.resolveTy e.2.scope gx.ty = .ok t ∧
      Emit.xvalItem x =
        Sexp.mk "xaccessor" [Emit.visS gx.vis, .str ("get_" ++ unraw gx.name), .str (Emit.tyStr t), .int a] := by
  intro e he x hx
  obtain ⟨gx, hgx, ⟨a, hda, h0, haddr, hname, hvis, _⟩, t, ht, hty⟩ := case_extern_value_address c s h e he x hx
  refine ⟨gx, t, a, hgx, hda, h0, ht, ?_⟩
  rw [extern_accessor_emitted x t hty, hvis, hname, haddr, Int.toNat_of_nonneg h0]

/-- **the emitted files, for every accepted case**: every singleton getter and every extern-value accessor that appears
    in an emitted file addresses a location declared in the case – a struct getter the `#[singleton(A)]` of a type
    definition written in the case, an enum getter that of an enum definition, an accessor the `#[address(A)]` of an
    extern value written in the case (under the file's module path) -/
theorem case_file_accessors (c : Case) (hps : c.ps = 4 ∨ c.ps = 8) (hb : C12.CaseBounded c) (s : State)
    (h : c.run = .ok s) (f : Sexp) (hf : f ∈ Emit.files s) (x : Sexp) (hx : x ∈ fileItems f) :
    (Sexp.head? x = some "singleton-struct" →
      ∃ (p : Path) (item : G.Item) (d : G.TypeDef) (a : Int), Declared c p item ∧ item.inner = .type d ∧
        declInt "singleton" d.attrs = some a ∧ 0 ≤ a ∧
        x = Sexp.mk "singleton-struct" [.str (p.getLast?.getD ""), Emit.visS item.vis, .int a]) ∧
    (Sexp.head? x = some "singleton-enum" →
      ∃ (p : Path) (item : G.Item) (d : G.EnumDef) (a : Int), Declared c p item ∧ item.inner = .enum d ∧
        declInt "singleton" d.attrs = some a ∧ 0 ≤ a ∧
        x = Sexp.mk "singleton-enum" [.str (p.getLast?.getD ""), Emit.visS item.vis, .int a]) ∧
    (Sexp.head? x = some "xaccessor" →
      ∃ (e : Path × Mod) (gx : G.XVal) (t : DTy) (a : Int), e ∈ s.modules ∧ f = Emit.moduleFile s e.1 e.2 ∧
        DeclaredX c e.1 gx ∧ declInt "address" gx.attrs = some a ∧ 0 ≤ a ∧ s.reg.resolveTy e.2.scope gx.ty = .ok t ∧
        x = Sexp.mk "xaccessor" [Emit.visS gx.vis, .str ("get_" ++ unraw gx.name), .str (Emit.tyStr t), .int a]) := by
  obtain ⟨e, he, hne, hfe, hcases⟩ := files_items s f hf x hx
  rcases hcases with hblock | ⟨q, hq, i, hg, hxi⟩ | ⟨xv, hxv, rfl⟩
  · rw [hblock]
    exact ⟨fun hh => absurd hh (by decide), fun hh => absurd hh (by decide), fun hh => absurd hh (by decide)⟩
  · obtain ⟨hc, r, hs⟩ := itemItems_inv s.reg i x hxi
    cases hin : r.inner with
    | type td =>
      rw [itemItems_type s.reg i r td hc hs hin] at hxi
      rcases typeItems_kinds s.reg i.path r.size r.align i.vis td x hxi with ⟨a, ha, hxe⟩ | hk
      · refine ⟨fun _ => ?_, fun hh => ?_, fun hh => ?_⟩
        · rcases case_type_singleton c hps hb s h q i r td hg hs hin hc with ⟨_, hnone⟩ | ⟨item, d, hD, hd, hi, hm⟩
          · rw [hnone] at ha; cases ha
          · split at hm
            · next a' hda =>
              obtain ⟨h0, hsome⟩ := hm
              rw [ha] at hsome
              simp only [Option.some.injEq] at hsome
              refine ⟨q, item, d, a', hD, hd, hda, h0, ?_⟩
              rw [hxe, hi, hsome, Int.toNat_of_nonneg h0]
              rfl
            · rw [hm] at ha; cases ha
        · exact absurd hh (by rw [hxe]; exact head_ne _ _ _ (by decide))
        · exact absurd hh (by rw [hxe]; exact head_ne _ _ _ (by decide))
      · refine ⟨fun hh => ?_, fun hh => ?_, fun hh => ?_⟩ <;>
        · rw [hh] at hk
          simp at hk
    | «enum» ed =>
      rw [itemItems_enum s.reg i r ed hc hs hin] at hxi
      rcases enumItems_kinds i.path r.size i.vis ed x hxi with ⟨a, ha, hxe⟩ | hk
      · refine ⟨fun hh => ?_, fun _ => ?_, fun hh => ?_⟩
        · exact absurd hh (by rw [hxe]; exact head_ne _ _ _ (by decide))
        · obtain ⟨item, d, hD, hd, hi, hm⟩ := case_enum_singleton c hps hb s h q i r ed hg hs hin
          split at hm
          · next a' hda =>
            obtain ⟨h0, hsome⟩ := hm
            rw [ha] at hsome
            simp only [Option.some.injEq] at hsome
            refine ⟨q, item, d, a', hD, hd, hda, h0, ?_⟩
            rw [hxe, hi, hsome, Int.toNat_of_nonneg h0]
            rfl
          · rw [hm] at ha; cases ha
        · exact absurd hh (by rw [hxe]; exact head_ne _ _ _ (by decide))
      · refine ⟨fun hh => ?_, fun hh => ?_, fun hh => ?_⟩ <;>
        · rw [hh] at hk
          simp at hk
  · obtain ⟨gx, t, a, hgx, hda, h0, ht, hem⟩ := case_extern_accessor_emitted c s h e he xv hxv
    refine ⟨fun hh => ?_, fun hh => ?_, fun _ => ⟨e, gx, t, a, he, hfe, hgx, hda, h0, ht, hem⟩⟩
    · exact absurd hh (by rw [hem]; exact head_ne _ _ _ (by decide))
    · exact absurd hh (by rw [hem]; exact head_ne _ _ _ (by decide))

end C15

/-! ## C16 -/
namespace C16
open Gen CaseLift

/-- **declared wins, default by receiver, for every function of every accepted case.**  Every emitted struct of the final
    registry is a generated vftable struct (no functions, no table) or was built from a definition written in the case;
    then every associated function either has the convention the property prescribes (`specCC`) for a function written
    in a function block for this type in the case – same name – or is a re-exposed copy of a function of one of its
    `#[base]` fields' types (as found in the final registry) with that function's convention; and, if the definition
    starts with a vftable block, every slot of the type's table has the convention prescribed for a function written in
    the block – same name – or is that slot's placeholder -/
theorem case_built_cc (c : Case) (hps : c.ps = 4 ∨ c.ps = 8) (hb : C12.CaseBounded c) (s : State)
    (h : c.run = .ok s) (p : Path) (i : ItemDef) (r : Resolved) (td : TypeDefn)
    (hg : s.reg.get p = some i) (hs : i.state = .res r) (hin : r.inner = .type td) (hc : i.cat = .defined) :
    ((∃ (reg0 : Registry) (owner : Path) (vis : Vis) (fns : List SFunc),
        buildVftableItem reg0 owner vis fns = some i ∧ i.path = p) ∧ td.fns = [] ∧ td.vft = none) ∨
    ∃ (item : G.Item) (d : G.TypeDef),
      Declared c p item ∧ item.inner = .type d ∧
      (∀ f ∈ td.fns,
        (∃ gf, DeclaredFn c p gf ∧ f.name = gf.name ∧ specCC gf = some f.cc) ∨
        (∃ rg ∈ td.regions, ∃ (b : String) (bp : Path) (btd : TypeDefn) (f0 : SFunc),
          rg.isBase = true ∧ rg.name = some b ∧ rg.ty = .data (.raw bp) ∧ Exec.typeDefn? s.reg bp = some btd ∧
          (f0 ∈ btd.fns ∨ ∃ v, btd.vft = some v ∧ f0 ∈ v.fns) ∧ f.cc = f0.cc ∧ f.body = .field b f0.name)) ∧
      (∀ st gfns, d.stmts[0]? = some st → st.field = .vftable gfns →
        ∀ v, td.vft = some v → ∀ k f, v.fns[k]? = some f →
          (∃ gf ∈ gfns, f.name = gf.name ∧ specCC gf = some f.cc) ∨ (f = placeholderFn k ∧ f.cc = .Thiscall)) := by
  rcases case_fns_master c hps hb s h p i r td hg hs hin hc with hv |
    ⟨item, d, s0, s1, module, hD, hd, hmod, he01, he, hfns, hblock⟩
  · exact Or.inl hv
  · refine Or.inr ⟨item, d, hD, hd, ?_, ?_⟩
    · intro f hf
      rcases hfns f hf with ⟨gf, hgf, hbf⟩ | ⟨rg, hrg, b, bp, btd, f0, k1, k2, k3, k4, k5, _, _, _, _, _, k6, k7⟩
      · obtain ⟨_, _, _, hname, _⟩ := C05.built_shape s1.reg module.scope gf f hbf
        exact Or.inl ⟨gf, hgf, hname, built_cc s1.reg module.scope false gf f hbf⟩
      · exact Or.inr ⟨rg, hrg, b, bp, btd, f0, k1, k2, k3, k4, k5, k6, k7⟩
    · intro st gfns hst hf v hv k f hk
      obtain ⟨size, out, _, _, hout, _, hslots⟩ := hblock st gfns hst hf
      rw [hout v hv] at hk
      rcases hslots k f hk with ⟨gf, hgf, hbf⟩ | hph
      · exact Or.inl ⟨gf, hgf, (C04.vfunc_body s0.reg module.scope gf f hbf).2, built_cc s0.reg module.scope true gf f hbf⟩
      · exact Or.inr ⟨hph, by rw [hph]; exact placeholder_thiscall k⟩

/-- **placeholder slots are thiscall, for every accepted case**: in the table of every emitted struct whose definition
    starts with a vftable block, every slot that the description (`C04.specPositions`: written index, else predecessor
    + 1) gives to no function of the block is that slot's placeholder, with convention `thiscall` -/
theorem case_placeholder_thiscall (c : Case) (hps : c.ps = 4 ∨ c.ps = 8) (hb : C12.CaseBounded c) (s : State)
    (h : c.run = .ok s) (p : Path) (i : ItemDef) (r : Resolved) (td : TypeDefn)
    (hg : s.reg.get p = some i) (hs : i.state = .res r) (hin : r.inner = .type td) (hc : i.cat = .defined)
    (v : Vft) (hv : td.vft = some v) :
    ∃ (item : G.Item) (d : G.TypeDef),
      Declared c p item ∧ item.inner = .type d ∧
      ∀ st gfns, d.stmts[0]? = some st → st.field = .vftable gfns →
        ∃ pos, C04.specPositions 0 (gfns.map C04.declIndex) = some pos ∧
          ∀ k, k < v.fns.length → k ∉ pos → v.fns[k]? = some (placeholderFn k) ∧ (placeholderFn k).cc = .Thiscall := by
  rcases case_fns_master c hps hb s h p i r td hg hs hin hc with ⟨_, _, hnone⟩ |
    ⟨item, d, s0, s1, module, hD, hd, hmod, he01, he, hfns, hblock⟩
  · rw [hnone] at hv; cases hv
  · refine ⟨item, d, hD, hd, ?_⟩
    intro st gfns hst hf
    obtain ⟨size, out, _, hconv, hout, _, _⟩ := hblock st gfns hst hf
    obtain ⟨pos, built, len, hpos, _, _, _, _, _, hph⟩ := C04.slots s0.reg module.scope size gfns out hconv
    refine ⟨pos, hpos, ?_⟩
    intro k hk hnot
    rw [hout v hv] at hk ⊢
    exact ⟨hph k hk hnot, placeholder_thiscall k⟩

/-- **the slot carries the convention, for every accepted case**: for every emitted struct `T` of the final registry whose
    definition starts with a vftable block (and that has a parent path), the generated struct `<T>Vftable` is in the
    final registry with one field per slot of `T`'s table, in slot order; the field of slot `k` is named after the
    function in that slot and is a function pointer carrying that function's convention and return type, and the
    printed pointer type names that convention's ABI string -/
theorem case_slot_carries_cc (c : Case) (hps : c.ps = 4 ∨ c.ps = 8) (hb : C12.CaseBounded c) (s : State)
    (h : c.run = .ok s) (p : Path) (i : ItemDef) (r : Resolved) (td : TypeDefn)
    (hg : s.reg.get p = some i) (hs : i.state = .res r) (hin : r.inner = .type td) (hc : i.cat = .defined)
    (v : Vft) (hv : td.vft = some v) :
    ∃ (item : G.Item) (d : G.TypeDef),
      Declared c p item ∧ item.inner = .type d ∧
      ∀ st gfns vpath, d.stmts[0]? = some st → st.field = .vftable gfns → vftablePath p = some vpath →
        v.ty = .cptr (.raw vpath) ∧
        ∃ (vtd : TypeDefn), Exec.typeDefn? s.reg vpath = some vtd ∧ vtd.regions.length = v.fns.length ∧
          ∀ (k : Nat) (f : SFunc), v.fns[k]? = some f →
            ∃ (rg : Region) (args : List (String × DTy)),
              vtd.regions[k]? = some rg ∧ rg.name = some f.name ∧ rg.ty = .fn f.cc args f.ret ∧
              ∃ rest, Emit.rtyStr rg.ty = "unsafe extern \"" ++ f.cc.asStr ++ "\" fn(" ++ rest := by
  rcases case_fns_master c hps hb s h p i r td hg hs hin hc with ⟨_, _, hnone⟩ |
    ⟨item, d, s0, s1, module, hD, hd, hmod, he01, he, hfns, hblock⟩
  · rw [hnone] at hv; cases hv
  · refine ⟨item, d, hD, hd, ?_⟩
    intro st gfns vpath hst hf hvp
    obtain ⟨size, out, _, hconv, hout, hgen, _⟩ := hblock st gfns hst hf
    obtain ⟨⟨v', hv', _, hty⟩, hvtd⟩ := hgen vpath hvp
    rw [hv] at hv'
    cases hv'
    refine ⟨hty, _, hvtd, by simp [hout v hv], ?_⟩
    intro k f hk
    rw [hout v hv] at hk
    obtain ⟨args, hargs⟩ := slot_carries_cc p f
    refine ⟨functionToRegion p f, args, ?_, rfl, hargs, ?_⟩
    · simp only [List.getElem?_map, hk, Option.map_some]
    · rw [hargs]
      exact slot_printer f.cc args f.ret

/-- **inherited slots keep their convention, for every accepted case**: for every emitted struct of the final registry
    whose table is reached through a base field `bn` (with or without a vftable block of its own), `bn` is a `#[base]`
    field of the emitted struct, of a type that in the final registry has a table `bv`, and every slot of `bv` is repeated
    at the same position of the type's table as the same function value – in particular with the same convention -/
theorem case_inherited_same (c : Case) (hps : c.ps = 4 ∨ c.ps = 8) (hb : C12.CaseBounded c) (s : State)
    (h : c.run = .ok s) (p : Path) (i : ItemDef) (r : Resolved) (td : TypeDefn)
    (hg : s.reg.get p = some i) (hs : i.state = .res r) (hin : r.inner = .type td) (hc : i.cat = .defined)
    (v : Vft) (hv : td.vft = some v) (bn : String) (hbn : v.baseField = some bn) :
    ∃ rg ∈ td.regions, ∃ (bp : Path) (btd : TypeDefn) (bv : Vft),
      rg.isBase = true ∧ rg.name = some bn ∧ rg.ty = .data (.raw bp) ∧
      Exec.typeDefn? s.reg bp = some btd ∧ btd.vft = some bv ∧
      ∀ k (hk : k < bv.fns.length), ∃ (hj : k < v.fns.length), v.fns[k] = bv.fns[k] ∧ v.fns[k].cc = bv.fns[k].cc := by
  obtain ⟨_, hbase⟩ := Exec.case_accessor c hps hb s h p i r td hg hs hin hc v hv
  obtain ⟨rg, hrg, bp, btd, bv, o, k1, k2, k3, k4, k5, hpre, _⟩ := hbase bn hbn
  refine ⟨rg, hrg, bp, btd, bv, k1, k2, k3, k4, k5, ?_⟩
  intro k hk
  obtain ⟨t, ht⟩ := hpre
  have hlen : k < v.fns.length := by rw [← ht]; simp; omega
  refine ⟨hlen, ?_⟩
  have : v.fns[k] = bv.fns[k] := by
    have e : v.fns = bv.fns ++ t := ht.symm
    simp only [e]
    exact List.getElem_append_left hk
  exact ⟨this, by rw [this]⟩

end C16

/-! ## C17 -/
namespace C17
open Gen CaseLift

/-- a definition that was accepted has only string-literal doc attributes -/
theorem docsAreStrings_of_docOf (attrs : List G.Attr) (doc : Option String) (h : G.docOf attrs = some doc) :
    docsAreStrings attrs = true := by
  cases hd : docsAreStrings attrs with
  | true => rfl
  | false => rw [doc_not_string_rejected attrs hd] at h; cases h

/-- **type flags, for every accepted case**: the derives of every emitted struct of the final registry are the ones the
    property prescribes for the marker attributes of its definition (copyable ↦ Copy, Clone; cloneable ↦ Clone;
    defaultable ↦ Default), it is packed iff the definition says `#[packed]`, and the struct item emitted for it carries
    exactly these derives; a generated vftable struct derives nothing and is not packed -/
theorem case_type_flags (c : Case) (hps : c.ps = 4 ∨ c.ps = 8) (hb : C12.CaseBounded c) (s : State)
    (h : c.run = .ok s) (p : Path) (i : ItemDef) (r : Resolved) (td : TypeDefn)
    (hg : s.reg.get p = some i) (hs : i.state = .res r) (hin : r.inner = .type td) (hc : i.cat = .defined) :
    ((∃ (reg0 : Registry) (owner : Path) (vis : Vis) (fns : List SFunc),
        buildVftableItem reg0 owner vis fns = some i ∧ i.path = p) ∧
      Emit.derivesOf td.copyable td.cloneable td.defaultable = [] ∧ td.packed = false) ∨
    ∃ (item : G.Item) (d : G.TypeDef),
      Declared c p item ∧ item.inner = .type d ∧
      Emit.derivesOf td.copyable td.cloneable td.defaultable = specDerives d.attrs ∧
      td.packed = hasIdent d.attrs "packed" ∧
      ∃ docs rest tl, Emit.itemItems s.reg i =
        Sexp.mk "struct" (docs :: Sexp.mk "derives" ((specDerives d.attrs).map .str) :: rest) :: tl := by
  rcases case_attrs_master c hps hb s h p i r td hg hs hin hc with
    ⟨reg0, owner, vis, fns, hv, hp, _, htd⟩ | ⟨item, d, ta, hD, hd, hi, _, hta, _, k2, k3, k4, k5, _⟩
  · refine Or.inl ⟨⟨reg0, owner, vis, fns, hv, hp⟩, ?_, ?_⟩ <;> rw [htd] <;> rfl
  · obtain ⟨h1, h2⟩ := type_flags d.attrs ta hta
    refine Or.inr ⟨item, d, hD, hd, by rw [k2, k3, k4]; exact h1, by rw [k5]; exact h2, ?_⟩
    obtain ⟨tl, htl⟩ := typeItems_head s.reg i.path r.size r.align i.vis td
    rw [itemItems_type s.reg i r td hc hs hin, htl,
      show Emit.derivesOf td.copyable td.cloneable td.defaultable = specDerives d.attrs from by
        rw [k2, k3, k4]; exact h1]
    exact ⟨_, _, tl, rfl⟩

/-- **enum flags, for every accepted case**: the derives of every resolved enum of the final registry, after the five
    fixed ones, are the ones the property prescribes for the marker attributes of its definition, and the emitted enum
    item carries exactly these -/
theorem case_enum_flags (c : Case) (hps : c.ps = 4 ∨ c.ps = 8) (hb : C12.CaseBounded c) (s : State)
    (h : c.run = .ok s) (p : Path) (i : ItemDef) (r : Resolved) (ed : EnumDefn)
    (hg : s.reg.get p = some i) (hs : i.state = .res r) (hin : r.inner = .enum ed) :
    ∃ (item : G.Item) (d : G.EnumDef),
      Declared c p item ∧ item.inner = .enum d ∧
      Emit.derivesOf ed.copyable ed.cloneable ed.defaultable = specDerives d.attrs ∧
      G.docOf d.attrs = some ed.doc ∧
      ∃ rest tl, Emit.itemItems s.reg i =
        Sexp.mk "enum" (Emit.docsS ed.doc ::
          Sexp.mk "derives" ((["PartialEq", "Eq", "PartialOrd", "Ord", "Debug"] ++ specDerives d.attrs).map .str) ::
          rest) :: tl := by
  obtain ⟨s0, item, d, _, _, _, hD, _, hd, hbe, _, hi⟩ := case_enum_origin c hps hb s h p i r ed hg hs hin
  obtain ⟨_, _, _, _, ea, ed', _, _, _, _, _, _, hea, hdoc, hin', _, _, _, k2, k3, k4, _⟩ := buildEnum_full s0 p d r hbe
  rw [hin] at hin'
  cases hin'
  have hfl : Emit.derivesOf ed.copyable ed.cloneable ed.defaultable = specDerives d.attrs := by
    rw [k2, k3, k4]; exact enum_flags d.attrs ea hea
  refine ⟨item, d, hD, hd, hfl, hdoc, ?_⟩
  rw [itemItems_enum s.reg i r ed (by rw [hi]; rfl) hs hin]
  unfold Emit.enumItems
  simp only [hfl]
  exact ⟨_, _, rfl⟩

/-- **docs land on the struct and its fields, for every accepted case**: the struct item emitted for every struct of the
    final registry built from a definition written in the case carries that definition's docs – line for line, in
    order, when no written line contains a newline –, its declared visibility and name, and one field per region with
    the region's docs, visibility, name and type -/
theorem case_docs_on_struct_and_fields (c : Case) (hps : c.ps = 4 ∨ c.ps = 8) (hb : C12.CaseBounded c) (s : State)
    (h : c.run = .ok s) (p : Path) (i : ItemDef) (r : Resolved) (td : TypeDefn)
    (hg : s.reg.get p = some i) (hs : i.state = .res r) (hin : r.inner = .type td) (hc : i.cat = .defined) :
    (∃ (reg0 : Registry) (owner : Path) (vis : Vis) (fns : List SFunc),
        buildVftableItem reg0 owner vis fns = some i ∧ i.path = p ∧ i.vis = vis ∧
        td = { regions := fns.map (functionToRegion owner) }) ∨
    ∃ (item : G.Item) (d : G.TypeDef),
      Declared c p item ∧ item.inner = .type d ∧ G.docOf d.attrs = some td.doc ∧
      ((∀ x ∈ docStrings d.attrs, '\n' ∉ x.toList) → Emit.docLines td.doc = docStrings d.attrs) ∧
      ∃ derives repr tl, Emit.itemItems s.reg i =
        Sexp.mk "struct" ([Emit.docsS td.doc, derives, repr, Emit.visS item.vis, .str (p.getLast?.getD "")] ++
          td.regions.map fun rg =>
            Sexp.mk "fld" [Emit.docsS rg.doc, Emit.visS rg.vis, .str (rg.name.getD ""), .str (Emit.rtyStr rg.ty)])
        :: tl := by
  rcases case_attrs_master c hps hb s h p i r td hg hs hin hc with hgen | ⟨item, d, ta, hD, hd, hi, hdoc, _⟩
  · exact Or.inl hgen
  · refine Or.inr ⟨item, d, hD, hd, hdoc, ?_, ?_⟩
    · intro hnl
      have := docs_line_for_line d.attrs (docsAreStrings_of_docOf d.attrs td.doc hdoc) hnl
      rw [hdoc] at this
      simpa using this
    · obtain ⟨derives, repr, tl, hem⟩ := docs_on_struct_and_fields s.reg p r.size r.align item.vis td
      refine ⟨derives, repr, tl, ?_⟩
      rw [itemItems_type s.reg i r td hc hs hin, hi]
      exact hem

/-- **generated members are private, declared fields keep what was written, for every accepted case**: every field of
    every emitted struct built from a definition written in the case is either generated – padding, the vftable pointer:
    private and undocumented – or a named field statement of the definition, with that statement's visibility, name and
    docs (line for line when no written line contains a newline) -/
theorem case_padding_private (c : Case) (hps : c.ps = 4 ∨ c.ps = 8) (hb : C12.CaseBounded c) (s : State)
    (h : c.run = .ok s) (p : Path) (i : ItemDef) (r : Resolved) (td : TypeDefn)
    (hg : s.reg.get p = some i) (hs : i.state = .res r) (hin : r.inner = .type td) (hc : i.cat = .defined) :
    (∃ (reg0 : Registry) (owner : Path) (vis : Vis) (fns : List SFunc),
        buildVftableItem reg0 owner vis fns = some i ∧ i.path = p ∧ i.vis = vis ∧
        td = { regions := fns.map (functionToRegion owner) }) ∨
    ∃ (item : G.Item) (d : G.TypeDef),
      Declared c p item ∧ item.inner = .type d ∧
      ∀ rg ∈ td.regions, (rg.vis = .priv ∧ rg.doc = none) ∨
        ∃ st ∈ d.stmts, ∃ (vis : Vis) (name : String) (ty : G.Ty),
          st.field = .field vis name ty ∧ rg.vis = vis ∧ rg.name = some name ∧ G.docOf st.attrs = some rg.doc ∧
          ((∀ x ∈ docStrings st.attrs, '\n' ∉ x.toList) → Emit.docLines rg.doc = docStrings st.attrs) := by
  rcases case_attrs_master c hps hb s h p i r td hg hs hin hc with hgen |
    ⟨item, d, ta, hD, hd, hi, hdoc, _, _, _, _, _, _, hregs⟩
  · exact Or.inl hgen
  · refine Or.inr ⟨item, d, hD, hd, ?_⟩
    intro rg hrg
    rcases hregs rg hrg with hp | ⟨st, hst, vis, name, ty, k1, k2, k3, k4⟩
    · exact Or.inl hp
    · refine Or.inr ⟨st, hst, vis, name, ty, k1, k2, k3, k4, ?_⟩
      intro hnl
      have := docs_line_for_line st.attrs (docsAreStrings_of_docOf st.attrs rg.doc k4) hnl
      rw [k4] at this
      simpa using this

/-- **docs land on the wrappers, for every accepted case**: every associated function of every emitted struct of the
    final registry carries the docs and visibility written on the function it was built from (a function of a function
    block for this type in the case), or – a re-exposed base function – the docs and visibility of the base's function;
    the wrapper printed for it starts with exactly these docs, this visibility and its name, and the `impl` item
    emitted for the struct lists the wrappers of all functions whose name does not start with `_` -/
theorem case_docs_on_wrapper (c : Case) (hps : c.ps = 4 ∨ c.ps = 8) (hb : C12.CaseBounded c) (s : State)
    (h : c.run = .ok s) (p : Path) (i : ItemDef) (r : Resolved) (td : TypeDefn)
    (hg : s.reg.get p = some i) (hs : i.state = .res r) (hin : r.inner = .type td) (hc : i.cat = .defined) :
    (∀ f ∈ td.fns,
      ((∃ gf, DeclaredFn c p gf ∧ f.name = gf.name ∧ G.docOf gf.attrs = some f.doc ∧ f.vis = gf.vis) ∨
       (∃ rg ∈ td.regions, ∃ (b : String) (bp : Path) (btd : TypeDefn) (f0 : SFunc),
          rg.isBase = true ∧ rg.name = some b ∧ rg.ty = .data (.raw bp) ∧ Exec.typeDefn? s.reg bp = some btd ∧
          (f0 ∈ btd.fns ∨ ∃ v, btd.vft = some v ∧ f0 ∈ v.fns) ∧ f.doc = f0.doc ∧ f.vis = f0.vis ∧
          f.body = .field b f0.name)) ∧
      ∃ tl, Emit.methodS f = Sexp.mk "method" (Emit.docsS f.doc :: Emit.visS f.vis :: .str f.name :: tl)) ∧
    ∃ acc, Sexp.mk "impl" (.str (i.path.getLast?.getD "") :: acc ::
      ((td.fns.filter (!·.isInternal)).map Emit.methodS ++
        (match td.vft with | some v => (v.fns.filter (!·.isInternal)).map Emit.methodS | none => [])))
      ∈ Emit.itemItems s.reg i := by
  refine ⟨?_, ?_⟩
  · intro f hf
    refine ⟨?_, docs_on_wrapper f⟩
    rcases case_fns_master c hps hb s h p i r td hg hs hin hc with ⟨_, hnil, _⟩ |
      ⟨item, d, s0, s1, module, hD, hd, hmod, he01, he, hfns, _⟩
    · rw [hnil] at hf; cases hf
    · rcases hfns f hf with ⟨gf, hgf, hbf⟩ | ⟨rg, hrg, b, bp, btd, f0, k1, k2, k3, k4, k5, _, k6, k7, _, _, _, k8⟩
      · obtain ⟨_, _, _, hname, _⟩ := C05.built_shape s1.reg module.scope gf f hbf
        obtain ⟨hdoc, hvis⟩ := function_doc_vis s1.reg module.scope false gf f hbf
        exact Or.inl ⟨gf, hgf, hname, hdoc, hvis⟩
      · exact Or.inr ⟨rg, hrg, b, bp, btd, f0, k1, k2, k3, k4, k5, k6, k7, k8⟩
  · rw [itemItems_type s.reg i r td hc hs hin]
    unfold Emit.typeItems
    simp only [List.mem_append, List.mem_singleton]
    exact ⟨_, Or.inl (Or.inl (Or.inr rfl))⟩

/-- **docs land on the vftable slots, for every accepted case**: for every emitted struct `T` of the final registry
    whose definition starts with a vftable block, every slot of its table carries the docs and visibility written on the
    function of the block it was built from (same name), or is that slot's placeholder (private, undocumented); and the
    field of that slot in the generated struct `<T>Vftable` of the final registry has the slot function's docs,
    visibility and name -/
theorem case_docs_on_slot (c : Case) (hps : c.ps = 4 ∨ c.ps = 8) (hb : C12.CaseBounded c) (s : State)
    (h : c.run = .ok s) (p : Path) (i : ItemDef) (r : Resolved) (td : TypeDefn)
    (hg : s.reg.get p = some i) (hs : i.state = .res r) (hin : r.inner = .type td) (hc : i.cat = .defined)
    (v : Vft) (hv : td.vft = some v) :
    ∃ (item : G.Item) (d : G.TypeDef),
      Declared c p item ∧ item.inner = .type d ∧
      ∀ st gfns, d.stmts[0]? = some st → st.field = .vftable gfns →
        (∀ (k : Nat) (f : SFunc), v.fns[k]? = some f →
          (∃ gf ∈ gfns, f.name = gf.name ∧ G.docOf gf.attrs = some f.doc ∧ f.vis = gf.vis) ∨
          (f = placeholderFn k ∧ f.vis = .priv ∧ f.doc = none)) ∧
        ∀ vpath, vftablePath p = some vpath →
          ∃ (vtd : TypeDefn), Exec.typeDefn? s.reg vpath = some vtd ∧
            ∀ (k : Nat) (f : SFunc), v.fns[k]? = some f →
              ∃ (rg : Region), vtd.regions[k]? = some rg ∧ rg.doc = f.doc ∧ rg.vis = f.vis ∧ rg.name = some f.name := by
  rcases case_fns_master c hps hb s h p i r td hg hs hin hc with ⟨_, _, hnone⟩ |
    ⟨item, d, s0, s1, module, hD, hd, hmod, he01, he, hfns, hblock⟩
  · rw [hnone] at hv; cases hv
  · refine ⟨item, d, hD, hd, ?_⟩
    intro st gfns hst hf
    obtain ⟨size, out, _, hconv, hout, hgen, hslots⟩ := hblock st gfns hst hf
    refine ⟨?_, ?_⟩
    · intro k f hk
      rw [hout v hv] at hk
      rcases hslots k f hk with ⟨gf, hgf, hbf⟩ | hph
      · obtain ⟨hdoc, hvis⟩ := function_doc_vis s0.reg module.scope true gf f hbf
        exact Or.inl ⟨gf, hgf, (C04.vfunc_body s0.reg module.scope gf f hbf).2, hdoc, hvis⟩
      · exact Or.inr ⟨hph, by rw [hph]; exact (placeholder_private k).1, by rw [hph]; exact (placeholder_private k).2⟩
    · intro vpath hvp
      obtain ⟨_, hvtd⟩ := hgen vpath hvp
      refine ⟨_, hvtd, ?_⟩
      intro k f hk
      rw [hout v hv] at hk
      obtain ⟨k1, k2, k3⟩ := docs_on_slot p f
      refine ⟨functionToRegion p f, ?_, k1, k2, k3⟩
      simp only [List.getElem?_map, hk, Option.map_some]

/-- **packed types have no alignment attribute, for every accepted case**: the struct item emitted for every struct of
    the final registry is `repr(C, packed)` exactly when its definition says `#[packed]` (never for a generated vftable
    struct), and `repr(C, align(<resolved alignment>))` otherwise -/
theorem case_packed_no_align (c : Case) (hps : c.ps = 4 ∨ c.ps = 8) (hb : C12.CaseBounded c) (s : State)
    (h : c.run = .ok s) (p : Path) (i : ItemDef) (r : Resolved) (td : TypeDefn)
    (hg : s.reg.get p = some i) (hs : i.state = .res r) (hin : r.inner = .type td) (hc : i.cat = .defined) :
    ((∃ (reg0 : Registry) (owner : Path) (vis : Vis) (fns : List SFunc),
        buildVftableItem reg0 owner vis fns = some i ∧ i.path = p) ∧
      ∃ docs derives rest tl, Emit.itemItems s.reg i =
        Sexp.mk "struct" (docs :: derives ::
          Sexp.mk "repr" [.str "C", .str ("align(" ++ toString r.align ++ ")")] :: rest) :: tl) ∨
    ∃ (item : G.Item) (d : G.TypeDef),
      Declared c p item ∧ item.inner = .type d ∧
      ∃ docs derives rest tl, Emit.itemItems s.reg i =
        Sexp.mk "struct" (docs :: derives ::
          Sexp.mk "repr" (if hasIdent d.attrs "packed" then [.str "C", .str "packed"]
            else [.str "C", .str ("align(" ++ toString r.align ++ ")")]) :: rest) :: tl := by
  obtain ⟨docs, derives, rest, tl, hem⟩ := packed_no_align s.reg i.path r.size r.align i.vis td
  rw [← itemItems_type s.reg i r td hc hs hin] at hem
  rcases case_type_flags c hps hb s h p i r td hg hs hin hc with ⟨hgen, _, hpk⟩ | ⟨item, d, hD, hd, _, hpk, _⟩
  · refine Or.inl ⟨hgen, docs, derives, rest, tl, ?_⟩
    rw [hem, hpk]
    rfl
  · refine Or.inr ⟨item, d, hD, hd, docs, derives, rest, tl, ?_⟩
    rw [hem, hpk]

end C17

/-! ## non-vacuity: the lifted theorems on concrete accepted cases

`C02.Example.case` (`Props/C02Global.lean`: an extern type, the enum `Kind: u16 { X = 0, Y }`, structs, a vftable) and
`Exec.Example.case` (`Props/Exec.lean`: `B` with a three-slot vftable, `D` with `#[base] b: B`) are accepted
(`run_ok`) and bounded (`case_bounded`).  Each example obtains the final state from acceptance alone and gets its
conclusion *from the lifted theorem*; evaluation (`decide +kernel`) is only used to look entries up in the final
registry and to identify the declared definition among the case's modules. -/
namespace CaseLift.Example
open Gen

/-- **`C08.case_values`** on `C02.Example.case`: the enum `m::Kind` of the final registry is resolved, and – by the
    theorem – has exactly the discriminants its definition in the case says: `X = 0`, `Y = 1` -/
example : ∃ (s : State) (i : ItemDef) (r : Resolved) (ed : EnumDefn),
    C02.Example.case.run = .ok s ∧ s.reg.get ["m", "Kind"] = some i ∧ i.state = .res r ∧ r.inner = .enum ed ∧
    ed.fields = [("X", 0), ("Y", 1)] := by
  obtain ⟨s, hs⟩ := (C09.isOkB_iff _).mp C02.Example.run_ok
  have hreg := C02.Example.run_reg s hs
  -- the entry, looked up in the computed registry
  have hex : ∃ i r ed, C02.Example.s1.reg.get ["m", "Kind"] = some i ∧ i.state = .res r ∧ r.inner = .enum ed := by
    refine ⟨(C02.Example.s1.reg.get ["m", "Kind"]).getD default,
      ((C02.Example.s1.reg.get ["m", "Kind"]).getD default).resolved?.getD default,
      match (((C02.Example.s1.reg.get ["m", "Kind"]).getD default).resolved?.getD default).inner with
      | .enum ed => ed
      | .type _ => default, ?_, ?_, ?_⟩ <;> decide +kernel
  obtain ⟨i, r, ed, hg, hst, hin⟩ := hex
  rw [← hreg] at hg
  refine ⟨s, i, r, ed, hs, hg, hst, hin, ?_⟩
  -- the discriminants, by the lifted theorem
  obtain ⟨item, d, hD, hd, _, hv, _⟩ := C08.case_values C02.Example.case (Or.inr rfl) C02.Example.case_bounded s hs
    ["m", "Kind"] i r ed hg hst hin
  obtain ⟨path, file, m, hm, hmem, hp⟩ := hD
  simp only [C02.Example.case, List.mem_cons, List.not_mem_nil, or_false, ModEnt.ast.injEq] at hm
  obtain ⟨rfl, rfl, rfl⟩ := hm
  have hname : item.name = "Kind" := by
    simp only [List.cons_append, List.nil_append, List.cons.injEq, and_true, true_and] at hp
    exact hp.symm
  simp only [C02.Example.modM, List.mem_cons, List.not_mem_nil, or_false] at hmem
  rcases hmem with rfl | rfl | rfl | rfl
  · exact absurd hname (by decide)
  · exact absurd hname (by decide)
  · exact absurd hname (by decide)
  · simp only [G.Inner.enum.injEq] at hd
    subst hd
    rw [hv]
    decide

/-- **`C16.case_inherited_same`** on `Exec.Example.case`: `m::D` of the final registry has a table reached through its
    base field `b`; by the theorem, `b` is a `#[base]` field of the emitted struct whose type – `m::B`, the only base –
    has in the final registry a table every slot of which `D`'s table repeats, with the same convention -/
example : ∃ (s : State) (v bv : Vft), Exec.Example.case.run = .ok s ∧
    Exec.Example.tdD.vft = some v ∧ (Exec.typeDefn? s.reg ["m", "B"]).bind (·.vft) = some bv ∧ bv.fns.length = 3 ∧
    ∀ k (hk : k < bv.fns.length), ∃ (hj : k < v.fns.length), v.fns[k] = bv.fns[k] ∧ v.fns[k].cc = bv.fns[k].cc := by
  obtain ⟨s, hs⟩ := (C09.isOkB_iff _).mp Exec.Example.run_ok
  have hreg := Exec.Example.run_reg s hs
  have hget : s.reg.get ["m", "D"] = some Exec.Example.itemD := by rw [hreg]; decide +kernel
  have hst : Exec.Example.itemD.state = .res Exec.Example.resD := by decide +kernel
  have hin : Exec.Example.resD.inner = .type Exec.Example.tdD := by decide +kernel
  have hv : Exec.Example.tdD.vft = some ((Exec.Example.tdD.vft).getD default) := by decide +kernel
  obtain ⟨rg, hrg, bp, btd, bv, hbase, hname, hrty, hbtd, hbv, hall⟩ :=
    C16.case_inherited_same Exec.Example.case (Or.inr rfl) Exec.Example.case_bounded s hs ["m", "D"] Exec.Example.itemD
      Exec.Example.resD Exec.Example.tdD hget hst hin (by decide +kernel) _ hv "b" (by decide +kernel)
  -- the only `#[base]` region of `D` is `b : m::B`
  have hb : ∀ x ∈ Exec.Example.tdD.regions, x.isBase = true → x.ty = .data (.raw ["m", "B"]) := by decide +kernel
  rw [hb rg hrg hbase] at hrty
  cases hrty
  refine ⟨s, _, bv, hs, hv, by rw [hbtd]; exact hbv, ?_, hall⟩
  rw [hreg, Exec.Example.hB] at hbtd
  cases hbtd
  have : ∀ w, Exec.Example.tdB.vft = some w → w.fns.length = 3 := by decide +kernel
  exact this bv hbv

end CaseLift.Example

end PyxisVerif
